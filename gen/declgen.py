#!/usr/bin/env python3
"""Generates command declarations: Rust source using the repository's derive macros (harness/src/gen_decls.rs) and, for the
extracted Coq model, the same declarations serialised one per line (build/decls.txt).

A declaration set is a python dict:
  set  = {"kind": "enum", "enum": E} | {"kind": "group", "members": [(hidden, E), ...]}
  E    = {"title": str|None, "cmds": [C, ...]}
  C    = {"variant": "GetLed", "name": explicit name or None (kebab-case of the variant), "doc": str|None,
          "args": [A, ...], "sub": None | {"optional": bool, "enum": E, "field": str|None}}
  A    = {"field": str, "kind": "pos"|"opt"|"flag", "long": None|True|str, "short": None|True|char, "ty": "str"|"u8"|"bool"|"char",
          "optional": bool, "default": None|("s", str)|("v", value)|("d",), "valname": None|str, "doc": str|None}
"""
import re

def hx(b):
    if isinstance(b, str):
        b = b.encode("utf-8")
    return b.hex() if b else "."

def kebab(variant):
    # convert_case Case::Camel -> Case::Kebab for plain ASCII CamelCase identifiers (letters then optional digits)
    parts = re.findall(r"[A-Z][a-z0-9]*", variant)
    return "-".join(p.lower() for p in parts)

def snake_to_kebab(field):
    # convert_case: from_case(Snake) splits at underscores and DROPS empty words (type_ -> type, dry__run -> dry-run, _x -> x),
    # to_case(Kebab) lower-cases every word and joins with `-`
    return "-".join(w.lower() for w in field.split("_") if w)

def cmd_name(c):
    return c["name"] if c.get("name") is not None else kebab(c["variant"])

def arg_long(a):
    if a["long"] is True:
        return snake_to_kebab(a["field"])
    return a["long"]

def arg_short(a):
    if a["short"] is True:
        return a["field"][0]
    return a["short"]

def arg_valname(a):
    return a["valname"] if a.get("valname") is not None else a["field"].upper()

INT_TYS = ["i8", "u16", "i16", "u32", "i32", "u64", "i64", "u128", "i128", "usize", "isize"]   # usize / isize: 64 bits on the host the harness runs on
RUST_TY = {"str": "&'a str", "u8": "u8", "bool": "bool", "char": "char"}
RUST_TY.update({t: t for t in INT_TYS})

def enum_needs_lifetime(e):
    for c in e["cmds"]:
        for a in c["args"]:
            if a["ty"] == "str":
                return True
        if c["sub"] and enum_needs_lifetime(c["sub"]["enum"]):
            return True
    return False

def flat_members(members, hidden=False):
    """members of a command group, nested groups flattened (a member of a hidden group is hidden): what the generated FromRaw /
    Autocomplete / Help of nested groups amount to (members tried / scanned / listed in declaration order, UnknownCommand passes on)"""
    out = []
    for h, x in members:
        if "group" in x:
            out += flat_members(x["group"], hidden or h)
        else:
            # an enum declared with #[command(skip_autocomplete, skip_help)] and hand-written EMPTY Autocomplete / Help impls offers no
            # candidate and knows no command in help, but still parses: exactly a hidden member
            out.append((hidden or h or x.get("skip") is True, x))
    return out

def rust_str(s):
    out = ""
    for ch in s:
        if ch == '"': out += '\\"'
        elif ch == "\\": out += "\\\\"
        elif ord(ch) < 0x20 or ord(ch) == 0x7F: out += "\\u{%x}" % ord(ch)
        else: out += ch
    return '"' + out + '"'

def rust_char(ch):
    if ch == "'": return "'\\''"
    if ch == "\\": return "'\\\\'"
    return "'" + ch + "'"

def value_rust(v):
    k, x = v
    if k == "s": return rust_str(x)
    if k == "n": return str(x)
    if k == "i": return str(x)
    if k == "b": return "true" if x else "false"
    if k == "c": return rust_char(x)
    raise ValueError(v)

class Emitter:
    def __init__(self):
        self.items = []
        self.n = 0
        self.names = {}

    def enum_ident(self, e):
        key = id(e)
        if key not in self.names:
            self.names[key] = "E%d" % self.n
            self.n += 1
            self.emit_enum(e, self.names[key])
        return self.names[key]

    def ty_ref(self, e):
        ident = self.enum_ident(e)
        return ident + ("<'a>" if enum_needs_lifetime(e) else "")

    def emit_enum(self, e, ident):
        lt = "<'a>" if enum_needs_lifetime(e) else ""
        lines = ["#[derive(Debug, Clone, Command, PartialEq)]"]
        if e.get("title") is not None:
            lines.append("#[command(help_title = %s)]" % rust_str(e["title"]))
        if e.get("skip") is True:
            lines.append("#[command(skip_autocomplete, skip_help)]")
            self.items.append(SKIP_IMPLS.replace("IDENT", ident).replace("LT", lt))
        elif e.get("skip") == "hf":
            # skip_help with a hand-written Help that delegates to the twin and then adds a footer that does NOT end with a line feed
            twin = dict(e)
            twin["skip"] = None
            self.emit_enum(twin, ident + "T")
            lines.append("#[command(skip_help)]")
            self.items.append(SKIP_HF.replace("IDENT", ident).replace("LT", lt))
        elif e.get("skip") in ("a", "h"):
            # only ONE of the two derives is skipped; the hand-written impl delegates to a twin enum with the same declaration whose
            # derives are complete, so the behaviour must be that of the plain declaration
            twin = dict(e)
            twin["skip"] = None
            self.emit_enum(twin, ident + "T")
            lines.append("#[command(%s)]" % ("skip_autocomplete" if e["skip"] == "a" else "skip_help"))
            self.items.append((SKIP_A if e["skip"] == "a" else SKIP_H).replace("IDENT", ident).replace("LT", lt))
        lines.append("pub enum %s%s {" % (ident, lt))
        canon_arms = []
        for c in e["cmds"]:
            if c.get("doc") and c.get("doc_attr"):
                # the same text as ONE #[doc = "..."] attribute with line feeds inside (what a /** */ block comment produces): doc.rs splits it
                lines.append("    #[doc = %s]" % rust_str("\n".join((" " + dl) if dl else "" for dl in c["doc"].split("\n"))))
            elif c.get("doc"):
                # attributes that are none of the derive's business in front of / in the middle of the doc comment (darling forwards
                # allow, doc and cfg in source order; the doc text is every doc attribute, wherever it stands)
                noise = (len(c["doc"]) + len(c["variant"])) % 4
                if noise == 0:
                    lines.append("    #[allow(dead_code)]")
                for i_, dl in enumerate(c["doc"].split("\n")):
                    lines.append("    ///%s" % ((" " + dl) if dl else ""))
                    if noise == 1 and i_ == 0:
                        lines.append("    #[cfg(all())]")
            attrs = []
            if c.get("name") is not None:
                attrs.append("name = %s" % rust_str(c["name"]))
            sub = c["sub"]
            tuple_sub = sub is not None and sub.get("field") is None
            if tuple_sub:
                attrs.append("subcommand")
            if attrs:
                lines.append("    #[command(%s)]" % ", ".join(attrs))
            name_lit = rust_str(cmd_name(c))
            if tuple_sub:
                subty = self.ty_ref(sub["enum"])
                if sub["optional"]:
                    lines.append("    %s(Option<%s>)," % (c["variant"], subty))
                    canon_arms.append("            %s::%s(s) => format!(\"{}{{}}>{}\", hexs(%s), match s { Some(x) => format!(\"({})\", x.canon()), None => \"N\".to_string() })," % (ident, c["variant"], name_lit))
                else:
                    lines.append("    %s(%s)," % (c["variant"], subty))
                    canon_arms.append("            %s::%s(s) => format!(\"{}{{}}>({})\", hexs(%s), s.canon())," % (ident, c["variant"], name_lit))
            elif not c["args"] and sub is None:
                lines.append("    %s," % c["variant"])
                canon_arms.append("            %s::%s => format!(\"{}{{}}\", hexs(%s))," % (ident, c["variant"], name_lit))
            else:
                lines.append("    %s {" % c["variant"])
                fields = []
                for a in c["args"]:
                    if a.get("doc"):
                        noise = (len(a["doc"]) + len(a["field"])) % 4
                        if noise == 0:
                            lines.append("        #[allow(unused)]")
                        for i_, dl in enumerate(a["doc"].split("\n")):
                            lines.append("        ///%s" % ((" " + dl) if dl else ""))
                            if noise == 1 and i_ == 0:
                                lines.append("        #[cfg(all())]")
                    at = []
                    if a["kind"] in ("opt", "flag"):
                        if a["short"] is True: at.append("short")
                        elif a["short"] is not None: at.append("short = %s" % (rust_str(a["short"]) if a.get("short_str") else rust_char(a["short"])))
                        if a["long"] is True: at.append("long")
                        elif a["long"] is not None: at.append("long = %s" % rust_str(a["long"]))
                    if a.get("valname") is not None:
                        at.append("value_name = %s" % rust_str(a["valname"]))
                    d = a.get("default")
                    if d is not None:
                        if d[0] == "s": at.append("default_value = %s" % rust_str(d[1]))
                        elif d[0] == "v": at.append("default_value_t = %s" % value_rust(d[1]))
                        else: at.append("default_value_t")
                    if at:
                        lines.append("        #[arg(%s)]" % ", ".join(at))
                    ty = RUST_TY[a["ty"]]
                    if a["optional"]:
                        # the derive recognises Option by its path: bare, std:: and core:: spellings alike
                        ty = ("Option<%s>", "core::option::Option<%s>", "Option<%s>", "std::option::Option<%s>")[len(a["field"]) % 4] % ty
                    lines.append("        %s: %s," % (a["field"], ty))
                    fields.append(a)
                if sub is not None:
                    lines.append("        #[command(subcommand)]")
                    subty = self.ty_ref(sub["enum"])
                    lines.append("        %s: %s," % (sub["field"], ("Option<%s>" % subty) if sub["optional"] else subty))
                lines.append("    },")
                pat = ", ".join([a["field"] for a in fields] + ([sub["field"]] if sub is not None else []))
                body = ["let mut s = format!(\"{}{{\", hexs(%s));" % name_lit]
                for i, a in enumerate(fields):
                    sep = "," if i > 0 else ""
                    conv = {"str": "canon_str", "u8": "canon_u8", "bool": "canon_bool", "char": "canon_char"}.get(a["ty"], "canon_int")
                    if a["optional"]:
                        body.append("s.push_str(&format!(\"%s{}={}\", hexs(%s), match %s { Some(x) => format!(\"S{}\", %s(x)), None => \"N\".to_string() }));" % (
                            sep, rust_str(a["field"]), a["field"], conv))
                    else:
                        body.append("s.push_str(&format!(\"%s{}={}\", hexs(%s), %s(%s)));" % (sep, rust_str(a["field"]), conv, a["field"]))
                body.append("s.push('}');")
                if sub is not None:
                    if sub["optional"]:
                        body.append("s.push_str(&match %s { Some(x) => format!(\">({})\", x.canon()), None => \">N\".to_string() });" % sub["field"])
                    else:
                        body.append("s.push_str(&format!(\">({})\", %s.canon()));" % sub["field"])
                body.append("s")
                canon_arms.append("            %s::%s { %s } => { %s }" % (ident, c["variant"], pat, " ".join(body)))
        lines.append("}")
        anon = "<'_>" if lt else ""
        lines.append("impl %s%s {" % (ident, anon))
        lines.append("    pub fn canon(&self) -> String {")
        if e["cmds"]:
            lines.append("        match self {")
            lines.extend(canon_arms)
            lines.append("        }")
        else:
            lines.append("        match *self {}")
        lines.append("    }")
        lines.append("}")
        self.items.append("\n".join(lines))

    def emit_group(self, top, mem):
        """a CommandGroup enum; a member may itself be a group (nested CommandGroup)"""
        members = []
        lt = False
        for i, (hidden, x) in enumerate(mem):
            if "group" in x:
                ident, l = self.emit_group("%sN%d" % (top, i), x["group"])
            else:
                ident = self.enum_ident(x)
                l = enum_needs_lifetime(x)
            lt = lt or l
            members.append((hidden, ident + ("<'a>" if l else "")))
        lines = ["#[derive(Debug, Clone, CommandGroup, PartialEq)]", "pub enum %s%s {" % (top, "<'a>" if lt else "")]
        arms = []
        for i, (hidden, t) in enumerate(members):
            if hidden:
                lines.append("    #[group(hidden)]")
            lines.append("    M%d(%s)," % (i, t))
            arms.append("            %s::M%d(x) => x.canon()," % (top, i))
        lines.append("}")
        lines.append("impl %s%s {" % (top, "<'_>" if lt else ""))
        lines.append("    pub fn canon(&self) -> String {\n        match self {")
        lines.extend(arms)
        lines.append("        }\n    }\n}")
        self.items.append("\n".join(lines))
        return top, lt

    def emit_set(self, k, s):
        if s["kind"] == "enum":
            ty = self.enum_ident(s["enum"])
            lt = enum_needs_lifetime(s["enum"])
            top = ty
        else:
            top, lt = self.emit_group("G%d" % k, s["members"])
        anon = "<'_>" if lt else ""
        fn = """
fn ses_d%d(cap: usize, hcap: usize, pi: usize, ops: &str) -> String {
    let mut cbuf = vec![0u8; cap];
    let mut hbuf = vec![0u8; hcap];
    let mut cli = CliBuilder::default()
        .writer(Sink::new())
        .command_buffer(cbuf.as_mut_slice())
        .history_buffer(hbuf.as_mut_slice())
        .prompt(PROMPTS[pi])
        .build()
        .unwrap();
    let calls: Rc<RefCell<Vec<String>>> = Rc::new(RefCell::new(vec![]));
    let calls2 = calls.clone();
    let mut processor = %s::processor(move |cli: &mut CliHandle<'_, Sink, SinkErr>, cmd: %s%s| {
        let c = cmd.canon();
        calls2.borrow_mut().push(c.clone());
        cli.writer().write_str(&c)?;
        Ok(())
    });
    run_session(&mut cli, &calls, ops, |cli, b| cli.process_byte::<%s%s, _>(b, &mut processor))
}
""" % (k, top, top, anon, top, anon)
        self.items.append(fn)


SKIP_IMPLS = """// hand-written (empty) impls for an enum whose derive was told to skip them
implLT embedded_cli::service::Autocomplete for IDENTLT {
    #[cfg(feature = "autocomplete")]
    fn autocomplete(_request: embedded_cli::autocomplete::Request<'_>, _autocompletion: &mut embedded_cli::autocomplete::Autocompletion<'_>) {}
}
implLT embedded_cli::service::Help for IDENTLT {
    #[cfg(feature = "help")]
    fn command_count() -> usize { 0 }
    #[cfg(feature = "help")]
    fn list_commands<W: embedded_io::Write<Error = E>, E: embedded_io::Error>(_writer: &mut embedded_cli::writer::Writer<'_, W, E>) -> Result<(), E> { Ok(()) }
    #[cfg(feature = "help")]
    fn command_help<W: embedded_io::Write<Error = E>, E: embedded_io::Error, F: FnMut(&mut embedded_cli::writer::Writer<'_, W, E>) -> Result<(), E>>(
        _parent: &mut F, _command: embedded_cli::command::RawCommand<'_>, _writer: &mut embedded_cli::writer::Writer<'_, W, E>,
    ) -> Result<(), embedded_cli::service::HelpError<E>> { Err(embedded_cli::service::HelpError::UnknownCommand) }
}
"""

SKIP_A = """implLT embedded_cli::service::Autocomplete for IDENTLT {
    #[cfg(feature = "autocomplete")]
    fn autocomplete(request: embedded_cli::autocomplete::Request<'_>, autocompletion: &mut embedded_cli::autocomplete::Autocompletion<'_>) {
        <IDENTT as embedded_cli::service::Autocomplete>::autocomplete(request, autocompletion)
    }
}
"""
SKIP_H = """implLT embedded_cli::service::Help for IDENTLT {
    #[cfg(feature = "help")]
    fn command_count() -> usize { <IDENTT as embedded_cli::service::Help>::command_count() }
    #[cfg(feature = "help")]
    fn list_commands<W: embedded_io::Write<Error = E>, E: embedded_io::Error>(writer: &mut embedded_cli::writer::Writer<'_, W, E>) -> Result<(), E> {
        <IDENTT as embedded_cli::service::Help>::list_commands(writer)
    }
    #[cfg(feature = "help")]
    fn command_help<W: embedded_io::Write<Error = E>, E: embedded_io::Error, F: FnMut(&mut embedded_cli::writer::Writer<'_, W, E>) -> Result<(), E>>(
        parent: &mut F, command: embedded_cli::command::RawCommand<'_>, writer: &mut embedded_cli::writer::Writer<'_, W, E>,
    ) -> Result<(), embedded_cli::service::HelpError<E>> {
        <IDENTT as embedded_cli::service::Help>::command_help(parent, command, writer)
    }
}
"""

SKIP_HF = """implLT embedded_cli::service::Help for IDENTLT {
    #[cfg(feature = "help")]
    fn command_count() -> usize { <IDENTT as embedded_cli::service::Help>::command_count() }
    #[cfg(feature = "help")]
    fn list_commands<W: embedded_io::Write<Error = E>, E: embedded_io::Error>(writer: &mut embedded_cli::writer::Writer<'_, W, E>) -> Result<(), E> {
        <IDENTT as embedded_cli::service::Help>::list_commands(writer)?;
        writer.write_str("-- end of list")
    }
    #[cfg(feature = "help")]
    fn command_help<W: embedded_io::Write<Error = E>, E: embedded_io::Error, F: FnMut(&mut embedded_cli::writer::Writer<'_, W, E>) -> Result<(), E>>(
        parent: &mut F, command: embedded_cli::command::RawCommand<'_>, writer: &mut embedded_cli::writer::Writer<'_, W, E>,
    ) -> Result<(), embedded_cli::service::HelpError<E>> {
        <IDENTT as embedded_cli::service::Help>::command_help(parent, command, writer)?;
        writer.write_str("(more in the manual)").map_err(embedded_cli::service::HelpError::WriteError)
    }
}
"""

HEADER = """//! GENERATED by gen/declgen.py - do not edit. Derived command sets compiled with the repository's macros.
#![allow(dead_code, unused_imports, unused_variables, non_camel_case_types, clippy::all)]
use crate::session::{run_session, Sink, SinkErr, PROMPTS};
use embedded_cli::cli::{CliBuilder, CliHandle};
use embedded_cli::{Command, CommandGroup};
use std::cell::RefCell;
use std::rc::Rc;

fn hexs(s: &str) -> String { crate::hex(s.as_bytes()) }
fn canon_str(s: &str) -> String { format!("s:{}", crate::hex(s.as_bytes())) }
fn canon_u8(v: &u8) -> String { format!("n:{}", v) }
fn canon_int<T: core::fmt::Display>(v: &T) -> String { format!("i:{}", v) }
fn canon_bool(v: &bool) -> String { format!("b:{}", if *v { 1 } else { 0 }) }
fn canon_char(v: &char) -> String { format!("c:{}", *v as u32) }
"""


def render_rust(sets):
    em = Emitter()
    for k, s in enumerate(sets):
        em.emit_set(k, s)
    arms = "\n".join('        "d%d" => ses_d%d(cap, hcap, pi, ops),' % (k, k) for k in range(len(sets)))
    # the README's shape: a group whose last member is the library's own RawCommand (a catch-all that parses everything, completes
    # nothing and knows no command in help) next to the derived enum of set 0. Not modelled: judged by oracles only.
    base = em.enum_ident(sets[0]["enum"])
    em.items.append("""
#[derive(Debug, Clone, CommandGroup, PartialEq)]
pub enum GRaw<'a> {
    Base(%s),
    Other(embedded_cli::command::RawCommand<'a>),
}
fn ses_draw(cap: usize, hcap: usize, pi: usize, ops: &str) -> String {
    let mut cbuf = vec![0u8; cap];
    let mut hbuf = vec![0u8; hcap];
    let mut cli = CliBuilder::default().writer(Sink::new()).command_buffer(cbuf.as_mut_slice()).history_buffer(hbuf.as_mut_slice()).prompt(PROMPTS[pi]).build().unwrap();
    let calls: Rc<RefCell<Vec<String>>> = Rc::new(RefCell::new(vec![]));
    let calls2 = calls.clone();
    let mut processor = GRaw::processor(move |cli: &mut CliHandle<'_, Sink, SinkErr>, cmd: GRaw<'_>| {
        let c = match &cmd {
            GRaw::Base(x) => x.canon(),
            GRaw::Other(r) => format!("R{}", hexs(r.name())),
        };
        calls2.borrow_mut().push(c.clone());
        cli.writer().write_str(&c)?;
        Ok(())
    });
    run_session(&mut cli, &calls, ops, |cli, b| cli.process_byte::<GRaw<'_>, _>(b, &mut processor))
}
""" % base)
    arms += '\n        "draw" => ses_draw(cap, hcap, pi, ops),'
    # a hand-written Help (the public trait) whose text does not end with a line break: the library must still put the prompt on a fresh line
    foot = dict(sets[0]["enum"])
    foot["skip"] = "hf"
    fid = em.enum_ident(foot)
    em.items.append("""
fn ses_dfoot(cap: usize, hcap: usize, pi: usize, ops: &str) -> String {
    let mut cbuf = vec![0u8; cap];
    let mut hbuf = vec![0u8; hcap];
    let mut cli = CliBuilder::default().writer(Sink::new()).command_buffer(cbuf.as_mut_slice()).history_buffer(hbuf.as_mut_slice()).prompt(PROMPTS[pi]).build().unwrap();
    let calls: Rc<RefCell<Vec<String>>> = Rc::new(RefCell::new(vec![]));
    let calls2 = calls.clone();
    let mut processor = %s::processor(move |cli: &mut CliHandle<'_, Sink, SinkErr>, cmd: %s| {
        let c = cmd.canon();
        calls2.borrow_mut().push(c.clone());
        cli.writer().write_str(&c)?;
        Ok(())
    });
    run_session(&mut cli, &calls, ops, |cli, b| cli.process_byte::<%s, _>(b, &mut processor))
}
""" % (fid, fid, fid))
    arms += '\n        "dfoot" => ses_dfoot(cap, hcap, pi, ops),'
    tail = """
pub fn decl(_line: &str) -> String {
    "%d".to_string()
}
pub fn ses_decl(set: &str, cap: usize, hcap: usize, pi: usize, ops: &str) -> String {
    match set {
%s
        _ => "nodecl".to_string(),
    }
}
""" % (len(sets), arms)
    return HEADER + "\n\n".join(em.items) + tail


# ---------------------------------------------------------------- serialisation for the model driver
def opt_hex(s):
    return "~" if s is None else hx(s)

def ser_value(v):
    k, x = v
    if k == "s": return "s:" + hx(x)
    if k == "n": return "n:%d" % x
    if k == "i": return "i:%d" % x
    if k == "b": return "b:%d" % (1 if x else 0)
    if k == "c": return "c:%d" % ord(x)
    raise ValueError(v)

TY_CODE = {"str": "S", "u8": "U", "bool": "B", "char": "C"}
TY_DEFAULT = {"str": ("s", ""), "u8": ("n", 0), "bool": ("b", False), "char": ("c", "\0")}
for _t in INT_TYS:
    TY_CODE[_t] = ("Z" + ("s" if _t[0] == "i" else "u")) if _t.endswith("size") else ("I" + ("s" if _t[0] == "i" else "u") + _t[1:])
    TY_DEFAULT[_t] = ("i", 0)

def int_range(ty):
    bits = 64 if ty.endswith("size") else int(ty[1:])
    return (-(1 << (bits - 1)), (1 << (bits - 1)) - 1) if ty[0] == "i" else (0, (1 << bits) - 1)

def doc_attrs(doc, as_one_attr=False):
    """the values of the #[doc = "..."] attributes the generated source carries for this doc text: one per `///` line (a leading blank
    before the text, nothing for an empty line), or ONE attribute with line feeds inside. What the help prints from them (summary,
    description) is computed by the Coq model of command/doc.rs (Model/Doc.v), not here."""
    if doc is None:
        return []
    vals = [(" " + dl) if dl else "" for dl in doc.split("\n")]
    return ["\n".join(vals)] if as_one_attr else vals

def ser_doc(doc, as_one_attr=False):
    at = doc_attrs(doc, as_one_attr)
    return " ".join(["D%d" % len(at)] + [hx(a) for a in at])

def ser_arg(a):
    if a["kind"] == "pos":
        kind = "P"
    else:
        l, s = arg_long(a), arg_short(a)
        kind = "%s %s %s" % ("O" if a["kind"] == "opt" else "F", opt_hex(l), "~" if s is None else str(ord(s)))
    d = a.get("default")
    if d is None: ds = "~"
    elif d[0] == "s": ds = "s " + hx(d[1])
    elif d[0] == "v": ds = "v " + ser_value(d[1])
    else: ds = "v " + ser_value(TY_DEFAULT[a["ty"]])
    return "%s %s %s %d %s %s %s" % (hx(a["field"]), kind, TY_CODE[a["ty"]], 1 if a["optional"] else 0, ds, hx(arg_valname(a)), ser_doc(a.get("doc")))

def default_title():
    """the title the derive uses when no help_title is given: read from the regenerated Generated/Codes.v (the translator follows the source)"""
    import os
    try:
        txt = open(os.path.join(os.path.dirname(os.path.abspath(__file__)), "..", "coq", "Generated", "Codes.v"), encoding="utf-8").read()
        m = re.search(r"Definition DEFAULT_HELP_TITLE : list N := \[([^\]]*)\]", txt)
        return bytes(int(x) for x in m.group(1).split(";") if x.strip()).decode("utf-8")
    except Exception:
        return "Commands"

def ser_enum(e):
    title = e["title"] if e.get("title") is not None else default_title()
    parts = [hx(title), str(len(e["cmds"]))]
    for c in e["cmds"]:
        parts += [hx(cmd_name(c)), ser_doc(c.get("doc"), bool(c.get("doc_attr"))), str(len(c["args"]))]
        for a in c["args"]:
            parts.append(ser_arg(a))
        if c["sub"] is None:
            parts.append("~")
        else:
            parts.append("O" if c["sub"]["optional"] else "R")
            parts.append(ser_enum(c["sub"]["enum"]))
    return " ".join(parts)

def ser_set(s):
    if s["kind"] == "enum":
        return "E " + ser_enum(s["enum"])
    fm = flat_members(s["members"])
    return "G %d " % len(fm) + " ".join(("%d " % (1 if h else 0)) + ser_enum(e) for h, e in fm)


# ---------------------------------------------------------------- declarations: fixed corpus + random
def unit(variant, name=None, doc=None):
    return {"variant": variant, "name": name, "doc": doc, "args": [], "sub": None}

def arg(field, kind="pos", ty="str", long=None, short=None, optional=False, default=None, valname=None, doc=None):
    return {"field": field, "kind": kind, "long": long, "short": short, "ty": ty, "optional": optional, "default": default, "valname": valname, "doc": doc}

def corpus_sets():
    sets = []
    # 0: names sharing a prefix that are NOT adjacent (completion must see all of them)
    sets.append({"kind": "enum", "enum": {"title": None, "cmds": [unit("GetLed", doc="Get led"), unit("SetLed", doc="Set led."), unit("GetAdc")]}})
    # 1: group of two enums + hidden one; a name that is a prefix of another, split across groups
    a = {"title": "Alpha", "cmds": [unit("Aaa", doc="First\n\nLonger description of aaa."), unit("Stat")]}
    b = {"title": None, "cmds": [unit("Bbb", doc="Second"), unit("Status"), unit("Go")]}
    h = {"title": "Hidden", "cmds": [unit("Secret", doc="Not shown"), unit("Gopher")]}
    sets.append({"kind": "group", "members": [(False, a), (True, h), (False, b)]})
    # 2: the README-like set with every argument kind
    sub2 = {"title": None, "cmds": [
        {"variant": "Cmd", "name": None, "doc": "Command something", "sub": None, "args": [
            arg("item", "opt", "str", long=True, short=True, optional=True, doc="Very optional item"),
            arg("verbose", "flag", "bool", long=True, short=True, doc="Third verbose flag"),
            arg("file", doc="Required positional")]},
        {"variant": "Test", "name": None, "doc": "Test something", "sub": None, "args": [
            arg("verbose", "flag", "bool", long=True, short=True), arg("value", doc="Tested required value")]}]}
    sub1 = {"title": None, "cmds": [
        {"variant": "Get", "name": None, "doc": "Get something", "args": [
            arg("item", "opt", "str", long=True, short=True, optional=True, doc="Optional item"),
            arg("verbose", "flag", "bool", long=True, short=True, doc="Another verbose flag")],
         "sub": {"optional": False, "enum": sub2, "field": "command"}},
        {"variant": "Set", "name": None, "doc": "Set something", "sub": None, "args": [arg("value", doc="Another required value")]}]}
    top = {"title": None, "cmds": [
        {"variant": "Base1", "name": "base1", "doc": "Base command", "args": [
            arg("name", "opt", "str", long=True, short=True, optional=True, doc="Optional argument"),
            arg("level", "opt", "u8", long=True, short=True, doc="Some level"),
            arg("verbose", "flag", "bool", short=True, doc="Make things verbose")],
         "sub": {"optional": False, "enum": sub1, "field": "command"}},
        {"variant": "Base2", "name": "base2", "doc": "Another base command", "args": [],
         "sub": {"optional": True, "enum": {"title": "Sub", "cmds": [unit("Ping"), {"variant": "Num", "name": None, "doc": None, "sub": None,
                                                                                  "args": [arg("n", ty="u8"), arg("c", ty="char", optional=True)]}]}, "field": None}},
        {"variant": "Test", "name": None, "doc": "Test command", "sub": None, "args": [
            arg("task", "opt", "str", long="job", short="j", doc="Some task job"),
            arg("file1", valname="FILE", doc="Source file"),
            arg("file2", doc="Destination file"),
            arg("level", "opt", "u8", long=True, default=("v", ("n", 5)), valname="lvl"),
            arg("mode", "opt", "str", short="m", default=("s", "fast")),
            arg("on", ty="bool", optional=True),
            arg("dflt", "opt", "u8", long=True, default=("d",))]},
    ]}
    sets.append({"kind": "enum", "enum": top})
    # 3: multi-byte names and option characters
    sets.append({"kind": "enum", "enum": {"title": "Команды", "cmds": [
        unit("Privet", name="привет", doc="Приветствие"), unit("Prikaz", name="приказ"),
        unit("Led1", name="led-佐"), unit("Led2", name="led-佗"), unit("Smile", name="go-😀x"), unit("Set", name="set-温"),
        {"variant": "Opt", "name": "опция", "doc": None, "sub": None, "args": [
            arg("zh", "flag", "bool", short="ж", long="жук"), arg("eu", "opt", "char", short="€", optional=True), arg("rest", optional=True)]}]}})
    # 4, 5: one name a proper prefix of another, declared shorter-first and longer-first
    sets.append({"kind": "enum", "enum": {"title": None, "cmds": [unit("Get"), unit("GetLed"), unit("Exit")]}})
    sets.append({"kind": "enum", "enum": {"title": None, "cmds": [unit("GetLed"), unit("Get"), unit("He"), unit("Helper")]}})
    # 6: parent with a valued option and a flag before a sub-command (help / parse state machine)
    sub6 = {"title": None, "cmds": [{"variant": "Get", "name": None, "doc": "Get it", "sub": None, "args": [arg("what", optional=True)]}, unit("Put")]}
    sets.append({"kind": "enum", "enum": {"title": None, "cmds": [
        {"variant": "Base", "name": None, "doc": "Base", "args": [arg("name", "opt", "str", long=True, short=True, optional=True), arg("verbose", "flag", "bool", long=True, short=True),
                                                              arg("level", "opt", "u8", long=True, short=True, default=("v", ("n", 1)))],
         "sub": {"optional": False, "enum": sub6, "field": "command"}},
        {"variant": "Copy", "name": None, "doc": None, "sub": None, "args": [arg("name", "opt", "str", long=True, short=True, optional=True), arg("verbose", "flag", "bool", short=True), arg("file", valname="FILE")]}]}})
    # 7: attribute interplay: generated short name next to an explicit long name (and the reverse), Option<bool> flag, snake_case field with
    #    generated long name / value name, doc comments with several blank lines between paragraphs, whitespace-only and leading blank lines
    sets.append({"kind": "enum", "enum": {"title": None, "cmds": [
        {"variant": "Conf", "name": None, "doc": "Configure\n\n\nSecond paragraph\nsame paragraph.\n \n\n  \nThird..", "sub": None, "args": [
            arg("task", "opt", "str", long="job", short=True, doc="\nLeading blank line"),
            dict(arg("out_file", "opt", "str", long=True, short="o", optional=True, doc="Two\n\n\n\nparagraphs."), short_str=True),
            arg("quiet", "flag", "bool", long="silent", short=True, optional=True),
            arg("level", "opt", "i16", long="amount", short=True, default=("s", "-3")),
            arg("in_file", doc="Trailing blank\n\n")]},
        {"variant": "OutFile", "name": None, "doc": "\n\nOnly after blanks.", "sub": None, "args": [arg("k", "flag", "bool", short=True, long="keep_it")]}]}})
    # 8: defaults that do not convert (converted eagerly: the command rejects every line), next to a well-formed one
    sets.append({"kind": "enum", "enum": {"title": None, "cmds": [
        {"variant": "Pwm", "name": None, "doc": None, "sub": None, "args": [
            arg("duty", "opt", "u8", long=True, short=True, default=("s", "256")),
            arg("unit", ty="char", default=("s", "ab"))]},
        {"variant": "Log", "name": None, "doc": None, "sub": None, "args": [
            arg("target"), arg("lines", "opt", "u16", long=True, default=("s", "-1")), arg("depth", "opt", "u16", long=True, default=("v", ("i", 7)))]},
        {"variant": "Fine", "name": None, "doc": None, "sub": None, "args": [arg("n", "opt", "i32", long=True, short=True, default=("s", "-12"))]}]}})
    # 9: options whose names are `h` / `help`: with the help feature they are shadowed by the built-in help request, without it they are
    #    ordinary options of the command
    sets.append({"kind": "enum", "enum": {"title": None, "cmds": [
        {"variant": "Connect", "name": None, "doc": "Connect", "sub": None, "args": [
            arg("host", "opt", "u8", long=True, short=True), arg("port", "opt", "u16", long=True, short=True, default=("s", "80"))]},
        {"variant": "Dump", "name": None, "doc": None, "sub": None, "args": [
            arg("hex", "flag", "bool", short=True), arg("verbose", "flag", "bool", short=True)]},
        {"variant": "Topic", "name": None, "doc": None, "sub": None, "args": [arg("help_me", "flag", "bool", long="help"), arg("what", optional=True)]}]}})
    # 10: a group with an EMPTY member between two visible ones and a hidden one: `help` prints no title and no blank line for it
    e10a = {"title": "First", "cmds": [unit("Ping", doc="Ping it"), unit("Pong")]}
    e10e = {"title": "Nothing", "cmds": []}
    e10h = {"title": "Hid", "cmds": [unit("Peek")]}
    e10b = {"title": None, "cmds": [unit("Quit", doc="Leave.")]}
    sets.append({"kind": "group", "members": [(False, e10a), (False, e10e), (True, e10h), (False, e10b)]})
    sets.append({"kind": "group", "members": [(False, e10e), (False, e10b)]})
    # 11, 12: NESTED groups (a CommandGroup as a member of a CommandGroup): inner group with two / three members, one of them hidden or empty,
    #         an inner group that is hidden as a whole, names shared between inner and outer members
    n1 = {"title": "Inner one", "cmds": [unit("Alpha", doc="A"), unit("Stat")]}
    n2 = {"title": "Inner two", "cmds": [unit("Beta"), unit("Status", doc="Shown.")]}
    n3 = {"title": "Deep", "cmds": [unit("Gamma"), unit("Alpha", doc="Shadowed")]}
    o1 = {"title": "Outer", "cmds": [unit("Omega", doc="Last"), unit("Stats")]}
    sets.append({"kind": "group", "members": [(False, {"group": [(False, n1), (False, n2)]}), (False, o1)]})
    sets.append({"kind": "group", "members": [(False, o1), (False, {"group": [(False, n1), (True, n2), (False, e10e), (False, {"group": [(False, n3), (False, e10e)]})]}),
                                               (True, {"group": [(False, e10h), (False, n2)]}), (False, {"group": [(False, e10e)]})]})
    # 13: members whose derive SKIPS Autocomplete and Help (#[command(skip_autocomplete, skip_help)], empty hand-written impls): they parse,
    #     offer no candidates, are not listed and have no help; the other members are untouched. Names shared with visible members.
    sk1 = {"title": "Skipped", "skip": True, "cmds": [unit("Status", doc="Skipped status"), unit("Secret", doc="Never listed"),
           {"variant": "Level", "name": None, "doc": "Takes a value", "sub": None, "args": [arg("value", "pos", "u8", doc="The level")]}]}
    sk2 = {"title": None, "skip": True, "cmds": [unit("Stop"), unit("Stat")]}
    v1 = {"title": "Shown", "cmds": [unit("Start", doc="Start it."), unit("Status", doc="Visible status"), unit("Led")]}
    sets.append({"kind": "group", "members": [(False, sk1), (False, v1), (False, {"group": [(False, sk2), (False, e10b)]})]})
    # 14, 15: ONE derive skipped, the hand-written impl delegates to a twin with complete derives (behaviour of the plain declaration)
    ska = {"title": "Manual completion", "skip": "a", "cmds": [unit("Start", doc="Start it."), unit("Status", doc="Show\u2003status\u00a0\n\u2002\nSecond\u0085"),
           {"variant": "Level", "name": None, "doc": "Takes a value", "sub": None, "args": [arg("value", "pos", "u8", doc="The level"), arg("fast", "flag", "bool", long=True, short=True)]}]}
    skh = {"title": "Manual help", "skip": "h", "cmds": [unit("Stop", doc="Stop it"), unit("Stat"),
           {"variant": "Name", "name": None, "doc": "Takes a name.\n\nLong text", "sub": None, "args": [arg("who", "opt", "str", long=True, short=True, optional=True, doc="Who")]}]}
    sets.append({"kind": "enum", "enum": ska})
    sets.append({"kind": "group", "members": [(False, skh), (False, ska)]})
    # 17: field identifiers whose generated long name / value name is not a plain copy (convert_case drops empty words; to_uppercase
    #     follows Unicode: ß -> SS), generated short names that are `_` or non-ASCII
    sets.append({"kind": "enum", "enum": {"title": None, "cmds": [
        {"variant": "Send", "name": None, "doc": "Send it", "sub": None, "args": [
            arg("type_", "opt", "u8", long=True, doc="Kind"), arg("dry__run", "flag", "bool", long=True, short=True), arg("_x", "opt", "str", long=True, short=True, optional=True),
            arg("data", doc="Payload")]},
        {"variant": "Mess", "name": None, "doc": "Measure", "sub": None, "args": [
            arg("größe", "pos", "u8", doc="Size"), arg("длина", "opt", "u8", long=True, short=True, doc="Length"), arg("straße", "pos", "str", optional=True)]}]}})
    # 18: a declaration with its OWN command called `help` (shadowed by the built-in one while the help feature is on, an ordinary command
    #     when it is off) and an option spelled like the help option
    sets.append({"kind": "enum", "enum": {"title": None, "cmds": [
        {"variant": "Help", "name": None, "doc": "Own help", "sub": None, "args": [arg("topic", "pos", "str", optional=True, doc="Topic")]},
        unit("Hello", doc="Say hello"),
        {"variant": "Run", "name": None, "doc": None, "sub": None, "args": [arg("hard", "flag", "bool", long=True, short=True), arg("what")]},
        # labels of very different widths in one table (the padding of the short ones is more than 30 columns)
        {"variant": "Calibrate", "name": None, "doc": "Calibrate", "sub": None, "args": [
            arg("calibration_profile_name", "opt", "str", long=True, optional=True, doc="Profile"), arg("x", "flag", "bool", short=True, doc="X"),
            arg("a_rather_long_positional_argument_name", "pos", "u8", doc="Long one"), arg("b", "pos", "str", optional=True, doc="Short one")]}]}})
    # 20: fifteen commands in one enum (column widths over many names), names with upper-case letters, digits and dashes, one name a prefix of
    #     another, an empty help title; flags that differ only in letter case, a long name equal to another field's generated name
    many = [unit(v, doc=("Command %s." % v) if i % 3 else None) for i, v in enumerate(
        ["Alpha", "Beta", "Gamma", "Delta", "Eps", "Zeta", "Eta", "Theta", "Iota", "Kappa", "Lam", "Mu"])]
    many += [unit("Up", name="UP", doc="Upper"), unit("Led2", name="led-2x", doc="Second led"), unit("Led", name="led", doc="A led"),
             {"variant": "Mix", "name": "mix-it", "doc": "Mixed flags", "sub": None, "args": [
                 arg("verbose", "flag", "bool", short="v", long=True), arg("version", "flag", "bool", short="V", long="Version"),
                 arg("name", "opt", "str", long="file", optional=True), arg("file", "opt", "str", long="name", optional=True), arg("what", optional=True)]}]
    sets.append({"kind": "enum", "enum": {"title": "", "cmds": many}})
    # 21: sub-commands nested three levels deep, options at every level, an optional sub-command at the innermost level, the same command
    #     and option names re-used at different levels
    l3 = {"title": "Leaf", "cmds": [unit("Show", doc="Show it"), {"variant": "Set", "name": None, "doc": "Set it", "sub": None, "args": [arg("value", "pos", "u8"), arg("force", "flag", "bool", short=True)]}]}
    l2 = {"title": None, "cmds": [{"variant": "Port", "name": None, "doc": "A port", "args": [arg("index", "opt", "u8", long=True, short=True, optional=True)], "sub": {"optional": True, "enum": l3, "field": "command"}},
                                  unit("Show", doc="Level two show")]}
    l1 = {"title": None, "cmds": [{"variant": "Dev", "name": None, "doc": "A device", "args": [arg("index", "opt", "str", long=True, short=True, optional=True), arg("force", "flag", "bool", long=True)], "sub": {"optional": False, "enum": l2, "field": "cmd"}},
                                  unit("Show", doc="Top show")]}
    sets.append({"kind": "enum", "enum": l1})
    # 22: char and bool as positionals and as options (a bool with a short / long name is a FLAG; only a positional bool is converted)
    sets.append({"kind": "enum", "enum": {"title": None, "cmds": [
        {"variant": "Sep", "name": None, "doc": "Separator", "sub": None, "args": [arg("ch", "pos", "char"), arg("alt", "opt", "char", long=True, short=True, optional=True)]},
        {"variant": "Led", "name": None, "doc": "Led", "sub": None, "args": [arg("id", "pos", "u8"), arg("on", "pos", "bool"), arg("blink", "pos", "bool", optional=True)]}]}})
    # 19: signed positionals of every width (a negative value can only be given after `--`): both ends of every range
    sets.append({"kind": "enum", "enum": {"title": None, "cmds": [
        {"variant": "Move", "name": None, "doc": "Move", "sub": None, "args": [arg("step", "pos", "i8"), arg("fine", "pos", "i16", optional=True), arg("fast", "flag", "bool", long=True)]},
        {"variant": "Seek", "name": None, "doc": None, "sub": None, "args": [arg("pos", "pos", "i32"), arg("big", "pos", "i64", optional=True), arg("huge", "pos", "i128", optional=True)]},
        {"variant": "Sz", "name": None, "doc": None, "sub": None, "args": [arg("n", "pos", "isize"), arg("m", "pos", "u8", optional=True)]}]}})
    return sets
    return sets

VARIANTS = ["Get", "GetLed", "GetAdc", "Set", "SetLed", "Go", "Status", "Stat", "Start", "Stop", "Helper", "Hello", "He", "Exit", "Led", "Adc", "A", "Ab", "Abc", "Xy"]
FIELDS = ["name", "level", "verbose", "file", "value", "item", "count", "mode", "ch", "flag_x", "out_file", "k", "host", "hex", "help_me",
          # identifiers where the generated names are not a plain copy: trailing / doubled / leading underscore, non-ASCII letters
          # (the default value name is the field upper-cased by Unicode rules: straße -> STRASSE)
          "type_", "dry__run", "_x", "größe", "длина", "straße",
          # a long identifier: the option label `--calibration-profile-name <CALIBRATION_PROFILE_NAME>` is far wider than `-h, --help`
          "calibration_profile_name"]
DOCS = [None, None, "Do something", "Short text.", "Two sentences. Here..", "First paragraph\nstill first\n\nSecond paragraph.", "Trailing dots..",
        "One.\n\n\nTwo after two blank lines.", "A\n  \n\n \nB\nb\n\nC..", "\nLeading blank", "Trailing blanks\n\n",
        # the other Unicode White_Space characters (str::trim strips them, a line made of them is blank)
        "\u00a0Padded with no-break and ideographic space\u3000", "Para one\n\u2003\nPara two.", "Next line char at the end\u0085",
        "\u1680ogham and line separator\u2028", "Inner\u2003space stays.\u205f\u202f", "\u2000\u200a\nOnly the second line\n\u2029"]

def rand_enum(rng, depth=0, used=None):
    ncmds = rng.choice([1, 2, 3, 4, 5])
    variants = rng.sample(VARIANTS, ncmds)
    cmds = []
    for v in variants:
        name = None
        r = rng.randrange(10)
        if r == 0: name = rng.choice(["x", "é", "get led".replace(" ", "_"), "UP", "a-b", "λx"]) + str(len(cmds))
        doc = rng.choice(DOCS)
        shape = rng.randrange(10)
        args, sub = [], None
        if shape < 3:
            pass
        else:
            nargs = rng.choice([0, 1, 1, 2, 3, 4])
            fields = rng.sample(FIELDS, nargs)
            want_sub = depth < 2 and rng.randrange(4) == 0
            for f in fields:
                kind = rng.choice(["pos", "opt", "opt", "flag"])
                if want_sub and kind == "pos":
                    kind = "opt"
                ty = "bool" if kind == "flag" else rng.choice(["str", "str", "u8", "char", "bool"] + INT_TYS)
                if kind == "opt" and ty == "bool":
                    ty = "u8"
                long_, short = None, None
                if kind != "pos":
                    m = rng.randrange(3)
                    if m in (0, 2): long_ = rng.choice([True, True, f.replace("_", "") + "x", "é" + f, "help" if rng.randrange(4) == 0 else True])
                    if m in (1, 2): short = rng.choice([True, True, "x", "ж", "€", "H"])
                optional = rng.randrange(3) == 0
                default = None
                if kind != "flag" and not optional and rng.randrange(3) == 0:
                    if ty == "str": default = rng.choice([("s", "dflt"), ("v", ("s", "t")), ("d",)])
                    elif ty == "u8": default = rng.choice([("s", "7"), ("v", ("n", 200)), ("d",)])
                    elif ty == "char": default = rng.choice([("s", "z"), ("v", ("c", "ж"))])
                    elif ty in INT_TYS: default = rng.choice([("s", "7"), ("s", "-0" if ty[0] == "i" else "+0"), ("v", ("i", int_range(ty)[0])), ("v", ("i", int_range(ty)[1])), ("d",)])
                    else: default = rng.choice([("s", "true"), ("v", ("b", True)), ("d",)])
                if default is not None and default[0] == "s" and ty != "str" and rng.randrange(5) == 0:
                    # a default_value string that does NOT convert to the field type: legal Rust, the generated constructor converts it on
                    # every parse (`unwrap_or(from_arg(..)?)`), so every line for this command is rejected with that text
                    default = ("s", {"u8": "256", "char": "ab", "bool": "maybe"}.get(ty, "1e3"))
                valname = rng.choice([None, None, "VAL", "lvl"]) if kind != "flag" else None
                args.append(arg(f, kind, ty, long=long_, short=short, optional=optional, default=default, valname=valname, doc=rng.choice([None, "Some arg", "Help text."])))
                if short not in (None, True) and rng.randrange(3) == 0:
                    args[-1]["short_str"] = True          # `short = "x"` (string form) instead of `short = 'x'`
            # duplicate generated short names are legal Rust (first arm wins) but produce unreachable-pattern warnings only
            if want_sub:
                sub = {"optional": rng.randrange(3) == 0, "enum": rand_enum(rng, depth + 1), "field": rng.choice(["command", "cmd"]) if args or rng.randrange(2) else None}
                if sub["field"] is None:
                    args = []
        cmds.append({"variant": v, "name": name, "doc": doc, "args": args, "sub": sub})
        if doc and not doc.startswith("\n") and rng.randrange(3) == 0:
            cmds[-1]["doc_attr"] = True
    return {"title": rng.choice([None, None, "Tools", "Группа"]), "cmds": cmds}

def rand_set(rng):
    if rng.randrange(3) == 0:
        n = rng.choice([1, 2, 3])
        members = [(rng.randrange(4) == 0, rand_enum(rng, 1)) for _ in range(n)]
        if all(h for h, _ in members):
            members[0] = (False, members[0][1])
        if n > 1 and rng.randrange(4) == 0:
            members[-1][1]["skip"] = rng.choice([True, "a", "h"])          # derive told to skip Autocomplete and / or Help; hand-written impls
        if rng.randrange(3) == 0:
            # a nested group as one more member (somewhere in the order), sometimes with an empty or a hidden member inside
            inner = [(rng.randrange(4) == 0, rand_enum(rng, 1)), (False, {"title": "None", "cmds": []} if rng.randrange(3) == 0 else rand_enum(rng, 1))]
            members.insert(rng.randrange(len(members) + 1), (rng.randrange(5) == 0, {"group": inner}))
        return {"kind": "group", "members": members}
    return {"kind": "enum", "enum": rand_enum(rng)}

def all_names(s):
    es = [s["enum"]] if s["kind"] == "enum" else [e for _, e in flat_members(s["members"])]
    return [cmd_name(c) for e in es for c in e["cmds"]]

def generate(rng, n_random):
    sets = corpus_sets()
    for _ in range(n_random):
        sets.append(rand_set(rng))
    return sets

def write_all(sets, rust_path, ser_path):
    import os
    txt = render_rust(sets)
    old = open(rust_path).read() if os.path.exists(rust_path) else None
    if old != txt:
        with open(rust_path, "w") as f:
            f.write(txt)
    os.makedirs(os.path.dirname(ser_path), exist_ok=True)
    with open(ser_path, "w") as f:
        for s in sets:
            f.write(ser_set(s) + "\n")

if __name__ == "__main__":
    import random, sys, os
    root = os.path.dirname(os.path.dirname(os.path.abspath(__file__)))
    n = int(sys.argv[1]) if len(sys.argv) > 1 else 8
    seed = int(sys.argv[2]) if len(sys.argv) > 2 else 1
    sets = generate(random.Random(seed), n)
    write_all(sets, os.path.join(root, "harness", "src", "gen_decls.rs"), os.path.join(root, "build", "decls.txt"))
    print("wrote %d sets" % len(sets))


# ---------------------------------------------------------------- lines for a declaration set
def sample_value(rng, ty, good=True):
    if ty == "str":
        return rng.choice(["abc", "x", "é€", "a b", "", "-", "12", "true"])
    if ty == "u8":
        return rng.choice(["0", "7", "255", "+5", "007"]) if good else rng.choice(["256", "-1", "x", "", "1e2", "+", "99999999999999999999"])
    if ty == "bool":
        return rng.choice(["true", "false"]) if good else rng.choice(["1", "True", "yes", ""])
    if ty == "char":
        return rng.choice(["x", "é", "€", "😀", "-"]) if good else rng.choice(["xy", "", "éé"])
    if ty in INT_TYS:
        lo, hi = int_range(ty)
        if good:
            return rng.choice(["0", "7", "+5", "007", str(hi), str(lo), "-0" if lo < 0 else "+0", "-3" if lo < 0 else "3", "+" + str(hi), "000" + str(hi)])
        return rng.choice([str(hi + 1), str(lo - 1), "x", "", "1e2", "+", "-", "--1", "+-1", "1 ", "1_0", "0x10", "99999999999999999999999", "-99999999999999999999999", "٣"])
    raise ValueError(ty)

def q(tok):
    if tok == "" or " " in tok or '"' in tok or "\\" in tok:
        return '"' + tok.replace("\\", "\\\\").replace('"', '\\"') + '"'
    return tok

def rand_cmd_tokens(rng, e, depth=0):
    """tokens of one (mostly valid) invocation of a random command of enum e"""
    if not e["cmds"]:
        return ["nothing"]
    c = rng.choice(e["cmds"])
    toks = [cmd_name(c)]
    items = []
    for a in c["args"]:
        bad = rng.randrange(12) == 0
        if a["kind"] == "pos":
            if not (a["optional"] or a.get("default")) or rng.randrange(2):
                if rng.randrange(10):
                    items.append(("pos", [sample_value(rng, a["ty"], not bad)]))
        elif a["kind"] == "flag":
            if rng.randrange(2):
                items.append(("opt", [("--" + arg_long(a)) if (arg_long(a) and (not arg_short(a) or rng.randrange(2))) else ("-" + arg_short(a))]))
        else:
            if not (a["optional"] or a.get("default")) or rng.randrange(2):
                if rng.randrange(10):
                    nm = ("--" + arg_long(a)) if (arg_long(a) and (not arg_short(a) or rng.randrange(2))) else ("-" + arg_short(a))
                    if rng.randrange(15) == 0:
                        items.append(("opt", [nm]))          # value missing
                    else:
                        items.append(("opt", [nm, sample_value(rng, a["ty"], not bad)]))
    # options may come anywhere among positionals, positional order is kept
    pos = [i for i in items if i[0] == "pos"]
    opt = [i for i in items if i[0] == "opt"]
    rng.shuffle(opt)
    merged = []
    while pos or opt:
        if pos and (not opt or rng.randrange(2)):
            merged.append(pos.pop(0))
        else:
            merged.append(opt.pop(0))
    # repeat an option (last one wins), or give an option without its value directly before a flag / another item
    opts_only = [m for m in merged if m[0] == "opt"]
    if opts_only and rng.randrange(6) == 0:
        o = rng.choice(opts_only)
        a_ = next((a for a in c["args"] if a["kind"] == "opt" and (("--" + (arg_long(a) or "\0")) == o[1][0] or ("-" + (arg_short(a) or "\0")) == o[1][0])), None)
        if a_ is not None:
            names = [("--" + arg_long(a_)) if arg_long(a_) else None, ("-" + arg_short(a_)) if arg_short(a_) else None]
            nm2 = rng.choice([n for n in names if n])
            merged.insert(rng.randrange(len(merged) + 1), ("opt", [nm2, sample_value(rng, a_["ty"], True)]))
    if opts_only and rng.randrange(8) == 0:
        flags = [a for a in c["args"] if a["kind"] == "flag"]
        valued = [a for a in c["args"] if a["kind"] == "opt"]
        if flags and valued:
            f_, v_ = rng.choice(flags), rng.choice(valued)
            fn = ("--" + arg_long(f_)) if arg_long(f_) and rng.randrange(2) else (("-" + arg_short(f_)) if arg_short(f_) else "--" + arg_long(f_))
            vn = ("--" + arg_long(v_)) if arg_long(v_) and rng.randrange(2) else (("-" + arg_short(v_)) if arg_short(v_) else "--" + arg_long(v_))
            merged.insert(rng.randrange(len(merged) + 1), ("opt", [vn, fn]))
    r = rng.randrange(20)
    if r == 0: merged.insert(rng.randrange(len(merged) + 1), ("x", ["--nope"]))
    elif r == 1: merged.insert(rng.randrange(len(merged) + 1), ("x", ["-Z"]))
    elif r == 2: merged.append(("x", ["extra"]))
    elif r == 3: merged.insert(rng.randrange(len(merged) + 1), ("x", ["--"]))
    elif r == 4: merged.insert(rng.randrange(len(merged) + 1), ("x", [rng.choice(["-h", "--help", "-xh"])]))
    for _, t in merged:
        toks += t
    if c["sub"] is not None and (not c["sub"]["optional"] or rng.randrange(2)) and rng.randrange(8):
        if rng.randrange(6) == 0:
            toks += ["bogus"]
        else:
            toks += rand_cmd_tokens(rng, c["sub"]["enum"], depth + 1)
    return toks

def missing_arg_lines(rng, c, prefix=()):
    """for every required argument of command c (declaration order): a line that supplies all required arguments except that one,
    so that exactly it is reported as missing (by its usage name: value_name attribute, <> brackets, --long / -short prefix)"""
    req = [a for a in c["args"] if a["kind"] != "flag" and not a["optional"] and not a.get("default")]
    def give(a):
        v = sample_value(rng, a["ty"], True)
        if a["kind"] == "pos":
            return [v]
        return [("--" + arg_long(a)) if arg_long(a) else ("-" + arg_short(a)), v]
    lines = []
    for skip in req:
        toks = list(prefix) + [cmd_name(c)]
        for a in req:
            if a is skip:
                continue
            if skip["kind"] == "pos" and a["kind"] == "pos" and req.index(a) > req.index(skip):
                continue          # positionals fill in order: leave out the skipped one and every later one
            toks += give(a)
        lines.append(" ".join(q(t) for t in toks))
    if c["sub"] is not None and not c["sub"]["optional"]:
        toks = list(prefix) + [cmd_name(c)]
        for a in req:
            toks += give(a)
        lines.append(" ".join(q(t) for t in toks))          # everything but the sub-command: <COMMAND> is missing
        for sc in c["sub"]["enum"]["cmds"][:3]:
            lines += missing_arg_lines(rng, sc, prefix=toks)
    return lines

def signed_boundary_lines(rng, c, prefix=()):
    """for every signed (and, for the upper end, unsigned) integer positional of command c: lines that give it values at and just beyond
    both ends of its range - and far beyond, where a parser that goes through a wider type and narrows shows - after `--` (a token with
    a leading dash is a value only there); the other required arguments are supplied"""
    pos = [a for a in c["args"] if a["kind"] == "pos"]
    req_opts = [a for a in c["args"] if a["kind"] == "opt" and not a["optional"] and not a.get("default")]
    lines = []
    for i, a in enumerate(pos):
        if a["ty"] not in INT_TYS and a["ty"] != "u8":
            continue
        lo, hi = int_range(a["ty"]) if a["ty"] != "u8" else (0, 255)
        vals = [lo, lo - 1, lo + 1, hi, hi + 1, lo - 1000, -(1 << 31), -(1 << 31) - 1, -(1 << 63) - 1, (1 << 32) + 5, -(1 << 15) - 1, -129, -0]
        for v in vals:
            toks = list(prefix) + [cmd_name(c)]
            for o in req_opts:
                toks += [("--" + arg_long(o)) if arg_long(o) else ("-" + arg_short(o)), sample_value(rng, o["ty"], True)]
            toks.append("--")
            for b in pos[:i]:
                toks.append(sample_value(rng, b["ty"], True))
            toks.append(("-0" if v == 0 and str(v) == "0" and rng.randrange(2) else str(v)))
            lines.append(" ".join(q(t) for t in toks))
    return lines

def double_dash_lines(rng, c, prefix=()):
    """lines with MORE THAN ONE `--`: the first ends option parsing, every later one is a plain value (a positional `--`, or an
    unexpected argument when no positional is left)"""
    pos = [a for a in c["args"] if a["kind"] == "pos"]
    req_opts = [a for a in c["args"] if a["kind"] == "opt" and not a["optional"] and not a.get("default")]
    head = list(prefix) + [cmd_name(c)]
    for o in req_opts:
        head += [("--" + arg_long(o)) if arg_long(o) else ("-" + arg_short(o)), sample_value(rng, o["ty"], True)]
    lines = []
    vals = ["--" if a["ty"] == "str" else sample_value(rng, a["ty"], True) for a in pos]
    lines.append(" ".join(q(t) for t in head + ["--"] + vals))                    # `--` as the value of every str positional
    lines.append(" ".join(q(t) for t in head + ["--"] + vals + ["--"]))           # one more: unexpected argument `--`
    if pos:
        first = sample_value(rng, pos[0]["ty"], True)
        if not first.startswith("-"):
            lines.append(" ".join(q(t) for t in head + [first, "--"] + vals[1:] + ["--", "--"]))
    lines.append(" ".join(q(t) for t in head + ["--", "--", "--"]))
    return lines

EDGE_VALUES = {
    "bool": ["true", "false", "1", "True", "TRUE", "yes", "", "enabled", "falsee", "tru", "\u043d\u0435\u0442", "t" * 40],
    "char": ["x", "\u00e9", "\U0001f600", "", "xy", "\u00e9\u00e9", " ", "-", "\U0001f600\U0001f600", "a" * 40],
    "str": ["", " ", "a b", "-", "\u00e9\u20ac", "x" * 60],
    "u8": ["0", "255", "256", "-1", "+5", "007", "", "x", "1e2", "+", "9" * 30, "\u0663", "1 ", " 1"],
}

def value_edge_lines(rng, c, prefix=()):
    """for every value-taking argument of command c: lines that give it each edge value of its type (empty, one character too many, far too
    long, other letter case, multi-byte, sign only ...) while the other required arguments get ordinary values. A conversion written
    for the field type (FromArgument) meets its corner cases only here."""
    args = [a for a in c["args"] if a["kind"] != "flag"]
    pos = [a for a in c["args"] if a["kind"] == "pos"]
    lines = []
    for target in args:
        vals = EDGE_VALUES.get(target["ty"])
        if vals is None:
            if target["ty"] in INT_TYS:
                lo, hi = int_range(target["ty"])
                vals = [str(hi), str(hi + 1), "", "+", "x", "+" + str(hi), "0" * 40 + "1", "9" * 45]
            else:
                continue
        for v in vals:
            toks = list(prefix) + [cmd_name(c)]
            ok = True
            for a in c["args"]:
                if a["kind"] == "flag":
                    continue
                val = v if a is target else sample_value(rng, a["ty"], True)
                if a["kind"] == "opt":
                    if a is target or not (a["optional"] or a.get("default")):
                        if val.startswith("-") and len(val) > 0:
                            ok = ok and a is not target      # a value with a leading dash cannot follow an option name
                            val = "v" if a is not target else val
                        toks += [("--" + arg_long(a)) if arg_long(a) else ("-" + arg_short(a)), val]
                else:
                    if a is target or not (a["optional"] or a.get("default")) or pos.index(a) < (pos.index(target) if target in pos else -1):
                        if val.startswith("-"):
                            ok = ok and a is not target
                            val = "v" if a is not target else val
                        toks.append(val)
            if ok:
                lines.append(" ".join(q(t) for t in toks))
    return lines

def set_enums(s):
    return [s["enum"]] if s["kind"] == "enum" else [e for _, e in flat_members(s["members"])]

def rand_decl_line(rng, s):
    e = rng.choice(set_enums(s))
    k = rng.randrange(10)
    toks = rand_cmd_tokens(rng, e)
    if k == 0: toks = ["help"]
    elif k == 1: toks = ["help"] + toks[:rng.randrange(1, len(toks) + 1)]
    elif k == 2: toks = ["help", rng.choice(["nope", "help", "-h"])]
    elif k == 3: toks = toks[:rng.randrange(1, len(toks) + 1)] + [rng.choice(["-h", "--help"])] + (toks[1:2] if rng.randrange(2) else [])
    elif k == 4: toks = [rng.choice(["unknown", "", "Help"])] + toks[1:]
    return " ".join(q(t) for t in toks)

def visible_names(s):
    if s["kind"] == "enum":
        return [cmd_name(c) for c in s["enum"]["cmds"]]
    return [cmd_name(c) for h, e in flat_members(s["members"]) if not h for c in e["cmds"]]
