#!/usr/bin/env python3
"""Translator part of the tie: regenerates coq/Generated/Codes.v from the Rust sources of $VERIF_REPO (default /repo).

Every constant is located by an anchored regular expression, in groups (codes.rs, builder.rs, the decoder of input.rs,
the completion / help names, the error texts of cli.rs). If an anchor of a group is no longer found - the source was
restructured - the group's constants are taken from gen/Codes.fallback.v (the values of the pinned tree) and the line
`translate_codes: FALLBACK <group>: <anchor>` is printed: the model then runs with the last known constants and the
correspondence check decides whether the code still behaves like it (a changed constant shows up as differing bytes or
events there, a pure restructuring does not). Status 3 only if the fallback file itself is unusable.
"""
import os, re, sys

REPO = os.environ.get("VERIF_REPO", "/repo")
OUT = sys.argv[1] if len(sys.argv) > 1 else os.path.join(os.path.dirname(os.path.abspath(__file__)), "..", "coq", "Generated", "Codes.v")

class Missing(Exception):
    pass

def read(rel):
    with open(os.path.join(REPO, rel), encoding="utf-8") as f:
        return f.read()

def rust_bytes(lit):
    """decode the inside of a Rust (byte) string literal"""
    out = []
    i = 0
    b = lit.encode("utf-8")
    while i < len(b):
        c = b[i]
        if c == 0x5C:
            n = chr(b[i + 1])
            if n == "x":
                out.append(int(b[i + 2:i + 4].decode(), 16)); i += 4
            elif n == "n": out.append(10); i += 2
            elif n == "r": out.append(13); i += 2
            elif n == "t": out.append(9); i += 2
            elif n == "0": out.append(0); i += 2
            elif n == "\\": out.append(0x5C); i += 2
            elif n == '"': out.append(0x22); i += 2
            elif n == "'": out.append(0x27); i += 2
            else: raise Missing("unknown escape \\%s in %r" % (n, lit))
        else:
            out.append(c); i += 1
    return out

def find(src, pat, what):
    m = re.search(pat, src, re.M | re.S)
    if not m:
        raise Missing(what)
    return m

def nlist(bs):
    return "[" + "; ".join(str(x) for x in bs) + "]"

FALLBACK = os.path.join(os.path.dirname(os.path.abspath(__file__)), "Codes.fallback.v")

def fallback_defs(names):
    try:
        txt = open(FALLBACK, encoding="utf-8").read()
    except OSError as e:
        raise Missing("fallback file: %s" % e)
    out = []
    for n in names:
        m = re.search(r"^Definition %s : [^\n]*$" % re.escape(n), txt, re.M)
        if not m:
            raise Missing("fallback definition of " + n)
        out.append(m.group(0))
    return out

def g_codes():
    defs = []
    codes = read("embedded-cli/src/codes.rs")
    for name in ["BACKSPACE", "TABULATION", "LINE_FEED", "CARRIAGE_RETURN", "ESCAPE"]:
        m = find(codes, r"^pub const %s: u8 = (0x[0-9A-Fa-f]+|\d+);" % name, "codes.rs: u8 const " + name)
        defs.append("Definition %s : N := %d." % (name, int(m.group(1), 0)))
    m = find(codes, r'^pub const CRLF: &str = "((?:[^"\\]|\\.)*)";', "codes.rs: CRLF")
    defs.append("Definition CRLF : list N := %s." % nlist(rust_bytes(m.group(1))))
    for name in ["CURSOR_FORWARD", "CURSOR_BACKWARD", "CLEAR_LINE", "INSERT_CHAR", "DELETE_CHAR"]:
        m = find(codes, r'^pub const %s: &\[u8\] = b"((?:[^"\\]|\\.)*)";' % name, "codes.rs: sequence " + name)
        defs.append("Definition %s : list N := %s." % (name, nlist(rust_bytes(m.group(1)))))
    return defs

def g_builder():
    builder = read("embedded-cli/src/builder.rs")
    m = find(builder, r'^pub const DEFAULT_PROMPT: &str = "((?:[^"\\]|\\.)*)";', "builder.rs: DEFAULT_PROMPT")
    return ["Definition DEFAULT_PROMPT : list N := %s." % nlist(rust_bytes(m.group(1)))]

def g_decoder():
    defs = []
    inp = read("embedded-cli/src/input.rs")
    m = find(inp, r"last_byte == codes::ESCAPE && byte == b'(.)'", "input.rs: CSI introducer test")
    defs.append("Definition CSI_INTRO : N := %d." % ord(m.group(1)))
    m = find(inp, r"\((0x[0-9A-Fa-f]+)\.\.=(0x[0-9A-Fa-f]+)\)\.contains\(&byte\)", "input.rs: CSI final byte range")
    defs.append("Definition CSI_FINAL_LO : N := %d." % int(m.group(1), 16))
    defs.append("Definition CSI_FINAL_HI : N := %d." % int(m.group(2), 16))
    for key, ctl in [("KEY_UP", "Up"), ("KEY_DOWN", "Down"), ("KEY_FORWARD", "Forward"), ("KEY_BACK", "Back")]:
        m = find(inp, r"b'(.)' => ControlInput::%s," % ctl, "input.rs: final byte of " + ctl)
        defs.append("Definition %s : N := %d." % (key, ord(m.group(1))))
    m = find(inp, r"byte if byte >= (0x[0-9A-Fa-f]+) => return self\.utf8\.push_byte", "input.rs: printable threshold")
    defs.append("Definition MIN_PRINTABLE : N := %d." % int(m.group(1), 16))
    return defs

def g_help_candidate():
    cli = read("embedded-cli/src/cli.rs")
    m = find(cli, r'Request::CommandName\(name\) if "((?:[^"\\]|\\.)*)"\.starts_with\(name\)', "cli.rs: built-in help completion candidate")
    return ["Definition HELP_CANDIDATE : list N := %s." % nlist(rust_bytes(m.group(1)))]

def g_help_names():
    hlp = read("embedded-cli/src/help.rs")
    defs = []
    m = find(hlp, r'command\.name\(\) == "((?:[^"\\]|\\.)*)"', "help.rs: help command name")
    defs.append("Definition HELP_NAME : list N := %s." % nlist(rust_bytes(m.group(1))))
    m = find(hlp, r'Arg::LongOption\("((?:[^"\\]|\\.)*)"\) \|\| arg == Arg::ShortOption\(\'(.)\'\)', "help.rs: help option names")
    defs.append("Definition HELP_LONG : list N := %s." % nlist(rust_bytes(m.group(1))))
    defs.append("Definition HELP_SHORT : N := %d." % ord(m.group(2)))
    return defs

ERR_NAMES = ["ERR_PREFIX", "ERR_MISSING", "ERR_PARSE_1", "ERR_PARSE_2", "ERR_UNEXP_ARG", "ERR_UNEXP_LONG_1", "ERR_UNEXP_LONG_2",
             "ERR_UNEXP_SHORT", "ERR_UNKNOWN"]

def g_errors():
    # error message literals of process_error, in source order
    cli = read("embedded-cli/src/cli.rs")
    body = find(cli, r"fn process_error\(.*?\n    \}\n", "cli.rs: process_error").group(0)
    lits = re.findall(r'self\.writer\.write_str\("((?:[^"\\]|\\.)*)"\)\?;', body)
    if len(lits) != len(ERR_NAMES):
        raise Missing("cli.rs: process_error literals (found %d, expected %d)" % (len(lits), len(ERR_NAMES)))
    return ["Definition %s : list N := %s." % (n, nlist(rust_bytes(l))) for n, l in zip(ERR_NAMES, lits)]

def g_help_errors():
    cli = read("embedded-cli/src/cli.rs")
    hbody = find(cli, r"fn process_help<.*?\n    \}\n", "cli.rs: process_help").group(0)
    hl = re.findall(r'writer\.write_str\("((?:[^"\\]|\\.)*)"\)\?;', hbody)
    if len(hl) != 2:
        raise Missing("cli.rs: process_help unknown-command literals")
    return ["Definition HELP_ERR_1 : list N := %s." % nlist(rust_bytes(hl[0])), "Definition HELP_ERR_2 : list N := %s." % nlist(rust_bytes(hl[1]))]

LIT = r'"((?:[^"\\]|\\.)*)"'

def g_macro_help():
    # wording of the generated help (embedded-cli-macros): followed, not pinned - no property spells these texts out
    hlp = read("embedded-cli-macros/src/command/help.rs")
    mdl = read("embedded-cli-macros/src/command/model.rs")
    mod = read("embedded-cli-macros/src/command/mod.rs")
    out = []
    m = find(hlp, r'write_title\(' + LIT + r'\)\?;\s*writer\.write_str\(" "\)\?;\s*parent\(writer\)', "help.rs: usage title")
    out.append(("H_USAGE", m.group(1)))
    m = find(hlp, r'if has_options \{\s*quote! \{ writer\.write_str\(' + LIT + r'\)', "help.rs: [OPTIONS] tag")
    out.append(("H_OPTIONS_TAG", m.group(1)))
    m = find(hlp, r'is_optional\(\) \{\s*usage_args = vec!\[quote! \{\s*writer\.write_str\(' + LIT + r'\)\?;\s*\}\]\s*\} else \{\s*usage_args = vec!\[quote! \{\s*writer\.write_str\(' + LIT + r'\)',
             "help.rs: [COMMAND] / <COMMAND> in the usage line")
    out += [("H_SUB_OPT", m.group(1)), ("H_SUB_REQ", m.group(2))]
    m = find(hlp, r'write_title\(' + LIT + r'\)\?;\s*#\(#help_lines\)\*', "help.rs: arguments title")
    out.append(("H_ARGUMENTS", m.group(1)))
    m = find(hlp, r'write_title\(' + LIT + r'\)\?;\s*writer\.writeln_str\(""\)\?;\s*#\(#help_lines\)\*', "help.rs: options title")
    out.append(("H_OPTIONS", m.group(1)))
    m = find(hlp, r'name: ' + LIT + r'\.to_string\(\),\s*help: ' + LIT + r'\.to_string\(\)', "help.rs: the help option's own line")
    out += [("H_HELP_OPT_NAMES", m.group(1)), ("H_HELP_OPT_TEXT", m.group(2))]
    m = find(mdl, r'if self\.is_optional\(\) \{\s*' + LIT + r'\.to_string\(\)\s*\} else \{\s*' + LIT + r'\.to_string\(\)', "model.rs: usage name of a sub-command")
    out += [("SUB_NAME_OPT", m.group(1)), ("SUB_NAME_REQ", m.group(2))]
    m = find(mod, r'help_title\.unwrap_or\(' + LIT + r'\.to_string\(\)\)', "mod.rs: default help title")
    out.append(("DEFAULT_HELP_TITLE", m.group(1)))
    return ["Definition %s : list N := %s." % (n, nlist(rust_bytes(l))) for n, l in out]

MACRO_HELP_NAMES = ["H_USAGE", "H_OPTIONS_TAG", "H_SUB_OPT", "H_SUB_REQ", "H_ARGUMENTS", "H_OPTIONS", "H_HELP_OPT_NAMES", "H_HELP_OPT_TEXT",
                    "SUB_NAME_OPT", "SUB_NAME_REQ", "DEFAULT_HELP_TITLE"]

GROUPS = [
    ("codes.rs constants", g_codes, ["BACKSPACE", "TABULATION", "LINE_FEED", "CARRIAGE_RETURN", "ESCAPE", "CRLF", "CURSOR_FORWARD", "CURSOR_BACKWARD",
                                     "CLEAR_LINE", "INSERT_CHAR", "DELETE_CHAR"]),
    ("builder.rs default prompt", g_builder, ["DEFAULT_PROMPT"]),
    ("input.rs decoder table", g_decoder, ["CSI_INTRO", "CSI_FINAL_LO", "CSI_FINAL_HI", "KEY_UP", "KEY_DOWN", "KEY_FORWARD", "KEY_BACK", "MIN_PRINTABLE"]),
    ("cli.rs help completion candidate", g_help_candidate, ["HELP_CANDIDATE"]),
    ("help.rs help names", g_help_names, ["HELP_NAME", "HELP_LONG", "HELP_SHORT"]),
    ("cli.rs error texts", g_errors, ERR_NAMES),
    ("cli.rs help error texts", g_help_errors, ["HELP_ERR_1", "HELP_ERR_2"]),
    ("macro crate help wording", g_macro_help, MACRO_HELP_NAMES),
]

def main():
    defs = []
    for label, fn, names in GROUPS:
        try:
            got = fn()
            if len(got) != len(names):
                raise Missing(label + ": wrong number of definitions")
            defs += got
        except (Missing, OSError) as e:
            print("translate_codes: FALLBACK %s: %s" % (label, e))
            defs += fallback_defs(names)
    text = "(* GENERATED by gen/translate_codes.py from the Rust sources - do not edit. *)\n" \
           "From Coq Require Import List NArith.\nImport ListNotations.\nOpen Scope N_scope.\n\n" + "\n".join(defs) + "\n"
    old = None
    try:
        with open(OUT) as f:
            old = f.read()
    except OSError:
        pass
    if old != text:
        os.makedirs(os.path.dirname(OUT), exist_ok=True)
        with open(OUT, "w") as f:
            f.write(text)
        print("translate_codes: wrote", OUT)
    else:
        print("translate_codes: unchanged")

if __name__ == "__main__":
    try:
        main()
    except Missing as e:
        print("translate_codes: ANCHOR MISSING:", e)
        sys.exit(3)
