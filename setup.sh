#!/bin/sh
# Builds the whole framework offline from files on disk: generated constants, Coq development (full .vo build),
# extraction + OCaml driver, Rust harness (all registered feature sets).
set -e
cd "$(dirname "$0")"
export CARGO_NET_OFFLINE=true
python3 gen/translate_codes.py
( cd coq && coq_makefile -f _CoqProject -o Makefile >/dev/null && timeout 3400 make -j16 )
python3 - <<'PY'
import sys
sys.path.insert(0, '.')
from vlib import core
print(core.build_driver())
for fs in core.SETUP_FEATSETS:
    print(core.build_harness(fs, "debug"))
PY
echo setup done
