#!/bin/bash
# like verify_seed.sh but runs the demo under a given feature list (for C16 seeds)
set -u
OUT=$1; M=$2; DEST=$3; FEATS=$4
WT=/tmp/seedchk
export CARGO_NET_OFFLINE=true CARGO_TARGET_DIR=/tmp/seedchk_target
if [ ! -d $WT ]; then git -C /repo worktree add -q --detach $WT HEAD; fi
git -C $WT checkout -q --detach $(git -C /repo rev-parse HEAD); git -C $WT checkout -- . ; git -C $WT clean -fdq
git -C $WT apply --check $OUT/$M.patch.diff || { echo "$DEST: PATCH DOES NOT APPLY"; exit 1; }
cp $OUT/$M.demo.rs $WT/embedded-cli/tests/seed_demo.rs
( cd $WT && cargo test --offline -p embedded-cli --no-default-features --features $FEATS --test seed_demo >/tmp/seedchk_a.log 2>&1 ); A=$?
git -C $WT apply $OUT/$M.patch.diff
( cd $WT && cargo test --offline -p embedded-cli --no-default-features --features $FEATS --test seed_demo >/tmp/seedchk_b.log 2>&1 ); B=$?
rm -f $WT/embedded-cli/tests/seed_demo.rs
( cd $WT && cargo test --offline --workspace >/tmp/seedchk_c.log 2>&1 ); C=$?
NT=$(grep -E "^test result" /tmp/seedchk_c.log | awk '{s+=$4} END {print s}')
echo "$DEST: demo_without_patch_rc=$A demo_with_patch_rc=$B suite_with_patch_rc=$C suite_passed=$NT (demo features: $FEATS)"
git -C $WT checkout -- . ; git -C $WT clean -fdq
if [ $A -eq 0 ] && [ $B -ne 0 ] && [ $C -eq 0 ]; then
  mkdir -p /verif/seeded/$DEST
  cp $OUT/$M.patch.diff /verif/seeded/$DEST/patch.diff; cp $OUT/$M.demo.rs /verif/seeded/$DEST/demo.rs; cp $OUT/$M.notes.md /verif/seeded/$DEST/notes.md
  echo "demo features: $FEATS" > /verif/seeded/$DEST/demo_features.txt
  echo "$DEST: CONFIRMED"
else echo "$DEST: NOT CONFIRMED"; tail -5 /tmp/seedchk_a.log /tmp/seedchk_b.log; fi
