#!/usr/bin/env python3
"""Regenerates MANIFEST.json from the table below (claimed properties) + properties.jsonl (the rest go to not_applicable)."""
import json, os
ROOT = os.path.dirname(os.path.dirname(os.path.abspath(__file__)))
T = "machine-checked proof in Coq 8.16 (%s) + differential correspondence check of the executable model and the extracted specs against the Rust implementation"
CLAIMED = {
 "C02": ("Theorems: every string Utf8Accum hands out is one well-formed scalar (Unicode Table 3-7) for every byte sequence; a well-formed character is emitted from every accumulator state, also after arbitrary garbage; every character event of the decoder is well-formed; the Cli keeps line and history well-formed under every call sequence and sink behaviour; tokens and classified arguments of a well-formed line are well-formed; EVERY slice handed to the sink (echo, redraw, completion, recall, prompts, errors, help, handler output) is well-formed for every call sequence and every sink behaviour when the texts supplied from outside are. Tie: exhaustive byte-class enumeration model vs implementation, all high-byte strings up to length 3/4 against core::str::from_utf8, resynchronisation oracle, completion echo validity.",
         T % "invariant by induction over the byte stream; Hoare-style output invariant over the Cli monad"),
 "C04": ("Theorems: every stream that is a concatenation of well-formed key units segmented greedily decodes to exactly the events of the units, from any non-CSI decoder state; N terminators give N Enters; at the level of the Cli (C04_cli_decoder) the decoder kept between calls is, after ANY sequence of API calls under EVERY sink behaviour and whatever the calls returned, in the state its own run over the bytes fed so far ends in. Tie: sessions through Cli::process_byte vs model and the terminator pair across a failed call; spec-generated unit lists evaluated on the implementation (direct oracle), exhaustive byte-class streams and random malformed streams model vs implementation; constants regenerated from codes.rs/input.rs each run.",
         T % "unit-boundary invariant, induction over the unit list; constants translator"),
 "C17": ("Theorems for EVERY scalar value (no enumeration): encode_utf8 gives the well-formed encoding of the right length and decode inverts it (and conversely), char_pop_front takes exactly the first scalar off, char_count / char_byte_index / common_prefix_len agree with the character-level definitions on all well-formed text, every scalar >= U+0020 (DEL aside) typed as bytes decodes to one character event; end to end: every scalar other than blank and the double quote is one token as a command name and as an argument, `-c` is exactly the short option c for every scalar but `-`, a line consisting of the character is recorded whenever it fits and recalled byte for byte. Tie: all 1.1M scalars inside the harness against Rust's char/str, boundary scalars model vs implementation vs Python codec, end-to-end sessions.",
         T % "algebraic laws / round trips, div-mod arithmetic by lia"),
 "C05": ("Theorems: every editor operation (insert of any chars, left, right, remove, clear) on a state representing an ideal editor state does not panic, returns the ideal result and represents the ideal next state, for every buffer size; lifted to all operation sequences from the empty editor; acceptance iff the UTF-8 length fits; a rejected insert changes nothing; through the whole Cli, for every byte, line and cursor are those of the ideal line after the decoded event. Tie: all op sequences up to a length for buffer sizes 0..8 + random, implementation vs extracted ideal editor (direct oracle) and vs model; sessions through the Cli.",
         T % "refinement to an ideal editor, simulation relation, induction over operation lists"),
 "C07": ("Theorems: the in-place Tokens::new never writes out of range or over unread input for any byte string and, for every NUL-free line, its tokens are those of the declarative quoting rules; laws of the rules (blanks, quoted item with adjacency, bare word); round trip: tokenising the quoted rendering of ANY list of NUL-free strings returns the list (also through the in-place tokeniser). Tie: exhaustive lines over six symbols, random lines, round-trip oracle on the implementation.",
         T % "loop invariant write index <= read index, refinement to the functional tokeniser, round-trip law"),
 "C08": ("Theorems: for every list of valid-UTF-8 tokens the argument iterator yields exactly the declarative classification and never hits an unchecked operation with a violated precondition; re-joining the items of a token gives the token back; after -- everything is a value; shapes of -, empty token, --name, clusters one option per scalar. Tie: exhaustive token lists over a 9-token alphabet + random, implementation vs extracted classify_all (direct oracle) and vs model, into_args after every k, help requests.",
         T % "refinement to a declarative classifier, fuel/measure induction"),
}
props = [json.loads(l) for l in open(os.path.join(ROOT, "properties.jsonl"))]
extra = {}
try:
    extra = json.load(open(os.path.join(ROOT, "tools", "manifest_extra.json")))
except OSError:
    pass
CLAIMED.update({k: tuple(v) for k, v in extra.items()})
checks = []
for p in props:
    pid = p["id"]
    if pid not in CLAIMED:
        continue
    text, tech = CLAIMED[pid][:2]
    note = CLAIMED[pid][2] if len(CLAIMED[pid]) > 2 else ""
    checks.append({
        "property_id": pid,
        "quick_cmd": "./check %s --tier quick" % pid,
        "thorough_cmd": "./check %s --tier thorough" % pid,
        "evidence_file": "evidence/%s.json" % pid,
        "replay_cmd_template": "cat {path}",
        "engine": "coq+correspondence",
        "level_claimed": {"category": "proof", "text": text, "design_ref": "DESIGN.md section 8 (%s)" % pid},
        "level_note": ("Trusted: Coq kernel; hand-written model tied to the code by differential testing on the cases run + the constants translator; extraction (ExtrOcamlBasic only); OCaml driver; Rust harness. No axioms. " + note).strip(),
        "technique": tech})
na = [{"property_id": p["id"], "reason": "proof obligations for this property are not finished in this round; its correspondence check exists (./check %s --dev) but is not claimed until the theorems are in place" % p["id"]}
      for p in props if p["id"] not in CLAIMED]
hooks_commit = "e786e7e"
m = {"version": 1, "setup_cmd": "./setup.sh",
     "hooks": {"guard": "cargo feature verif-hooks (embedded-cli/Cargo.toml)", "enable": "harness/Cargo.toml depends on embedded-cli with features [\"macros\",\"verif-hooks\"]",
               "baseline_off_cmd": "cd /repo && cargo test --workspace --no-fail-fast --offline", "source_commits": [hooks_commit], "add_only": True},
     "engines": [{"name": "coq", "path": "coq/", "serves_properties": [c["property_id"] for c in checks], "kind_free_text": "Coq 8.16 development: model, specs, proofs, property files"},
                 {"name": "harness", "path": "harness/", "serves_properties": [c["property_id"] for c in checks], "kind_free_text": "Rust correspondence harness driving the real crate (hooks on)"},
                 {"name": "driver", "path": "ocaml/", "serves_properties": [c["property_id"] for c in checks], "kind_free_text": "OCaml driver over the extracted model and specs"},
                 {"name": "declgen", "path": "gen/", "serves_properties": ["C09", "C11", "C12", "C14", "C16"], "kind_free_text": "declaration generator (Rust source for the derive macros + model terms) and constants translator"}],
     "checks": checks, "not_applicable": na,
     "notes": "Checks exit 1 with VIOLATION lines; known_findings.txt lists the repaired defects (fixed:). See DESIGN.md."}
json.dump(m, open(os.path.join(ROOT, "MANIFEST.json"), "w"), indent=1)
print("claimed:", [c["property_id"] for c in checks])
