#!/usr/bin/env python3
"""every behaviour-preserving patch (preserving/*/patch.diff) against ALL 17 checks (dev mode), in parallel private copies of /verif and
/repo's HEAD. Any line `FALSE-ALARM ...` is a false alarm of the machinery. usage: tools/keep_battery_par.py <workers> [names...]"""
import os, sys, json
sys.path.insert(0, os.path.dirname(os.path.abspath(__file__)))
import mutsweep as M
from concurrent.futures import ThreadPoolExecutor
nw = int(sys.argv[1])
names = sys.argv[2:] or sorted(os.listdir(os.path.join(M.ROOT, "preserving")))
def w(a):
    i, part = a
    wt, vb = M.setup_worker(i)
    for n in part:
        rc, out = M.sh("git -C %s apply %s/preserving/%s/patch.diff" % (wt, M.ROOT, n))
        if rc != 0:
            print("%s: patch does not apply" % n, flush=True); continue
        bad = []
        for c in M.ALL:
            rc, out = M.sh("./check %s --dev" % c, cwd=vb, env={"VERIF_REPO": wt}, timeout=1500)
            if rc != 0:
                first = next((l for l in out.split("\n") if l.startswith("  [")), "")[:200]
                bad.append(c); print("FALSE-ALARM %s %s :: %s" % (n, c, first), flush=True)
        print("%s: done%s" % (n, "" if not bad else " ALARMS " + ",".join(bad)), flush=True)
        M.sh("git -C %s checkout -- ." % wt)
with ThreadPoolExecutor(max_workers=nw) as ex:
    list(ex.map(w, enumerate([names[i::nw] for i in range(nw)])))
print("keep battery finished")
