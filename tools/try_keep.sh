#!/bin/bash
# usage: tools/try_keep.sh <patch file> [check ids...]   applies a behaviour-preserving patch to /repo, runs the checks (DEV unless FULL=1), reverts.
# Any VIOLATION here is a false alarm of the machinery (or the patch is not behaviour-preserving after all).
P=$1; shift
CH=${@:-C01 C02 C03 C04 C05 C06 C07 C08 C09 C10 C11 C12 C13 C14 C15 C16 C17}
cd /verif
if [ -n "$(git -C /repo status --porcelain --untracked-files=no)" ]; then echo "/repo not clean"; exit 2; fi
git -C /repo apply $P || { echo "$P: patch does not apply"; exit 2; }
if [ -n "${FULL:-}" ]; then FLAG=""; else FLAG="--dev"; fi
for c in $CH; do
  out=$(./check $c $FLAG 2>&1); rc=$?
  nv=$(echo "$out" | grep -c "^VIOLATION")
  if [ $rc -ne 0 ]; then echo "$(basename $P) $c rc=$rc violations=$nv :: $(echo "$out" | grep -m1 '^  \[' | cut -c1-260)"; fi
done
echo "$(basename $P): done"
git -C /repo checkout -- .
