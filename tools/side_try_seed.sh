#!/bin/bash
# like try_seed.sh but against a PRIVATE copy of /verif (/tmp/vb) and of /repo's HEAD (/tmp/vb_repo): usable while /repo is busy.
# usage: tools/side_try_seed.sh <seed dir name under seeded/> <check ids...>      (DEV=1 for --dev)
S=$1; shift
VB=/tmp/vb${IDX:-}; VR=/tmp/vb_repo${IDX:-}
mkdir -p $VB
rsync -a --exclude 'build/target*' --exclude 'build/cov' --exclude '.git' --exclude 'evidence' --exclude 'replays' /verif/ $VB/
mkdir -p $VB/evidence $VB/replays
if [ ! -d $VR ]; then git -C /repo worktree add -q --detach $VR HEAD; fi
git -C $VR checkout -q --detach $(git -C /repo rev-parse HEAD); git -C $VR checkout -- .
sed -i "s#/repo/embedded-cli#$VR/embedded-cli#" $VB/harness/Cargo.toml
export VERIF_REPO=$VR
cd $VB
git -C $VR apply /verif/seeded/$S/patch.diff || { echo "$S: patch does not apply"; exit 2; }
for c in "$@"; do
  out=$(./check $c ${DEV:+--dev} 2>&1); rc=$?
  nv=$(echo "$out" | grep -c "^VIOLATION")
  nf=$(echo "$out" | grep "^VIOLATION" | grep -vc "no-failing-input-found")
  echo "$S $c rc=$rc violations=$nv with_failing_input=$nf :: $(echo "$out" | grep -m1 '^  \[' | cut -c1-220)"
done
git -C $VR checkout -- .
