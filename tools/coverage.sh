#!/bin/bash
# development aid: which lines of /repo/embedded-cli/src do the families of the 17 checks execute? (dev mode, nightly -C instrument-coverage)
# usage: tools/coverage.sh [Cxx ...]   -> build/cov/report.txt, build/cov/uncovered.txt
cd /verif
rm -rf build/cov; mkdir -p build/cov
export VERIF_COV=1
PROPS=${@:-C01 C02 C03 C04 C05 C06 C07 C08 C09 C10 C11 C12 C13 C14 C15 C16 C17}
for p in $PROPS; do ./check $p --dev 2>&1 | tail -1; done
BIN=$(rustc +nightly --print sysroot)/lib/rustlib/x86_64-unknown-linux-gnu/bin
$BIN/llvm-profdata merge -sparse build/cov/*.profraw -o build/cov/all.profdata
OBJS=""; for b in build/target-cov-*/debug/verif-harness; do if [ -z "$OBJS" ]; then OBJS="$b"; else OBJS="$OBJS -object $b"; fi; done
$BIN/llvm-cov report $OBJS -instr-profile=build/cov/all.profdata /repo/embedded-cli/src > build/cov/report.txt 2>/dev/null
$BIN/llvm-cov show $OBJS -instr-profile=build/cov/all.profdata /repo/embedded-cli/src -show-line-counts-or-regions 2>/dev/null > build/cov/show.txt
python3 - <<'PY'
import re
cur=None; out=[]
for l in open('/verif/build/cov/show.txt'):
    m=re.match(r'^(/repo/\S+):$', l)
    if m: cur=m.group(1); continue
    m=re.match(r'^\s*(\d+)\|\s*0\|(.*)$', l)
    if m and cur: out.append("%s:%s: %s" % (cur, m.group(1), m.group(2)))
open('/verif/build/cov/uncovered.txt','w').write("\n".join(out)+"\n")
print(len(out), "uncovered lines -> build/cov/uncovered.txt")
PY
rm -f build/cov/*.profraw
cat build/cov/report.txt | tail -25
