#!/usr/bin/env python3
"""every kept seed (seeded/*/patch.diff) against the check of the property it was written for (dev mode), in <lanes> private copies of
/verif and /repo's HEAD. A seed whose check stays quiet is printed as `MISSED <seed>`. usage: tools/seed_battery.py <lanes> [names...]"""
import os, sys, json, subprocess
from concurrent.futures import ThreadPoolExecutor
ROOT = os.path.dirname(os.path.dirname(os.path.abspath(__file__)))
lanes = int(sys.argv[1])
names = sys.argv[2:] or sorted(d for d in os.listdir(os.path.join(ROOT, "seeded")) if os.path.exists(os.path.join(ROOT, "seeded", d, "patch.diff")))
def lane(a):
    i, part = a
    for n in part:
        prop = n.split("-")[0]
        try:
            m = json.load(open(os.path.join(ROOT, "seeded", n, "meta.json")))
            checks = [c["check"] for c in m.get("caught_by", []) if c.get("exit") == 1] or [prop]
        except Exception:
            checks = [prop]
        if prop in checks:
            checks = [prop]
        else:
            checks = checks[:1]
        r = subprocess.run(["tools/side_try_seed.sh", n] + checks, cwd=ROOT, env=dict(os.environ, DEV="1", IDX="s%d" % i), capture_output=True, text=True)
        lines = [l for l in r.stdout.splitlines() if l.startswith(n + " ")]
        ok = any(" rc=1 " in l for l in lines)
        print(("caught " if ok else "MISSED ") + n + " :: " + (lines[-1][:160] if lines else r.stdout[-200:].replace("\n", " ")), flush=True)
with ThreadPoolExecutor(max_workers=lanes) as ex:
    list(ex.map(lane, enumerate([names[i::lanes] for i in range(lanes)])))
print("seed battery finished")
