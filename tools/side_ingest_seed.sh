#!/bin/bash
# usage: tools/ingest_seed.sh <Cxx> <outdir of sub-agent> <mN> <dest id> [extra check ids...]
# verify in a scratch worktree, reject duplicates of an existing seed, run the property's check (DEV unless FULL=1) against it, write meta.json
set -u
P=$1; OUT=$2; M=$3; DEST=$4; shift 4
cd /verif
[ -f $OUT/$M.patch.diff ] || { echo "$DEST: no $M.patch.diff"; exit 0; }
sig() { grep -E '^[+-][^+-]' "$1" | grep -vE '^[+-]\s*//' | sed -E 's/\s+//g' | sort | md5sum | cut -d' ' -f1; }
NEW=$(sig $OUT/$M.patch.diff)
for d in seeded/*/; do
  [ -f $d/patch.diff ] || continue
  if [ "$(sig $d/patch.diff)" = "$NEW" ]; then echo "$DEST: DUPLICATE of $d"; exit 0; fi
done
tools/verify_seed.sh $OUT $M $DEST | tail -2
[ -d seeded/$DEST ] || exit 0
if [ -n "${FULL:-}" ]; then RES=$(DEV= tools/side_try_seed.sh $DEST $P "$@"); else RES=$(DEV=1 tools/side_try_seed.sh $DEST $P "$@"); fi
echo "$RES"
python3 - "$P" "$DEST" "$RES" <<'PY'
import json,sys,re,os
p,dest,res=sys.argv[1:4]
d='/verif/seeded/'+dest
notes=open(d+'/notes.md').read()
caught=[]
for line in res.splitlines():
    m=re.match(r'(\S+) (\S+) rc=(\d+) violations=(\d+) with_failing_input=(\d+) :: (.*)',line)
    if m: caught.append({"check":m.group(2),"exit":int(m.group(3)),"violations":int(m.group(4)),"with_failing_input":int(m.group(5)),"first_report":m.group(6).strip()})
files={"patch":"patch.diff","notes":"notes.md"}
if os.path.exists(d+'/demo.rs'): files["demonstration"]="demo.rs"
if os.path.exists(d+'/demo.patch.diff'): files["demonstration"]="demo.patch.diff"
meta={"property_id":p,"seed":dest,"round":int(os.environ.get("ROUND","3")),"files":files,"what_it_breaks":notes[:400].replace("\n"," "),
 "confirmed_by_me":{"how":"tools/verify_seed.sh (scratch worktree of /repo HEAD outside /repo and /verif, removed afterwards): demo passes on HEAD and fails with the patch; cargo test --workspace with the patch: 172 passed"},
 "checks_run":"tools/side_try_seed.sh (git -C /repo apply; ./check; git -C /repo checkout -- .)","caught_by":caught}
json.dump(meta,open(d+'/meta.json','w'),indent=1)
PY
