#!/usr/bin/env python3
"""usage: tools/side_remeta.py <seed> <Cxx> "<note>"  - re-runs the property's check against a seed (dev mode) and rewrites caught_by in meta.json"""
import json, os, re, subprocess, sys
seed, prop, note = sys.argv[1], sys.argv[2], (sys.argv[3] if len(sys.argv) > 3 else None)
d = '/verif/seeded/' + seed
res = subprocess.run(['tools/side_try_seed.sh', seed, prop], cwd='/verif', env=dict(os.environ, DEV='1'), capture_output=True, text=True).stdout
print(res.strip())
caught = []
for line in res.splitlines():
    m = re.match(r'(\S+) (\S+) rc=(\d+) violations=(\d+) with_failing_input=(\d+) :: (.*)', line)
    if m: caught.append({"check": m.group(2), "exit": int(m.group(3)), "violations": int(m.group(4)), "with_failing_input": int(m.group(5)), "first_report": m.group(6).strip()})
mp = d + '/meta.json'
if os.path.exists(mp):
    meta = json.load(open(mp))
else:
    notes = open(d + '/notes.md').read()
    files = {"patch": "patch.diff", "notes": "notes.md", "demonstration": "demo.rs"}
    if os.path.exists(d + '/demo_features.txt'): files["demo_features"] = "demo_features.txt"
    meta = {"property_id": prop, "seed": seed, "round": 3, "files": files, "what_it_breaks": notes[:400].replace("\n", " "),
            "confirmed_by_me": {"how": "tools/verify_seed(_feat).sh (scratch worktree of /repo HEAD outside /repo and /verif, removed afterwards): demo passes on HEAD and fails with the patch; cargo test --workspace with the patch: 172 passed"},
            "checks_run": "tools/try_seed.sh (git -C /repo apply; ./check; git -C /repo checkout -- .)"}
meta["caught_by"] = caught
if note: meta["history"] = note
json.dump(meta, open(mp, 'w'), indent=1)
