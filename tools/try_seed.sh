#!/bin/bash
# usage: tools/try_seed.sh <seed dir name under seeded/> <check ids...>   applies the patch to /repo, runs the checks, reverts
S=$1; shift
cd /verif
if [ -n "$(git -C /repo status --porcelain --untracked-files=no)" ]; then echo "/repo not clean"; exit 2; fi
git -C /repo apply /verif/seeded/$S/patch.diff || { echo "$S: patch does not apply"; exit 2; }
for c in "$@"; do
  out=$(./check $c ${DEV:+--dev} 2>&1); rc=$?
  nv=$(echo "$out" | grep -c "^VIOLATION")
  nf=$(echo "$out" | grep "^VIOLATION" | grep -vc "no-failing-input-found")
  echo "$S $c rc=$rc violations=$nv with_failing_input=$nf :: $(echo "$out" | grep -m1 '^  \[' | cut -c1-220)"
done
git -C /repo checkout -- .
