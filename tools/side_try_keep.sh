#!/bin/bash
# a behaviour-preserving patch against ALL 17 checks (dev mode) in a PRIVATE copy of /verif and of /repo's HEAD (usable while /repo is busy,
# several at once with different IDX). usage: IDX=<n> tools/side_try_keep.sh <abs patch> [checks...]    -> lines `FALSE-ALARM ...` or `<patch>: quiet`
P=$1; shift
IDX=${IDX:-0}
VB=/tmp/vbk$IDX; VR=/tmp/vbk_repo$IDX
mkdir -p $VB
rsync -a --exclude 'build/target*' --exclude 'build/cov' --exclude 'build/mut*' --exclude '.git' --exclude 'evidence' --exclude 'replays' --exclude 'seeded' --exclude 'preserving' /verif/ $VB/
mkdir -p $VB/evidence $VB/replays
if [ ! -d $VR ]; then git -C /repo worktree add -q --detach $VR HEAD; fi
git -C $VR checkout -q --detach $(git -C /repo rev-parse HEAD); git -C $VR reset -q --hard; git -C $VR clean -fdq
sed -i "s#/repo/embedded-cli#$VR/embedded-cli#" $VB/harness/Cargo.toml
export VERIF_REPO=$VR
cd $VB
git -C $VR apply $P || { echo "$P: patch does not apply"; exit 2; }
CHECKS=${@:-C01 C02 C03 C04 C05 C06 C07 C08 C09 C10 C11 C12 C13 C14 C15 C16 C17}
bad=""
for c in $CHECKS; do
  out=$(./check $c --dev 2>&1); rc=$?
  if [ $rc -ne 0 ]; then bad="$bad $c"; echo "FALSE-ALARM $P $c :: $(echo "$out" | grep -m1 '^  \[' | cut -c1-260)"; fi
done
git -C $VR checkout -- .
if [ -z "$bad" ]; then echo "$P: quiet"; else echo "$P: ALARMS$bad"; fi
