#!/bin/bash
# usage: tools/verify_seed.sh <outdir of sub-agent> <mN> <dest id>
# Confirms in a scratch worktree of /repo's HEAD: patch applies, workspace tests pass with it, demo fails with it and passes without it.
set -u
OUT=$1; M=$2; DEST=$3
WT=/tmp/seedchk
export CARGO_NET_OFFLINE=true CARGO_TARGET_DIR=/tmp/seedchk_target
if [ ! -d $WT ]; then git -C /repo worktree add -q --detach $WT HEAD; fi
git -C $WT checkout -q --detach $(git -C /repo rev-parse HEAD); git -C $WT checkout -- . ; git -C $WT clean -fdq
R=""
if ! git -C $WT apply --check $OUT/$M.patch.diff 2>/dev/null; then echo "$DEST: PATCH DOES NOT APPLY"; exit 1; fi
if [ -f $OUT/$M.demo.rs ]; then cp $OUT/$M.demo.rs $WT/embedded-cli/tests/seed_demo.rs; DEMO="--test seed_demo"; else git -C $WT apply $OUT/$M.demo.patch.diff; DEMO=""; fi
# demo without patch
( cd $WT && cargo test --offline -p embedded-cli $DEMO >/tmp/seedchk_a.log 2>&1 ); A=$?
git -C $WT apply $OUT/$M.patch.diff
( cd $WT && cargo test --offline -p embedded-cli $DEMO >/tmp/seedchk_b.log 2>&1 ); B=$?
rm -f $WT/embedded-cli/tests/seed_demo.rs
if [ -z "$DEMO" ]; then git -C $WT apply -R $OUT/$M.demo.patch.diff; fi
( cd $WT && cargo test --offline --workspace >/tmp/seedchk_c.log 2>&1 ); C=$?
NT=$(grep -E "^test result" /tmp/seedchk_c.log | awk '{s+=$4} END {print s}')
echo "$DEST: demo_without_patch_rc=$A demo_with_patch_rc=$B suite_with_patch_rc=$C suite_passed=$NT"
git -C $WT checkout -- . ; git -C $WT clean -fdq
if [ $A -eq 0 ] && [ $B -ne 0 ] && [ $C -eq 0 ]; then
  mkdir -p /verif/seeded/$DEST
  cp $OUT/$M.patch.diff /verif/seeded/$DEST/patch.diff
  [ -f $OUT/$M.demo.rs ] && cp $OUT/$M.demo.rs /verif/seeded/$DEST/demo.rs
  [ -f $OUT/$M.demo.patch.diff ] && cp $OUT/$M.demo.patch.diff /verif/seeded/$DEST/demo.patch.diff
  cp $OUT/$M.notes.md /verif/seeded/$DEST/notes.md
  echo "$DEST: CONFIRMED"
else
  echo "$DEST: NOT CONFIRMED"; tail -5 /tmp/seedchk_a.log /tmp/seedchk_b.log /tmp/seedchk_c.log
fi
