#!/bin/bash
# runs every seed against the check of its property (DEV unless FULL=1); prints one line per seed; exits 1 if a seed is missed
cd /verif
miss=0
for d in seeded/*/; do
  s=$(basename $d); p=${s%%-*}
  if [ -n "${FULL:-}" ]; then r=$(DEV= tools/try_seed.sh $s $p); else r=$(DEV=1 tools/try_seed.sh $s $p); fi
  echo "$r" | cut -c1-200
  echo "$r" | grep -q "rc=1" || miss=1
  echo "$r" | grep -q "with_failing_input=0" && echo "   ^^ no failing input"
done
exit $miss
