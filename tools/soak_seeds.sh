#!/bin/bash
# soak: every check in dev mode (proofs are seed-independent) under many generator seeds on the UNCHANGED tree; any VIOLATION is a false alarm
# (or a genuine defect) to look at. usage: tools/soak_seeds.sh <from> <to>
cd "$(dirname "$0")/.."
for seed in $(seq $1 $2); do
  for p in C01 C02 C03 C04 C05 C06 C07 C08 C09 C10 C11 C12 C13 C14 C15 C16 C17; do
    out=$(VERIF_SEED=$seed ./check $p --dev 2>&1); rc=$?
    if [ $rc -ne 0 ]; then echo "SEED $seed $p rc=$rc :: $(echo "$out" | grep -m2 '^  \[' | cut -c1-300)"; echo "$out" | grep "^VIOLATION" | head -3; fi
  done
  echo "seed $seed done"
done
