#!/usr/bin/env python3
"""Mechanical mutation sweep (development aid, not a registered check): small syntactic mutants of the library source, each
(1) compiled and run against the repository's own 172 tests in a private worktree, and - if it survives them -
(2) run against the property checks (dev mode) in a private copy of /verif.
A mutant that survives the tests AND all checks is either equivalent (no observable change) or a gap in the checks: listed for review.

usage: tools/mutsweep.py gen                      -> build/mut/mutants.json
       tools/mutsweep.py run <workers> [limit]    -> build/mut/results.jsonl (resumable)
       tools/mutsweep.py report
"""
import json, os, re, subprocess, sys, time, random, shutil, hashlib
from concurrent.futures import ThreadPoolExecutor

ROOT = os.path.dirname(os.path.dirname(os.path.abspath(__file__)))
REPO = "/repo"
OUT = os.path.join(ROOT, "build", "mut")
FILES = ["embedded-cli/src/" + f for f in ["arguments.rs", "autocomplete.rs", "cli.rs", "command.rs", "editor.rs", "help.rs", "history.rs", "input.rs",
                                           "token.rs", "utf8.rs", "utils.rs", "writer.rs", "builder.rs", "service.rs"]] + \
        ["embedded-cli-macros/src/" + f for f in ["command/args.rs", "command/autocomplete.rs", "command/doc.rs", "command/help.rs", "command/mod.rs",
                                                  "command/model.rs", "command/parse.rs", "group/command_group.rs", "group/mod.rs", "processor.rs", "utils.rs"]]
CHECKS_FOR = {
    "utf8.rs": ["C02", "C04", "C17"], "input.rs": ["C04", "C02", "C01"], "utils.rs": ["C17", "C05", "C11", "C08"], "editor.rs": ["C05", "C11", "C06", "C03"],
    "token.rs": ["C07", "C01"], "arguments.rs": ["C08", "C09", "C12"], "history.rs": ["C10", "C03"], "writer.rs": ["C13", "C15", "C06"],
    "cli.rs": ["C01", "C06", "C13", "C14", "C15", "C10", "C11", "C12"], "command.rs": ["C01", "C07", "C08"], "help.rs": ["C12", "C16"],
    "autocomplete.rs": ["C11", "C02", "C03"], "builder.rs": ["C01", "C15"], "service.rs": ["C09", "C13"],
}
ALL = ["C%02d" % i for i in range(1, 18)]

OPS = [
    (r" < ", " <= "), (r" <= ", " < "), (r" > ", " >= "), (r" >= ", " > "), (r" == ", " != "), (r" != ", " == "),
    (r" && ", " || "), (r" \|\| ", " && "), (r" \+ 1\b", ""), (r" - 1\b", ""), (r" \+ ", " - "), (r" - ", " + "),
    (r" \+= ", " -= "), (r" -= ", " += "), (r"\btrue\b", "false"), (r"\bfalse\b", "true"),
    (r"\bif !", "if "), (r"\.is_some\(\)", ".is_none()"), (r"\.is_none\(\)", ".is_some()"), (r"\.is_empty\(\)", ".is_empty() == false"),
    (r"\?;\s*$", ".ok();"), (r"\bSome\(0\)", "Some(1)"), (r"\b0x([0-9A-Fa-f]{2})\b", None), (r"(?<![\w.])([1-9])\b(?!\w)", None),
    (r"\.\.=", ".."), (r"(?<!\.)\.\.(?![.=])", "..="),
]


def eligible_lines(path):
    src = open(os.path.join(REPO, path)).read().split("\n")
    out = []
    skip_hook = False
    in_fmt = False
    for i, l in enumerate(src):
        st = l.strip()
        if st.startswith("#[cfg(test)]"):
            break
        if 'cfg(feature = "verif-hooks")' in l:
            skip_hook = True
            continue
        if skip_hook:
            if l.rstrip() == "}":
                skip_hook = False
            continue
        if "fn fmt(&self" in l:
            in_fmt = True
        if in_fmt:
            if l.startswith("    }") and l.rstrip() == "    }":
                in_fmt = False
            continue
        if not st or st.startswith("//") or st.startswith("#[") or st.startswith("use ") or st.startswith("pub use ") or st.startswith("///") or st.startswith("//!"):
            continue
        if "unreachable!" in l or "expect(" in l or "Error::custom" in l:
            continue
        out.append(i)
    return src, out


MODE = os.environ.get("MUT_MODE", "ops")       # "ops" (operator mutants), "delete" (statement deletion) or "swap" (sibling identifiers)
if MODE == "delete":
    OUT = os.path.join(ROOT, "build", "mut-delete")
if MODE == "swap":
    OUT = os.path.join(ROOT, "build", "mut-swap")
    # an identifier replaced by a sibling of the same type / role (what a slip of the hand or a wrong completion produces)
    SIB = [("cursor", "valid"), ("valid", "cursor"), ("move_left", "move_right"), ("move_right", "move_left"), ("next_older", "next_newer"), ("next_newer", "next_older"),
           ("CURSOR_FORWARD", "CURSOR_BACKWARD"), ("CURSOR_BACKWARD", "CURSOR_FORWARD"), ("INSERT_CHAR", "DELETE_CHAR"), ("DELETE_CHAR", "INSERT_CHAR"),
           ("write_str", "writeln_str"), ("writeln_str", "write_str"), ("flush_str", "write_str"), ("flush_bytes", "write_bytes"), ("write_bytes", "flush_bytes"),
           ("LongOption", "ShortOption"), ("ShortOption", "LongOption"), ("Forward", "Back"), ("Back", "Forward"), ("Up", "Down"), ("Down", "Up"),
           ("Backspace", "Tab"), ("CARRIAGE_RETURN", "LINE_FEED"), ("LINE_FEED", "CARRIAGE_RETURN"), ("first", "last"), ("last", "first"), ("min", "max"), ("max", "min"),
           ("start", "end"), ("end", "start"), ("used", "cursor"), ("expected", "partial"), ("partial", "expected"), ("older", "newer"),
           ("long", "short"), ("short", "long"), ("is_optional", "is_option"), ("Quoted", "Normal"), ("Normal", "Space"), ("Space", "Normal"), ("Unescape", "Quoted"),
           ("insert", "remove"), ("name", "value_name"), ("value_name", "name"), ("text", "element"), ("len", "cursor"), ("len()", "text().len()"),
           ("chars().count()", "len()"), ("as_bytes().len()", "chars().count()"), ("position", "rposition"), ("find", "rfind"), ("trim_start", "trim_end"),
           ("starts_with", "ends_with"), ("skip_while", "take_while"), ("take_while", "skip_while"), ("unwrap_or(0)", "unwrap_or(1)"), ("Ok(())", "Err(Default::default())")]


def gen():
    os.makedirs(OUT, exist_ok=True)
    muts = []
    for path in FILES:
        src, lines = eligible_lines(path)
        for i in lines:
            l = src[i]
            code = l.split(" //")[0]
            for pat, rep in OPS:
                for m in re.finditer(pat, code):
                    # do not touch generics / lifetimes / attribute-like text and string literals (roughly)
                    pre = code[:m.start()]
                    if pre.count('"') % 2 == 1:
                        continue
                    if rep is None:
                        tok = m.group(1)
                        if pat.startswith(r"\b0x"):
                            new = "0x%02X" % ((int(tok, 16) + 1) % 256)
                            newl = code[:m.start()] + new + code[m.end():]
                        else:
                            newl = code[:m.start(1)] + str(int(tok) + 1) + code[m.end(1):]
                    else:
                        newl = code[:m.start()] + m.expand(rep) + code[m.end():]
                    if newl == code:
                        continue
                    muts.append({"file": path, "line": i + 1, "old": l, "new": newl + l[len(code):]})
            if MODE == "swap":
                for a_, b_ in SIB:
                    for m in re.finditer(r"(?<![\w])" + re.escape(a_) + r"(?![\w])", code):
                        if code[:m.start()].count('"') % 2 == 1:
                            continue
                        # not a declaration of the identifier itself
                        if re.search(r"\b(fn|let|let mut|struct|enum|mod|const|pub)\s+$", code[:m.start()]):
                            continue
                        muts.append({"file": path, "line": i + 1, "old": l, "new": code[:m.start()] + b_ + code[m.end():] + l[len(code):], "swap": True})
            # statement deletion: a single-line statement that is not a declaration (assignment, compound assignment, call)
            st = code.strip()
            if MODE == "delete" and st.endswith(";") and not st.startswith(("let ", "return", "use ", "pub ", "const ", "static ", "type ", "break", "continue")) \
                    and re.match(r"^[\w\*\.\[\]\(\)&]+(\s*[-+*|&]?=\s|\.|\(|::)", st):
                muts.append({"file": path, "line": i + 1, "old": l, "new": l[:len(l) - len(l.lstrip())] + "/* deleted */"})
    if MODE == "delete":
        muts = [m for m in muts if m["new"].strip() == "/* deleted */"]
    if MODE == "swap":
        muts = [m for m in muts if m.get("swap")]
    # dedupe, stable ids
    seen, res = set(), []
    for m in muts:
        k = (m["file"], m["line"], m["new"])
        if k in seen:
            continue
        seen.add(k)
        m["id"] = hashlib.md5(("%s:%d:%s" % k).encode()).hexdigest()[:10]
        res.append(m)
    json.dump(res, open(os.path.join(OUT, "mutants.json"), "w"), indent=0)
    by = {}
    for m in res:
        by[m["file"]] = by.get(m["file"], 0) + 1
    print(len(res), "mutants")
    for f, n in sorted(by.items()):
        print("  %4d %s" % (n, f))


def sh(cmd, cwd=None, env=None, timeout=600):
    e = dict(os.environ)
    e["CARGO_NET_OFFLINE"] = "true"
    if env:
        e.update(env)
    try:
        p = subprocess.run(cmd, cwd=cwd, env=e, capture_output=True, text=True, timeout=timeout, shell=isinstance(cmd, str))
        return p.returncode, p.stdout + p.stderr
    except subprocess.TimeoutExpired as te:
        return 124, "TIMEOUT"


def setup_worker(w):
    w += int(os.environ.get("MUT_WOFF", "0"))          # several sweeps / batteries at once: disjoint scratch directories
    wt, vb = "/tmp/mut_w%d" % w, "/tmp/mut_v%d" % w
    if not os.path.isdir(wt):
        sh("git -C /repo worktree add -q --detach %s HEAD" % wt)
    sh("git -C %s checkout -q --detach $(git -C /repo rev-parse HEAD); git -C %s reset -q --hard; git -C %s clean -fdq -e target" % (wt, wt, wt))
    os.makedirs(vb, exist_ok=True)
    sh("rsync -a --exclude 'build/target*' --exclude 'build/cov' --exclude 'build/mut' --exclude '.git' --exclude evidence --exclude replays --exclude seeded --exclude preserving %s/ %s/" % (ROOT, vb))
    os.makedirs(vb + "/evidence", exist_ok=True)
    os.makedirs(vb + "/replays", exist_ok=True)
    sh("sed -i 's#/repo/embedded-cli#%s/embedded-cli#' %s/harness/Cargo.toml" % (wt, vb))
    return wt, vb


def run_checks(vb, wt, checks):
    """first check that reports a violation: (check, with_failing_input, first line)"""
    for c in checks:
        rc, out = sh("./check %s --dev" % c, cwd=vb, env={"VERIF_REPO": wt, "VERIF_CHUNK_TIMEOUT": "60"}, timeout=1500)
        if rc != 0:
            v = [l for l in out.split("\n") if l.startswith("VIOLATION")]
            nf = len([l for l in v if "no-failing-input-found" not in l])
            first = next((l for l in out.split("\n") if l.startswith("  [")), "")[:200]
            return c, nf, first
    return None, 0, ""


def worker(w, todo, resf):
    wt, vb = setup_worker(w)
    tdir = wt + "/target"
    # warm builds
    sh("cargo test --workspace --offline --no-run", cwd=wt, env={"CARGO_TARGET_DIR": tdir}, timeout=1800)
    for m in todo:
        path = os.path.join(wt, m["file"])
        src = open(path).read().split("\n")
        if src[m["line"] - 1] != m["old"]:
            continue
        src[m["line"] - 1] = m["new"]
        open(path, "w").write("\n".join(src))
        t0 = time.time()
        rc, out = sh("cargo test --workspace --offline", cwd=wt, env={"CARGO_TARGET_DIR": tdir}, timeout=400)
        res = {"id": m["id"], "file": m["file"], "line": m["line"], "new": m["new"].strip(), "old": m["old"].strip()}
        if rc == 124:
            res["status"] = "killed_by_tests(timeout)"
        elif "error: could not compile" in out or "error[E" in out or ("error:" in out and "test result" not in out):
            res["status"] = "nocompile"
        elif rc != 0:
            res["status"] = "killed_by_tests"
        else:
            base = os.path.basename(m["file"])
            first = CHECKS_FOR.get(base, ["C09", "C12", "C11", "C16"] if "macros" in m["file"] else ALL)
            c, nf, line = run_checks(vb, wt, first)
            if c is None:
                c, nf, line = run_checks(vb, wt, [x for x in ALL if x not in first])
            res["status"] = "caught" if c else "UNDETECTED"
            res["check"], res["with_failing_input"], res["report"] = c, nf, line
        res["secs"] = round(time.time() - t0, 1)
        sh("git -C %s checkout -- ." % wt)
        with open(resf, "a") as f:
            f.write(json.dumps(res) + "\n")


def run(nw, limit=None):
    muts = json.load(open(os.path.join(OUT, "mutants.json")))
    resf = os.path.join(OUT, "results.jsonl")
    done = set()
    if os.path.exists(resf):
        for l in open(resf):
            done.add(json.loads(l)["id"])
    todo = [m for m in muts if m["id"] not in done]
    random.Random(7).shuffle(todo)
    if limit:
        todo = todo[:limit]
    print(len(todo), "mutants to run with", nw, "workers")
    parts = [todo[i::nw] for i in range(nw)]
    with ThreadPoolExecutor(max_workers=nw) as ex:
        list(ex.map(lambda a: worker(a[0], a[1], resf), enumerate(parts)))
    report()


def rerun(nw):
    """the mutants left UNDETECTED by an earlier run, against the checks as they are now (fresh private copies of /verif)"""
    muts = {m["id"]: m for m in json.load(open(os.path.join(OUT, "mutants.json")))}
    rs = [json.loads(l) for l in open(os.path.join(OUT, "results.jsonl"))]
    todo = [muts[r["id"]] for r in rs if r["status"] == "UNDETECTED" and r["id"] in muts]
    resf = os.path.join(OUT, "rerun.jsonl")
    if os.path.exists(resf):
        os.remove(resf)
    print(len(todo), "undetected mutants to re-run")

    def w(a):
        i, part = a
        wt, vb = setup_worker(i)
        for m in part:
            path = os.path.join(wt, m["file"])
            src = open(path).read().split("\n")
            src[m["line"] - 1] = m["new"]
            open(path, "w").write("\n".join(src))
            base = os.path.basename(m["file"])
            first = CHECKS_FOR.get(base, ["C09", "C12", "C11", "C14", "C16"] if "macros" in m["file"] else ALL)
            c, nf, line = run_checks(vb, wt, first)
            if c is None:
                c, nf, line = run_checks(vb, wt, [x for x in ALL if x not in first])
            sh("git -C %s checkout -- ." % wt)
            with open(resf, "a") as f:
                f.write(json.dumps({"id": m["id"], "file": m["file"], "line": m["line"], "old": m["old"].strip(), "new": m["new"].strip(),
                                    "status": "caught" if c else "UNDETECTED", "check": c, "with_failing_input": nf, "report": line}) + "\n")
    with ThreadPoolExecutor(max_workers=nw) as ex:
        list(ex.map(w, enumerate([todo[i::nw] for i in range(nw)])))
    for l in open(resf):
        r = json.loads(l)
        print(r["status"], r["check"], "%s:%d" % (r["file"], r["line"]), r["new"][:80])


def report():
    resf = os.path.join(OUT, "results.jsonl")
    rs = [json.loads(l) for l in open(resf)]
    by = {}
    for r in rs:
        by[r["status"]] = by.get(r["status"], 0) + 1
    print(len(rs), "mutants run:", by)
    surv = [r for r in rs if r["status"] in ("caught", "UNDETECTED")]
    print("survived the repository's tests: %d; caught by the checks: %d; undetected: %d" % (
        len(surv), len([r for r in surv if r["status"] == "caught"]), len([r for r in surv if r["status"] == "UNDETECTED"])))
    nofi = [r for r in surv if r["status"] == "caught" and not r.get("with_failing_input")]
    print("caught without a failing input: %d" % len(nofi))
    for r in surv:
        if r["status"] == "UNDETECTED":
            print("UNDETECTED %s:%d  %s  ->  %s" % (r["file"], r["line"], r["old"][:90], r["new"][:90]))


if __name__ == "__main__":
    if sys.argv[1] == "gen":
        gen()
    elif sys.argv[1] == "rerun":
        rerun(int(sys.argv[2]))
    elif sys.argv[1] == "run":
        run(int(sys.argv[2]), int(sys.argv[3]) if len(sys.argv) > 3 else None)
    else:
        report()
