#!/bin/bash
# Runs seeds / behaviour-preserving patches against a PRIVATE copy of /verif and of /repo's HEAD (under /tmp), so that /repo and /verif stay
# free for other work. usage: tools/side_battery.sh keep|seed [names...]     (dev mode unless FULL=1)
#   keep: every preserving/<name>/patch.diff against all 17 checks - any line printed is a false alarm
#   seed: every seeded/<name>/patch.diff against the check of its property - a line with rc=0 is a miss
MODE=$1; shift
VB=/tmp/vb; VR=/tmp/vb_repo
rm -rf $VB; mkdir -p $VB
rsync -a --exclude 'build/target*' --exclude 'build/cov' --exclude '.git' /verif/ $VB/
git -C /repo worktree remove --force $VR 2>/dev/null; git -C /repo worktree prune
git -C /repo worktree add -q --detach $VR HEAD
sed -i "s#/repo/embedded-cli#$VR/embedded-cli#" $VB/harness/Cargo.toml
export VERIF_REPO=$VR
cd $VB
if [ -n "${FULL:-}" ]; then FLAG=""; else FLAG="--dev"; fi
ALL="C01 C02 C03 C04 C05 C06 C07 C08 C09 C10 C11 C12 C13 C14 C15 C16 C17"
if [ "$MODE" = keep ]; then
  NAMES=${@:-$(ls /verif/preserving)}
  for n in $NAMES; do
    git -C $VR apply /verif/preserving/$n/patch.diff || { echo "$n: patch does not apply"; continue; }
    for c in $ALL; do
      out=$(./check $c $FLAG 2>&1); rc=$?
      if [ $rc -ne 0 ]; then echo "FALSE-ALARM $n $c rc=$rc :: $(echo "$out" | grep -m1 '^  \[' | cut -c1-240)"; fi
    done
    echo "$n: done"
    git -C $VR checkout -- .
  done
else
  NAMES=${@:-$(ls /verif/seeded)}
  for n in $NAMES; do
    p=${n%%-*}
    git -C $VR apply /verif/seeded/$n/patch.diff || { echo "$n: patch does not apply"; continue; }
    out=$(./check $p $FLAG 2>&1); rc=$?
    nv=$(echo "$out" | grep -c "^VIOLATION"); nf=$(echo "$out" | grep "^VIOLATION" | grep -vc "no-failing-input-found")
    echo "$n $p rc=$rc violations=$nv with_failing_input=$nf :: $(echo "$out" | grep -m1 '^  \[' | cut -c1-160)"
    [ $rc -eq 0 ] && echo "MISSED $n"
    git -C $VR checkout -- .
  done
fi
git -C /repo worktree remove --force $VR; rm -rf $VB
echo "side battery finished"
