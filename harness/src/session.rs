//! Full-Cli session engine with a logging, fallible sink.

use crate::{as_str, hex, unhex};
use embedded_cli::arguments::Arg;
use embedded_cli::cli::{CliBuilder, CliHandle};
use embedded_cli::command::RawCommand;
use embedded_cli::writer::Writer;
use std::cell::RefCell;
use std::rc::Rc;

// the last two have the same BYTE length and different widths (a redraw shortcut that compares lengths in bytes)
pub const PROMPTS: [&str; 6] = ["", "$ ", "λ→ ", "abc> ", "» ", "#> "];

#[derive(Debug, Clone, PartialEq, Eq)]
pub enum SinkOp {
    W(Vec<u8>),
    F,
    XW,
    XF,
}

#[derive(Debug)]
pub struct SinkErr;
thread_local! {
    /// which embedded_io::ErrorKind the sink's error reports (session op `k:<n>`); the library must hand every kind back alike
    pub static ERR_KIND: RefCell<usize> = const { RefCell::new(0) };
}
impl embedded_io::Error for SinkErr {
    fn kind(&self) -> embedded_io::ErrorKind {
        match ERR_KIND.with(|k| *k.borrow()) {
            1 => embedded_io::ErrorKind::Unsupported,
            2 => embedded_io::ErrorKind::BrokenPipe,
            3 => embedded_io::ErrorKind::WriteZero,
            4 => embedded_io::ErrorKind::TimedOut,
            5 => embedded_io::ErrorKind::Interrupted,
            6 => embedded_io::ErrorKind::OutOfMemory,
            7 => embedded_io::ErrorKind::InvalidInput,
            _ => embedded_io::ErrorKind::Other,
        }
    }
}

#[derive(Debug)]
pub struct Sink {
    pub log: Vec<SinkOp>,
    pub calls: usize,
    pub fail_at: Option<usize>,
    pub perm: bool,
    /// a sink with a small transmit buffer: `write` accepts at most this many bytes per call (session op `y:<k>`, `y:0` = unlimited)
    pub limit: usize,
}

thread_local! {
    /// a fault armed BEFORE the Cli is constructed (leading session op `X:<k>:<once|perm>`): consumed by the next Sink::new()
    pub static INIT_FAULT: RefCell<Option<(usize, bool)>> = const { RefCell::new(None) };
}

impl Sink {
    pub fn new() -> Self {
        let init = INIT_FAULT.with(|f| f.borrow_mut().take());
        match init {
            Some((k, perm)) => Sink { log: vec![], calls: 0, fail_at: Some(k), perm, limit: 0 },
            None => Sink { log: vec![], calls: 0, fail_at: None, perm: false, limit: 0 },
        }
    }
    pub fn bytes(&self) -> Vec<u8> {
        let mut v = vec![];
        for op in &self.log {
            if let SinkOp::W(b) = op {
                v.extend_from_slice(b);
            }
        }
        v
    }
    fn should_fail(&mut self) -> bool {
        let n = self.calls;
        self.calls += 1;
        match self.fail_at {
            Some(k) if n == k => true,
            Some(k) if self.perm && n > k => true,
            _ => false,
        }
    }
    pub fn render(&self) -> String {
        if self.log.is_empty() {
            return "-".to_string();
        }
        self.log
            .iter()
            .map(|op| match op {
                SinkOp::W(b) => format!("W{}", hex(b)),
                SinkOp::F => "F".to_string(),
                SinkOp::XW => "XW".to_string(),
                SinkOp::XF => "XF".to_string(),
            })
            .collect::<Vec<_>>()
            .join(",")
    }
}

impl embedded_io::ErrorType for Sink {
    type Error = SinkErr;
}

impl embedded_io::Write for Sink {
    fn write(&mut self, buf: &[u8]) -> Result<usize, SinkErr> {
        if self.should_fail() {
            self.log.push(SinkOp::XW);
            return Err(SinkErr);
        }
        let n = if self.limit > 0 { buf.len().min(self.limit) } else { buf.len() };
        self.log.push(SinkOp::W(buf[..n].to_vec()));
        Ok(n)
    }
    fn flush(&mut self) -> Result<(), SinkErr> {
        if self.should_fail() {
            self.log.push(SinkOp::XF);
            return Err(SinkErr);
        }
        self.log.push(SinkOp::F);
        Ok(())
    }
}

/// one application-side writer operation: kind `s` write_str, `l` writeln_str, `u` ufmt uwrite!, `f` core::fmt write!,
/// `t` write_title, `e` write_list_element (arg = name.desc.longest)
pub fn writer_op<W: embedded_io::Write<Error = E>, E: embedded_io::Error>(
    w: &mut Writer<'_, W, E>,
    kind: &str,
    arg: &str,
    mkerr: fn() -> E,
) -> Result<(), E> {
    match kind {
        "s" => w.write_str(as_str(&unhex(arg))),
        "l" => w.writeln_str(as_str(&unhex(arg))),
        "u" => {
            let t = unhex(arg);
            ufmt::uwrite!(w, "{}", as_str(&t))
        }
        "f" => {
            let t = unhex(arg);
            // core::fmt::Write loses the error value; the application reports it as a sink error
            core::fmt::Write::write_fmt(w, format_args!("{}", as_str(&t))).map_err(|_| mkerr())
        }
        "c" => {
            // every character formatted on its own with `{}`: core::fmt goes through Write::write_char
            let t = unhex(arg);
            for ch in as_str(&t).chars() {
                core::fmt::Write::write_fmt(w, format_args!("{}", ch)).map_err(|_| mkerr())?;
            }
            Ok(())
        }
        "g" => {
            // write! / writeln! with a LITERAL format string and no run-time arguments (fmt::Arguments::as_str() is Some)
            let i = unhex(arg).first().copied().unwrap_or(0) as usize;
            write_literal(w, i).map_err(|_| mkerr())
        }
        "t" => w.write_title(as_str(&unhex(arg))),
        "e" => {
            let p: Vec<&str> = arg.split('.').collect();
            let name = unhex(if p[0].is_empty() { "." } else { p[0] });
            let desc = unhex(if p[1].is_empty() { "." } else { p[1] });
            w.write_list_element(as_str(&name), as_str(&desc), p[2].parse().unwrap())
        }
        _ => panic!("writer op {}", kind),
    }
}

/// the literal table of the `g` writer op / `do` handler action (mirrors Model/Handler.v : LITS)
pub fn write_literal<W: core::fmt::Write>(w: &mut W, i: usize) -> core::fmt::Result {
    match i % 8 {
        0 => write!(w, "done"),
        1 => write!(w, "one\ntwo\n"),
        2 => write!(w, ""),
        3 => writeln!(w, "x"),
        4 => write!(w, "a\r\nb"),
        5 => write!(w, "tail\r"),
        6 => writeln!(w, "\u{e9}\n"),
        _ => writeln!(w),
    }
}

/// one action of the scripted `do` command: the first byte of the value selects it, the rest is its text
fn do_action<W: embedded_io::Write<Error = E>, E: embedded_io::Error>(
    cli: &mut CliHandle<'_, W, E>,
    v: &str,
    mkerr: fn() -> E,
) -> Result<(), E> {
    let Some(k) = v.as_bytes().first().copied() else { return Ok(()) };
    if !v.is_char_boundary(1) {
        return Ok(()); // first character is not ASCII: no action (the model's selector byte matches no letter)
    }
    let t = &v[1..];
    let first = t.as_bytes().first().copied().unwrap_or(0) as usize;
    match k {
        b's' => cli.writer().write_str(t),
        b'l' => cli.writer().writeln_str(t),
        b'n' => cli.writer().write_str(&format!("{}\n", t)),
        b'm' => cli.writer().write_str(&format!("{}\n{}", t, t)),
        b'p' => {
            cli.set_prompt(PROMPTS[first % 4]);
            Ok(())
        }
        b'g' => write_literal(cli.writer(), first).map_err(|_| mkerr()),
        b'c' => {
            for ch in t.chars() {
                core::fmt::Write::write_fmt(cli.writer(), format_args!("{}", ch)).map_err(|_| mkerr())?;
            }
            Ok(())
        }
        b'f' => core::fmt::Write::write_fmt(cli.writer(), format_args!("{}", t)).map_err(|_| mkerr()),
        b'u' => ufmt::uwrite!(cli.writer(), "{}", t),
        b't' => cli.writer().write_title(t),
        b'e' => cli.writer().write_list_element(t, t, first % 8),
        _ => Ok(()),
    }
}

fn arg_repr(a: &Arg<'_>) -> Vec<u8> {
    match a {
        Arg::DoubleDash => b"--".to_vec(),
        Arg::LongOption(n) => {
            let mut v = b"--".to_vec();
            v.extend_from_slice(n.as_bytes());
            v
        }
        Arg::ShortOption(c) => {
            let mut v = b"-".to_vec();
            let mut buf = [0u8; 4];
            v.extend_from_slice(c.encode_utf8(&mut buf).as_bytes());
            v
        }
        Arg::Value(s) => s.as_bytes().to_vec(),
    }
}

/// The fixed application handler (mirrors `handler` in coq/Model/Handler.v)
/// `reject`: the processor is a hand-written CommandProcessor that may return Err(ParseError) AFTER writing (action `x` of `do`);
/// without it (RawCommand::processor, whose closure can only return sink errors) `x` just ends the action list
pub fn raw_handler<'a, W: embedded_io::Write<Error = E>, E: embedded_io::Error>(
    cli: &mut CliHandle<'_, W, E>,
    raw: RawCommand<'a>,
    log: &Rc<RefCell<Vec<String>>>,
    mkerr: fn() -> E,
    reject: bool,
) -> Result<(), embedded_cli::service::ProcessError<'a, E>> {
    log.borrow_mut().push(format!(
        "{}({})",
        hex(raw.name().as_bytes()),
        crate::engines::args_str(&raw.args())
    ));
    let vals: Vec<&'a str> = raw
        .args()
        .args()
        .filter_map(|a| if let Arg::Value(v) = a { Some(v) } else { None })
        .collect();
    match raw.name() {
        "echo" => {
            for (i, v) in vals.iter().enumerate() {
                if i > 0 {
                    cli.writer().write_str(" ")?;
                }
                cli.writer().write_str(v)?;
            }
        }
        "nl" => {
            for v in &vals {
                let s = format!("{}\n", v);
                cli.writer().write_str(&s)?;
            }
        }
        "crlf" => {
            for v in &vals {
                cli.writer().write_str(v)?;
                cli.writer().write_str("\r\n")?;
            }
        }
        "ln" => {
            for v in &vals {
                cli.writer().writeln_str(v)?;
            }
        }
        "mid" => {
            for v in &vals {
                let s = format!("{}\n{}", v, v);
                cli.writer().write_str(&s)?;
            }
        }
        "lnmid" => {
            for v in &vals {
                let s = format!("{}\n{}", v, v);
                cli.writer().writeln_str(&s)?;
            }
        }
        "fmt" => {
            for v in &vals {
                ufmt::uwrite!(cli.writer(), "{}", *v)?;
            }
        }
        "prompt" => {
            if let Some(v) = vals.first() {
                if let Some(b) = v.as_bytes().first() {
                    cli.set_prompt(PROMPTS[(*b as usize) % 4]);
                }
            }
        }
        "quiet" => {}
        "do" => {
            for v in &vals {
                if v.as_bytes().first() == Some(&b'x') {
                    if reject {
                        let value: &'a str = &v[1..];
                        return Err(embedded_cli::service::ParseError::UnexpectedArgument { value }.into());
                    }
                    return Ok(());
                }
                do_action(cli, v, mkerr)?;
            }
        }
        "empty" => {
            cli.writer().write_str("")?;
        }
        name => {
            // the other ways to walk the arguments must agree with plain iteration (Iterator::nth / skip / last / count)
            let all: Vec<String> = raw.args().args().map(|a| format!("{:?}", a)).collect();
            for k in 0..all.len() + 1 {
                let via_nth = raw.args().args().nth(k).map(|a| format!("{:?}", a));
                let via_skip = raw.args().args().skip(k).next().map(|a| format!("{:?}", a));
                assert_eq!(via_nth.as_ref(), all.get(k), "ArgsIter::nth({}) disagrees with repeated next()", k);
                assert_eq!(via_skip.as_ref(), all.get(k), "ArgsIter skip({}) disagrees with repeated next()", k);
            }
            assert_eq!(raw.args().args().count(), all.len(), "ArgsIter::count disagrees with repeated next()");
            assert_eq!(raw.args().args().last().map(|a| format!("{:?}", a)).as_ref(), all.last(), "ArgsIter::last disagrees with repeated next()");
            cli.writer().write_str(name)?;
            for a in raw.args().args() {
                cli.writer().write_str(" ")?;
                let r = arg_repr(&a);
                cli.writer().write_str(core::str::from_utf8(&r).expect("the handler received a string that is not valid UTF-8"))?;
            }
        }
    }
    Ok(())
}

pub struct StepOut {
    pub fields: Vec<String>,
}

/// ses: `<cap> <hcap> <prompt idx> <cmdset> op;op;...`
pub fn ses(line: &str) -> String {
    let p: Vec<&str> = line.splitn(5, ' ').collect();
    let cap: usize = p[0].parse().unwrap();
    let hcap: usize = p[1].parse().unwrap();
    let pi: usize = p[2].parse().unwrap();
    let cmdset = p[3];
    let mut ops = if p.len() > 4 { p[4] } else { "" };
    if let Some(rest) = ops.strip_prefix("X:") {
        // construction itself runs against a failing sink
        let (spec, tail) = rest.split_once(';').unwrap_or((rest, ""));
        let (k, mode) = spec.split_once(':').unwrap();
        INIT_FAULT.with(|f| *f.borrow_mut() = Some((k.parse().unwrap(), mode == "perm")));
        ops = tail;
    }
    match cmdset {
        "raw" => ses_raw(cap, hcap, pi, ops),
        other => crate::gen_decls::ses_decl(other, cap, hcap, pi, ops),
    }
}

pub fn prompt_index(p: &str) -> usize {
    PROMPTS.iter().position(|x| *x == p).unwrap_or(99)
}

/// generic driver: `step` performs one process_byte with the right command set / processor
pub fn run_session<CB, HB, F>(
    cli: &mut embedded_cli::cli::Cli<Sink, SinkErr, CB, HB>,
    calls: &Rc<RefCell<Vec<String>>>,
    ops: &str,
    mut step: F,
) -> String
where
    CB: embedded_cli::buffer::Buffer,
    HB: embedded_cli::buffer::Buffer,
    F: FnMut(&mut embedded_cli::cli::Cli<Sink, SinkErr, CB, HB>, u8) -> Result<(), SinkErr>,
{
    let mut out: Vec<String> = vec![];
    let snapshot = |cli: &mut embedded_cli::cli::Cli<Sink, SinkErr, CB, HB>,
                    r: &str,
                    calls: &Rc<RefCell<Vec<String>>>|
     -> String {
        let text = hex(cli.verif_editor_text().unwrap_or(&[]));
        let cur = cli.verif_editor_cursor().unwrap_or(0);
        #[cfg(feature = "history")]
        let hist = {
            let (b, c) = cli.verif_history_raw();
            format!(
                "{}/{}",
                hex(b),
                match c {
                    Some(c) => format!("{}", c),
                    None => "N".to_string(),
                }
            )
        };
        #[cfg(not(feature = "history"))]
        let hist = "-".to_string();
        let pidx = prompt_index(cli.verif_prompt());
        let c = {
            let mut c = calls.borrow_mut();
            let s = if c.is_empty() { "-".to_string() } else { c.join("+") };
            c.clear();
            s
        };
        let sink = cli.verif_writer_mut();
        let s = sink.render();
        sink.log.clear();
        format!("{}|{}|{}|{}|{}|{}|{}", r, text, cur, hist, pidx, c, s)
    };
    out.push(snapshot(cli, "ok", calls));
    ERR_KIND.with(|k| *k.borrow_mut() = 0);
    for op in ops.split(';').filter(|s| !s.is_empty()) {
        let (name, arg) = op.split_once(':').unwrap_or((op, ""));
        match name {
            "b" => {
                for b in unhex(arg) {
                    let r = step(cli, b);
                    out.push(snapshot(cli, if r.is_ok() { "ok" } else { "err" }, calls));
                }
            }
            "w" => {
                let wops: Vec<&str> = arg.split(',').filter(|s| !s.is_empty()).collect();
                let r = cli.write(|w| {
                    for wop in &wops {
                        writer_op(w, &wop[..1], &wop[1..], || SinkErr)?;
                    }
                    Ok(())
                });
                out.push(snapshot(cli, if r.is_ok() { "ok" } else { "err" }, calls));
            }
            "p" => {
                let r = cli.set_prompt(PROMPTS[arg.parse::<usize>().unwrap()]);
                out.push(snapshot(cli, if r.is_ok() { "ok" } else { "err" }, calls));
            }
            "x" => {
                let sink = cli.verif_writer_mut();
                if arg == "off" {
                    sink.fail_at = None;
                    sink.perm = false;
                } else {
                    let (k, mode) = arg.split_once(':').unwrap();
                    sink.fail_at = Some(sink.calls + k.parse::<usize>().unwrap());
                    sink.perm = mode == "perm";
                }
            }
            "y" => {
                cli.verif_writer_mut().limit = arg.parse::<usize>().unwrap();
            }
            "k" => {
                ERR_KIND.with(|k| *k.borrow_mut() = arg.parse::<usize>().unwrap());
            }
            _ => panic!("ses op {}", name),
        }
    }
    out.join(" ; ")
}

fn ses_raw(cap: usize, hcap: usize, pi: usize, ops: &str) -> String {
    if cap == 24 && hcap == 40 {
        // owned arrays as buffers (`impl Buffer for [u8; N]`, what CliBuilder::default() itself uses) instead of borrowed slices
        let built = CliBuilder::default()
            .writer(Sink::new())
            .command_buffer([0u8; 24])
            .history_buffer([0u8; 40])
            .prompt(PROMPTS[pi])
            .build();
        let mut cli = match built {
            Ok(c) => c,
            Err(_) => return format!("err|.|0|-|{}|-|?", pi),
        };
        let calls: Rc<RefCell<Vec<String>>> = Rc::new(RefCell::new(vec![]));
        let calls2 = calls.clone();
        let mut processor = RawCommand::processor(move |cli: &mut CliHandle<'_, Sink, SinkErr>, raw: RawCommand<'_>| {
            match raw_handler(cli, raw, &calls2, || SinkErr, false) {
                Ok(()) => Ok(()),
                Err(embedded_cli::service::ProcessError::WriteError(e)) => Err(e),
                Err(embedded_cli::service::ProcessError::ParseError(_)) => unreachable!(),
            }
        });
        return run_session(&mut cli, &calls, ops, |cli, b| cli.process_byte::<RawCommand<'_>, _>(b, &mut processor));
    }
    let mut cbuf = vec![0u8; cap];
    let mut hbuf = vec![0u8; hcap];
    // the default prompt is PROMPTS[1]: with it (and an odd command buffer) the deprecated constructor Cli::new is used instead of the builder
    #[allow(deprecated)]
    let built = if pi == 1 && cap % 2 == 1 {
        embedded_cli::cli::Cli::new(Sink::new(), cbuf.as_mut_slice(), hbuf.as_mut_slice())
    } else {
        CliBuilder::default()
            .writer(Sink::new())
            .command_buffer(cbuf.as_mut_slice())
            .history_buffer(hbuf.as_mut_slice())
            .prompt(PROMPTS[pi])
            .build()
    };
    let mut cli = match built {
        Ok(c) => c,
        // construction reported the sink's failure: there is no Cli (and the sink went with the builder)
        Err(_) => return format!("err|.|0|-|{}|-|?", pi),
    };
    let calls: Rc<RefCell<Vec<String>>> = Rc::new(RefCell::new(vec![]));
    let calls2 = calls.clone();
    if hcap % 2 == 1 {
        // a hand-written processor (the blanket CommandProcessor impl for closures): may reject the command after writing
        fn mk<F>(f: F) -> F
        where
            F: for<'a> FnMut(&mut CliHandle<'_, Sink, SinkErr>, RawCommand<'a>) -> Result<(), embedded_cli::service::ProcessError<'a, SinkErr>>,
        {
            f
        }
        let mut processor = mk(move |cli, raw| raw_handler(cli, raw, &calls2, || SinkErr, true));
        return run_session(&mut cli, &calls, ops, |cli, b| cli.process_byte::<RawCommand<'_>, _>(b, &mut processor));
    }
    let mut processor = RawCommand::processor(move |cli: &mut CliHandle<'_, Sink, SinkErr>, raw: RawCommand<'_>| {
        match raw_handler(cli, raw, &calls2, || SinkErr, false) {
            Ok(()) => Ok(()),
            Err(embedded_cli::service::ProcessError::WriteError(e)) => Err(e),
            Err(embedded_cli::service::ProcessError::ParseError(_)) => unreachable!(),
        }
    });
    run_session(&mut cli, &calls, ops, |cli, b| cli.process_byte::<RawCommand<'_>, _>(b, &mut processor))
}
