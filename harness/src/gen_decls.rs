//! GENERATED placeholder (overwritten by gen/declgen.py): derived command sets.
pub fn decl(_line: &str) -> String {
    "nodecl".to_string()
}
pub fn ses_decl(_set: &str, _cap: usize, _hcap: usize, _pi: usize, _ops: &str) -> String {
    "nodecl".to_string()
}
