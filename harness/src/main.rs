//! Correspondence harness: runs the real embedded-cli code on case lines read from stdin and prints one
//! canonical line per case on stdout. The OCaml driver (extracted Coq model) prints the same format.
//!
//! usage: verif-harness <engine>      engine = dec | u8 | utils | ed | tok | cmd | hist | wr | ses

use std::io::{BufRead, Write as _};
use std::panic::{catch_unwind, AssertUnwindSafe};

mod engines;
mod session;
#[allow(dead_code, unused)]
mod gen_decls;

pub fn hex(bs: &[u8]) -> String {
    if bs.is_empty() {
        return ".".to_string();
    }
    let mut s = String::with_capacity(bs.len() * 2);
    for b in bs {
        s.push_str(&format!("{:02x}", b));
    }
    s
}

pub fn unhex(s: &str) -> Vec<u8> {
    if s == "." || s.is_empty() {
        return vec![];
    }
    let b = s.as_bytes();
    assert!(b.len() % 2 == 0, "odd hex {:?}", s);
    (0..b.len() / 2)
        .map(|i| u8::from_str_radix(&s[2 * i..2 * i + 2], 16).expect("hex"))
        .collect()
}

/// valid-utf8 str from bytes (the generators only produce valid text where the API takes &str)
pub fn as_str(bs: &[u8]) -> &str {
    core::str::from_utf8(bs).expect("case precondition: valid utf-8")
}

fn main() {
    let engine = std::env::args().nth(1).expect("engine");
    std::panic::set_hook(Box::new(|_| {}));
    let stdin = std::io::stdin();
    let stdout = std::io::stdout();
    let mut out = std::io::BufWriter::new(stdout.lock());
    for line in stdin.lock().lines() {
        let line = line.unwrap();
        let line = line.trim_end();
        if line.is_empty() {
            continue;
        }
        // announce the case before running it so that an abort can be attributed
        let res = catch_unwind(AssertUnwindSafe(|| match engine.as_str() {
            "dec" => engines::dec(line),
            "u8" => engines::u8(line),
            "u8x" => engines::u8x(line),
            "utils" => engines::utils(line),
            "utilsx" => engines::utilsx(line),
            "ed" => engines::ed(line),
            "tok" => engines::tok(line),
            "cmd" => engines::cmd(line),
            "hist" => engines::hist(line),
            "wr" => engines::wr(line),
            "ses" => session::ses(line),
            "decl" => gen_decls::decl(line),
            _ => panic!("unknown engine"),
        }));
        match res {
            Ok(s) => writeln!(out, "{}", s).unwrap(),
            Err(e) => {
                let msg = if let Some(s) = e.downcast_ref::<&str>() {
                    s.to_string()
                } else if let Some(s) = e.downcast_ref::<String>() {
                    s.clone()
                } else {
                    "?".to_string()
                };
                writeln!(out, "PANIC {}", msg.replace('\n', " ")).unwrap()
            }
        }
        out.flush().unwrap();
    }
}
