//! Low-level engines: each takes one case line and returns the canonical result line.

use crate::{as_str, hex, unhex};
use embedded_cli::arguments::{Arg, ArgList};
use embedded_cli::command::RawCommand;
use embedded_cli::help::HelpRequest;
use embedded_cli::verif_hooks as vh;

pub fn dec(line: &str) -> String {
    let bytes = unhex(line);
    let mut g = vh::InputGenerator::new();
    let mut out: Vec<String> = vec![];
    for b in bytes {
        match g.accept(b) {
            None => {}
            Some(vh::Input::Char(s)) => out.push(format!("c:{}", hex(s.as_bytes()))),
            Some(vh::Input::Control(c)) => out.push(
                match c {
                    vh::ControlInput::Backspace => "BS",
                    vh::ControlInput::Down => "DN",
                    vh::ControlInput::Enter => "EN",
                    vh::ControlInput::Back => "BK",
                    vh::ControlInput::Forward => "FW",
                    vh::ControlInput::Tab => "TB",
                    vh::ControlInput::Up => "UP",
                }
                .to_string(),
            ),
        }
    }
    if out.is_empty() {
        "-".to_string()
    } else {
        out.join(" ")
    }
}

pub fn u8(line: &str) -> String {
    let bytes = unhex(line);
    let mut a = vh::Utf8Accum::default();
    let mut out: Vec<String> = vec![];
    for b in bytes {
        if let Some(s) = a.push_byte(b) {
            out.push(hex(s.as_bytes()));
        }
    }
    if out.is_empty() {
        "-".to_string()
    } else {
        out.join(" ")
    }
}

/// u8x: `<depth> <shard> <nshards>` - every sequence of 1..=depth bytes >= 0x80 (first byte sharded) is pushed through a
/// fresh accumulator followed by the well-formed character U+00E9; every emitted string must be valid for
/// core::str::from_utf8 and the final character must come out
pub fn u8x(line: &str) -> String {
    let p: Vec<usize> = line.split(' ').map(|x| x.parse().unwrap()).collect();
    let (depth, shard, nshards) = (p[0], p[1], p[2]);
    let mut checked: u64 = 0;
    let mut emitted: u64 = 0;
    let mut bad: Vec<String> = vec![];
    let mut seq = vec![0u8; depth];
    for len in 1..=depth {
        let total: u64 = 128u64.pow(len as u32);
        for idx in 0..total {
            let mut x = idx;
            for i in 0..len {
                seq[i] = 0x80 + (x % 128) as u8;
                x /= 128;
            }
            if (seq[0] as usize) % nshards != shard {
                continue;
            }
            checked += 1;
            let mut a = vh::Utf8Accum::default();
            let mut ok = true;
            for &b in &seq[..len] {
                if let Some(s) = a.push_byte(b) {
                    emitted += 1;
                    if core::str::from_utf8(s.as_bytes()).is_err() || s.chars().count() != 1 {
                        ok = false;
                    }
                }
            }
            let r1 = a.push_byte(0xC3).is_none();
            let r2 = a.push_byte(0xA9).map(|s| s.as_bytes() == [0xC3, 0xA9]).unwrap_or(false);
            if !(ok && r1 && r2) && bad.len() < 5 {
                bad.push(hex(&seq[..len]));
            }
        }
    }
    format!("checked={} emitted={} bad={}", checked, emitted, if bad.is_empty() { "-".to_string() } else { bad.join(",") })
}

/// utilsx: `<shard> <nshards>` - every scalar value >= U+0020 except U+007F: the library's encode / pop_front / count /
/// index / common prefix and the decoder round trip against Rust's own char and str
pub fn utilsx(line: &str) -> String {
    let p: Vec<u32> = line.split(' ').map(|x| x.parse().unwrap()).collect();
    let (shard, nshards) = (p[0], p[1]);
    let neighbours = ["a", "\u{e9}", "\u{20ac}", "\u{1f600}"];
    let mut checked: u64 = 0;
    let mut bad: Vec<String> = vec![];
    for cp in 0x20u32..=0x10FFFF {
        if cp % nshards != shard || cp == 0x7F {
            continue;
        }
        let c = match char::from_u32(cp) {
            Some(c) => c,
            None => continue,
        };
        checked += 1;
        let mut ok = true;
        let mut b1 = [0u8; 4];
        let mut b2 = [0u8; 4];
        let mine = vh::encode_utf8(c, &mut b1).to_string();
        let std_ = c.encode_utf8(&mut b2).to_string();
        ok &= mine == std_;
        for nb in neighbours.iter() {
            let s = format!("{}{}", std_, nb);
            ok &= vh::char_pop_front(&s) == Some((c, *nb));
            let t = format!("{}{}{}", nb, std_, nb);
            ok &= vh::char_count(&t) == 3;
            ok &= vh::char_byte_index(&t, 1) == Some(nb.len());
            ok &= vh::char_byte_index(&t, 2) == Some(nb.len() + std_.len());
            ok &= vh::char_byte_index(&t, 3).is_none();
            let u = format!("{}{}{}", nb, std_, std_);
            ok &= vh::common_prefix_len(&t, &u) == nb.len() + std_.len() || *nb == std_;
            // a different char with a shared leading byte must not count as common
            if let Some(d) = char::from_u32(cp ^ 1) {
                if d != c {
                    let v = format!("{}{}", nb, d);
                    let w = format!("{}{}", nb, c);
                    ok &= vh::common_prefix_len(&v, &w) == nb.len();
                }
            }
        }
        let mut g = vh::InputGenerator::new();
        let bytes = std_.as_bytes();
        for (i, &b) in bytes.iter().enumerate() {
            let r = g.accept(b);
            if i + 1 < bytes.len() {
                ok &= r.is_none();
            } else {
                ok &= r == Some(vh::Input::Char(&std_));
            }
        }
        if !ok && bad.len() < 5 {
            bad.push(format!("{:x}", cp));
        }
    }
    format!("checked={} bad={}", checked, if bad.is_empty() { "-".to_string() } else { bad.join(",") })
}

/// utils: `cnt HEX` | `idx HEX k` | `pop HEX` | `pfx HEX HEX` | `enc cp` | `trim HEX`
pub fn utils(line: &str) -> String {
    let p: Vec<&str> = line.split(' ').collect();
    match p[0] {
        "cnt" => format!("{}", vh::char_count(as_str(&unhex(p[1])))),
        "idx" => match vh::char_byte_index(as_str(&unhex(p[1])), p[2].parse().unwrap()) {
            Some(i) => format!("{}", i),
            None => "N".to_string(),
        },
        "pop" => match vh::char_pop_front(as_str(&unhex(p[1]))) {
            Some((c, rest)) => format!("{} {}", c as u32, hex(rest.as_bytes())),
            None => "N".to_string(),
        },
        "pfx" => format!(
            "{}",
            vh::common_prefix_len(as_str(&unhex(p[1])), as_str(&unhex(p[2])))
        ),
        "enc" => {
            let cp: u32 = p[1].parse().unwrap();
            let mut buf = [0u8; 4];
            hex(vh::encode_utf8(char::from_u32(cp).expect("scalar"), &mut buf).as_bytes())
        }
        "trim" => hex(vh::trim_start(as_str(&unhex(p[1]))).as_bytes()),
        _ => panic!("utils op"),
    }
}

/// ed: `<cap> op;op;...`
pub fn ed(line: &str) -> String {
    let (cap, ops) = line.split_once(' ').unwrap_or((line, ""));
    let cap: usize = cap.parse().unwrap();
    let mut buf = vec![0u8; cap];
    let mut e = vh::Editor::new(buf.as_mut_slice());
    let mut out: Vec<String> = vec![];
    for op in ops.split(';').filter(|s| !s.is_empty()) {
        let (name, arg) = op.split_once(':').unwrap_or((op, ""));
        let ret = match name {
            "i" => {
                let t = unhex(arg);
                match e.insert(as_str(&t)) {
                    Some(s) => format!("S{}", hex(s.as_bytes())),
                    None => "N".to_string(),
                }
            }
            "ml" => (if e.move_left() { "T" } else { "F" }).to_string(),
            "mr" => (if e.move_right() { "T" } else { "F" }).to_string(),
            "rm" => {
                e.remove();
                "-".to_string()
            }
            "cl" => {
                e.clear();
                "-".to_string()
            }
            "len" => format!("{}", e.len()),
            "tr" => hex(e.text_range(arg.parse::<usize>().unwrap()..).as_bytes()),
            #[cfg(feature = "autocomplete")]
            "ac" => {
                let cands: Vec<Vec<u8>> = if arg.is_empty() {
                    vec![]
                } else {
                    arg.split(',').map(unhex).collect()
                };
                let mut req = "N".to_string();
                e.autocompletion(|request, ac| {
                    #[allow(irrefutable_let_patterns)]
                    if let embedded_cli::autocomplete::Request::CommandName(name) = request {
                        req = hex(name.as_bytes());
                    }
                    for c in &cands {
                        ac.merge_autocompletion(as_str(c));
                    }
                });
                req
            }
            _ => panic!("ed op {}", name),
        };
        out.push(format!("{}:{}:{}", ret, hex(e.text().as_bytes()), e.cursor()));
    }
    if out.is_empty() {
        "-".to_string()
    } else {
        out.join(" ")
    }
}

fn toks_str<'a>(it: impl Iterator<Item = &'a str>) -> String {
    let v: Vec<String> = it.map(|t| hex(t.as_bytes())).collect();
    if v.is_empty() {
        "-".to_string()
    } else {
        v.join(",")
    }
}

pub fn tok(line: &str) -> String {
    let mut bytes = unhex(line);
    let s = core::str::from_utf8_mut(&mut bytes).expect("valid");
    let t = vh::Tokens::new(s);
    let e = t.is_empty();
    let toks = toks_str(t.iter());
    let raw = hex(t.clone().into_raw().as_bytes());
    format!("e={} raw={} toks={}", if e { 1 } else { 0 }, raw, toks)
}

pub fn arg_str(a: &Arg<'_>) -> String {
    match a {
        Arg::DoubleDash => "DD".to_string(),
        Arg::LongOption(n) => format!("L:{}", hex(n.as_bytes())),
        Arg::ShortOption(c) => format!("S:{}", *c as u32),
        Arg::Value(v) => format!("V:{}", hex(v.as_bytes())),
    }
}

pub fn args_str(l: &ArgList<'_>) -> String {
    let v: Vec<String> = l.args().map(|a| arg_str(&a)).collect();
    if v.is_empty() {
        "-".to_string()
    } else {
        v.join(",")
    }
}

/// cmd: tokenise the line, split name / args (as RawCommand::from_tokens does), classify, help request,
/// and for every k the tokens left by `into_args` after k items
pub fn cmd(line: &str) -> String {
    let mut bytes = unhex(line);
    let s = core::str::from_utf8_mut(&mut bytes).expect("valid");
    let t = vh::Tokens::new(s);
    let mut it = t.iter();
    let name = match it.next() {
        None => return "none".to_string(),
        Some(n) => n,
    };
    let args = ArgList::new(it.into_tokens());
    let raw = RawCommand::new(name, args.clone());
    let n_items = args.args().count();
    // the other ways to walk the classified arguments (Iterator::nth / skip / last) must agree with repeated next()
    let all: Vec<String> = args.args().map(|a| format!("{:?}", a)).collect();
    assert_eq!(all.len(), n_items, "ArgsIter::count disagrees with repeated next()");
    for k in 0..=n_items {
        assert_eq!(args.args().nth(k).map(|a| format!("{:?}", a)).as_ref(), all.get(k), "ArgsIter::nth({}) disagrees with repeated next()", k);
        assert_eq!(args.args().skip(k).next().map(|a| format!("{:?}", a)).as_ref(), all.get(k), "ArgsIter skip({}) disagrees with repeated next()", k);
    }
    assert_eq!(args.args().last().map(|a| format!("{:?}", a)).as_ref(), all.last(), "ArgsIter::last disagrees with repeated next()");
    let mut rests: Vec<String> = vec![];
    for k in 0..=n_items {
        let mut ai = args.args();
        for _ in 0..k {
            ai.next();
        }
        let rest = ai.into_args();
        rests.push(args_str(&rest));
    }
    let help = match HelpRequest::from_command(&raw) {
        None => "none".to_string(),
        Some(HelpRequest::All) => "all".to_string(),
        Some(HelpRequest::Command(c)) => {
            format!("cmd({};{})", hex(c.name().as_bytes()), args_str(&c.args()))
        }
    };
    format!(
        "name={} args={} help={} rests={}",
        hex(name.as_bytes()),
        args_str(&args),
        help,
        rests.join("|")
    )
}

#[cfg(feature = "history")]
pub fn hist(line: &str) -> String {
    let (cap, ops) = line.split_once(' ').unwrap_or((line, ""));
    let cap: usize = cap.parse().unwrap();
    let mut buf = vec![0u8; cap];
    let mut h = vh::History::new(buf.as_mut_slice());
    let mut out: Vec<String> = vec![];
    for op in ops.split(';').filter(|s| !s.is_empty()) {
        let (name, arg) = op.split_once(':').unwrap_or((op, ""));
        let ret = match name {
            "p" => {
                h.push(as_str(&unhex(arg)));
                "-".to_string()
            }
            "o" => match h.next_older() {
                Some(s) => format!("S{}", hex(s.as_bytes())),
                None => "N".to_string(),
            },
            "n" => match h.next_newer() {
                Some(s) => format!("S{}", hex(s.as_bytes())),
                None => "N".to_string(),
            },
            _ => panic!("hist op"),
        };
        let (b, c) = h.verif_raw();
        out.push(format!(
            "{}:{}:{}",
            ret,
            hex(b),
            match c {
                Some(c) => format!("{}", c),
                None => "N".to_string(),
            }
        ));
    }
    if out.is_empty() {
        "-".to_string()
    } else {
        out.join(" ")
    }
}

#[cfg(not(feature = "history"))]
pub fn hist(_line: &str) -> String {
    "nohist".to_string()
}

/// wr: writer ops run inside `Cli::write` with an empty line and prompt "P> "; prints all sink bytes of the call
pub fn wr(line: &str) -> String {
    use crate::session::Sink;
    use embedded_cli::cli::CliBuilder;
    let mut cbuf = vec![0u8; 8];
    let mut hbuf = vec![0u8; 8];
    let mut cli = CliBuilder::default()
        .writer(Sink::new())
        .command_buffer(cbuf.as_mut_slice())
        .history_buffer(hbuf.as_mut_slice())
        .prompt("P> ")
        .build()
        .unwrap();
    cli.verif_writer_mut().log.clear();
    let ops: Vec<&str> = line.split(';').filter(|s| !s.is_empty() && *s != "-").collect();
    let r = cli.write(|w| {
        for op in &ops {
            let (name, arg) = op.split_once(':').unwrap_or((op, ""));
            crate::session::writer_op(w, name, arg, || crate::session::SinkErr)?;
        }
        Ok(())
    });
    let sink = cli.verif_writer_mut();
    format!("{} {}", if r.is_ok() { "ok" } else { "err" }, hex(&sink.bytes()))
}
