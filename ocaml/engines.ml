(* model-side engines: same case-line syntax and output syntax as harness/src/engines.rs and session.rs *)
open Model
open Util

let ctl_str = function
  | Backspace -> "BS" | Down -> "DN" | Enter -> "EN" | Back -> "BK" | Forward -> "FW" | Tab -> "TB" | Up -> "UP"
let ev_str = function Ctl c -> ctl_str c | Chr s -> "c:" ^ hex s

let dec line =
  let (_, evs) = runa ig0 (unhex line) in
  join " " (List.map ev_str evs)

let u8 line =
  let (_, cs) = run acc0 (unhex line) in
  join " " (List.map hex cs)

let parse_unit (t : string) : unit_ =
  let rest k = String.sub t k (String.length t - k) in
  if t = "bs" then UBS else if t = "tab" then UTab
  else if t = "tcr" then UTerm TCR else if t = "tlf" then UTerm TLF
  else if t = "tcrlf" then UTerm TCRLF else if t = "tlfcr" then UTerm TLFCR
  else if String.length t > 3 && String.sub t 0 3 = "csi" then
    let (ps, f) = split_once ':' (rest 3) in
    UCsi (unhex ps, List.hd (unhex f))
  else if String.length t > 3 && String.sub t 0 3 = "ign" then UIgn (List.hd (unhex (rest 3)))
  else if t.[0] = 'c' then UChar (unhex (rest 1))
  else failwith ("unit " ^ t)

let decu line =
  let us = List.map parse_unit (split_on ' ' line) in
  if not (List.for_all wf_unitb us && greedyb N0 us) then "REJECT"
  else hex (List.concat_map bytes_of us) ^ " " ^ join " " (List.map ev_str (List.concat_map events_of us))

let utils line =
  match split_on ' ' line with
  | ["cnt"; h] -> string_of_int (int_of_nat (char_count (unhex h)))
  | ["idx"; h; k] -> (match char_byte_index (unhex h) (nat_of_int (int_of_string k)) with
                      | Some i -> string_of_int (int_of_nat i) | None -> "N")
  | ["pop"; h] -> (match some (char_pop_front (unhex h)) with
                   | Some (c, rest) -> Printf.sprintf "%d %s" (int_of_n c) (hex rest) | None -> "N")
  | ["pfx"; a; b] -> string_of_int (int_of_nat (common_prefix_len (unhex a) (unhex b)))
  | ["enc"; cp] -> hex (encode_utf8 (n_of_int (int_of_string cp)))
  | ["trim"; h] -> hex (trim_start (unhex h))
  | _ -> failwith "utils op"

let ed line =
  let (cap, ops) = split_once ' ' line in
  let e = ref (ed_new (nat_of_int (int_of_string cap))) in
  let out = List.map (fun op ->
    let (name, arg) = split_once ':' op in
    let ret = match name with
      | "i" -> let t = unhex arg in
               let (e', ok) = some (ed_insert !e t) in e := e'; if ok then "S" ^ hex t else "N"
      | "ml" -> let (e', b) = ed_move_left !e in e := e'; if b then "T" else "F"
      | "mr" -> let (e', b) = ed_move_right !e in e := e'; if b then "T" else "F"
      | "rm" -> e := some (ed_remove !e); "-"
      | "cl" -> e := ed_clear !e; "-"
      | "len" -> string_of_int (int_of_nat (ed_len !e))
      | "tr" -> hex (ed_text_from !e (nat_of_int (int_of_string arg)))
      | "ac" -> let cands = List.map unhex (split_on ',' arg) in
                let req = ref "N" in
                e := some (ed_autocompletion !e (fun name ac -> req := hex name; List.fold_left ac_merge ac cands));
                !req
      | _ -> failwith "ed op" in
    Printf.sprintf "%s:%s:%d" ret (hex !e.text) (int_of_nat !e.cursor))
    (List.filter (fun s -> s <> "") (split_on ';' ops)) in
  join " " out

let toks_str ts = join "," (List.map hex ts)

let tok line =
  let ((_, raw), empty) = some (tokens_new (unhex line)) in
  Printf.sprintf "e=%d raw=%s toks=%s" (if empty then 1 else 0) (hex raw) (toks_str (tokens_iter raw empty))

let arg_str = function
  | DoubleDash -> "DD" | LongOption n -> "L:" ^ hex n | ShortOption c -> "S:" ^ string_of_int (int_of_n c) | Value v -> "V:" ^ hex v
let args_str ts = join "," (List.map arg_str (some (args_of ts)))

let cmd line =
  let ((_, raw), empty) = some (tokens_new (unhex line)) in
  match from_tokens (tokens_iter raw empty) with
  | None -> "none"
  | Some (name, args) ->
    let items = some (args_of args) in
    let n_items = List.length items in
    let rests = List.init (n_items + 1) (fun k ->
      let it = ref (ai_new args) in
      for _ = 1 to k do
        match some (ai_next !it) with Some (_, it') -> it := it' | None -> ()
      done;
      args_str (ai_into_args !it)) in
    let help = match some (help_request name args) with
      | None -> "none" | Some HAll -> "all"
      | Some (HCommand (n, a)) -> Printf.sprintf "cmd(%s;%s)" (hex n) (args_str a) in
    Printf.sprintf "name=%s args=%s help=%s rests=%s" (hex name) (args_str args) help (String.concat "|" rests)

let hist line =
  let (cap, ops) = split_once ' ' line in
  let h = ref (hist_new (nat_of_int (int_of_string cap))) in
  let out = List.map (fun op ->
    let (name, arg) = split_once ':' op in
    let ret = match name with
      | "p" -> h := some (hist_push !h (unhex arg)); "-"
      | "o" -> let (h', el) = some (hist_older !h) in h := h'; (match el with Some s -> "S" ^ hex s | None -> "N")
      | "n" -> let (h', el) = some (hist_newer !h) in h := h'; (match el with Some s -> "S" ^ hex s | None -> "N")
      | _ -> failwith "hist op" in
    Printf.sprintf "%s:%s:%s" ret (hex !h.hbuf) (match !h.hcur with Some c -> string_of_int (int_of_nat c) | None -> "N"))
    (List.filter (fun s -> s <> "") (split_on ';' ops)) in
  join " " out

(* ---- writer ops / sessions *)
let all_feats = { f_hist = true; f_ac = true; f_help = true }
let feats = ref all_feats

let hops_of_wop (kind : char) (arg : string) : hop list =
  match kind with
  | 's' | 'u' | 'f' -> [HWrite (unhex arg)]
  | 'l' -> [HWriteln (unhex arg)]
  | 'c' -> List.map (fun c -> HWrite c) (chars_of (unhex arg))
  | 'g' -> [HWrite (lit_of (match unhex arg with b :: _ -> nat_of_int (int_of_n b) | [] -> O))]
  | 't' -> title_hops (unhex arg)
  | 'e' -> (match String.split_on_char '.' arg with
            | [a; b; c] -> list_element_hops (unhex a) (unhex b) (nat_of_int (int_of_string c))
            | _ -> failwith "e op")
  | _ -> failwith "writer op"

let out_bytes (ops : sinkop list) : n list =
  List.concat_map (function SW b -> b | _ -> []) ops

let sink_render (ops : sinkop list) : string =
  join "," (List.map (function SW b -> "W" ^ hex b | SF -> "F" | SXW -> "XW" | SXF -> "XF") ops)

let res_str = function Ok _ -> "ok" | Err -> "err" | Panic -> raise Model_none

let wr line =
  let ops = List.filter (fun s -> s <> "" && s <> "-") (split_on ';' line) in
  let hops = List.concat_map (fun op -> let (k, a) = split_once ':' op in hops_of_wop k.[0] a) ops in
  let okf _ = true in
  let s0 = cli_init (nat_of_int 8) (nat_of_int 8) (unhex "503e20") in
  let (_, s1) = api_build okf s0 in
  let s1 = set_sk { calls = s1.sk.calls; out = [] } s1 in
  let (r, s2) = api_write okf hops s1 in
  Printf.sprintf "%s %s" (res_str r) (hex (out_bytes s2.sk.out))

let prompt_index (p : n list) : int =
  let rec go i = function [] -> 99 | x :: r -> if x = p then i else go (i + 1) r in go 0 pROMPTS

let calls_fmt : (n list * n list list -> string) ref = ref (fun (n, a) -> Printf.sprintf "%s(%s)" (hex n) (args_str a))

let session (cs : cmdset) (handler : nat -> n list -> n list list -> hop list) cap hcap pi ops : string =
  let fail_at = ref (-1) and perm = ref false in
  let okf (n : nat) = let n = int_of_nat n in
    not (!fail_at >= 0 && (n = !fail_at || (!perm && n > !fail_at))) in
  let st = ref (cli_init (nat_of_int cap) (nat_of_int hcap) (prompt_of (nat_of_int pi))) in
  let out = ref [] in
  let snapshot r =
    let s = !st in
    let calls = join "+" (List.map (fun c -> !calls_fmt c) s.hcalls) in
    let histf = if !feats.f_hist then
        Printf.sprintf "%s/%s" (hex s.hist.hbuf) (match s.hist.hcur with Some c -> string_of_int (int_of_nat c) | None -> "N")
      else "-" in
    let line = Printf.sprintf "%s|%s|%d|%s|%d|%s|%s" (res_str r) (hex s.ed.text) (int_of_nat s.ed.cursor) histf
        (prompt_index s.prompt) calls (sink_render s.sk.out) in
    st := { s with sk = { calls = s.sk.calls; out = [] }; hcalls = [] };
    out := line :: !out in
  (* hcalls is cleared per step, so give the handler the running count separately *)
  let ncalls = ref 0 in
  let handler' _ name args = let k = !ncalls in incr ncalls; handler (nat_of_int k) name args in
  let apply m = let (r, s') = m !st in st := s'; snapshot r in
  (* a leading `X:<k>:<mode>` arms the fault before construction *)
  let ops = if String.length ops > 2 && String.sub ops 0 2 = "X:" then begin
      let rest = String.sub ops 2 (String.length ops - 2) in
      let (spec, tail) = split_once ';' rest in
      let (k, mode) = split_once ':' spec in
      fail_at := int_of_string k; perm := (mode = "perm"); tail
    end else ops in
  let built = (let (r, s') = api_build okf !st in st := s'; snapshot r; r) in
  if (match built with Err -> true | _ -> false) then String.concat " ; " (List.rev !out) else begin
  List.iter (fun op ->
    let (name, arg) = split_once ':' op in
    match name with
    | "b" -> List.iter (fun b -> apply (api_process_byte okf !feats cs handler' b)) (unhex arg)
    | "w" -> let hops = List.concat_map (fun w -> hops_of_wop w.[0] (String.sub w 1 (String.length w - 1)))
                 (List.filter (fun s -> s <> "") (split_on ',' arg)) in
             apply (api_write okf hops)
    | "p" -> apply (api_set_prompt okf (prompt_of (nat_of_int (int_of_string arg))))
    | "x" -> if arg = "off" then (fail_at := -1; perm := false)
             else let (k, mode) = split_once ':' arg in
               fail_at := int_of_nat !st.sk.calls + int_of_string k; perm := (mode = "perm")
    | "k" -> ()     (* which ErrorKind the sink's error reports: no business of the model *)
    | "y" -> ()     (* the sink accepts short writes only: invisible to the model, which speaks about the bytes written *)
    | _ -> failwith "ses op")
    (List.filter (fun s -> s <> "") (split_on ';' ops));
  String.concat " ; " (List.rev !out) end

(* ---- derived command sets: declarations are read from the file named by VERIF_DECLS (written by gen/declgen.py) *)
let opt_hex t = if t = "~" then None else Some (unhex t)

let parse_value (t : string) : value =
  let (k, x) = split_once ':' t in
  match k with
  | "s" -> VStr (unhex x) | "n" -> VNum (n_of_int (int_of_string x))
  | "b" -> VBool (x = "1") | "c" -> VChr (n_of_int (int_of_string x))
  | "i" -> if String.length x > 0 && x.[0] = '-' then VInt (true, n_of_dec (String.sub x 1 (String.length x - 1))) else VInt (false, n_of_dec x)
  | _ -> failwith "value"

let parse_set_tokens (toks : string list) : cset =
  let q = ref toks in
  let next () = match !q with t :: r -> q := r; t | [] -> failwith "decl: unexpected end" in
  let p_doc () : n list list =
    let d = next () in
    if String.length d < 2 || d.[0] <> 'D' then failwith "doc" else
    List.init (int_of_string (String.sub d 1 (String.length d - 1))) (fun _ -> unhex (next ())) in
  let rec p_enum () : enumdecl =
    let title = unhex (next ()) in
    let n = int_of_string (next ()) in
    let cmds = List.init n (fun _ -> p_cmd ()) in
    { e_title = title; e_cmds = cmds }
  and p_cmd () : cmddecl =
    let name = unhex (next ()) in
    let (sh, lg) = doc_help (p_doc ()) in           (* summary and description as command/doc.rs computes them: Model/Doc.v *)
    let na = int_of_string (next ()) in
    let args = List.init na (fun _ -> p_arg ()) in
    let sub = match next () with
      | "~" -> None
      | "O" -> let e = p_enum () in Some ((true, e.e_title), e.e_cmds)
      | "R" -> let e = p_enum () in Some ((false, e.e_title), e.e_cmds)
      | _ -> failwith "sub" in
    Cmd (name, sh, lg, args, sub)
  and p_arg () : argdecl =
    let field = unhex (next ()) in
    let kind = match next () with
      | "P" -> KPos
      | k -> let l = opt_hex (next ()) in
             let s = (match next () with "~" -> None | c -> Some (n_of_int (int_of_string c))) in
             if k = "O" then KOpt (l, s) else KFlag (l, s) in
    let ty = match next () with "S" -> TStr | "U" -> TU8 | "B" -> TBool | "C" -> TChar
      | "Zu" -> TSize false | "Zs" -> TSize true
      | t when String.length t > 2 && t.[0] = 'I' -> TInt (t.[1] = 's', n_of_int (int_of_string (String.sub t 2 (String.length t - 2))))
      | _ -> failwith "ty" in
    let optional = next () = "1" in
    let dflt = match next () with
      | "~" -> DNone | "s" -> DStr (unhex (next ())) | "v" -> DVal (parse_value (next ())) | _ -> failwith "default" in
    let valname = unhex (next ()) in
    let help = fst (doc_help (p_doc ())) in
    { a_field = field; a_kind = kind; a_ty = ty; a_optional = optional; a_default = dflt; a_valname = valname; a_help = help } in
  match next () with
  | "E" -> SEnum (p_enum ())
  | "G" -> let n = int_of_string (next ()) in
           SGroup (List.init n (fun _ -> let h = next () = "1" in let e = p_enum () in (h, e)))
  | _ -> failwith "set"

let decl_sets : cset array Lazy.t = lazy (
  match Sys.getenv_opt "VERIF_DECLS" with
  | None -> [||]
  | Some path ->
    let ic = open_in path in
    let acc = ref [] in
    (try while true do
        let l = String.trim (input_line ic) in
        if l <> "" then acc := parse_set_tokens (List.filter (fun t -> t <> "") (String.split_on_char ' ' l)) :: !acc
      done with End_of_file -> ());
    close_in ic;
    Array.of_list (List.rev !acc))

let value_str = function
  | VStr s -> "s:" ^ hex s | VNum n -> "n:" ^ string_of_int (int_of_n n)
  | VBool b -> "b:" ^ (if b then "1" else "0") | VChr c -> "c:" ^ string_of_int (int_of_n c)
  | VInt (neg, n) -> "i:" ^ (if neg then "-" else "") ^ dec_of_n n
let rec canon (t : tval) : string =
  match t with
  | TV (name, fields, sub) ->
    let fs = String.concat "," (List.map (fun (f, v) ->
        hex f ^ "=" ^ (match v with FAbsent -> "N" | FPresent x -> "S" ^ value_str x | FPlain x -> value_str x)) fields) in
    hex name ^ "{" ^ fs ^ "}" ^
    (match sub with None -> "" | Some None -> ">N" | Some (Some t') -> ">(" ^ canon t' ^ ")")

let bytes_of_string (s : string) : n list = List.init (String.length s) (fun i -> n_of_int (Char.code s.[i]))

let session_decl (k : int) cap hcap pi ops : string =
  let sets = Lazy.force decl_sets in
  if k >= Array.length sets then "nodecl" else begin
    let cs = sets.(k) in
    let typed name args = match parse_set cs name args with POk t -> canon t | PErr _ -> "ERR" | PPanic -> raise Model_none in
    let handler _ name args = [HWrite (bytes_of_string (typed name args))] in
    let old = !calls_fmt in
    calls_fmt := (fun (n, a) -> typed n a);
    let r = (try session (cmdset_of cs) handler cap hcap pi ops with e -> calls_fmt := old; raise e) in
    calls_fmt := old; r
  end

let ses line =
  match String.split_on_char ' ' line with
  | cap :: hcap :: pi :: cmdset :: rest ->
    let ops = String.concat " " rest in
    (match cmdset with
     | "raw" -> session (if int_of_string hcap mod 2 = 1 then raw_cmdset_rejecting else raw_cmdset) handler_raw (int_of_string cap) (int_of_string hcap) (int_of_string pi) ops
     | d when String.length d > 1 && d.[0] = 'd' ->
       session_decl (int_of_string (String.sub d 1 (String.length d - 1))) (int_of_string cap) (int_of_string hcap) (int_of_string pi) ops
     | _ -> "nodecl")
  | _ -> failwith "ses line"

let dispatch (e : string) : string -> string =
  match e with
  | "dec" -> dec | "u8" -> u8 | "decu" -> decu | "utils" -> utils | "ed" -> ed | "tok" -> tok | "cmd" -> cmd
  | "hist" -> hist | "wr" -> wr | "ses" -> ses
  | _ -> failwith ("unknown engine " ^ e)

(* ================= spec-side engines (direct oracles) ================= *)
let strs_of arg = if arg = "-" then [] else List.map unhex (split_on ',' arg)

(* quote: list of strings -> the quoted rendering, and what the spec tokeniser makes of it *)
let quote line =
  let l = strs_of line in
  let r = render_quoted l in
  Printf.sprintf "%s %s" (hex r) (toks_str (tokens_fun r))

let tokspec line = toks_str (tokens_fun (unhex line))

let wrspec line =
  let ops = List.filter (fun s -> s <> "" && s <> "-") (split_on ';' line) in
  let hops = List.concat_map (fun op -> let (k, a) = split_once ':' op in hops_of_wop k.[0] a) ops in
  Printf.sprintf "ok %s" (hex (frame_write hops (unhex "503e20") [] O))

(* termchk: an implementation session output line; checks the C06 view after every successful step *)
let termchk line =
  let steps = Str.split (Str.regexp_string " ; ") line in
  let t = ref tinit in
  let bad = ref "" in
  List.iteri (fun k st ->
    if !bad = "" then
    match String.split_on_char '|' st with
    | [r; text; cur; _; pidx; _; sink] ->
      let ops = if sink = "-" then [] else String.split_on_char ',' sink in
      let bytes = List.concat_map (fun o -> if String.length o > 0 && o.[0] = 'W' then unhex (String.sub o 1 (String.length o - 1)) else []) ops in
      t := tfeed !t bytes;
      if r = "ok" then begin
        let p = prompt_of (nat_of_int (int_of_string pidx)) in
        if not (view_ok !t p (unhex text) (nat_of_int (int_of_string cur))) then
          bad := Printf.sprintf "fail step=%d row=%s col=%d want=%s cursor=%s" k
              (hex (List.concat (visible (fst !t).row))) (int_of_nat (fst !t).col) (hex (p @ unhex text)) cur
      end
    | _ -> bad := "malformed step " ^ string_of_int k) steps;
  if !bad = "" then "ok" else !bad

(* termproj: a session output line -> per step the result, line, cursor, prompt and what the terminal shows after the step's bytes
   (visible row, cursor column, whether a sequence is pending). The projection C06 compares: two outputs with the same
   screen are the same, however the bytes were produced. *)
let row_str (r : n list list) : string = let v = List.concat (visible r) in if v = [] then "." else hex v
let lex_str = function LG -> "g" | _ -> "pending"

let termproj line =
  let steps = Str.split (Str.regexp_string " ; ") line in
  let t = ref tinit in
  let out = List.map (fun st ->
    match String.split_on_char '|' st with
    | [r; text; cur; hist; pidx; calls; sink] ->
      let ops = if sink = "-" then [] else String.split_on_char ',' sink in
      let bytes = List.concat_map (fun o -> if String.length o > 0 && o.[0] = 'W' then unhex (String.sub o 1 (String.length o - 1)) else []) ops in
      let failed = List.exists (fun o -> String.length o > 0 && o.[0] = 'X') ops in
      let before = List.length (fst !t).rows in
      t := tfeed !t bytes;
      let rs = (fst !t).rows in
      let fresh = List.rev (List.filteri (fun i _ -> i < List.length rs - before) rs) in
      Printf.sprintf "%s|%s|%s|%s|%s|%s|%s|%s:%d:%s%s" r text cur hist pidx calls (String.concat "/" (List.map row_str fresh))
        (row_str (fst !t).row) (int_of_nat (fst !t).col) (lex_str (snd !t)) (if failed then "!" else "")
    | _ -> "malformed") steps in
  join " ; " out

(* screen: "<hex bytes>" (optionally prefixed by a result word) -> finished rows, current row, column, lexer state after feeding them to a fresh terminal *)
let screen line =
  let (pre, hx) = match String.index_opt line ' ' with Some _ -> split_once ' ' line | None -> ("", line) in
  let t = tfeed tinit (unhex hx) in
  Printf.sprintf "%s %s|%s|%d|%s" pre (String.concat "/" (List.map row_str (List.rev (fst t).rows))) (row_str (fst t).row) (int_of_nat (fst t).col) (lex_str (snd t))

let edspec line =
  let (cap, ops) = split_once ' ' line in
  let cap = nat_of_int (int_of_string cap) in
  let i = ref ideal0 in
  let out = List.map (fun op ->
    let (name, arg) = split_once ':' op in
    let ret = match name with
      | "i" -> let t = unhex arg in
               let (i', ok) = ideal_step cap !i (IInsert (chars_of t)) in i := i'; if ok then "S" ^ hex t else "N"
      | "ml" -> let (i', b) = ideal_step cap !i ILeft in i := i'; if b then "T" else "F"
      | "mr" -> let (i', b) = ideal_step cap !i IRight in i := i'; if b then "T" else "F"
      | "rm" -> let (i', _) = ideal_step cap !i IRemove in i := i'; "-"
      | "cl" -> let (i', _) = ideal_step cap !i IClear in i := i'; "-"
      | _ -> failwith "edspec op" in
    Printf.sprintf "%s:%s:%d" ret (hex (ibytes !i)) (int_of_nat !i.icur))
    (List.filter (fun s -> s <> "") (split_on ';' ops)) in
  join " " out

let histspec line =
  let (cap, ops) = split_once ' ' line in
  let cap = nat_of_int (int_of_string cap) in
  let h = ref hspec0 in
  let out = List.map (fun op ->
    let (name, arg) = split_once ':' op in
    let ret = match name with
      | "p" -> h := hs_push cap !h (unhex arg); "-"
      | "o" -> let (h', el) = hs_older !h in h := h'; (match el with Some s -> "S" ^ hex s | None -> "N")
      | "n" -> let (h', el) = hs_newer !h in h := h'; (match el with Some s -> "S" ^ hex s | None -> "N")
      | _ -> failwith "histspec op" in
    Printf.sprintf "%s:%s:%s" ret (toks_str !h.ents) (match !h.pos with Some c -> string_of_int (int_of_nat c) | None -> "N"))
    (List.filter (fun s -> s <> "") (split_on ';' ops)) in
  join " " out

let argspec line =
  match tokens_fun (unhex line) with
  | [] -> "none"
  | name :: args -> Printf.sprintf "name=%s args=%s" (hex name) (join "," (List.map arg_str (classify_all false args)))

(* acspec: <cap> <names|-> <text> <cursor> *)
let acspec line =
  match String.split_on_char ' ' line with
  | [cap; names; text; cur] ->
    let (t, c) = complete_spec (strs_of names @ [unhex "68656c70"]) (nat_of_int (int_of_string cap)) (unhex text) (nat_of_int (int_of_string cur)) in
    Printf.sprintf "%s:%d" (hex t) (int_of_nat c)
  | _ -> failwith "acspec"

(* aspec: the ABSTRACT SESSION (Spec/Session.v: ideal line + abstract history + dispatch) run on the events the extracted decoder makes of
   the bytes of a `ses` line (raw command set). One record per input byte: line | cursor | history entries | handler calls.
   w: / p: ops do not touch the abstract state; sessions with x: (faults) are not for this engine. *)
let aspec line =
  match String.split_on_char ' ' line with
  | cap :: hcap :: pi :: "raw" :: rest ->
    let ops = String.concat " " rest in
    let cap = nat_of_int (int_of_string cap) and hc = nat_of_int (int_of_string hcap) in
    let cs = if int_of_nat hc mod 2 = 1 then raw_cmdset_rejecting else raw_cmdset in
    let a = ref (astate0 (prompt_of (nat_of_int (int_of_string pi)))) and g = ref ig0 in
    let out = ref [] in
    let emit calls =
      let l = !a.aline in
      out := Printf.sprintf "%s|%d|%s|%s" (hex (ibytes l)) (int_of_nat l.icur)
               (join "," (List.map hex !a.ahist.ents))
               (join "+" (List.map (fun c -> !calls_fmt c) calls)) :: !out in
    emit [];
    List.iter (fun op ->
      let (name, arg) = split_once ':' op in
      match name with
      | "b" -> List.iter (fun b ->
                 let (g', oi) = accept !g b in g := g';
                 (match oi with
                  | Some ev -> let (a', calls) = astep !feats cs handler_raw cap hc !a ev in a := a'; emit calls
                  | None -> emit [])) (unhex arg)
      | "w" | "p" -> emit []
      | "y" | "k" -> ()
      | _ -> failwith "aspec op")
      (List.filter (fun s -> s <> "") (split_on ';' ops));
    String.concat " ; " (List.rev !out)
  | _ -> "n/a"

let dispatch (e : string) : string -> string =
  match e with
  | "aspec" -> aspec
  | "quote" -> quote | "tokspec" -> tokspec | "wrspec" -> wrspec | "termchk" -> termchk | "termproj" -> termproj | "screen" -> screen | "edspec" -> edspec
  | "histspec" -> histspec | "argspec" -> argspec | "acspec" -> acspec
  | _ -> dispatch e
