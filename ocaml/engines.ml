exception Model_none
let dispatch (e : string) : string -> string = failwith ("unknown engine " ^ e)
