open Model
exception Model_none

let rec pos_of_int (i : int) : positive =
  if i = 1 then XH else if i land 1 = 0 then XO (pos_of_int (i lsr 1)) else XI (pos_of_int (i lsr 1))
let n_of_int (i : int) : n = if i = 0 then N0 else Npos (pos_of_int i)
let rec int_of_pos = function XH -> 1 | XO p -> 2 * int_of_pos p | XI p -> 2 * int_of_pos p + 1
let int_of_n = function N0 -> 0 | Npos p -> int_of_pos p
let rec nat_of_int (i : int) : nat = if i <= 0 then O else S (nat_of_int (i - 1))
let int_of_nat (n : nat) : int = let rec go acc = function O -> acc | S m -> go (acc + 1) m in go 0 n

let unhex (s : string) : n list =
  if s = "." || s = "" then [] else begin
    let l = String.length s / 2 in
    List.init l (fun i -> n_of_int (int_of_string ("0x" ^ String.sub s (2 * i) 2)))
  end
let hex (bs : n list) : string =
  if bs = [] then "." else String.concat "" (List.map (fun b -> Printf.sprintf "%02x" (int_of_n b)) bs)

let join sep l = if l = [] then "-" else String.concat sep l
let split_on c s = if s = "" then [] else String.split_on_char c s
let split_once c s =
  match String.index_opt s c with
  | None -> (s, "")
  | Some i -> (String.sub s 0 i, String.sub s (i + 1) (String.length s - i - 1))
let some = function Some x -> x | None -> raise Model_none

(* arbitrary-size decimal <-> N (values of u64 / i128 fields do not fit OCaml's int) *)
let n_of_dec (s : string) : n =
  let acc = ref N0 in
  String.iter (fun c -> acc := N.add (N.mul !acc (n_of_int 10)) (n_of_int (Char.code c - 48))) s; !acc
let dec_of_n (x : n) : string =
  if x = N0 then "0" else begin
    let b = Buffer.create 40 in
    let r = ref x in
    let ten = n_of_int 10 in
    while !r <> N0 do
      Buffer.add_char b (Char.chr (48 + int_of_n (N.modulo !r ten)));
      r := N.div !r ten
    done;
    let s = Buffer.contents b in
    String.init (String.length s) (fun i -> s.[String.length s - 1 - i])
  end
