(* Model-side driver: reads the same case lines as the Rust harness, runs the extracted Coq model, prints the same
   canonical format. usage: driver <engine> [featset]   featset = letters of h (history) a (autocomplete) c (help) or "none" *)
let () =
  let engine = Sys.argv.(1) in
  if Array.length Sys.argv > 2 then begin
    let fs = Sys.argv.(2) in
    let has c = fs <> "none" && String.contains fs c in
    Engines.feats := { Model.f_hist = has 'h'; f_ac = has 'a'; f_help = has 'c' }
  end;
  let f = Engines.dispatch engine in
  try
    while true do
      let line = input_line stdin in
      let line = String.trim line in
      if line <> "" then begin
        (try print_string (f line) with Util.Model_none -> print_string "NONE");
        print_newline ()
      end
    done
  with End_of_file -> ()
