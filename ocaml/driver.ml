(* Model-side driver: reads the same case lines as the Rust harness, runs the extracted Coq model, prints the same
   canonical format. usage: driver <engine> *)
open Model

let rec pos_of_int (i : int) : positive =
  if i = 1 then XH else if i land 1 = 0 then XO (pos_of_int (i lsr 1)) else XI (pos_of_int (i lsr 1))
let n_of_int (i : int) : n = if i = 0 then N0 else Npos (pos_of_int i)
let rec int_of_pos = function XH -> 1 | XO p -> 2 * int_of_pos p | XI p -> 2 * int_of_pos p + 1
let int_of_n = function N0 -> 0 | Npos p -> int_of_pos p
let rec nat_of_int (i : int) : nat = if i <= 0 then O else S (nat_of_int (i - 1))
let int_of_nat (n : nat) : int = let rec go acc = function O -> acc | S m -> go (acc + 1) m in go 0 n

let unhex (s : string) : n list =
  if s = "." || s = "" then [] else begin
    let l = String.length s / 2 in
    List.init l (fun i -> n_of_int (int_of_string ("0x" ^ String.sub s (2 * i) 2)))
  end
let hex (bs : n list) : string =
  if bs = [] then "." else String.concat "" (List.map (fun b -> Printf.sprintf "%02x" (int_of_n b)) bs)

let join sep l = if l = [] then "-" else String.concat sep l
let split_on c s = if s = "" then [] else String.split_on_char c s
let split_once c s =
  match String.index_opt s c with
  | None -> (s, "")
  | Some i -> (String.sub s 0 i, String.sub s (i + 1) (String.length s - i - 1))

let ctl_str = function
  | Backspace -> "BS" | Down -> "DN" | Enter -> "EN" | Back -> "BK" | Forward -> "FW" | Tab -> "TB" | Up -> "UP"

let dec line =
  let (_, evs) = runa ig0 (unhex line) in
  join " " (List.map (function Ctl c -> ctl_str c | Chr s -> "c:" ^ hex s) evs)

let u8 line =
  let (_, cs) = run acc0 (unhex line) in
  join " " (List.map hex cs)

let ev_str = function Ctl c -> ctl_str c | Chr s -> "c:" ^ hex s

(* decu: a list of key units; prints REJECT when the list is not well-formed/greedy, else "<bytes> <events>" *)
let parse_unit (t : string) : unit_ =
  let rest k = String.sub t k (String.length t - k) in
  if t = "bs" then UBS else if t = "tab" then UTab
  else if t = "tcr" then UTerm TCR else if t = "tlf" then UTerm TLF
  else if t = "tcrlf" then UTerm TCRLF else if t = "tlfcr" then UTerm TLFCR
  else if String.length t > 3 && String.sub t 0 3 = "csi" then
    let (ps, f) = split_once ':' (rest 3) in
    UCsi (unhex ps, List.hd (unhex f))
  else if String.length t > 3 && String.sub t 0 3 = "ign" then UIgn (List.hd (unhex (rest 3)))
  else if t.[0] = 'c' then UChar (unhex (rest 1))
  else failwith ("unit " ^ t)

let decu line =
  let us = List.map parse_unit (split_on ' ' line) in
  if not (List.for_all wf_unitb us && greedyb N0 us) then "REJECT"
  else hex (List.concat_map bytes_of us) ^ " " ^ join " " (List.map ev_str (List.concat_map events_of us))

let () =
  let engine = Sys.argv.(1) in
  let f = match engine with
    | "dec" -> dec
    | "u8" -> u8
    | "decu" -> decu
    | _ -> Engines.dispatch engine in
  try
    while true do
      let line = input_line stdin in
      let line = String.trim line in
      if line <> "" then begin
        (try print_string (f line) with Engines.Model_none -> print_string "NONE");
        print_newline ()
      end
    done
  with End_of_file -> ()
