(* Common imports, conventions and small tactics shared by every file. *)
From Coq Require Export List NArith Arith Lia ZifyN ZifyBool ZifyNat Bool.
Export ListNotations.
Global Open Scope N_scope.
Global Arguments N.add : simpl never.
Global Arguments N.sub : simpl never.
Global Arguments N.mul : simpl never.
Global Arguments N.leb : simpl never.
Global Arguments N.ltb : simpl never.
Global Arguments N.eqb : simpl never.
Global Arguments N.div : simpl never.
Global Arguments N.modulo : simpl never.
Global Arguments N.land : simpl never.
Global Arguments N.lor : simpl never.
Global Arguments N.shiftr : simpl never.
Global Arguments N.shiftl : simpl never.

(* bytes are N below 256, strings are byte lists *)
Definition byte (b : N) : Prop := b < 256.
Definition bytes (bs : list N) : Prop := Forall byte bs.

Ltac brk := repeat match goal with
  | |- context [if ?c then _ else _] => destruct c eqn:?
  end.
Ltac brkH := repeat match goal with
  | |- context [if ?c then _ else _] => destruct c eqn:?
  | H : context [if ?c then _ else _] |- _ => destruct c eqn:?
  end.

(* option monad notation used by the checked-style model: None = the Rust would panic / be UB here *)
Definition obind {A B} (o : option A) (f : A -> option B) : option B :=
  match o with Some a => f a | None => None end.
Notation "'do' x <- o ; k" := (obind o (fun x => k)) (at level 200, x pattern, o at level 100, k at level 200).
Definition oguard (b : bool) : option unit := if b then Some tt else None.

Fixpoint list_eqb (a b : list N) : bool :=
  match a, b with
  | [], [] => true
  | x :: a', y :: b' => (x =? y) && list_eqb a' b'
  | _, _ => false
  end.
Lemma list_eqb_spec a b : list_eqb a b = true <-> a = b.
Proof.
  revert b; induction a as [|x a IH]; intros [|y b]; cbn; split; intros H; try congruence; try discriminate.
  - apply andb_true_iff in H as [H1 H2]. apply N.eqb_eq in H1. apply IH in H2. congruence.
  - injection H as -> ->. rewrite N.eqb_refl. cbn. apply IH. reflexivity.
Qed.
Lemma list_eqb_refl a : list_eqb a a = true.
Proof. apply list_eqb_spec. reflexivity. Qed.
