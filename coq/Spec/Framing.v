(* Application output framing (spec side of C13). *)
From EC Require Import Base Model.Writer.

Fixpoint lf_to_crlf (t : list N) : list N :=
  match t with
  | [] => []
  | b :: r => if b =? 10 then 13 :: 10 :: lf_to_crlf r else b :: lf_to_crlf r
  end.

(* bytes produced by a list of application operations *)
Definition hop_bytes (h : hop) : list N :=
  match h with
  | HWrite t => lf_to_crlf t
  | HWriteln t => lf_to_crlf t ++ [13; 10]
  | HSetPrompt _ => []
  end.
Definition hops_bytes (hs : list hop) : list N := flat_map hop_bytes hs.

Definition ends_with_lf (t : list N) : bool := match rev t with 10 :: _ => true | _ => false end.
(* one line break is added iff the output is non-empty and did not already end with one *)
Definition needs_break (out : list N) : bool := match out with [] => false | _ => negb (ends_with_lf out) end.

(* ECMA-48: CR, EL 2 (ESC [ 2 K), CUB (ESC [ D) - fixed here independently of codes.rs *)
Definition frame_write (hs : list hop) (prompt text : list N) (back : nat) : list N :=
  let h := hops_bytes hs in
  [13] ++ [27; 91; 50; 75] ++ h ++ (if needs_break h then [13; 10] else []) ++ prompt ++ text
  ++ concat (repeat [27; 91; 68] back).
Definition frame_enter (hs : list hop) (prompt' : list N) : list N :=
  let h := hops_bytes hs in
  [13; 10] ++ h ++ (if needs_break h then [13; 10] else []) ++ prompt'.
