(* An unbounded-width ECMA-48 line terminal (spec side of C06), fed byte by byte.
   Ground state: printable characters of width 1 overwrite at the column (a cell holds one character = its UTF-8 bytes),
   CR, LF (new empty row, column kept), BS (one column left, saturating), other C0 controls ignored, ESC starts an escape sequence.
   CSI (ESC [) with an optional decimal parameter Pn (default 1, 0 counts as 1): CUF (C), CUB (D, saturating), DCH (P), ICH (@);
   EL (K) with Ps = 0 (default, cursor to end), 1 (start to cursor), 2 (whole line). Sequences with several parameters,
   intermediates or other final bytes are consumed and ignored. *)
From EC Require Import Base Spec.Utf8Spec Spec.ArgSpec.

Definition cell := list N.
Definition blank : cell := [32].
Record vterm := { rows : list (list cell); row : list cell; col : nat }.   (* rows: finished rows, newest first *)
Definition vterm0 := {| rows := []; row := []; col := 0 |}.

Inductive titem := TChar (c : cell) | TCR | TLF | TCUF | TCUB | TDCH | TICH | TEL0 | TEL1 | TEL2.

Fixpoint overwrite (r : list cell) (c : nat) (x : cell) : list cell :=
  match c, r with
  | O, [] => [x]
  | O, _ :: r' => x :: r'
  | S c', [] => blank :: overwrite [] c' x
  | S c', y :: r' => y :: overwrite r' c' x
  end.
Fixpoint delete_at (r : list cell) (c : nat) : list cell :=
  match c, r with
  | _, [] => []
  | O, _ :: r' => r'
  | S c', y :: r' => y :: delete_at r' c'
  end.
Fixpoint insert_at (r : list cell) (c : nat) : list cell :=
  match c, r with
  | O, _ => match r with [] => [] | _ => blank :: r end
  | S c', [] => []
  | S c', y :: r' => y :: insert_at r' c'
  end.

Definition feed1 (t : vterm) (i : titem) : vterm :=
  match i with
  | TChar c => {| rows := rows t; row := overwrite (row t) (col t) c; col := S (col t) |}
  | TCR => {| rows := rows t; row := row t; col := 0 |}
  | TLF => {| rows := row t :: rows t; row := []; col := col t |}
  | TCUF => {| rows := rows t; row := row t; col := S (col t) |}
  | TCUB => {| rows := rows t; row := row t; col := pred (col t) |}
  | TDCH => {| rows := rows t; row := delete_at (row t) (col t); col := col t |}
  | TICH => {| rows := rows t; row := insert_at (row t) (col t); col := col t |}
  | TEL0 => {| rows := rows t; row := firstn (col t) (row t); col := col t |}
  | TEL1 => {| rows := rows t; row := repeat blank (Nat.min (S (col t)) (length (row t))) ++ skipn (S (col t)) (row t); col := col t |}
  | TEL2 => {| rows := rows t; row := []; col := col t |}
  end.

(* lexer state *)
Inductive lstate := LG | LEsc | LCsi (p : option nat) (bad : bool) | LU (need : nat) (acc : list N).
Definition tstate := (vterm * lstate)%type.
Definition tinit : tstate := (vterm0, LG).

Definition pn (p : option nat) : nat := match p with Some (S n) => S n | _ => 1 end.
Definition csi_final (t : vterm) (p : option nat) (b : N) : vterm :=
  if b =? 67 then Nat.iter (pn p) (fun t => feed1 t TCUF) t
  else if b =? 68 then Nat.iter (pn p) (fun t => feed1 t TCUB) t
  else if b =? 80 then Nat.iter (pn p) (fun t => feed1 t TDCH) t
  else if b =? 64 then Nat.iter (pn p) (fun t => feed1 t TICH) t
  else if b =? 75 then
    match p with
    | None | Some O => feed1 t TEL0
    | Some (S O) => feed1 t TEL1
    | Some (S (S O)) => feed1 t TEL2
    | _ => t
    end
  else t.

Definition tstep (T : tstate) (b : N) : tstate :=
  let '(t, l) := T in
  match l with
  | LG =>
    if b =? 13 then (feed1 t TCR, LG) else if b =? 10 then (feed1 t TLF, LG) else if b =? 8 then (feed1 t TCUB, LG) else if b =? 27 then (t, LEsc)
    else if b <? 32 then (t, LG)
    else match lead_len b with
         | S O => (feed1 t (TChar [b]), LG)
         | n => (t, LU (Nat.pred n) [b])
         end
  | LEsc => if b =? 91 then (t, LCsi None false) else (t, LG)
  | LCsi p bad =>
    if (48 <=? b) && (b <=? 57) then (t, LCsi (Some (10 * (match p with Some n => n | None => O end) + N.to_nat (b - 48))%nat) bad)
    else if (64 <=? b) && (b <=? 126) then (if bad then t else csi_final t p b, LG)
    else if (32 <=? b) && (b <=? 63) then (t, LCsi p true)
    else (t, LG)
  | LU need acc =>
    match need with
    | S (S k) => (t, LU (S k) (acc ++ [b]))
    | _ => (feed1 t (TChar (acc ++ [b])), LG)
    end
  end.
Definition tfeed (T : tstate) (bs : list N) : tstate := fold_left tstep bs T.

(* the row ignoring trailing blanks *)
Fixpoint strip_blanks_rev (r : list cell) : list cell :=
  match r with c :: r' => if list_eqb c blank then strip_blanks_rev r' else r | [] => [] end.
Definition visible (r : list cell) : list cell := rev (strip_blanks_rev (rev r)).

Fixpoint cells_eqb (a b : list cell) : bool :=
  match a, b with
  | [], [] => true
  | x :: a', y :: b' => list_eqb x y && cells_eqb a' b'
  | _, _ => false
  end.
(* C06 oracle: no sequence pending, the current row shows prompt ++ text (ignoring trailing blanks), cursor at |prompt| + cursor *)
Definition view_ok (T : tstate) (prompt text : list N) (cursor : nat) : bool :=
  (match snd T with LG => true | _ => false end)
  && cells_eqb (visible (row (fst T))) (visible (chars_of (prompt ++ text)))
  && Nat.eqb (col (fst T)) (length (chars_of prompt) + cursor).
