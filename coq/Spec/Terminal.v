(* An unbounded-width ECMA-48 line terminal (spec side of C06): printable characters of width 1 overwrite at the column,
   CR, LF (new empty row, column kept), CUF, CUB (saturating), DCH, ICH, EL 2. A cell holds one character (its UTF-8 bytes). *)
From EC Require Import Base Spec.Utf8Spec.

Definition cell := list N.
Definition blank : cell := [32].
Record vterm := { rows : list (list cell); row : list cell; col : nat }.   (* rows: finished rows, newest first *)
Definition vterm0 := {| rows := []; row := []; col := 0 |}.

Inductive titem := TChar (c : cell) | TCR | TLF | TCUF | TCUB | TDCH | TICH | TEL2 | TOther (b : N).

Fixpoint overwrite (r : list cell) (c : nat) (x : cell) : list cell :=
  match c, r with
  | O, [] => [x]
  | O, _ :: r' => x :: r'
  | S c', [] => blank :: overwrite [] c' x
  | S c', y :: r' => y :: overwrite r' c' x
  end.
Fixpoint delete_at (r : list cell) (c : nat) : list cell :=
  match c, r with
  | _, [] => []
  | O, _ :: r' => r'
  | S c', y :: r' => y :: delete_at r' c'
  end.
Fixpoint insert_at (r : list cell) (c : nat) : list cell :=
  match c, r with
  | O, _ => match r with [] => [] | _ => blank :: r end
  | S c', [] => []
  | S c', y :: r' => y :: insert_at r' c'
  end.

Definition feed1 (t : vterm) (i : titem) : vterm :=
  match i with
  | TChar c => {| rows := rows t; row := overwrite (row t) (col t) c; col := S (col t) |}
  | TCR => {| rows := rows t; row := row t; col := 0 |}
  | TLF => {| rows := row t :: rows t; row := []; col := col t |}
  | TCUF => {| rows := rows t; row := row t; col := S (col t) |}
  | TCUB => {| rows := rows t; row := row t; col := pred (col t) |}
  | TDCH => {| rows := rows t; row := delete_at (row t) (col t); col := col t |}
  | TICH => {| rows := rows t; row := insert_at (row t) (col t); col := col t |}
  | TEL2 => {| rows := rows t; row := []; col := col t |}
  | TOther _ => t
  end.
Definition feed (t : vterm) (is : list titem) : vterm := fold_left feed1 is t.

(* lexer: bytes -> items. ESC [ <final> with no parameters for the five sequences the library emits; ESC [ 2 K. *)
Definition char_len (b : N) : nat :=
  if b <? 0x80 then 1 else if b <? 0xE0 then 2 else if b <? 0xF0 then 3 else 4.
Fixpoint lex (fuel : nat) (bs : list N) : list titem :=
  match fuel with
  | O => []
  | S f =>
    match bs with
    | [] => []
    | 13 :: r => TCR :: lex f r
    | 10 :: r => TLF :: lex f r
    | 27 :: 91 :: 67 :: r => TCUF :: lex f r
    | 27 :: 91 :: 68 :: r => TCUB :: lex f r
    | 27 :: 91 :: 80 :: r => TDCH :: lex f r
    | 27 :: 91 :: 64 :: r => TICH :: lex f r
    | 27 :: 91 :: 50 :: 75 :: r => TEL2 :: lex f r
    | b :: r => if b <? 32 then TOther b :: lex f r
                else let n := char_len b in TChar (firstn n bs) :: lex f (skipn n bs)
    end
  end.
Definition term_lex (bs : list N) : list titem := lex (S (length bs)) bs.

(* the row ignoring trailing blanks *)
Fixpoint strip_blanks_rev (r : list cell) : list cell :=
  match r with c :: r' => if list_eqb c blank then strip_blanks_rev r' else r | [] => [] end.
Definition visible (r : list cell) : list cell := rev (strip_blanks_rev (rev r)).

(* what must be on screen: prompt ++ line as cells, cursor column *)
Fixpoint cells_of (fuel : nat) (bs : list N) : list cell :=
  match fuel with
  | O => []
  | S f => match bs with
           | [] => []
           | b :: _ => let n := char_len b in firstn n bs :: cells_of f (skipn n bs)
           end
  end.
Definition cells (bs : list N) : list cell := cells_of (length bs) bs.

Fixpoint cells_eqb (a b : list cell) : bool :=
  match a, b with
  | [], [] => true
  | x :: a', y :: b' => list_eqb x y && cells_eqb a' b'
  | _, _ => false
  end.
(* C06 oracle: current row shows prompt ++ text (ignoring trailing blanks), cursor at |prompt| + cursor *)
Definition view_ok (t : vterm) (prompt text : list N) (cursor : nat) : bool :=
  cells_eqb (visible (row t)) (visible (cells (prompt ++ text)))
  && Nat.eqb (col t) (length (cells prompt) + cursor).
