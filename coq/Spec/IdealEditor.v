(* The ideal line editor over Unicode scalar values (spec side of C05). A char is the UTF-8 byte list of one scalar. *)
From EC Require Import Base.

Record ideal := { chars : list (list N); icur : nat }.
Definition ideal0 := {| chars := []; icur := 0 |}.
Definition ibytes (i : ideal) : list N := concat (chars i).

Inductive iop :=
| IInsert (cs : list (list N))     (* insert these chars at the cursor, all or nothing *)
| ILeft | IRight
| IRemove                          (* remove the char at the cursor, if any *)
| IClear.

(* returns the new state and the op's boolean result (accepted / moved) *)
Definition ideal_step (cap : nat) (i : ideal) (o : iop) : ideal * bool :=
  match o with
  | IInsert cs =>
    if Nat.leb (length (ibytes i) + length (concat cs)) cap
    then ({| chars := firstn (icur i) (chars i) ++ cs ++ skipn (icur i) (chars i); icur := icur i + length cs |}, true)
    else (i, false)
  | ILeft => match icur i with O => (i, false) | S c => ({| chars := chars i; icur := c |}, true) end
  | IRight => if Nat.ltb (icur i) (length (chars i)) then ({| chars := chars i; icur := S (icur i) |}, true) else (i, false)
  | IRemove => ({| chars := firstn (icur i) (chars i) ++ skipn (S (icur i)) (chars i); icur := icur i |}, true)
  | IClear => (ideal0, true)
  end.
