(* Quoting rules of the tokeniser, declaratively (spec side of C07). *)
From EC Require Import Base.

(* functional tokeniser: what the tokens of a line ARE (no in-place buffer) *)
Inductive qmode := QSpace | QNormal | QQuoted | QUnescape.
(* cur: bytes of the token being collected (reversed); started: a token is open *)
Fixpoint tokens_go (m : qmode) (cur : list N) (bs : list N) : list (list N) :=
  match bs with
  | [] => match m with QSpace => [] | _ => [rev cur] end
  | b :: r =>
    match m with
    | QSpace => if b =? 34 then tokens_go QQuoted [] r
                else if (b =? 32) || (b =? 0) then tokens_go QSpace [] r
                else tokens_go QNormal [b] r
    | QNormal => if (b =? 32) || (b =? 0) then rev cur :: tokens_go QSpace [] r
                 else tokens_go QNormal (b :: cur) r
    | QQuoted => if (b =? 34) || (b =? 0) then rev cur :: tokens_go QSpace [] r
                 else if b =? 92 then tokens_go QUnescape cur r
                 else tokens_go QQuoted (b :: cur) r
    | QUnescape => tokens_go QQuoted (b :: cur) r
    end
  end.
Definition tokens_fun (line : list N) : list (list N) := tokens_go QSpace [] line.

(* quoting a string so that it survives: wrap in quotes, escape quote and backslash *)
Definition escape (s : list N) : list N :=
  flat_map (fun b => if (b =? 34) || (b =? 92) then [92; b] else [b]) s.
Definition quote (s : list N) : list N := 34 :: escape s ++ [34].
Fixpoint render_quoted (l : list (list N)) : list N :=
  match l with
  | [] => []
  | [s] => quote s
  | s :: r => quote s ++ 32 :: render_quoted r
  end.
