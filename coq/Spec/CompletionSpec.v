(* Tab completion, declaratively (spec side of C11). *)
From EC Require Import Base Model.Utils Model.Editor Model.Cli Spec.Utf8Spec Spec.ArgSpec.

(* lcp2: longest common prefix of two char lists, see Utf8Spec *)
Definition lcp_all (l : list (list (list N))) : list (list N) :=
  match l with [] => [] | x :: r => fold_left lcp2 r x end.

(* largest prefix of the chars whose bytes fit in room *)
Fixpoint fit_chars (room : nat) (cs : list (list N)) : list (list N) :=
  match cs with
  | [] => []
  | c :: r => if Nat.leb (length c) room then c :: fit_chars (room - length c) r else []
  end.

(* names: every visible command name followed by the built-in help candidate; all valid UTF-8 *)
Definition complete_spec (names : list (list N)) (cap : nat) (text : list N) (cursor : nat) : list N * nat :=
  let nchars := length (chars_of text) in
  let removed := if Nat.ltb cursor nchars then trailing_spaces (concat (skipn cursor (chars_of text))) else O in
  let t := firstn (length text - removed) text in
  let w := trim_start t in
  let unchanged := (text, cursor) in
  match w with
  | [] => unchanged
  | _ =>
    if existsb (fun b => b =? 32) w then unchanged else
    let matching := filter (fun n => starts_with n w) names in
    match matching with
    | [] => unchanged
    | _ =>
      let conts := map (fun n => chars_of (skipn (length w) n)) matching in
      let L := lcp_all conts in
      let room := (cap - length t)%nat in
      let e := fit_chars room L in
      let full := Nat.eqb (length e) (length L) in
      let t1 := t ++ concat e in
      let unique := match matching with [_] => true | _ => false end in
      let t2 := if unique && full && Nat.ltb (length t1) cap then t1 ++ [32] else t1 in
      (t2, length (chars_of t2))
    end
  end.
