(* Key-unit grammar of the input stream (spec side of C04). The meaning of the bytes is fixed here,
   independently of codes.rs: BS = 8, TAB = 9, LF = 10, CR = 13, ESC = 27, '[' = 91, 'A'..'D' = 65..68. *)
From EC Require Import Base Model.Input Spec.Utf8Spec.

Inductive term := TCR | TLF | TCRLF | TLFCR.
Inductive unit_ :=
| UChar (c : list N)            (* one well-formed scalar >= U+0020, not DEL *)
| UBS | UTab
| UTerm (t : term)              (* one line terminator, read greedily *)
| UCsi (ps : list N) (f : N)    (* ESC [ params final *)
| UIgn (b : N).                 (* any other C0 control, lone ESC included *)

Definition bytes_of (u : unit_) : list N :=
  match u with
  | UChar c => c | UBS => [8] | UTab => [9]
  | UTerm TCR => [13] | UTerm TLF => [10] | UTerm TCRLF => [13;10] | UTerm TLFCR => [10;13]
  | UCsi ps f => 27 :: 91 :: ps ++ [f] | UIgn b => [b] end.
Definition events_of (u : unit_) : list input :=
  match u with
  | UChar c => [Chr c] | UBS => [Ctl Backspace] | UTab => [Ctl Tab] | UTerm _ => [Ctl Enter]
  | UCsi _ f => if f =? 65 then [Ctl Up] else if f =? 66 then [Ctl Down]
                else if f =? 67 then [Ctl Forward] else if f =? 68 then [Ctl Back] else []
  | UIgn _ => [] end.
Definition wf_unit (u : unit_) : Prop :=
  match u with
  | UChar c => wf_char c /\ (forall x, hd_error c = Some x -> 0x20 <= x) /\ c <> [0x7F]
  | UCsi ps f => Forall (fun p => p < 256 /\ (p < 0x40 \/ 0x7E < p)) ps /\ 0x40 <= f <= 0x7E
  | UIgn b => b < 0x20 /\ b <> 8 /\ b <> 9 /\ b <> 10 /\ b <> 13
  | _ => True end.
Definition first_of (u : unit_) : N := hd 0 (bytes_of u).
(* what the decoder remembers of the unit: 0 after a two-byte terminator, its last byte otherwise *)
Definition last_after (u : unit_) : N :=
  match u with UTerm TCRLF | UTerm TLFCR => 0 | _ => List.last (bytes_of u) 0 end.
(* "read greedily" + "lone ESC": the previous byte must not pair with the first byte of the next unit *)
Definition compat (lastb : N) (u : unit_) : Prop :=
  ~ (lastb = 13 /\ first_of u = 10) /\ ~ (lastb = 10 /\ first_of u = 13) /\ ~ (lastb = 27 /\ first_of u = 91).
Fixpoint greedy (lastb : N) (us : list unit_) : Prop :=
  match us with [] => True | u :: r => compat lastb u /\ greedy (last_after u) r end.

Definition is_term (u : unit_) : bool := match u with UTerm _ => true | _ => false end.

(* executable versions of the side conditions (used by the extracted oracle to accept generated unit lists) *)
Definition wf_unitb (u : unit_) : bool :=
  match u with
  | UChar c => wf_charb c && (match c with x :: _ => 0x20 <=? x | [] => false end) && negb (list_eqb c [0x7F])
  | UCsi ps f => forallb (fun p => (p <? 256) && ((p <? 0x40) || (0x7E <? p))) ps && (0x40 <=? f) && (f <=? 0x7E)
  | UIgn b => (b <? 0x20) && negb (b =? 8) && negb (b =? 9) && negb (b =? 10) && negb (b =? 13)
  | _ => true end.
Definition compatb (lastb : N) (u : unit_) : bool :=
  negb ((lastb =? 13) && (first_of u =? 10)) && negb ((lastb =? 10) && (first_of u =? 13))
  && negb ((lastb =? 27) && (first_of u =? 91)).
Fixpoint greedyb (lastb : N) (us : list unit_) : bool :=
  match us with [] => true | u :: r => compatb lastb u && greedyb (last_after u) r end.
