(* History as a list of entries, oldest first, and a position (spec side of C10). *)
From EC Require Import Base.

Record hspec := { ents : list (list N); pos : option nat }.
Definition hspec0 := {| ents := []; pos := None |}.

Definition esize (e : list N) : nat := S (length e).
Definition total (es : list (list N)) : nat := fold_right (fun e a => esize e + a)%nat 0%nat es.
(* drop the least number of oldest entries so that the rest fits *)
Fixpoint evict (cap : nat) (es : list (list N)) : list (list N) :=
  match es with
  | [] => []
  | e :: r => if Nat.leb (total es) cap then es else evict cap r
  end.
Fixpoint remove_entry (t : list N) (es : list (list N)) : list (list N) :=
  match es with
  | [] => []
  | e :: r => if list_eqb e t then r else e :: remove_entry t r
  end.
Definition acceptable (cap : nat) (t : list N) : bool :=
  negb (existsb (fun b => b =? 0) t) && Nat.leb (esize t) cap && negb (match t with [] => true | _ => false end).

Definition hs_push (cap : nat) (h : hspec) (t : list N) : hspec :=
  if acceptable cap t then
    (* make room for t: the entries kept are the newest ones that fit together with t *)
    {| ents := evict (cap - esize t) (remove_entry t (ents h)) ++ [t]; pos := None |}
  else h.

Definition hs_older (h : hspec) : hspec * option (list N) :=
  match pos h with
  | None => match length (ents h) with
            | O => (h, None)
            | S k => ({| ents := ents h; pos := Some k |}, nth_error (ents h) k)
            end
  | Some O => (h, None)
  | Some (S i) => ({| ents := ents h; pos := Some i |}, nth_error (ents h) i)
  end.
Definition hs_newer (h : hspec) : hspec * option (list N) :=
  match pos h with
  | None => (h, None)
  | Some i => if Nat.ltb (S i) (length (ents h)) then ({| ents := ents h; pos := Some (S i) |}, nth_error (ents h) (S i))
              else ({| ents := ents h; pos := None |}, None)
  end.

(* retention as a function of the whole submission history *)
Fixpoint dedup_keep_last (l : list (list N)) : list (list N) :=
  match l with
  | [] => []
  | x :: r => if existsb (list_eqb x) r then dedup_keep_last r else x :: dedup_keep_last r
  end.
