(* Argument classification, declaratively (spec side of C08). Tokens are byte lists holding valid UTF-8. *)
From EC Require Import Base Model.Args Spec.Utf8Spec.

(* split valid UTF-8 into its characters by lead byte *)
Definition lead_len (b : N) : nat := if b <? 0x80 then 1 else if b <? 0xE0 then 2 else if b <? 0xF0 then 3 else 4.
Fixpoint split_chars (fuel : nat) (bs : list N) : list (list N) :=
  match fuel with
  | O => []
  | S f => match bs with [] => [] | b :: _ => firstn (lead_len b) bs :: split_chars f (skipn (lead_len b) bs) end
  end.
Definition chars_of (bs : list N) : list (list N) := split_chars (length bs) bs.

(* code point of one well-formed character *)
Definition decode_char (c : list N) : N :=
  match c with
  | [a] => a
  | [a; b] => (a mod 32) * 64 + b mod 64
  | [a; b; c] => ((a mod 16) * 64 + b mod 64) * 64 + c mod 64
  | [a; b; c; d] => (((a mod 8) * 64 + b mod 64) * 64 + c mod 64) * 64 + d mod 64
  | _ => 0
  end.

(* classification of one token; the flag says whether only values follow *)
Definition classify_tok (vo : bool) (t : list N) : list arg * bool :=
  if vo then ([Value t], true)
  else match t with
  | b0 :: b1 :: r =>
    if b0 =? 45 then
      if b1 =? 45 then match r with [] => ([DoubleDash], true) | _ => ([LongOption r], false) end
      else (map (fun c => ShortOption (decode_char c)) (chars_of (b1 :: r)), false)
    else ([Value t], false)
  | _ => ([Value t], false)
  end.
Fixpoint classify_all (vo : bool) (ts : list (list N)) : list arg :=
  match ts with
  | [] => []
  | t :: r => let '(items, vo') := classify_tok vo t in items ++ classify_all vo' r
  end.
