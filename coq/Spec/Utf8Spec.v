(* Unicode Table 3-7: well-formed UTF-8 byte sequences, one scalar value each. *)
From EC Require Import Base.

Definition cont (b : N) : Prop := 0x80 <= b /\ b <= 0xBF.
Definition wf_char (s : list N) : Prop :=
  match s with
  | [a] => a < 0x80
  | [a; b] => 0xC2 <= a /\ a <= 0xDF /\ cont b
  | [a; b; c] => ((a = 0xE0 /\ 0xA0 <= b /\ b <= 0xBF) \/ (0xE1 <= a /\ a <= 0xEC /\ cont b)
                  \/ (a = 0xED /\ 0x80 <= b /\ b <= 0x9F) \/ (0xEE <= a /\ a <= 0xEF /\ cont b)) /\ cont c
  | [a; b; c; d] => ((a = 0xF0 /\ 0x90 <= b /\ b <= 0xBF) \/ (0xF1 <= a /\ a <= 0xF3 /\ cont b)
                  \/ (a = 0xF4 /\ 0x80 <= b /\ b <= 0x8F)) /\ cont c /\ cont d
  | _ => False
  end.

Definition utf8_valid (bs : list N) : Prop := exists cs, Forall wf_char cs /\ bs = concat cs.

(* executable versions (used by the extracted oracle) *)
Definition contb (b : N) : bool := (0x80 <=? b) && (b <=? 0xBF).
Definition wf_charb (s : list N) : bool :=
  match s with
  | [a] => a <? 0x80
  | [a; b] => (0xC2 <=? a) && (a <=? 0xDF) && contb b
  | [a; b; c] => (((a =? 0xE0) && (0xA0 <=? b) && (b <=? 0xBF)) || ((0xE1 <=? a) && (a <=? 0xEC) && contb b)
                  || ((a =? 0xED) && (0x80 <=? b) && (b <=? 0x9F)) || ((0xEE <=? a) && (a <=? 0xEF) && contb b)) && contb c
  | [a; b; c; d] => (((a =? 0xF0) && (0x90 <=? b) && (b <=? 0xBF)) || ((0xF1 <=? a) && (a <=? 0xF3) && contb b)
                  || ((a =? 0xF4) && (0x80 <=? b) && (b <=? 0x8F))) && contb c && contb d
  | _ => false
  end.

(* greedy validator: take the shortest well-formed prefix (the code is prefix-free, so it is the only one) *)
Fixpoint validb_fuel (fuel : nat) (bs : list N) : bool :=
  match fuel with
  | O => false
  | S f =>
    match bs with
    | [] => true
    | a :: r1 =>
      if wf_charb [a] then validb_fuel f r1 else
      match r1 with
      | b :: r2 =>
        if wf_charb [a; b] then validb_fuel f r2 else
        match r2 with
        | c :: r3 =>
          if wf_charb [a; b; c] then validb_fuel f r3 else
          match r3 with
          | d :: r4 => if wf_charb [a; b; c; d] then validb_fuel f r4 else false
          | [] => false
          end
        | [] => false
        end
      | [] => false
      end
    end
  end.
Definition validb (bs : list N) : bool := validb_fuel (S (length bs)) bs.

(* longest common prefix of two character lists *)
Fixpoint lcp2 (a b : list (list N)) : list (list N) :=
  match a, b with
  | x :: a', y :: b' => if list_eqb x y then x :: lcp2 a' b' else []
  | _, _ => []
  end.
