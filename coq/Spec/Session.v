(* The abstract session (spec side of C01, and of the Cli-level clauses of C05 / C10): an ideal line, an abstract history, the prompt.
   One step per decoded key event; it says which handler calls the event causes. *)
From EC Require Import Base Model.Input Model.Args Model.Writer Model.Cli Spec.IdealEditor Spec.HistSpec Spec.QuoteSpec Spec.ArgSpec Spec.CompletionSpec Generated.Codes.

Record astate := { aline : ideal; ahist : hspec; aprompt : list N; acalls : nat }.   (* acalls: number of handler invocations so far *)
Definition astate0 (p : list N) : astate := {| aline := ideal0; ahist := hspec0; aprompt := p; acalls := 0 |}.

Definition set_line (l : ideal) (a : astate) : astate := {| aline := l; ahist := ahist a; aprompt := aprompt a; acalls := acalls a |}.

(* the line replaced by text x (history recall): all or nothing *)
Definition replace_line (cap : nat) (x : list N) : ideal := fst (ideal_step cap ideal0 (IInsert (chars_of x))).

Definition last_prompt (p : list N) (hs : list hop) : list N :=
  fold_left (fun acc h => match h with HSetPrompt q => q | _ => acc end) hs p.

Section AbstractStep.
  Variable feats : features.
  Variable cs : cmdset.
  Variable handler : nat -> list N -> list (list N) -> list hop.
  Variables cap hcap : nat.

  (* is the line a help request (library answers) / rejected by the typed parser / dispatched? *)
  Definition dispatch (a : astate) : list (list N * list (list N)) :=
    match tokens_fun (ibytes (aline a)) with
    | [] => []
    | name :: args =>
      if f_help feats && (match help_request name args with Some (Some _) => true | _ => false end) then []
      else match cs_parse cs name args with Some _ => [] | None => [(name, args)] end
    end.

  Definition astep (a : astate) (ev : input) : astate * list (list N * list (list N)) :=
    match ev with
    | Chr c => (set_line (fst (ideal_step cap (aline a) (IInsert [c]))) a, [])
    | Ctl Backspace =>
      let '(l1, moved) := ideal_step cap (aline a) ILeft in
      (if moved then set_line (fst (ideal_step cap l1 IRemove)) a else a, [])
    | Ctl Forward => (set_line (fst (ideal_step cap (aline a) IRight)) a, [])
    | Ctl Back => (set_line (fst (ideal_step cap (aline a) ILeft)) a, [])
    | Ctl Up =>
      if f_hist feats then
        let '(h', el) := hs_older (ahist a) in
        let a1 := {| aline := aline a; ahist := h'; aprompt := aprompt a; acalls := acalls a |} in
        (match el with Some x => set_line (replace_line cap x) a1 | None => a1 end, [])
      else (a, [])
    | Ctl Down =>
      if f_hist feats then
        let '(h', el) := hs_newer (ahist a) in
        let a1 := {| aline := aline a; ahist := h'; aprompt := aprompt a; acalls := acalls a |} in
        (set_line (replace_line cap (match el with Some x => x | None => [] end)) a1, [])
      else (a, [])
    | Ctl Tab =>
      if f_ac feats then
        let '(t, c) := complete_spec (cs_names cs ++ [HELP_CANDIDATE]) cap (ibytes (aline a)) (icur (aline a)) in
        (set_line {| chars := chars_of t; icur := c |} a, [])
      else (a, [])
    | Ctl Enter =>
      let h' := if f_hist feats then hs_push hcap (ahist a) (ibytes (aline a)) else ahist a in
      let d := dispatch a in
      let p' := match d with
                | [(name, args)] => last_prompt (aprompt a) (handler (acalls a) name args)
                | _ => aprompt a
                end in
      ({| aline := ideal0; ahist := h'; aprompt := p'; acalls := acalls a + length d |}, d)
    end.
End AbstractStep.
