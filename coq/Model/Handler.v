(* The fixed application handler used by the session engine (mirrors harness/src/session.rs : raw_handler).
   It is one instance of the `handler` parameter of the Cli model; the theorems quantify over all handlers. *)
From EC Require Import Base Model.Utils Model.Args Model.Writer Model.Cli Spec.ArgSpec.

Definition PROMPTS : list (list N) :=
  [ []; [36; 32]; [0xCE; 0xBB; 0xE2; 0x86; 0x92; 32]; [97; 98; 99; 62; 32];
    (* two prompts of the same BYTE length and different widths *) [194; 187; 32]; [35; 62; 32] ].
Definition prompt_of (i : nat) : list N := nth i PROMPTS [].

Definition arg_repr (a : arg) : list N :=
  match a with
  | DoubleDash => [45; 45]
  | LongOption n => 45 :: 45 :: n
  | ShortOption c => 45 :: encode_utf8 c
  | Value v => v
  end.
Definition values_of (l : list arg) : list (list N) :=
  flat_map (fun a => match a with Value v => [v] | _ => [] end) l.

Fixpoint intersperse (sep : hop) (l : list hop) : list hop :=
  match l with
  | [] => [] | [x] => [x]
  | x :: r => x :: sep :: intersperse sep r
  end.

(* literal format strings of the `g` action / writer op (mirrors harness/src/session.rs : write_literal) *)
Definition LITS : list (list N) :=
  [ [100;111;110;101]; [111;110;101;10;116;119;111;10]; []; [120;10]; [97;13;10;98]; [116;97;105;108;13]; [0xC3;0xA9;10;10]; [10] ].
Definition lit_of (i : nat) : list N := nth (Nat.modulo i 8) LITS [].
Definition first_of (t : list N) : nat := match t with b :: _ => N.to_nat b | [] => 0 end.

(* one action of the scripted `do` command: the first byte of the value selects it, the rest is its text *)
Definition do_action (v : list N) : list hop :=
  match v with
  | [] => []
  | k :: t =>
    if N.eqb k 115 (* s *) then [HWrite t]
    else if N.eqb k 108 (* l *) then [HWriteln t]
    else if N.eqb k 110 (* n *) then [HWrite (t ++ [10])]
    else if N.eqb k 109 (* m *) then [HWrite (t ++ [10] ++ t)]
    else if N.eqb k 112 (* p *) then [HSetPrompt (prompt_of (Nat.modulo (first_of t) 4))]
    else if N.eqb k 103 (* g *) then [HWrite (lit_of (first_of t))]
    else if N.eqb k 99 (* c *) then map HWrite (chars_of t)
    else if N.eqb k 102 (* f *) then [HWrite t]
    else if N.eqb k 117 (* u *) then [HWrite t]
    else if N.eqb k 116 (* t *) then title_hops t
    else if N.eqb k 101 (* e *) then list_element_hops t t (Nat.modulo (first_of t) 8)
    else []
  end.

(* action `x<text>` of `do`: the processor stops and rejects the command (UnexpectedArgument text) - only a hand-written
   CommandProcessor can do that after writing; the actions before it have run *)
Fixpoint do_until_x (vals : list (list N)) : list (list N) * option (list N) :=
  match vals with
  | [] => ([], None)
  | v :: r => match v with
              | 120 :: t => ([], Some t)
              | _ => let '(l, o) := do_until_x r in (v :: l, o)
              end
  end.

Definition handler_raw (n : nat) (name : list N) (args : list (list N)) : list hop :=
  match args_of args with
  | None => []
  | Some items =>
    let vals := values_of items in
    if list_eqb name [101;99;104;111] (* echo *) then intersperse (HWrite [32]) (map HWrite vals)
    else if list_eqb name [110;108] (* nl *) then map (fun v => HWrite (v ++ [10])) vals
    else if list_eqb name [99;114;108;102] (* crlf *) then flat_map (fun v => [HWrite v; HWrite [13; 10]]) vals
    else if list_eqb name [108;110] (* ln *) then map HWriteln vals
    else if list_eqb name [109;105;100] (* mid *) then map (fun v => HWrite (v ++ [10] ++ v)) vals
    else if list_eqb name [108;110;109;105;100] (* lnmid *) then map (fun v => HWriteln (v ++ [10] ++ v)) vals
    else if list_eqb name [102;109;116] (* fmt *) then map HWrite vals
    else if list_eqb name [112;114;111;109;112;116] (* prompt *) then
      match vals with
      | (b :: _) :: _ => [HSetPrompt (prompt_of (N.to_nat (b mod 4)))]
      | _ => []
      end
    else if list_eqb name [113;117;105;101;116] (* quiet *) then []
    else if list_eqb name [100;111] (* do *) then flat_map do_action (fst (do_until_x vals))
    else if list_eqb name [101;109;112;116;121] (* empty *) then [HWrite []]
    else HWrite name :: flat_map (fun a => [HWrite [32]; HWrite (arg_repr a)]) items
  end.

(* what the hand-written processor of the harness returns after the handler's output (cs_fail of the Cli model) *)
Definition raw_fail (name : list N) (args : list (list N)) : option perr :=
  if list_eqb name [100;111] then
    match args_of args with
    | Some items => match snd (do_until_x (values_of items)) with Some t => Some (EUnexpArg t) | None => None end
    | None => None
    end
  else None.
Definition raw_cmdset_rejecting : cmdset :=
  {| cs_names := []; cs_list_help := []; cs_cmd_help := fun _ _ => None; cs_parse := fun _ _ => None; cs_fail := fun _ n a => raw_fail n a |}.
