(* The fixed application handler used by the session engine (mirrors harness/src/session.rs : raw_handler).
   It is one instance of the `handler` parameter of the Cli model; the theorems quantify over all handlers. *)
From EC Require Import Base Model.Utils Model.Args Model.Writer.

Definition PROMPTS : list (list N) :=
  [ []; [36; 32]; [0xCE; 0xBB; 0xE2; 0x86; 0x92; 32]; [97; 98; 99; 62; 32] ].
Definition prompt_of (i : nat) : list N := nth i PROMPTS [].

Definition arg_repr (a : arg) : list N :=
  match a with
  | DoubleDash => [45; 45]
  | LongOption n => 45 :: 45 :: n
  | ShortOption c => 45 :: encode_utf8 c
  | Value v => v
  end.
Definition values_of (l : list arg) : list (list N) :=
  flat_map (fun a => match a with Value v => [v] | _ => [] end) l.

Fixpoint intersperse (sep : hop) (l : list hop) : list hop :=
  match l with
  | [] => [] | [x] => [x]
  | x :: r => x :: sep :: intersperse sep r
  end.

Definition handler_raw (n : nat) (name : list N) (args : list (list N)) : list hop :=
  match args_of args with
  | None => []
  | Some items =>
    let vals := values_of items in
    if list_eqb name [101;99;104;111] (* echo *) then intersperse (HWrite [32]) (map HWrite vals)
    else if list_eqb name [110;108] (* nl *) then map (fun v => HWrite (v ++ [10])) vals
    else if list_eqb name [99;114;108;102] (* crlf *) then flat_map (fun v => [HWrite v; HWrite [13; 10]]) vals
    else if list_eqb name [108;110] (* ln *) then map HWriteln vals
    else if list_eqb name [109;105;100] (* mid *) then map (fun v => HWrite (v ++ [10] ++ v)) vals
    else if list_eqb name [108;110;109;105;100] (* lnmid *) then map (fun v => HWriteln (v ++ [10] ++ v)) vals
    else if list_eqb name [102;109;116] (* fmt *) then map HWrite vals
    else if list_eqb name [112;114;111;109;112;116] (* prompt *) then
      match vals with
      | (b :: _) :: _ => [HSetPrompt (prompt_of (N.to_nat (b mod 4)))]
      | _ => []
      end
    else if list_eqb name [113;117;105;101;116] (* quiet *) then []
    else if list_eqb name [101;109;112;116;121] (* empty *) then [HWrite []]
    else HWrite name :: flat_map (fun a => [HWrite [32]; HWrite (arg_repr a)]) items
  end.
