(* Model of embedded-cli/src/utils.rs. Text arguments are byte lists (the Rust takes &str). *)
From EC Require Import Base Model.Utf8.

(* char_count: number of Some results of push_byte over the bytes *)
Definition char_count (t : list N) : nat := length (snd (run acc0 t)).

(* char_byte_index: the loop, with its accumulator, char counter and byte counter.
   The test after the loop (`byte_index < text.len()`) is never true there, so the loop falling through gives None. *)
Fixpoint cbi_loop (a : accum) (bs : list N) (k cur idx : nat) : option nat :=
  match bs with
  | [] => None
  | b :: r => if Nat.eqb k cur then Some idx
              else let '(a', o) := push a b in
                   cbi_loop a' r k (match o with Some _ => S cur | None => cur end) (S idx)
  end.
Definition char_byte_index (t : list N) (k : nat) : option nat := cbi_loop acc0 t k 0 0.

(* char_pop_front. Bit operations are written arithmetically; Proofs/BitFacts.v shows, by a sweep over all 256
   byte values, that they agree with the masks and shifts of the Rust ((b & 0xC0) == 0x80  etc.). The u32 accumulator
   wraps at 2^32 as `<<=` does. Checked: char::from_u32_unchecked needs a scalar value. *)
Definition is_cont (b : N) : bool := (0x80 <=? b) && (b <? 0xC0).
Fixpoint pop_conts (cp : N) (bs : list N) : N * list N :=
  match bs with
  | b :: r => if is_cont b then pop_conts ((cp * 64 + b mod 64) mod 4294967296) r else (cp, bs)
  | [] => (cp, [])
  end.
Definition scalarb (c : N) : bool := (c <? 0x110000) && negb ((0xD800 <=? c) && (c <=? 0xDFFF)).
Definition char_pop_front (t : list N) : option (option (N * list N)) :=
  match t with
  | [] => Some None
  | first :: r =>
    let cp0 := if first <? 0x80 then first
               else if (0xC0 <=? first) && (first <? 0xE0) then first mod 32
               else first mod 16 in
    let '(cp, rest) := pop_conts cp0 r in
    if scalarb cp then Some (Some (cp, rest)) else None   (* None: from_u32_unchecked on a non-scalar = UB *)
  end.

(* common_prefix_len *)
Fixpoint cpl_loop (a : accum) (l r : list N) (pos cnt : nat) : nat :=
  match l, r with
  | b1 :: l', b2 :: r' =>
    if b1 =? b2 then
      let '(a', o) := push a b1 in
      cpl_loop a' l' r' (match o with Some _ => S cnt | None => pos end) (S cnt)
    else pos
  | _, _ => pos
  end.
Definition common_prefix_len (l r : list N) : nat := cpl_loop acc0 l r 0 0.

(* encode_utf8 (argument: a scalar value) *)
Definition encode_utf8 (c : N) : list N :=
  if c <? 0x80 then [c]
  else if c <? 0x800 then [0xC0 + c / 64; 0x80 + c mod 64]
  else if c <? 0x10000 then [0xE0 + c / 4096; 0x80 + (c / 64) mod 64; 0x80 + c mod 64]
  else [0xF0 + c / 262144; 0x80 + (c / 4096) mod 64; 0x80 + (c / 64) mod 64; 0x80 + c mod 64].

Fixpoint trim_start (t : list N) : list N :=
  match t with
  | b :: r => if b =? 32 then trim_start r else t
  | [] => []
  end.
