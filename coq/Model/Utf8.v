(* Model of embedded-cli/src/utf8.rs : Utf8Accum::push_byte.
   State: expd = `expected`, buf = `buffer[..partial]` (only read while expected > 0; the Rust leaves stale
   bytes there when it sets expected = 0, the model drops them - not observable). *)
From EC Require Import Base.

Record accum := { expd : nat; buf : list N }.
Definition acc0 := {| expd := 0; buf := [] |}.

(* second octet restrictions (Unicode Table 3-7) *)
Definition second_ok (lead b : N) : bool :=
  if lead =? 0xE0 then 0xA0 <=? b
  else if lead =? 0xED then b <? 0xA0
  else if lead =? 0xF0 then 0x90 <=? b
  else if lead =? 0xF4 then b <? 0x90
  else true.

Definition push (a : accum) (b : N) : accum * option (list N) :=
  if 0xF8 <=? b then (a, None)
  else if 0xF5 <=? b then (acc0, None)
  else if 0xF0 <=? b then ({| expd := 3; buf := [b] |}, None)
  else if 0xE0 <=? b then ({| expd := 2; buf := [b] |}, None)
  else if 0xC2 <=? b then ({| expd := 1; buf := [b] |}, None)
  else if 0xC0 <=? b then (acc0, None)
  else if 0x80 <=? b then
    match expd a with
    | O => (a, None)
    | S n =>
      match buf a with
      | [lead] => if second_ok lead b
                  then (match n with O => (acc0, Some [lead; b])
                                   | _ => ({| expd := n; buf := [lead; b] |}, None) end)
                  else (acc0, None)
      | l => match n with O => (acc0, Some (l ++ [b]))
                        | _ => ({| expd := n; buf := l ++ [b] |}, None) end
      end
    end
  else (acc0, Some [b]).

(* feed a byte list, collect emitted characters *)
Fixpoint run (a : accum) (bs : list N) : accum * list (list N) :=
  match bs with
  | [] => (a, [])
  | b :: r => let '(a1, o) := push a b in let '(a2, l) := run a1 r in
              (a2, match o with Some c => c :: l | None => l end)
  end.
