(* Model of embedded-cli/src/editor.rs and autocomplete.rs.
   text = buffer[..valid]; bytes above `valid` are never observable (every reader goes through text()).
   Functions return option: None = the Rust would panic / execute UB at that point ("checked style"). *)
From EC Require Import Base Model.Utf8 Model.Utils.

Record editor := { cap : nat; text : list N; cursor : nat }.
Definition ed_new (c : nat) : editor := {| cap := c; text := []; cursor := 0 |}.
Definition ed_len (e : editor) : nat := char_count (text e).
Definition ed_clear (e : editor) : editor := {| cap := cap e; text := []; cursor := 0 |}.

(* insert: returns the new editor and whether the text was accepted *)
Definition ed_insert (e : editor) (t : list N) : option (editor * bool) :=
  if Nat.ltb (cap e) (length (text e)) then None (* `buffer.len() - valid` underflows *)
  else
    let remaining := (cap e - length (text e))%nat in
    if Nat.ltb remaining (length t) then Some (e, false)
    else
      let i := match char_byte_index (text e) (cursor e) with Some i => i | None => length (text e) end in
      if Nat.ltb (length (text e)) i then None (* copy_within / slice out of range *)
      else Some ({| cap := cap e; text := firstn i (text e) ++ t ++ skipn i (text e); cursor := (cursor e + char_count t)%nat |}, true).

Definition ed_move_left (e : editor) : editor * bool :=
  match cursor e with
  | O => (e, false)
  | S c => ({| cap := cap e; text := text e; cursor := c |}, true)
  end.
Definition ed_move_right (e : editor) : editor * bool :=
  if Nat.ltb (cursor e) (ed_len e) then ({| cap := cap e; text := text e; cursor := S (cursor e) |}, true) else (e, false).

(* remove the char at the cursor *)
Definition ed_remove (e : editor) : option editor :=
  match char_byte_index (text e) (cursor e) with
  | None => Some e
  | Some c =>
    if Nat.ltb (length (text e)) c then None else
    match char_byte_index (skipn c (text e)) 1 with
    | None => Some {| cap := cap e; text := firstn c (text e); cursor := cursor e |}
    | Some d => let nx := (d + c)%nat in
                if Nat.ltb (length (text e)) nx then None
                else Some {| cap := cap e; text := firstn c (text e) ++ skipn nx (text e); cursor := cursor e |}
    end
  end.

(* text_range(start..) *)
Definition ed_text_from (e : editor) (start : nat) : list N :=
  match char_byte_index (text e) start with Some i => skipn i (text e) | None => [] end.

(* ---- autocomplete.rs *)
Definition request_from_input (t : list N) : option (list N) :=
  let w := trim_start t in
  match w with
  | [] => None
  | _ => if existsb (fun b => b =? 32) w then None else Some w
  end.

Record autocompl := { ac_cap : nat; ac_done : option (list N); ac_partial : bool }.
Definition ac_new (c : nat) : autocompl := {| ac_cap := c; ac_done := None; ac_partial := false |}.

(* str::is_char_boundary *)
Definition is_char_boundary (s : list N) (i : nat) : bool :=
  if Nat.eqb i 0 then true
  else match nth_error s i with
       | None => Nat.eqb i (length s)
       | Some b => negb (is_cont b)
       end.
Fixpoint fit_boundary (s : list N) (fit : nat) : nat :=
  if is_char_boundary s fit then fit else match fit with O => O | S f => fit_boundary s f end.

Definition ac_merge (ac : autocompl) (s : list N) : autocompl :=
  match s, ac_cap ac with
  | [], _ | _, O =>
    {| ac_cap := ac_cap ac; ac_done := Some [];
       ac_partial := ac_partial ac || (match ac_done ac with Some _ => true | None => false end)
                     || (Nat.eqb (ac_cap ac) 0 && negb (match s with [] => true | _ => false end)) |}
  | _, _ =>
    let len := match ac_done ac with Some cur => common_prefix_len s cur | None => length s end in
    let len := if Nat.ltb (ac_cap ac) len then fit_boundary s (ac_cap ac) else len in
    {| ac_cap := ac_cap ac; ac_done := Some (firstn len s);
       ac_partial := ac_partial ac || Nat.ltb len (length s) || (match ac_done ac with Some _ => true | None => false end) |}
  end.

(* number of trailing blanks *)
Definition trailing_spaces (t : list N) : nat :=
  (fix go (l : list N) : nat := match l with b :: r => if b =? 32 then S (go r) else O | [] => O end) (rev t).

(* Editor::autocompletion; f receives the request (command name prefix) and the fresh Autocompletion *)
Definition ed_autocompletion (e : editor) (f : list N -> autocompl -> autocompl) : option editor :=
  let removed := match char_byte_index (text e) (cursor e) with
                 | Some pos => trailing_spaces (skipn pos (text e))
                 | None => O end in
  if Nat.ltb (length (text e)) removed then None else
  let request_len := (length (text e) - removed)%nat in
  if Nat.ltb (cap e) request_len then None (* split_at_mut precondition *) else
  let t := firstn request_len (text e) in
  match request_from_input t with
  | None => Some e
  | Some name =>
    let ac := f name (ac_new (cap e - request_len)) in
    match ac_done ac with
    | None => Some e
    | Some a =>
      let t1 := t ++ a in
      if Nat.ltb (cap e) (length t1) then None else
      let t2 := if negb (ac_partial ac) && Nat.ltb (length t1) (cap e) then t1 ++ [32] else t1 in
      Some {| cap := cap e; text := t2; cursor := char_count t2 |}
    end
  end.
