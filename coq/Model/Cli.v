(* Model of embedded-cli/src/cli.rs : the whole Cli over the sink monad. *)
From EC Require Import Base Generated.Codes Model.Utf8 Model.Utils Model.Input Model.Editor Model.Token Model.Args
  Model.History Model.Sink Model.Writer.

Record features := { f_hist : bool; f_ac : bool; f_help : bool }.

Inductive perr :=
| EMissing (name : list N)
| EParseValue (value expected : list N)
| EUnexpArg (value : list N)
| EUnexpLong (name : list N)
| EUnexpShort (c : N)
| EUnknown.

(* the command set `C` (Autocomplete + Help) and the typed parser in front of the handler *)
Record cmdset := {
  cs_names : list (list N);                                     (* names scanned by the derived Autocomplete, visible groups in order *)
  cs_list_help : list hop;                                      (* what Help::list_commands writes *)
  cs_cmd_help : list N -> list (list N) -> option (list hop);   (* Help::command_help, None = UnknownCommand *)
  cs_parse : list N -> list (list N) -> option perr;            (* FromRaw::parse, Some e = ParseError *)
  cs_fail : nat -> list N -> list (list N) -> option perr       (* CommandProcessor::process returning Err(ParseError) AFTER the handler
                                                                   closure ran (n-th invocation): a hand-written processor may write and then
                                                                   reject the command; the processors the macros generate never do (None) *)
}.
Definition raw_cmdset : cmdset :=
  {| cs_names := []; cs_list_help := []; cs_cmd_help := fun _ _ => None; cs_parse := fun _ _ => None; cs_fail := fun _ _ _ => None |}.

Record cli := {
  ed : editor; hist : history; ig : igen; prompt : list N;
  sk : sinkst;
  hcalls : list (list N * list (list N));    (* handler invocation log *)
  wst : wstate;                              (* fields of the Writer / CliHandle alive during a call *)
  newp : option (list N);
}.

Definition set_ed (e : editor) (s : cli) : cli := {| ed := e; hist := hist s; ig := ig s; prompt := prompt s; sk := sk s; hcalls := hcalls s; wst := wst s; newp := newp s |}.
Definition set_hist (h : history) (s : cli) : cli := {| ed := ed s; hist := h; ig := ig s; prompt := prompt s; sk := sk s; hcalls := hcalls s; wst := wst s; newp := newp s |}.
Definition set_ig (g : igen) (s : cli) : cli := {| ed := ed s; hist := hist s; ig := g; prompt := prompt s; sk := sk s; hcalls := hcalls s; wst := wst s; newp := newp s |}.
Definition set_prompt_f (p : list N) (s : cli) : cli := {| ed := ed s; hist := hist s; ig := ig s; prompt := p; sk := sk s; hcalls := hcalls s; wst := wst s; newp := newp s |}.
Definition set_sk (k : sinkst) (s : cli) : cli := {| ed := ed s; hist := hist s; ig := ig s; prompt := prompt s; sk := k; hcalls := hcalls s; wst := wst s; newp := newp s |}.
Definition log_call (c : list N * list (list N)) (s : cli) : cli := {| ed := ed s; hist := hist s; ig := ig s; prompt := prompt s; sk := sk s; hcalls := hcalls s ++ [c]; wst := wst s; newp := newp s |}.
Definition set_wst (w : wstate) (s : cli) : cli := {| ed := ed s; hist := hist s; ig := ig s; prompt := prompt s; sk := sk s; hcalls := hcalls s; wst := w; newp := newp s |}.
Definition set_newp (np : option (list N)) (s : cli) : cli := {| ed := ed s; hist := hist s; ig := ig s; prompt := prompt s; sk := sk s; hcalls := hcalls s; wst := wst s; newp := np |}.

Section CliModel.
  Variable okf : nat -> bool.
  Variable feats : features.
  Variable cs : cmdset.
  (* the application handler: n-th invocation, command name, argument tokens -> what it does with the handle *)
  Variable handler : nat -> list N -> list (list N) -> list hop.

  Definition wr (bs : list N) : M cli unit := fun s => let '(r, k) := sk_write okf (sk s) bs in (r, set_sk k s).
  Definition fl : M cli unit := fun s => let '(r, k) := sk_flush okf (sk s) in (r, set_sk k s).
  Definition flush_bytes (bs : list N) : M cli unit := wr bs ;; fl.

  (* a fresh Writer / CliHandle *)
  Definition new_writer : M cli unit := modify (fun s => set_newp None (set_wst w0 s)).
  (* run application operations on the Writer; an error stops them (the handler propagates it with `?`) *)
  Fixpoint run_hops (hs : list hop) : M cli unit :=
    match hs with
    | [] => ret tt
    | HWrite t :: r => w_write_str wr wst set_wst t ;; run_hops r
    | HWriteln t :: r => w_writeln_str wr wst set_wst t ;; run_hops r
    | HSetPrompt p :: r => modify (set_newp (Some p)) ;; run_hops r
    end.

  Definition clear_line (clear_prompt : bool) : M cli unit :=
    wr [CARRIAGE_RETURN] ;; wr CLEAR_LINE ;;
    (if clear_prompt then ret tt else mdo s <- get; wr (prompt s)) ;;
    fl.

  (* text, then cursor back to the editor position, then flush (used by write and set_prompt) *)
  Definition redraw_line : M cli unit :=
    mdo s <- get;
    wr (text (ed s)) ;;
    mrepeat (ed_len (ed s) - cursor (ed s)) (wr CURSOR_BACKWARD) ;;
    fl.

  Definition api_build : M cli unit := mdo s <- get; wr (prompt s) ;; fl.

  Definition api_set_prompt (p : list N) : M cli unit :=
    modify (set_prompt_f p) ;; clear_line false ;; redraw_line.

  Definition api_write (hs : list hop) : M cli unit :=
    clear_line true ;;
    new_writer ;;
    run_hops hs ;;
    mdo s <- get;
    (if is_dirty (wst s) then wr CRLF else ret tt) ;;
    wr (prompt s) ;;
    redraw_line.

  Definition on_text (t : list N) : M cli unit :=
    mdo s <- get;
    let inside := Nat.ltb (cursor (ed s)) (ed_len (ed s)) in
    mdo r <- lift_opt (ed_insert (ed s) t);
    match r with
    | (e', true) => modify (set_ed e') ;; (if inside then wr INSERT_CHAR else ret tt) ;; wr t ;; fl
    | (_, false) => ret tt
    end.

  Definition process_error (e : perr) : M cli unit :=
    wr ERR_PREFIX ;;
    (match e with
     | EMissing n => wr ERR_MISSING ;; wr n
     | EParseValue v ex => wr ERR_PARSE_1 ;; wr v ;; wr ERR_PARSE_2 ;; wr ex
     | EUnexpArg v => wr ERR_UNEXP_ARG ;; wr v
     | EUnexpLong n => wr ERR_UNEXP_LONG_1 ;; wr ERR_UNEXP_LONG_2 ;; wr n
     | EUnexpShort c => wr ERR_UNEXP_SHORT ;; wr (encode_utf8 c)
     | EUnknown => wr ERR_UNKNOWN
     end) ;;
    wr CRLF ;; fl.

  Definition process_command (name : list N) (args : list (list N)) : M cli unit :=
    match cs_parse cs name args with
    | Some e =>
      (* the typed processor returns the parse error before the handler closure runs; writer untouched *)
      fl ;; process_error e
    | None =>
      mdo s <- get;
      modify (log_call (name, args)) ;;
      new_writer ;;
      mdo r <- catch (run_hops (handler (length (hcalls s)) name args));
      mdo s1 <- get;
      (match newp s1 with Some p => modify (set_prompt_f p) | None => ret tt end) ;;
      (if is_dirty (wst s1) then wr CRLF else ret tt) ;;
      fl ;;
      reraise r ;;
      (* res was Err(ProcessError::ParseError(e)): the error line follows the (closed) output *)
      match cs_fail cs (length (hcalls s)) name args with Some e => process_error e | None => ret tt end
    end.

  Definition process_help (req : helpreq) : M cli unit :=
    new_writer ;;
    run_hops (match req with
              | HAll => cs_list_help cs
              | HCommand n a =>
                match cs_cmd_help cs n a with
                | None => [HWrite HELP_ERR_1; HWrite HELP_ERR_2]
                | Some hs => hs
                end
              end) ;;
    mdo s <- get;
    (if is_dirty (wst s) then wr CRLF else ret tt) ;;
    fl.

  Definition process_input (raw : list N) (empty : bool) : M cli unit :=
    match from_tokens (tokens_iter raw empty) with
    | None => ret tt
    | Some (name, args) =>
      if f_help feats then
        mdo hr <- lift_opt (help_request name args);
        match hr with
        | Some req => process_help req
        | None => process_command name args
        end
      else process_command name args
    end.

  Definition on_enter : M cli unit :=
    wr CRLF ;;
    mdo s <- get;
    (if f_hist feats then mdo h <- lift_opt (hist_push (hist s) (text (ed s))); modify (set_hist h) else ret tt) ;;
    mdo tk <- lift_opt (tokens_new (text (ed s)));
    let '(buf', raw, empty) := tk in
    (* the buffer now holds the tokenised bytes *)
    modify (set_ed {| cap := cap (ed s); text := buf'; cursor := cursor (ed s) |}) ;;
    mdo r <- catch (process_input raw empty);
    modify (fun s => set_ed (ed_clear (ed s)) s) ;;
    reraise r ;;
    mdo s <- get; wr (prompt s) ;; fl.

  (* candidates: derived scan over the names, then the built-in help *)
  Fixpoint starts_with (s p : list N) : bool :=
    match p, s with
    | [], _ => true
    | x :: p', y :: s' => (x =? y) && starts_with s' p'
    | _ :: _, [] => false
    end.
  Definition complete_with (name : list N) (ac : autocompl) : autocompl :=
    let ac1 := fold_left (fun a n => if starts_with n name then ac_merge a (skipn (length name) n) else a) (cs_names cs) ac in
    if starts_with HELP_CANDIDATE name then ac_merge ac1 (skipn (length name) HELP_CANDIDATE) else ac1.

  Definition on_tab : M cli unit :=
    if f_ac feats then
      mdo s <- get;
      let c0 := cursor (ed s) in
      mdo e' <- lift_opt (ed_autocompletion (ed s) complete_with);
      modify (set_ed e') ;;
      if Nat.ltb c0 (cursor e') then wr (ed_text_from e' c0) ;; fl else ret tt
    else ret tt.

  Definition on_backspace : M cli unit :=
    mdo s <- get;
    match ed_move_left (ed s) with
    | (e1, true) =>
      mdo e2 <- lift_opt (ed_remove e1);
      modify (set_ed e2) ;; flush_bytes CURSOR_BACKWARD ;; flush_bytes DELETE_CHAR
    | (_, false) => ret tt
    end.

  Definition navigate_history (older : bool) : M cli unit :=
    if f_hist feats then
      mdo s <- get;
      mdo r <- lift_opt (if older then hist_older (hist s) else hist_newer (hist s));
      let '(h', el) := r in
      modify (set_hist h') ;;
      let el := if older then el else Some (match el with Some x => x | None => [] end) in
      match el with
      | Some x =>
        mdo r2 <- lift_opt (ed_insert (ed_clear (ed s)) x);
        modify (set_ed (fst r2)) ;;
        clear_line false ;;
        mdo s2 <- get; wr (text (ed s2)) ;; fl
      | None => ret tt
      end
    else ret tt.

  Definition navigate_input (forward : bool) : M cli unit :=
    mdo s <- get;
    let '(e', moved) := if forward then ed_move_right (ed s) else ed_move_left (ed s) in
    if moved then modify (set_ed e') ;; flush_bytes (if forward then CURSOR_FORWARD else CURSOR_BACKWARD)
    else ret tt.

  Definition on_control (c : ctl) : M cli unit :=
    match c with
    | Enter => on_enter
    | Tab => on_tab
    | Backspace => on_backspace
    | Down => navigate_history false
    | Up => navigate_history true
    | Forward => navigate_input true
    | Back => navigate_input false
    end.

  Definition api_process_byte (b : N) : M cli unit :=
    mdo s <- get;
    let '(g', oi) := accept (ig s) b in
    modify (set_ig g') ;;
    match oi with
    | None => ret tt
    | Some (Ctl c) => on_control c
    | Some (Chr t) => on_text t
    end.
End CliModel.

Definition cli_init (cap hcap : nat) (p : list N) : cli :=
  {| ed := ed_new cap; hist := hist_new hcap; ig := ig0; prompt := p; sk := sink0; hcalls := []; wst := w0; newp := None |}.
