(* Model of the code derive(CommandGroup) emits (embedded-cli-macros/src/group/mod.rs) when a member of a group is itself a group:
   FromRaw tries the members in order (only UnknownCommand passes on), Autocomplete scans the visible members, Help::command_count adds
   the visible members up, list_commands prints the visible members that have commands with a blank line between them, command_help asks
   the visible members in order. A member is an enum (derive(Command)) or again a group. *)
From EC Require Import Base Generated.Codes Model.Utils Model.Args Model.Writer Model.Cli Model.Derive.

Inductive gtree := GLeaf (e : enumdecl) | GNode (ms : list (bool * gtree)).     (* hidden?, member *)

Section Tree.
  Variables (name : list N) (args : list (list N)).

  Fixpoint g_parse (t : gtree) : presult :=
    match t with
    | GLeaf e => parse_enum PARSE_FUEL (e_cmds e) name args
    | GNode ms =>
      (fix go (l : list (bool * gtree)) : presult :=
         match l with
         | [] => PErr EUnknown
         | (_, m) :: r => match g_parse m with PErr EUnknown => go r | p => p end
         end) ms
    end.

  (* None: a checked operation failed; Some None: UnknownCommand; Some (Some h): the help text *)
  Fixpoint g_help (t : gtree) : option (option (list hop)) :=
    match t with
    | GLeaf e => cmd_help_enum PARSE_FUEL [] (e_cmds e) name args
    | GNode ms =>
      (fix go (l : list (bool * gtree)) : option (option (list hop)) :=
         match l with
         | [] => Some None
         | (hidden, m) :: r => if hidden then go r else
                               match g_help m with
                               | None => None
                               | Some (Some h) => Some (Some h)
                               | Some None => go r
                               end
         end) ms
    end.
End Tree.

Fixpoint g_names (t : gtree) : list (list N) :=
  match t with
  | GLeaf e => map c_name (e_cmds e)
  | GNode ms => (fix go (l : list (bool * gtree)) := match l with [] => [] | (hidden, m) :: r => (if hidden then [] else g_names m) ++ go r end) ms
  end.
Fixpoint g_count (t : gtree) : nat :=
  match t with
  | GLeaf e => length (e_cmds e)
  | GNode ms => (fix go (l : list (bool * gtree)) := match l with [] => O | (hidden, m) :: r => ((if hidden then O else g_count m) + go r)%nat end) ms
  end.
(* `if count > 0 { if has_output { writeln("") } list_commands(); has_output = true }` for every visible member *)
Fixpoint g_list (t : gtree) : list hop :=
  match t with
  | GLeaf e => list_commands_hops e
  | GNode ms =>
    join_blocks ((fix go (l : list (bool * gtree)) : list (list hop) :=
                    match l with
                    | [] => []
                    | (hidden, m) :: r => (if hidden then [] else match g_count m with O => [] | _ => [g_list m] end) ++ go r
                    end) ms)
  end.

(* the flat group with the same members in the same order; a member of a hidden group is hidden *)
Fixpoint flatten (hidden : bool) (t : gtree) : list (bool * enumdecl) :=
  match t with
  | GLeaf e => [(hidden, e)]
  | GNode ms => (fix go (l : list (bool * gtree)) := match l with [] => [] | (h, m) :: r => flatten (hidden || h) m ++ go r end) ms
  end.
