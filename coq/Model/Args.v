(* Model of embedded-cli/src/arguments.rs (ArgsIter), command.rs (RawCommand::from_tokens) and help.rs. Works on token lists
   (TokensIter over the NUL-separated raw form is modelled in Token.v). *)
From EC Require Import Base Generated.Codes Model.Utils.

Inductive arg := DoubleDash | LongOption (n : list N) | ShortOption (c : N) | Value (v : list N).

(* ArgsIter state: values_only, leftover, remaining tokens. One call of next(): None in the outer option = UB/panic *)
Record aiter := { vonly : bool; leftover : list N; toks : list (list N) }.
Definition ai_new (ts : list (list N)) : aiter := {| vonly := false; leftover := []; toks := ts |}.

Definition ai_next (it : aiter) : option (option (arg * aiter)) :=
  do p <- char_pop_front (leftover it);
  match p with
  | Some (c, rest) => Some (Some (ShortOption c, {| vonly := vonly it; leftover := rest; toks := toks it |}))
  | None =>
    match toks it with
    | [] => Some None
    | raw :: ts =>
      if vonly it then Some (Some (Value raw, {| vonly := true; leftover := leftover it; toks := ts |}))
      else match raw with
      | b0 :: b1 :: rest =>
        if b0 =? 45 then
          if b1 =? 45 then
            match rest with
            | [] => Some (Some (DoubleDash, {| vonly := true; leftover := leftover it; toks := ts |}))
            | _ => Some (Some (LongOption rest, {| vonly := false; leftover := leftover it; toks := ts |}))
            end
          else
            do q <- char_pop_front (b1 :: rest);
            match q with
            | Some (c, rest') => Some (Some (ShortOption c, {| vonly := false; leftover := rest'; toks := ts |}))
            | None => None (* unwrap_unchecked on None *)
            end
        else Some (Some (Value raw, {| vonly := false; leftover := leftover it; toks := ts |}))
      | _ => Some (Some (Value raw, {| vonly := false; leftover := leftover it; toks := ts |}))
      end
    end
  end.

Fixpoint ai_collect (fuel : nat) (it : aiter) : option (list arg) :=
  match fuel with
  | O => None
  | S f => do r <- ai_next it;
           match r with
           | None => Some []
           | Some (a, it') => do l <- ai_collect f it'; Some (a :: l)
           end
  end.
Definition args_fuel (ts : list (list N)) : nat := S (S (length (concat ts) + length ts)).
Definition args_of (ts : list (list N)) : option (list arg) := ai_collect (args_fuel ts) (ai_new ts).

(* into_args: the unread tokens (a partly read short-option cluster is discarded) *)
Definition ai_into_args (it : aiter) : list (list N) := toks it.

(* RawCommand::from_tokens *)
Definition from_tokens (ts : list (list N)) : option (list N * list (list N)) :=
  match ts with [] => None | n :: r => Some (n, r) end.

(* HelpRequest::from_command *)
Inductive helpreq := HAll | HCommand (name : list N) (args : list (list N)).
Definition is_help_arg (a : arg) : bool :=
  match a with
  | LongOption n => list_eqb n HELP_LONG
  | ShortOption c => c =? HELP_SHORT
  | _ => false
  end.
Definition help_request (name : list N) (args : list (list N)) : option (option helpreq) :=
  if list_eqb name HELP_NAME then
    do r <- ai_next (ai_new args);
    match r with
    | Some (Value n, it) => Some (Some (HCommand n (ai_into_args it)))
    | None => Some (Some HAll)
    | _ => Some None
    end
  else
    do l <- args_of args;
    if existsb is_help_arg l then Some (Some (HCommand name args)) else Some None.
