(* Model of embedded-cli/src/writer.rs : Writer (LF -> CRLF translation, dirty flag). The writer runs over a state that
   contains the sink; `wr` is the raw sink write of that state. *)
From EC Require Import Base Generated.Codes Model.Sink.

Record wstate := { dirty : bool; lastb : N * N }.
Definition w0 := {| dirty := false; lastb := (0, 0) |}.
Definition is_dirty (w : wstate) : bool :=
  dirty w && negb ((fst (lastb w) =? CARRIAGE_RETURN) && (snd (lastb w) =? LINE_FEED)).

(* split at LF: complete lines (without their LF) and the rest after the last LF *)
Fixpoint split_lf (cur : list N) (t : list N) : list (list N) * list N :=
  match t with
  | [] => ([], rev cur)
  | b :: r => if b =? LINE_FEED then let '(ls, rest) := split_lf [] r in (rev cur :: ls, rest)
              else split_lf (b :: cur) r
  end.

Definition last2 (w : wstate) (t : list N) : N * N :=
  match rev t with
  | b1 :: b2 :: _ => (b2, b1)
  | [b1] => (snd (lastb w), b1)
  | [] => lastb w
  end.

Section WriterOps.
  Context {S : Type}.
  Variable wr : list N -> M S unit.      (* raw sink write_str of the underlying writer *)
  Variable getw : S -> wstate.           (* the Writer's own fields live in the state, so that an error keeps them *)
  Variable setw : wstate -> S -> S.

  Definition w_set (w : wstate) : M S unit := modify (setw w).

  Fixpoint w_lines (ls : list (list N)) : M S unit :=
    match ls with
    | [] => ret tt
    | l :: r => wr l ;; wr CRLF ;; w_set {| dirty := false; lastb := (0, 0) |} ;; w_lines r
    end.

  (* Writer::write_str *)
  Definition w_write_str (t : list N) : M S unit :=
    let '(ls, rest) := split_lf [] t in
    w_lines ls ;;
    match rest with
    | [] => ret tt
    | _ => wr rest ;; mdo s <- get; w_set {| dirty := true; lastb := last2 (getw s) rest |}
    end.

  (* Writer::writeln_str *)
  Definition w_writeln_str (t : list N) : M S unit :=
    w_write_str t ;;
    wr CRLF ;;
    mdo s <- get; w_set {| dirty := false; lastb := lastb (getw s) |}.
End WriterOps.

(* application-side operations on the handle *)
Inductive hop := HWrite (t : list N) | HWriteln (t : list N) | HSetPrompt (p : list N).

(* write_list_element / write_title expressed in terms of the primitive operations *)
Definition list_element_hops (name desc : list N) (longest : nat) : list hop :=
  [HWrite [32; 32]; HWrite name] ++ repeat (HWrite [32]) (longest - length name) ++ [HWrite [32; 32]; HWriteln desc].
Definition title_hops (t : list N) : list hop := [HWrite t].
