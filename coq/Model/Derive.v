(* Model of the code emitted by embedded-cli-macros (derive Command / CommandGroup): an interpreter over a declaration
   datatype. Mirrors command/{model,parse,help,autocomplete}.rs and group/mod.rs. *)
From EC Require Import Base Generated.Codes Model.Utils Model.Args Model.Writer Model.Cli.

Inductive aty := TStr | TU8 | TBool | TChar | TInt (signed : bool) (bits : N)   (* TInt: i8 u16 i16 u32 i32 ... u128 i128 *)
  | TSize (signed : bool).                                                   (* usize / isize on the 64-bit host the harness runs on *)
Inductive value := VStr (s : list N) | VNum (n : N) | VBool (b : bool) | VChr (c : N) | VInt (neg : bool) (n : N).
Inductive akind := KPos | KOpt (long : option (list N)) (short : option N) | KFlag (long : option (list N)) (short : option N).
Inductive adefault := DNone | DStr (s : list N) | DVal (v : value).
Record argdecl := {
  a_field : list N; a_kind : akind; a_ty : aty; a_optional : bool; a_default : adefault;
  a_valname : list N; a_help : option (list N) }.

Inductive cmddecl :=
| Cmd (name : list N) (hshort hlong : option (list N)) (args : list argdecl)
      (sub : option (bool * list N * list cmddecl)).     (* optional?, help title of the sub enum, its commands *)
Definition c_name (c : cmddecl) := match c with Cmd n _ _ _ _ => n end.
Definition c_short (c : cmddecl) := match c with Cmd _ s _ _ _ => s end.
Definition c_long (c : cmddecl) := match c with Cmd _ _ l _ _ => l end.
Definition c_args (c : cmddecl) := match c with Cmd _ _ _ a _ => a end.
Definition c_sub (c : cmddecl) := match c with Cmd _ _ _ _ s => s end.

Record enumdecl := { e_title : list N; e_cmds : list cmddecl }.
Inductive cset := SEnum (e : enumdecl) | SGroup (members : list (bool * enumdecl)).   (* hidden?, member *)

(* ---- typed values *)
Inductive fval := FAbsent | FPresent (v : value) | FPlain (v : value).     (* Option<T> None / Some, plain T *)
Inductive tval := TV (variant : list N) (fields : list (list N * fval)) (sub : option (option tval)).
  (* sub: None = no sub-command field; Some None = Option<Sub> absent; Some (Some t) *)

(* ---- value conversion (str::parse of the field type). A parameter of the theorems; this instance is the one extracted. *)
Definition digit (b : N) : bool := (48 <=? b) && (b <=? 57).
Fixpoint parse_dec (acc : N) (bs : list N) : option N :=
  match bs with
  | [] => Some acc
  | b :: r => if digit b then parse_dec (acc * 10 + (b - 48)) r else None
  end.
(* core::num from_str_radix(10): one optional sign (`-` only for signed types), at least one digit, digits only, range checked *)
Definition conv_int (sg : bool) (bits : N) (s : list N) : option value :=
    let '(neg, ds) := match s with
                      | 43 :: r => (false, r)
                      | 45 :: r => if sg then (true, r) else (false, s)
                      | _ => (false, s)
                      end in
    match ds with
    | [] => None
    | _ => match parse_dec 0 ds with
           | None => None
           | Some n =>
             if neg then (if n <=? 2 ^ (bits - 1) then Some (VInt (negb (n =? 0)) n) else None)
             else if n <? (if sg then 2 ^ (bits - 1) else 2 ^ bits) then Some (VInt false n) else None
           end
    end.
Definition conv (t : aty) (s : list N) : option value :=
  match t with
  | TStr => Some (VStr s)
  | TU8 =>
    let ds := match s with 43 :: r => r | _ => s end in
    match ds with
    | [] => None
    | _ => if Nat.ltb 12 (length ds) then
             (* longer than any u8 even with leading zeros? leading zeros are legal: strip them *)
             match parse_dec 0 ds with Some n => if n <? 256 then Some (VNum n) else None | None => None end
           else match parse_dec 0 ds with Some n => if n <? 256 then Some (VNum n) else None | None => None end
    end
  | TBool => if list_eqb s [116;114;117;101] then Some (VBool true)
             else if list_eqb s [102;97;108;115;101] then Some (VBool false) else None
  | TChar => match char_pop_front s with
             | Some (Some (c, [])) => Some (VChr c)
             | _ => None
             end
  | TInt sg bits => conv_int sg bits s
  | TSize sg => conv_int sg 64 s
  end.
Fixpoint dec_digits (fuel : nat) (n : N) (acc : list N) : list N :=
  match fuel with
  | O => acc
  | S f => if n <? 10 then (48 + n) :: acc else dec_digits f (n / 10) ((48 + n mod 10) :: acc)
  end.
Definition ty_name (t : aty) : list N :=
  match t with TStr => [38;115;116;114] | TU8 => [117;56] | TBool => [98;111;111;108] | TChar => [99;104;97;114]
  | TInt sg bits => (if sg then 105 else 117) :: dec_digits 4 bits []
  | TSize sg => (if sg then 105 else 117) :: [115;105;122;101] end.
Definition ty_default (t : aty) : value :=
  match t with TStr => VStr [] | TU8 => VNum 0 | TBool => VBool false | TChar => VChr 0 | TInt _ _ => VInt false 0 | TSize _ => VInt false 0 end.

(* ---- names used in usage / errors (CommandArg::full_name) *)
Definition opt_prefix (long : option (list N)) (short : option N) : list N :=
  match long, short with
  | Some l, _ => 45 :: 45 :: l
  | None, Some c => 45 :: encode_utf8 c
  | None, None => []
  end.
Definition bracket (optional : bool) (v : list N) : list N :=
  if optional then [91] ++ v ++ [93] else [60] ++ v ++ [62].
Definition full_name (a : argdecl) : list N :=
  match a_kind a with
  | KFlag l s => opt_prefix l s
  | KOpt l s => opt_prefix l s ++ [32] ++ bracket (a_optional a) (a_valname a)
  | KPos => bracket (a_optional a) (a_valname a)
  end.

(* ---- FromRaw::parse *)
Inductive pstate := PNormal | PExpect (field : list N).

Definition name_matches (long : option (list N)) (short : option N) (a : arg) : bool :=
  match a with
  | LongOption n => match long with Some l => list_eqb n l | None => false end
  | ShortOption c => match short with Some s => c =? s | None => false end
  | _ => false
  end.
(* the first declared flag/option whose name arm matches *)
Fixpoint find_named (ds : list argdecl) (a : arg) : option argdecl :=
  match ds with
  | [] => None
  | d :: r => match a_kind d with
              | KFlag l s | KOpt l s => if name_matches l s a then Some d else find_named r a
              | KPos => find_named r a
              end
  end.
Definition positionals (ds : list argdecl) : list argdecl :=
  filter (fun d => match a_kind d with KPos => true | _ => false end) ds.
Fixpoint find_field (ds : list argdecl) (f : list N) : option argdecl :=
  match ds with [] => None | d :: r => if list_eqb (a_field d) f then Some d else find_field r f end.

Definition env := list (list N * value).          (* parsed so far: field -> value *)
Fixpoint env_get (e : env) (f : list N) : option value :=
  match e with [] => None | (k, v) :: r => if list_eqb k f then Some v else env_get r f end.
Definition env_set (e : env) (f : list N) (v : value) : env := (f, v) :: e.

Inductive presult := PErr (e : perr) | POk (t : tval) | PPanic.

Definition conv_field (d : argdecl) (s : list N) : perr + value :=
  match conv (a_ty d) s with
  | Some v => inr v
  | None => inl (EParseValue s (ty_name (a_ty d)))
  end.

(* construct the variant from the collected values, declaration order; first missing required argument wins *)
Fixpoint build_fields (ds : list argdecl) (e : env) : perr + list (list N * fval) :=
  match ds with
  | [] => inr []
  | d :: r =>
    let got := env_get e (a_field d) in
    let this : perr + fval :=
      if a_optional d then inr (match got with Some v => FPresent v | None => FAbsent end)
      else match a_kind d with
      | KFlag _ _ => inr (FPlain (match got with Some v => v | None => VBool false end))
      | _ =>
        match a_default d with
        | DStr s => (* `unwrap_or(from_arg(s)?)`: the default is converted eagerly *)
          match conv_field d s with
          | inl er => inl er
          | inr dv => inr (FPlain (match got with Some v => v | None => dv end))
          end
        | DVal dv => inr (FPlain (match got with Some v => v | None => dv end))
        | DNone => match got with Some v => inr (FPlain v) | None => inl (EMissing (full_name d)) end
        end
      end in
    match this with
    | inl er => inl er
    | inr fv => match build_fields r e with inl er => inl er | inr l => inr ((a_field d, fv) :: l) end
    end
  end.

Section Parse.
  (* parse of the sub-command enum, supplied by the outer recursion (fuel) *)
  Variable parse_sub : list cmddecl -> list N -> list (list N) -> presult.

  (* the `while let Some(arg) = args.next()` loop. Returns env and the parsed sub-command. *)
  Fixpoint arg_loop (fuel : nat) (c : cmddecl) (it : aiter) (st : pstate) (npos : nat) (e : env)
    : option (perr + (env * option tval)) :=
    match fuel with
    | O => None
    | S f =>
      match ai_next it with
      | None => None
      | Some None => Some (inr (e, None))
      | Some (Some (a, it')) =>
        match find_named (c_args c) a with
        | Some d =>
          match a_kind d with
          | KFlag _ _ => arg_loop f c it' PNormal npos (env_set e (a_field d) (VBool true))
          | _ => arg_loop f c it' (PExpect (a_field d)) npos e
          end
        | None =>
          match a with
          | Value v =>
            match st with
            | PExpect fld =>
              match find_field (c_args c) fld with
              | None => None
              | Some d => match conv_field d v with
                          | inl er => Some (inl er)
                          | inr x => arg_loop f c it' PNormal npos (env_set e fld x)
                          end
              end
            | PNormal =>
              match c_sub c with
              | Some (_, _, subcmds) =>
                match parse_sub subcmds v (ai_into_args it') with
                | PErr er => Some (inl er)
                | POk t => Some (inr (e, Some t))
                | PPanic => None
                end
              | None =>
                match nth_error (positionals (c_args c)) npos with
                | None => Some (inl (EUnexpArg v))
                | Some d => match conv_field d v with
                            | inl er => Some (inl er)
                            | inr x => arg_loop f c it' PNormal (S npos) (env_set e (a_field d) x)
                            end
                end
              end
            end
          | LongOption n => Some (inl (EUnexpLong n))
          | ShortOption ch => Some (inl (EUnexpShort ch))
          | DoubleDash => arg_loop f c it' st npos e
          end
        end
      end
    end.

  Definition parse_cmd (c : cmddecl) (args : list (list N)) : presult :=
    match c_args c, c_sub c with
    | [], None => POk (TV (c_name c) [] None)        (* unit variant: the arguments are not looked at *)
    | _, _ =>
      match arg_loop (args_fuel args) c (ai_new args) PNormal 0 [] with
      | None => PPanic
      | Some (inl er) => PErr er
      | Some (inr (e, sub)) =>
        match build_fields (c_args c) e with
        | inl er => PErr er
        | inr fs =>
          match c_sub c with
          | None => POk (TV (c_name c) fs None)
          | Some (optional, _, _) =>
            match sub with
            | Some t => POk (TV (c_name c) fs (Some (Some t)))
            | None => if optional then POk (TV (c_name c) fs (Some None))
                      else PErr (EMissing SUB_NAME_REQ)   (* <COMMAND> *)
            end
          end
        end
      end
    end.
End Parse.

Fixpoint find_cmd (cmds : list cmddecl) (name : list N) : option cmddecl :=
  match cmds with [] => None | c :: r => if list_eqb (c_name c) name then Some c else find_cmd r name end.

Fixpoint parse_enum (fuel : nat) (cmds : list cmddecl) (name : list N) (args : list (list N)) : presult :=
  match fuel with
  | O => PPanic
  | S f => match find_cmd cmds name with
           | None => PErr EUnknown
           | Some c => parse_cmd (parse_enum f) c args
           end
  end.

Fixpoint depth_cmds (fuel : nat) (cmds : list cmddecl) : nat :=
  match fuel with
  | O => O
  | S f => S (fold_right (fun c m => match c_sub c with Some (_, _, s) => Nat.max (depth_cmds f s) m | None => m end) O cmds)
  end.
Definition PARSE_FUEL := 16%nat.

(* group: members in order (hidden ones too); UnknownCommand passes on *)
Fixpoint parse_group (ms : list (bool * enumdecl)) (name : list N) (args : list (list N)) : presult * nat :=
  match ms with
  | [] => (PErr EUnknown, O)
  | (_, e) :: r => match parse_enum PARSE_FUEL (e_cmds e) name args with
                   | PErr EUnknown => let '(p, i) := parse_group r name args in (p, S i)
                   | p => (p, O)
                   end
  end.
Definition parse_set (s : cset) (name : list N) (args : list (list N)) : presult :=
  match s with
  | SEnum e => parse_enum PARSE_FUEL (e_cmds e) name args
  | SGroup ms => fst (parse_group ms name args)
  end.

(* ---- Autocomplete: NAMES of every visible member, in order *)
Definition set_names (s : cset) : list (list N) :=
  match s with
  | SEnum e => map c_name (e_cmds e)
  | SGroup ms => flat_map (fun m : bool * enumdecl => if fst m then [] else map c_name (e_cmds (snd m))) ms
  end.

(* ---- Help *)
Definition max_len (l : list (list N)) : nat := fold_right (fun x m => Nat.max (length x) m) O l.
Definition odefault (o : option (list N)) : list N := match o with Some s => s | None => [] end.

Definition list_commands_hops (e : enumdecl) : list hop :=
  title_hops (e_title e ++ [58]) ++ [HWriteln []] ++
  flat_map (fun c => list_element_hops (c_name c) (odefault (c_short c)) (max_len (map c_name (e_cmds e)))) (e_cmds e).

Definition options_names (l : option (list N)) (s : option N) : list N :=
  match s, l with
  | Some c, Some n => (45 :: encode_utf8 c) ++ [44; 32] ++ (45 :: 45 :: n)
  | Some c, None => 45 :: encode_utf8 c
  | None, Some n => 45 :: 45 :: n
  | None, None => []
  end.
Definition option_lines (ds : list argdecl) : list (list N * list N) :=
  flat_map (fun d => match a_kind d with
                     | KFlag l s => [(options_names l s, odefault (a_help d))]
                     | KOpt l s => [(options_names l s ++ [32] ++ bracket (a_optional d) (a_valname d), odefault (a_help d))]
                     | KPos => []
                     end) ds
  ++ [(H_HELP_OPT_NAMES, H_HELP_OPT_TEXT)].   (* "-h, --help", "Print help" *)

Definition usage_hops (parent : list hop) (c : cmddecl) : list hop :=
  title_hops H_USAGE ++ [HWrite [32]] ++ parent ++ [HWrite (c_name c)] ++
  (if existsb (fun d => match a_kind d with KPos => false | _ => true end) (c_args c)
   then [HWrite H_OPTIONS_TAG] else []) ++
  (match c_sub c with
   | Some (true, _, _) => [HWrite H_SUB_OPT]
   | Some (false, _, _) => [HWrite H_SUB_REQ]
   | None => flat_map (fun d => [HWrite [32]; HWrite (full_name d)]) (positionals (c_args c))
   end) ++ [HWriteln []].

Definition args_help_hops (c : cmddecl) : option (list hop) :=
  match positionals (c_args c) with
  | [] => None
  | ps => Some (title_hops H_ARGUMENTS ++
                flat_map (fun d => list_element_hops (full_name d) (odefault (a_help d)) (max_len (map full_name ps))) ps)
  end.
Definition options_help_hops (c : cmddecl) : list hop :=
  let ls := option_lines (c_args c) in
  title_hops H_OPTIONS ++ [HWriteln []] ++
  flat_map (fun p => list_element_hops (fst p) (snd p) (max_len (map fst ls))) ls.

Fixpoint join_blocks (bs : list (list hop)) : list hop :=
  match bs with
  | [] => []
  | [b] => b
  | b :: r => b ++ [HWriteln []] ++ join_blocks r
  end.
Definition opt_block {A} (o : option A) (f : A -> list hop) : list (list hop) := match o with Some a => [f a] | None => [] end.

Definition own_help_hops (parent : list hop) (c : cmddecl) : list hop :=
  join_blocks (opt_block (c_long c) (fun l => [HWriteln l]) ++ [usage_hops parent c] ++ opt_block (args_help_hops c) (fun h => h)
               ++ [options_help_hops c]
               ++ opt_block (c_sub c) (fun s => list_commands_hops {| e_title := snd (fst s); e_cmds := snd s |})).

(* the loop that looks for the sub-command name in a help request: Some (name, rest) when found *)
Fixpoint help_loop (fuel : nat) (c : cmddecl) (it : aiter) (st : pstate) : option (option (list N * list (list N))) :=
  match fuel with
  | O => None
  | S f =>
    match ai_next it with
    | None => None
    | Some None => Some None
    | Some (Some (a, it')) =>
      match find_named (c_args c) a with
      | Some d => match a_kind d with
                  | KFlag _ _ => help_loop f c it' PNormal
                  | _ => help_loop f c it' (PExpect (a_field d))
                  end
      | None =>
        match a with
        | Value v => match st with
                     | PExpect _ => help_loop f c it' PNormal
                     | PNormal => Some (Some (v, ai_into_args it'))
                     end
        | LongOption _ | ShortOption _ => Some None        (* break *)
        | DoubleDash => help_loop f c it' st
        end
      end
    end
  end.

(* Help::command_help of an enum: None in the inner option = UnknownCommand, outer None = panic *)
Fixpoint cmd_help_enum (fuel : nat) (parent : list hop) (cmds : list cmddecl) (name : list N) (args : list (list N))
  : option (option (list hop)) :=
  match fuel with
  | O => None
  | S f =>
    match find_cmd cmds name with
    | None => Some None
    | Some c =>
      match c_sub c with
      | None => Some (Some (own_help_hops parent c))
      | Some (_, _, subcmds) =>
        match help_loop (args_fuel args) c (ai_new args) PNormal with
        | None => None
        | Some (Some (n, rest)) => cmd_help_enum f (parent ++ [HWrite (c_name c); HWrite [32]]) subcmds n rest
        | Some None => Some (Some (own_help_hops parent c))
        end
      end
    end
  end.

Definition list_commands_set (s : cset) : list hop :=
  match s with
  | SEnum e => list_commands_hops e
  | SGroup ms =>
    let vis := filter (fun m : bool * enumdecl => negb (fst m) && negb (match e_cmds (snd m) with [] => true | _ => false end)) ms in
    join_blocks (map (fun m : bool * enumdecl => list_commands_hops (snd m)) vis)
  end.

Fixpoint cmd_help_group (ms : list (bool * enumdecl)) (name : list N) (args : list (list N)) : option (option (list hop)) :=
  match ms with
  | [] => Some None
  | (hidden, e) :: r =>
    if hidden then cmd_help_group r name args else
    match cmd_help_enum PARSE_FUEL [] (e_cmds e) name args with
    | None => None
    | Some (Some h) => Some (Some h)
    | Some None => cmd_help_group r name args
    end
  end.
Definition cmd_help_set (s : cset) (name : list N) (args : list (list N)) : option (option (list hop)) :=
  match s with
  | SEnum e => cmd_help_enum PARSE_FUEL [] (e_cmds e) name args
  | SGroup ms =>
    (* a group with no visible member has no command_help chain; such declarations do not compile - excluded *)
    cmd_help_group ms name args
  end.

(* ---- the cmdset instance handed to the Cli model *)
Definition cmdset_of (s : cset) : cmdset :=
  {| cs_names := set_names s;
     cs_list_help := list_commands_set s;
     cs_cmd_help := fun n a => match cmd_help_set s n a with Some (Some h) => Some h | _ => None end;
     cs_parse := fun n a => match parse_set s n a with PErr e => Some e | _ => None end;
     cs_fail := fun _ _ _ => None |}.
