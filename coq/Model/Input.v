(* Model of embedded-cli/src/input.rs : InputGenerator::{accept, process_csi, process_single}. *)
From EC Require Import Base Generated.Codes Model.Utf8.

Inductive ctl := Backspace | Down | Enter | Back | Forward | Tab | Up.
Inductive input := Ctl (c : ctl) | Chr (s : list N).
Record igen := { csi : bool; last : N; acc : accum }.
Definition ig0 := {| csi := false; last := 0; acc := acc0 |}.

Definition process_csi (g : igen) (b : N) : igen * option input :=
  if (CSI_FINAL_LO <=? b) && (b <=? CSI_FINAL_HI) then
    ({| csi := false; last := b; acc := acc g |},
     if b =? KEY_UP then Some (Ctl Up) else if b =? KEY_DOWN then Some (Ctl Down)
     else if b =? KEY_FORWARD then Some (Ctl Forward) else if b =? KEY_BACK then Some (Ctl Back) else None)
  else ({| csi := true; last := b; acc := acc g |}, None).

(* `lastb` is the previous byte; the suppressed second half of a CR LF / LF CR pair clears last_byte *)
Definition process_single (g : igen) (b lastb : N) : igen * option input :=
  if b =? BACKSPACE then ({| csi := false; last := b; acc := acc g |}, Some (Ctl Backspace))
  else if b =? CARRIAGE_RETURN then
    if lastb =? LINE_FEED then ({| csi := false; last := 0; acc := acc g |}, None)
    else ({| csi := false; last := b; acc := acc g |}, Some (Ctl Enter))
  else if b =? LINE_FEED then
    if lastb =? CARRIAGE_RETURN then ({| csi := false; last := 0; acc := acc g |}, None)
    else ({| csi := false; last := b; acc := acc g |}, Some (Ctl Enter))
  else if b =? TABULATION then ({| csi := false; last := b; acc := acc g |}, Some (Ctl Tab))
  else if MIN_PRINTABLE <=? b then
    let '(a', o) := push (acc g) b in
    ({| csi := false; last := b; acc := a' |}, option_map Chr o)
  else ({| csi := false; last := b; acc := acc g |}, None).

Definition accept (g : igen) (b : N) : igen * option input :=
  if csi g then process_csi g b
  else if (last g =? ESCAPE) && (b =? CSI_INTRO) then ({| csi := true; last := b; acc := acc g |}, None)
  else process_single g b (last g).

Fixpoint runa (g : igen) (bs : list N) : igen * list input :=
  match bs with
  | [] => (g, [])
  | b :: r => let '(g1, o) := accept g b in let '(g2, l) := runa g1 r in
              (g2, match o with Some i => i :: l | None => l end)
  end.
