(* Model of embedded-cli/src/history.rs at byte level. hbuf = buffer[..used]; bytes above `used` are never read
   (every scan for NUL is shown to stop below `used`; the checked model returns None if it would not). *)
From EC Require Import Base.

Record history := { hcap : nat; hbuf : list N; hcur : option nat }.
Definition hist_new (c : nat) : history := {| hcap := c; hbuf := []; hcur := None |}.

Fixpoint position0 (l : list N) : option nat :=
  match l with
  | [] => None
  | b :: r => if b =? 0 then Some O else option_map S (position0 r)
  end.
Definition slice (l : list N) (a b : nat) : option (list N) :=
  if Nat.leb a b && Nat.leb b (length l) then Some (firstn (b - a) (skipn a l)) else None.

(* next_newer: returns new state and the element *)
Definition hist_newer (h : history) : option (history * option (list N)) :=
  match hcur h with
  | None => Some (h, None)
  | Some c =>
    let used := length (hbuf h) in
    if Nat.eqb used 0 then None else
    do s <- slice (hbuf h) c (used - 1);
    match position0 s with
    | Some pos =>
      let nc := (c + pos + 1)%nat in
      if Nat.ltb (length (hbuf h)) nc then None else
      match position0 (skipn nc (hbuf h)) with
      | None => None (* unwrap_unchecked: would scan past `used` *)
      | Some l => do el <- slice (hbuf h) nc (nc + l);
                  Some ({| hcap := hcap h; hbuf := hbuf h; hcur := Some nc |}, Some el)
      end
    | None => Some ({| hcap := hcap h; hbuf := hbuf h; hcur := None |}, None)
    end
  end.

(* next_older *)
Definition hist_older (h : history) : option (history * option (list N)) :=
  let used := length (hbuf h) in
  let start := match hcur h with
               | Some c => if Nat.ltb 0 c then Some c else None
               | None => if Nat.ltb 0 used then Some used else None
               end in
  match start with
  | None => Some (h, None)
  | Some c =>
    do s <- slice (hbuf h) 0 (c - 1);
    let nc := match position0 (rev s) with Some pos => (c - 1 - pos)%nat | None => O end in
    do el <- slice (hbuf h) nc (c - 1);
    Some ({| hcap := hcap h; hbuf := hbuf h; hcur := Some nc |}, Some el)
  end.

(* the `while let Some(existing) = self.next_older()` loop of push: remove an older duplicate *)
Fixpoint push_dedup (fuel : nat) (h : history) (t : list N) : option history :=
  match fuel with
  | O => None
  | S f =>
    do r <- hist_older h;
    match r with
    | (h1, Some existing) =>
      if list_eqb existing t then
        match hcur h1 with
        | None => None (* unwrap_unchecked *)
        | Some st =>
          let en := (st + length t + 1)%nat in
          if Nat.ltb (length (hbuf h1)) en then None else
          Some {| hcap := hcap h1; hbuf := firstn st (hbuf h1) ++ skipn en (hbuf h1); hcur := hcur h1 |}
        end
      else push_dedup f h1 t
    | (h1, None) => Some h1
    end
  end.

Definition hist_push (h : history) (t : list N) : option history :=
  if existsb (fun b => b =? 0) t || Nat.ltb (hcap h) (length t + 1) || (match t with [] => true | _ => false end) then Some h
  else
    let h0 := {| hcap := hcap h; hbuf := hbuf h; hcur := None |} in
    do r <- hist_older h0;
    match r with
    | (_, Some existing) =>
      if list_eqb existing t then Some h0 else
      do h2 <- push_dedup (S (length (hbuf h))) (fst r) t;
      let used := length (hbuf h2) in
      let need := (used + length t + 1)%nat in
      do buf3 <-
        (if Nat.ltb (hcap h) need then
           let required := (need - hcap h)%nat in
           if Nat.leb used required then Some []
           else
             if Nat.eqb required 0 then None else
             do s <- slice (hbuf h2) (required - 1) used;
             match position0 s with
             | None => None (* unwrap_unchecked *)
             | Some p => let removing := (required + p)%nat in
                         if Nat.ltb removing used then Some (skipn removing (hbuf h2)) else Some []
             end
         else Some (hbuf h2));
      if Nat.ltb (hcap h) (length buf3 + length t + 1) then None
      else Some {| hcap := hcap h; hbuf := buf3 ++ t ++ [0]; hcur := None |}
    | (_, None) =>
      (* empty history *)
      if Nat.ltb (hcap h) (length t + 1) then None
      else Some {| hcap := hcap h; hbuf := t ++ [0]; hcur := None |}
    end.
