(* Model of embedded-cli-macros/src/command/doc.rs: from the #[doc = "..."] attributes of a variant or field (one per `///` line, or one
   with line feeds inside for a block comment) to the summary (short) and the description (long) the generated help prints.
   Whitespace is what str::trim strips: the characters with the Unicode White_Space property (char::is_whitespace), here on their UTF-8
   encodings: U+0009..U+000D, U+0020, U+0085, U+00A0, U+1680, U+2000..U+200A, U+2028, U+2029, U+202F, U+205F, U+3000. *)
From EC Require Import Base.

Definition is_ws (b : N) : bool := (b =? 32) || ((9 <=? b) && (b <=? 13)).
(* number of octets of a White_Space character at the head of s (0: the text does not start with one) *)
Definition ws_head (s : list N) : nat :=
  match s with
  | [] => O
  | b :: r =>
    if is_ws b then 1%nat else
    match r with
    | c :: r' =>
      if (b =? 194) && ((c =? 133) || (c =? 160)) then 2%nat else
      match r' with
      | d :: _ =>
        if (b =? 225) && (c =? 154) && (d =? 128) then 3%nat else
        if (b =? 226) && (c =? 128) && (((128 <=? d) && (d <=? 138)) || (d =? 168) || (d =? 169) || (d =? 175)) then 3%nat else
        if (b =? 226) && (c =? 129) && (d =? 159) then 3%nat else
        if (b =? 227) && (c =? 128) && (d =? 128) then 3%nat else O
      | [] => O
      end
    | [] => O
    end
  end.
(* the same at the END of the text, given reversed *)
Definition ws_last (s : list N) : nat :=
  match s with
  | [] => O
  | d :: r =>
    if is_ws d then 1%nat else
    match r with
    | c :: r' =>
      if (c =? 194) && ((d =? 133) || (d =? 160)) then 2%nat else
      match r' with
      | b :: _ =>
        if (b =? 225) && (c =? 154) && (d =? 128) then 3%nat else
        if (b =? 226) && (c =? 128) && (((128 <=? d) && (d <=? 138)) || (d =? 168) || (d =? 169) || (d =? 175)) then 3%nat else
        if (b =? 226) && (c =? 129) && (d =? 159) then 3%nat else
        if (b =? 227) && (c =? 128) && (d =? 128) then 3%nat else O
      | [] => O
      end
    | [] => O
    end
  end.
Fixpoint strip (f : list N -> nat) (fuel : nat) (s : list N) : list N :=
  match fuel with
  | O => s
  | S n => match f s with O => s | k => strip f n (skipn k s) end
  end.
Definition trim_l (s : list N) : list N := strip ws_head (length s) s.
Definition trim (s : list N) : list N := let t := rev (trim_l s) in rev (strip ws_last (length t) t).
Definition is_blank (s : list N) : bool := match trim_l s with [] => true | _ => false end.

(* split('\n') *)
Fixpoint split_lf (cur : list N) (s : list N) : list (list N) :=
  match s with
  | [] => [rev cur]
  | b :: r => if b =? 10 then rev cur :: split_lf [] r else split_lf (b :: cur) r
  end.
Definition strip_one_space (s : list N) : list N := match s with 32 :: r => r | _ => s end.

Fixpoint drop_while_blank (l : list (list N)) : list (list N) :=
  match l with x :: r => if is_blank x then drop_while_blank r else l | [] => [] end.
(* extract_doc_comment: leading blank ATTRIBUTES are skipped, every attribute is split at line feeds, one leading blank is removed from
   every line, trailing blank lines are dropped *)
Definition extract_doc (attrs : list (list N)) : list (list N) :=
  let lines := flat_map (fun a => map strip_one_space (split_lf [] a)) (drop_while_blank attrs) in
  rev (drop_while_blank (rev lines)).

Fixpoint join_with (sep : list N) (l : list (list N)) : list N :=
  match l with [] => [] | [x] => x | x :: r => x ++ sep ++ join_with sep r end.
Definition merge_lines (l : list (list N)) : list N := join_with [32] (map trim l).
(* a single trailing period is removed, `..` is left alone *)
Definition remove_period (s : list N) : list N :=
  match rev s with
  | 46 :: 46 :: _ => s
  | 46 :: r => rev r
  | _ => s
  end.

(* paragraphs: maximal runs of non-blank lines *)
Fixpoint paragraphs (cur : list (list N)) (l : list (list N)) : list (list (list N)) :=
  match l with
  | [] => match cur with [] => [] | _ => [rev cur] end
  | x :: r => if is_blank x then match cur with [] => paragraphs [] r | _ => rev cur :: paragraphs [] r end
              else paragraphs (x :: cur) r
  end.

(* format_doc_comment: (short, long) *)
Definition doc_help (attrs : list (list N)) : option (list N) * option (list N) :=
  let lines := extract_doc attrs in
  match lines with
  | [] => (None, None)
  | _ =>
    if existsb is_blank lines then
      let ps := map merge_lines (paragraphs [] lines) in
      (Some (remove_period (hd [] ps)), Some (join_with [13; 10; 13; 10] ps))
    else
      let m := merge_lines lines in (Some (remove_period m), Some m)
  end.
