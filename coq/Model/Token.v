(* Model of embedded-cli/src/token.rs : Tokens::new (in place) and TokensIter. *)
From EC Require Import Base.

Inductive tmode := MSpace | MNormal | MQuoted | MUnescape.

(* checked write: bytes[i] = x panics when i is out of range *)
Fixpoint set_nth (l : list N) (i : nat) (x : N) : option (list N) :=
  match l, i with
  | [], _ => None
  | _ :: r, O => Some (x :: r)
  | y :: r, S j => match set_nth r j x with Some r' => Some (y :: r') | None => None end
  end.

Record tstate := { tbuf : list N; tins : nat; tmd : tmode; tempty : bool }.

(* one iteration of the loop body for position `pos` *)
Definition tok_step (s : tstate) (pos : nat) : option tstate :=
  match nth_error (tbuf s) pos with
  | None => None
  | Some byte =>
    match tmd s with
    | MSpace =>
      if byte =? 34 then
        if tempty s then Some {| tbuf := tbuf s; tins := tins s; tmd := MQuoted; tempty := false |}
        else do b1 <- set_nth (tbuf s) (tins s) 0;
             Some {| tbuf := b1; tins := S (tins s); tmd := MQuoted; tempty := false |}
      else if negb (byte =? 32) && negb (byte =? 0) then
        if tempty s then
          do b1 <- set_nth (tbuf s) (tins s) byte;
          Some {| tbuf := b1; tins := S (tins s); tmd := MNormal; tempty := false |}
        else
          do b1 <- set_nth (tbuf s) (tins s) 0;
          do b2 <- set_nth b1 (S (tins s)) byte;
          Some {| tbuf := b2; tins := S (S (tins s)); tmd := MNormal; tempty := false |}
      else Some s
    | MNormal =>
      if (byte =? 32) || (byte =? 0) then Some {| tbuf := tbuf s; tins := tins s; tmd := MSpace; tempty := tempty s |}
      else do b1 <- set_nth (tbuf s) (tins s) byte;
           Some {| tbuf := b1; tins := S (tins s); tmd := MNormal; tempty := tempty s |}
    | MQuoted =>
      if (byte =? 34) || (byte =? 0) then Some {| tbuf := tbuf s; tins := tins s; tmd := MSpace; tempty := tempty s |}
      else if byte =? 92 then Some {| tbuf := tbuf s; tins := tins s; tmd := MUnescape; tempty := tempty s |}
      else do b1 <- set_nth (tbuf s) (tins s) byte;
           Some {| tbuf := b1; tins := S (tins s); tmd := MQuoted; tempty := tempty s |}
    | MUnescape =>
      do b1 <- set_nth (tbuf s) (tins s) byte;
      Some {| tbuf := b1; tins := S (tins s); tmd := MQuoted; tempty := tempty s |}
    end
  end.

Fixpoint tok_loop (s : tstate) (pos n : nat) : option tstate :=
  match n with
  | O => Some s
  | S m => do s1 <- tok_step s pos; tok_loop s1 (S pos) m
  end.

(* Tokens::new: result = (whole rewritten buffer, raw token bytes = buffer[..insert], empty flag) *)
Definition tokens_new (input : list N) : option (list N * list N * bool) :=
  do s <- tok_loop {| tbuf := input; tins := 0; tmd := MSpace; tempty := true |} 0 (length input);
  if Nat.ltb (length (tbuf s)) (tins s) then None
  else Some (tbuf s, firstn (tins s) (tbuf s), tempty s).

(* TokensIter: split the raw bytes at NUL *)
Fixpoint split0 (cur : list N) (bs : list N) : list (list N) :=
  match bs with
  | [] => [rev cur]
  | b :: r => if b =? 0 then rev cur :: split0 [] r else split0 (b :: cur) r
  end.
Definition tokens_iter (raw : list N) (empty : bool) : list (list N) :=
  if empty then [] else split0 [] raw.

(* raw form of a token list (what into_tokens / ArgList carry): tokens joined by NUL *)
Fixpoint join0 (ts : list (list N)) : list N :=
  match ts with
  | [] => []
  | [t] => t
  | t :: r => t ++ 0 :: join0 r
  end.
