(* The output sink and the state/error monad in which the whole Cli is written.
   A sink call (write of a non-empty slice, or flush) number n succeeds iff okf n. write_all of an empty slice makes no call. *)
From EC Require Import Base.

Inductive sinkop := SW (bs : list N) | SF | SXW | SXF.
Inductive res (A : Type) := Ok (a : A) | Err | Panic.
Arguments Ok {A} a. Arguments Err {A}. Arguments Panic {A}.

Record sinkst := { calls : nat; out : list sinkop }.
Definition sink0 := {| calls := 0; out := [] |}.

Section SinkOps.
  Variable okf : nat -> bool.

  Definition sk_write (s : sinkst) (bs : list N) : res unit * sinkst :=
    match bs with
    | [] => (Ok tt, s)
    | _ => if okf (calls s) then (Ok tt, {| calls := S (calls s); out := out s ++ [SW bs] |})
           else (Err, {| calls := S (calls s); out := out s ++ [SXW] |})
    end.
  Definition sk_flush (s : sinkst) : res unit * sinkst :=
    if okf (calls s) then (Ok tt, {| calls := S (calls s); out := out s ++ [SF] |})
    else (Err, {| calls := S (calls s); out := out s ++ [SXF] |}).
End SinkOps.

(* generic state + error monad *)
Definition M (S A : Type) := S -> res A * S.
Definition ret {S A} (a : A) : M S A := fun s => (Ok a, s).
Definition bind {S A B} (m : M S A) (f : A -> M S B) : M S B :=
  fun s => match m s with
           | (Ok a, s') => f a s'
           | (Err, s') => (Err, s')
           | (Panic, s') => (Panic, s')
           end.
Notation "'mdo' x <- m ; k" := (bind m (fun x => k)) (at level 200, x pattern, m at level 100, k at level 200).
Notation "m ;; k" := (bind m (fun _ => k)) (at level 199, right associativity).
Definition panic {S A} : M S A := fun s => (Panic, s).
Definition lift_opt {S A} (o : option A) : M S A := match o with Some a => ret a | None => panic end.
Definition get {S} : M S S := fun s => (Ok s, s).
Definition put {S} (s : S) : M S unit := fun _ => (Ok tt, s).
Definition modify {S} (f : S -> S) : M S unit := fun s => (Ok tt, f s).
(* run m, never short-circuit: gives back its result as a value *)
Definition catch {S A} (m : M S A) : M S (res A) := fun s => let '(r, s') := m s in (Ok r, s').
Definition reraise {S A} (r : res A) : M S A := fun s => (r, s).

Fixpoint mrepeat {S} (n : nat) (m : M S unit) : M S unit :=
  match n with O => ret tt | S k => m ;; mrepeat k m end.
Fixpoint mforeach {S A} (l : list A) (f : A -> M S unit) : M S unit :=
  match l with [] => ret tt | x :: r => f x ;; mforeach r f end.
