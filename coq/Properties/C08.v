(* C08 - arguments are classified as --, long option, short-option cluster or value. Statements only.
   classify_all (Spec/ArgSpec.v) is the declarative classification; args_of is ArgsIter run to exhaustion (None = panic/UB). *)
From EC Require Import Base Model.Utils Model.Args Spec.Utf8Spec Spec.ArgSpec Proofs.ArgsProofs.

(* the iterator yields exactly the declarative classification, and never reaches an unchecked operation with a violated
   precondition (Some), for every list of tokens that are valid UTF-8 *)
Theorem C08_classify : forall ts, Forall valid_tok ts -> args_of ts = Some (classify_all false ts).
Proof. exact args_classified. Qed.
Print Assumptions C08_classify.

(* nothing lost or invented: the items of a token, re-joined, are the token *)
Theorem C08_rejoin : forall vo t, valid_tok t -> render_items (fst (classify_tok vo t)) = t.
Proof. exact rejoin_tok. Qed.
Print Assumptions C08_rejoin.

(* after `--` everything is a plain value *)
Theorem C08_values_only : forall ts, classify_all true ts = map Value ts.
Proof. exact classify_all_vo. Qed.
Print Assumptions C08_values_only.

Theorem C08_double_dash : forall ts, classify_all false ([45; 45] :: ts) = DoubleDash :: map Value ts.
Proof. intros ts. cbn [classify_all classify_tok]. change (45 =? 45) with true. cbn iota. cbn [app]. rewrite classify_all_vo. reflexivity. Qed.
Print Assumptions C08_double_dash.

(* `-` alone and the empty token are values; `--name` is the long option `name`; one short option per scalar *)
Theorem C08_shapes :
  (forall ts, classify_all false ([45] :: ts) = Value [45] :: classify_all false ts) /\
  (forall ts, classify_all false ([] :: ts) = Value [] :: classify_all false ts) /\
  (forall n0 n ts, classify_all false ((45 :: 45 :: n0 :: n) :: ts) = LongOption (n0 :: n) :: classify_all false ts) /\
  (forall cs ts, Forall wf_char cs -> cs <> [] -> hd 0 (concat cs) <> 45 ->
      classify_all false ((45 :: concat cs) :: ts) = map (fun c => ShortOption (decode_char c)) cs ++ classify_all false ts).
Proof.
  repeat split; try reflexivity.
  intros cs ts Hw Hne Hd. destruct (concat cs) as [|b r] eqn:E.
  - destruct cs as [|c cs']; [congruence|]. inversion Hw; subst. cbn in E. apply app_eq_nil in E as [E _].
    subst. exfalso. eapply Utf8Proofs.wf_char_nonempty; eauto.
  - cbn [classify_all classify_tok]. change (45 =? 45) with true. cbn iota. cbn [hd] in Hd.
    destruct (b =? 45) eqn:Eb; [apply N.eqb_eq in Eb; congruence|]. rewrite <- E, chars_of_concat by exact Hw. reflexivity.
Qed.
Print Assumptions C08_shapes.

Example C08_nonvacuous :
  args_of [[45;120;0xE2;0x82;0xAC]; [45;45;108]; [45]; []; [45;45]; [45;97]; [45;45]]
  = Some [ShortOption 120; ShortOption 0x20AC; LongOption [108]; Value [45]; Value []; DoubleDash; Value [45;97]; Value [45;45]].
Proof. vm_compute. reflexivity. Qed.
