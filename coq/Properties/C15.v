(* C15 - everything written has been flushed when a call returns. Statements only.
   For EVERY behaviour of the sink (okf), every feature set, command set, handler and state: if an API call returns Ok, the sink
   operations it made are either none at all or end with a flush. *)
From EC Require Import Base Model.Sink Model.Writer Model.Cli Proofs.FlushProofs.

Definition flushed_on_ok (f : M cli unit) : Prop :=
  forall s r s', f s = (r, s') -> exists O, out (sk s') = out (sk s) ++ O /\ (r = Ok tt -> O = [] \/ ends_flush O).

Lemma Pp_flushed f : Spec f Pp -> flushed_on_ok f.
Proof. intros S s r s' E. destruct (S s r s' E) as (O & H1 & H2). exists O. split; [exact H1|]. intros ->. apply H2. exact I. Qed.

Theorem C15_process_byte : forall okf feats cs handler b, flushed_on_ok (api_process_byte okf feats cs handler b).
Proof. intros. apply Pp_flushed, P_api_process_byte. Qed.
Print Assumptions C15_process_byte.

Theorem C15_write : forall okf hs, flushed_on_ok (api_write okf hs).
Proof. intros. apply Pp_flushed, F_P, F_api_write. Qed.
Print Assumptions C15_write.

Theorem C15_set_prompt : forall okf p, flushed_on_ok (api_set_prompt okf p).
Proof. intros. apply Pp_flushed, F_P, F_api_set_prompt. Qed.
Print Assumptions C15_set_prompt.

Theorem C15_build : forall okf, flushed_on_ok (api_build okf).
Proof. intros. apply Pp_flushed, F_P, F_api_build. Qed.
Print Assumptions C15_build.

(* the calls that always produce output end with a flush (not merely "silent or flushed") *)
Theorem C15_write_ends_with_flush : forall okf hs s s', api_write okf hs s = (Ok tt, s') ->
  exists O, out (sk s') = out (sk s) ++ O /\ ends_flush O.
Proof. intros okf hs s s' E. destruct (F_api_write okf hs s _ _ E) as (O & H1 & H2). exists O. split; [exact H1|apply H2; exact I]. Qed.
Print Assumptions C15_write_ends_with_flush.

Example C15_nonvacuous :
  let s0 := cli_init 16 16 [36; 32] in
  let okT := fun _ : nat => true in
  let s1 := snd (api_build okT s0) in
  let s2 := snd (api_process_byte okT {| f_hist := true; f_ac := true; f_help := true |} raw_cmdset (fun _ _ _ => [HWrite [111; 107]]) 97 s1) in
  let s3 := snd (api_process_byte okT {| f_hist := true; f_ac := true; f_help := true |} raw_cmdset (fun _ _ _ => [HWrite [111; 107]]) 13 s2) in
  out (sk s3) = [SW [36; 32]; SF; SW [97]; SF; SW [13; 10]; SW [111; 107]; SW [13; 10]; SF; SW [36; 32]; SF].
Proof. vm_compute. reflexivity. Qed.
