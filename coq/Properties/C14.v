(* C14 - a failing output sink is reported, never swallowed, and never corrupts the session. Statements only.
   okf : nat -> bool says whether the n-th sink call (write of a non-empty slice, or flush) succeeds; it is universally quantified.
   The sink log records failed attempts as SXW / SXF; `failed O` says whether the operations O contain one. *)
From EC Require Import Base Model.Input Model.Editor Model.History Model.Sink Model.Writer Model.Cli Spec.IdealEditor Spec.Session
  Proofs.SinkOk Proofs.FlushProofs Proofs.FaultProofs Proofs.ClassProofs Proofs.SafetyProofs Proofs.SessionProofs Proofs.RecoveryProofs
  Proofs.DecoderProofs.

Definition reports_failures (f : M cli unit) : Prop :=
  forall s r s', f s = (r, s') -> exists O, out (sk s') = out (sk s) ++ O /\
    match r with Ok _ => failed O = false | Err => failed O = true | Panic => True end.

(* (1) the call returns Err exactly when a sink call made during it failed: never swallowed, never invented *)
Theorem C14_process_byte_reports : forall okf feats cs handler b, reports_failures (api_process_byte okf feats cs handler b).
Proof. intros. exact (E_api_process_byte okf feats cs handler b). Qed.
Print Assumptions C14_process_byte_reports.
Theorem C14_write_reports : forall okf hs, reports_failures (api_write okf hs).
Proof. intros. exact (E_api_write okf hs). Qed.
Print Assumptions C14_write_reports.
Theorem C14_set_prompt_reports : forall okf p, reports_failures (api_set_prompt okf p).
Proof. intros. exact (E_api_set_prompt okf p). Qed.
Print Assumptions C14_set_prompt_reports.
Theorem C14_build_reports : forall okf, reports_failures (api_build okf).
Proof. intros. exact (E_api_build okf). Qed.
Print Assumptions C14_build_reports.

(* (2),(3) after process_byte under ANY sink behaviour (that does not panic - C03) the decoder state is exactly what the byte leaves
   in the fault-free run, and the edited line is as it was, or as the key leaves it in the fault-free run, or empty *)
Theorem C14_line_class : forall okf feats cs handler b s r s',
  api_process_byte okf feats cs handler b s = (r, s') -> r <> Panic ->
  let s0 := snd (api_process_byte okT feats cs handler b s) in
  ig s' = ig s0 /\ (ed s' = ed s \/ ed s' = ed s0 \/ ed s' = ed_clear (ed s)).
Proof. intros. exact (process_byte_class feats cs handler okf b s r s' H H0). Qed.
Print Assumptions C14_line_class.

(* Cli::write and set_prompt never touch the line, the decoder or the history, whatever the sink does *)
Theorem C14_write_keeps_line : forall okf hs s r s', api_write okf hs s = (r, s') -> ed s' = ed s /\ ig s' = ig s /\ hist s' = hist s.
Proof. intros okf hs. exact (Same_api_write okf hs). Qed.
Print Assumptions C14_write_keeps_line.
Theorem C14_set_prompt_keeps_line : forall okf p s r s', api_set_prompt okf p s = (r, s') -> ed s' = ed s /\ ig s' = ig s /\ hist s' = hist s.
Proof. intros okf p. exact (Same_api_set_prompt okf p). Qed.
Print Assumptions C14_set_prompt_keeps_line.

(* (4) the CLI remains usable: after ANY sequence of API calls under ANY sink behaviour (failures once, repeatedly, permanently, at any
   call) the state still represents an abstract session state whose line is exactly the text in the editor - which by C14_line_class is
   the line as it was, as the key left it, or empty - ... *)
Theorem C14_recovers : forall okf feats cs handler, cmdset_ok cs -> forall cp hcp pr calls, Forall call_ok calls ->
  let s := fst (api_run okf feats cs handler (snd (api_build okf (cli_init cp hcp pr))) calls) in
  exists a, SRel (cap (ed s)) (hcap (hist s)) s a /\ ibytes (aline a) = text (ed s) /\ aprompt a = prompt s.
Proof. exact recovers. Qed.
Print Assumptions C14_recovers.
(* ... and from such a state, once the sink works, later input is decoded normally and every later Enter dispatches exactly what the
   abstract session dispatches from that line (C01: the tokens of the line as edited from there on) *)
Theorem C14_usable_again : forall feats cs handler, cmdset_ok cs -> forall s, CliInv s ->
  exists a, ibytes (aline a) = text (ed s) /\ forall bs, bytes bs ->
    let '(s', rs) := crun feats cs handler s bs in
    let '(a', calls) := arun feats cs handler (cap (ed s)) (hcap (hist s)) a (snd (runa (ig s) bs)) in
    Forall (fun x => x = Ok tt) rs /\ SRel (cap (ed s)) (hcap (hist s)) s' a' /\ hcalls s' = hcalls s ++ calls.
Proof. exact usable_again. Qed.
Print Assumptions C14_usable_again.

(* "later input is decoded normally", in full: whatever failed and whenever, the decoder inside the Cli is where the bytes fed so far
   put it - the failures leave no trace in it (no hypothesis on sink, command set, handler, state or results) *)
Theorem C14_later_input_decoded : forall okf feats cs handler calls s,
  ig (fst (api_run okf feats cs handler s calls)) = fst (runa (ig s) (fed_bytes calls)).
Proof. exact cli_decoder. Qed.
Print Assumptions C14_later_input_decoded.

(* non-vacuity: `echo a` Enter with the 3rd sink call of the Enter failing: Err, the line is cleared (not the tokenised buffer) *)
Example C14_nonvacuous :
  let feats := {| f_hist := true; f_ac := true; f_help := true |} in
  let h := fun (_ : nat) (_ : list N) (_ : list (list N)) => [HWrite [111; 107]; HWrite [10]] in
  let okT := fun _ : nat => true in
  let run := fun okf s bs => fold_left (fun st b => snd (api_process_byte okf feats raw_cmdset h b st)) bs s in
  let s1 := run okT (snd (api_build okT (cli_init 16 16 [36; 32]))) [101; 32; 97] in
  let okf := fun n => negb (Nat.eqb n (calls (sk s1) + 2)) in
  let '(r, s2) := api_process_byte okf feats raw_cmdset h 13 s1 in
  r = Err /\ text (ed s2) = [] /\ text (ed s1) = [101; 32; 97] /\ failed (skipn (length (out (sk s1))) (out (sk s2))) = true.
Proof. vm_compute. repeat split; reflexivity. Qed.
