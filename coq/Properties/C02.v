(* C02 - all text handed out is well-formed UTF-8, whatever bytes arrive. Statements only. *)
From EC Require Import Base Model.Utf8 Model.Input Model.Editor Model.Args Model.History Model.Cli Spec.Utf8Spec Spec.QuoteSpec Spec.ArgSpec Spec.HistSpec
  Proofs.Utf8Proofs Proofs.InputProofs Proofs.UtilsProofs Proofs.ArgsProofs Proofs.TokenProofs Proofs.TokenValid Proofs.HistoryProofs Proofs.SafetyProofs Proofs.OutputValid.

(* (1) every string the accumulator hands out is one well-formed scalar, for every byte sequence *)
Theorem C02_char_wf : forall bs, bytes bs -> Forall wf_char (snd (run acc0 bs)).
Proof. intros bs H. exact (proj2 (every_output_wf bs acc0 H ainv_acc0)). Qed.
Print Assumptions C02_char_wf.

(* (2) a well-formed character is accepted - exactly it - from every accumulator state, so malformed or truncated
   bytes before it never cost that character *)
Theorem C02_resync : forall a c, wf_char c -> run a c = (acc0, [c]).
Proof. exact resync. Qed.
Print Assumptions C02_resync.

Theorem C02_resync_after_garbage : forall garbage c, wf_char c ->
  snd (run acc0 (garbage ++ c)) = snd (run acc0 garbage) ++ [c].
Proof.
  intros g c H. rewrite run_app. destruct (run acc0 g) as [a l]. rewrite resync by exact H. reflexivity.
Qed.
Print Assumptions C02_resync_after_garbage.

(* (3) at the decoder: every character event carries one well-formed scalar, for every byte sequence *)
Theorem C02_decoder_chars : forall bs, bytes bs -> Forall ev_wf (snd (runa ig0 bs)).
Proof. intros bs H. exact (proj2 (runa_chars_wf bs ig0 H ainv_acc0)). Qed.
Print Assumptions C02_decoder_chars.

(* (4) through the whole Cli, whatever bytes arrive (malformed, overlong, surrogate, out of range, truncated), writes and prompt
   changes interleaved, any buffer sizes, any sink behaviour: in every reachable state the edited line - what is echoed, tokenised and
   recorded - is well-formed UTF-8, and so is every recorded history entry *)
Theorem C02_cli_inv : forall okf feats cs handler, cmdset_ok cs -> forall cap hcap pr calls, Forall call_ok calls ->
  let s := fst (api_run okf feats cs handler (snd (api_build okf (cli_init cap hcap pr))) calls) in
  valid_tok (text (ed s)) /\ exists sp, hbuf (hist s) = enc (ents sp) /\ Forall valid_tok (ents sp).
Proof.
  intros okf feats cs handler Hcs cap hcap pr calls Hc.
  assert (Hi : CliInv (snd (api_build okf (cli_init cap hcap pr)))).
  { destruct (api_build okf (cli_init cap hcap pr)) as [r s1] eqn:E. cbn [snd].
    destruct (ClassProofs.Same_bind _ _ ClassProofs.Same_get (fun s0 => ClassProofs.Same_bind _ _ (ClassProofs.Same_wr okf (prompt s0)) (fun _ => ClassProofs.Same_fl okf)) _ _ _ E) as (a & b & c).
    eapply CliInv_same; eauto. apply CliInv_init. }
  pose proof (proj2 (api_run_safe okf feats cs handler Hcs calls _ Hc Hi)) as H. cbn zeta.
  split; [apply CliInv_text_valid, H|apply CliInv_history_valid, H].
Qed.
Print Assumptions C02_cli_inv.

(* (5) what is handed to the application: the tokens of a well-formed line (command name, argument tokens) are well-formed, and the
   classified arguments carry well-formed option names / values and scalar short options *)
Theorem C02_tokens_valid : forall line, valid_tok line -> Forall valid_tok (tokens_fun line).
Proof. exact tokens_fun_valid. Qed.
Print Assumptions C02_tokens_valid.
Theorem C02_args_valid : forall ts, Forall valid_tok ts -> exists items, args_of ts = Some items /\ Forall arg_valid items.
Proof. intros ts H. exists (classify_all false ts). split; [apply args_classified, H|apply classify_all_valid, H]. Qed.
Print Assumptions C02_args_valid.

(* every echo: EVERY slice the Cli hands to the sink (echo of typed characters, redraws of the line, completions, recalled lines, prompts,
   error and help texts, handler output) is well-formed UTF-8 - for every byte stream, every sequence of API calls, every sink
   behaviour (failing or not), every buffer size - provided the texts that come from outside are: the prompts, what the application
   writes, and what the command set supplies (names, help and error texts; env_valid). Nothing typed can make the library emit an
   ill-formed sequence. *)
Theorem C02_output_valid : forall okf feats cs handler, cmdset_ok cs -> env_valid cs handler -> forall cap hcap pr calls,
  valid_tok pr -> Forall (vcall_valid) calls ->
  Forall wvalid (Sink.out (sk (fst (api_run okf feats cs handler (snd (api_build okf (cli_init cap hcap pr))) calls)))).
Proof. exact output_valid. Qed.
Print Assumptions C02_output_valid.

Example C02_nonvacuous : snd (run acc0 [0xC0; 0x80; 0xED; 0xA0; 0x80; 0xF5; 0x80; 0xE2; 0x82; 0xE2; 0x82; 0xAC; 0x41]) = [[0xE2; 0x82; 0xAC]; [0x41]].
Proof. vm_compute. reflexivity. Qed.
