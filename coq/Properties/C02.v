(* C02 - all text handed out is well-formed UTF-8, whatever bytes arrive. Statements only. *)
From EC Require Import Base Model.Utf8 Model.Input Spec.Utf8Spec Proofs.Utf8Proofs Proofs.InputProofs.

(* (1) every string the accumulator hands out is one well-formed scalar, for every byte sequence *)
Theorem C02_char_wf : forall bs, bytes bs -> Forall wf_char (snd (run acc0 bs)).
Proof. intros bs H. exact (proj2 (every_output_wf bs acc0 H ainv_acc0)). Qed.
Print Assumptions C02_char_wf.

(* (2) a well-formed character is accepted - exactly it - from every accumulator state, so malformed or truncated
   bytes before it never cost that character *)
Theorem C02_resync : forall a c, wf_char c -> run a c = (acc0, [c]).
Proof. exact resync. Qed.
Print Assumptions C02_resync.

Theorem C02_resync_after_garbage : forall garbage c, wf_char c ->
  snd (run acc0 (garbage ++ c)) = snd (run acc0 garbage) ++ [c].
Proof.
  intros g c H. rewrite run_app. destruct (run acc0 g) as [a l]. rewrite resync by exact H. reflexivity.
Qed.
Print Assumptions C02_resync_after_garbage.

(* (3) at the decoder: every character event carries one well-formed scalar, for every byte sequence *)
Theorem C02_decoder_chars : forall bs, bytes bs -> Forall ev_wf (snd (runa ig0 bs)).
Proof. intros bs H. exact (proj2 (runa_chars_wf bs ig0 H ainv_acc0)). Qed.
Print Assumptions C02_decoder_chars.

Example C02_nonvacuous : snd (run acc0 [0xC0; 0x80; 0xED; 0xA0; 0x80; 0xF5; 0x80; 0xE2; 0x82; 0xE2; 0x82; 0xAC; 0x41]) = [[0xE2; 0x82; 0xAC]; [0x41]].
Proof. vm_compute. reflexivity. Qed.
