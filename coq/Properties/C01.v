(* C01 - Enter dispatches exactly the visible line, exactly once. Statements only.
   Spec/Session.v is the abstract session: an ideal line over characters (C05), an abstract history (C10), the completion spec (C11),
   the declarative tokeniser (C07). With a working sink the concrete Cli, driven byte by byte through the decoder, refines it. *)
From EC Require Import Base Generated.Codes Model.Utf8 Model.Input Model.Editor Model.Args Model.History Model.Sink Model.Writer Model.Cli
  Spec.QuoteSpec Spec.IdealEditor Spec.HistSpec Spec.Session Proofs.ArgsProofs Proofs.SinkOk Proofs.SafetyProofs Proofs.SessionProofs Proofs.TerminalProofs Proofs.ViewProofs.

(* what the abstract session says about dispatch *)
(* no key other than Enter ever calls the handler *)
Theorem C01_only_enter : forall feats cs handler cap hcap a ev, ev <> Ctl Enter -> snd (astep feats cs handler cap hcap a ev) = [].
Proof.
  intros feats cs handler cap hcap a ev H. destruct ev as [[| | | | | |]|c]; cbn [astep]; try congruence; try reflexivity.
  - destruct (ideal_step cap (aline a) ILeft). reflexivity.
  - destruct (f_hist feats); [destruct (hs_newer (ahist a))|]; reflexivity.
  - destruct (f_ac feats); [destruct (CompletionSpec.complete_spec _ _ _ _)|]; reflexivity.
  - destruct (f_hist feats); [destruct (hs_older (ahist a)) as [h [x|]]|]; reflexivity.
Qed.
Print Assumptions C01_only_enter.

(* Enter calls the handler at most once, with exactly the tokens of the line as it stands, iff there is at least one token, the line
   is not a help request (help feature on) and the typed parser accepts it; afterwards the line is empty *)
Theorem C01_enter : forall feats cs handler cap hcap a,
  let '(a', calls) := astep feats cs handler cap hcap a (Ctl Enter) in
  aline a' = ideal0 /\ calls = dispatch feats cs a /\ (length calls <= 1)%nat /\
  (forall n args, calls = [(n, args)] <->
     tokens_fun (ibytes (aline a)) = n :: args
     /\ (f_help feats && (match help_request n args with Some (Some _) => true | _ => false end)) = false
     /\ cs_parse cs n args = None).
Proof.
  intros feats cs handler cap hcap a. cbn [astep]. split; [reflexivity|]. split; [reflexivity|].
  unfold dispatch. destruct (tokens_fun (ibytes (aline a))) as [|name rest].
  - split; [cbn; lia|]. intros n args. split; [discriminate|]. intros [H _]. discriminate.
  - destruct (f_help feats && _) eqn:Eh.
    + split; [cbn; lia|]. intros n args. split; [discriminate|]. intros (H1 & H2 & _). injection H1 as <- <-. congruence.
    + destruct (cs_parse cs name rest) eqn:Ep.
      * split; [cbn; lia|]. intros n args. split; [discriminate|]. intros (H1 & _ & H3). injection H1 as <- <-. congruence.
      * split; [cbn; lia|]. intros n args. split.
        -- intros [= <- <-]. auto.
        -- intros (H1 & _ & _). injection H1 as <- <-. reflexivity.
Qed.
Print Assumptions C01_enter.

(* the concrete Cli refines the abstract session: every byte stream (any interleaving of characters of any encoded length, Backspace,
   arrows, Tab, terminators, also malformed bytes), every command-buffer and history-buffer size, every feature set, every command set
   with valid names, every handler: all calls return Ok, the state keeps representing the abstract state, and the handler-call log
   is exactly what the abstract session dispatches on the decoded events *)
Theorem C01_dispatch : forall feats cs handler, cmdset_ok cs -> forall cap hcap p bs, bytes bs ->
  let s0 := snd (api_build okT (cli_init cap hcap p)) in
  let '(s', rs) := crun feats cs handler s0 bs in
  let '(a', calls) := arun feats cs handler cap hcap (astate0 p) (snd (runa ig0 bs)) in
  Forall (fun x => x = Ok tt) rs /\ SRel cap hcap s' a' /\ hcalls s' = calls.
Proof.
  intros feats cs handler Hcs cap hcap p bs Hb. cbn zeta.
  destruct (api_build okT (cli_init cap hcap p)) as [r0 s0] eqn:E0. cbn [snd].
  assert (T : Tail (api_build okT)).
  { unfold api_build. apply Tail_bind; [apply Tail_get|intros]. apply Tail_bind; [apply Tail_wr|intros; apply Tail_fl]. }
  destruct (Tail_ok _ _ _ _ T E0) as (_ & e1 & e2 & e3 & e4 & e5).
  assert (HS : SRel cap hcap s0 (astate0 p)).
  { unfold SRel, astate0. rewrite e1, e2, e3, e4, e5. cbn. split; [apply EditorProofs.Rep_init|]. split; [apply HistoryProofs.HRep_init|]. repeat split; auto; constructor. }
  pose proof (run_refines feats cs handler Hcs cap hcap bs s0 (astate0 p) Hb HS) as H.
  assert (Eg : ig s0 = ig0) by (rewrite e2; reflexivity). rewrite Eg in H.
  destruct (crun feats cs handler s0 bs) as [s' rs]. destruct (arun feats cs handler cap hcap (astate0 p) (snd (runa ig0 bs))) as [a' calls].
  destruct H as (H1 & H2 & H3). split; [exact H1|]. split; [exact H2|]. rewrite H3, e5. reflexivity.
Qed.
Print Assumptions C01_dispatch.

(* the same statement for one event, from any related state (used by C05/C10 at the Cli level: the line evolves by ideal_step, the
   history by hs_push / hs_older / hs_newer, completion by complete_spec) *)
Theorem C01_event : forall feats cs handler, cmdset_ok cs -> forall cap hcap c s a r s', SRel cap hcap s a ->
  on_control okT feats cs handler c s = (r, s') ->
  r = Ok tt /\ SRel cap hcap s' (fst (astep feats cs handler cap hcap a (Ctl c))) /\
  hcalls s' = hcalls s ++ snd (astep feats cs handler cap hcap a (Ctl c)).
Proof. intros feats cs handler Hcs cap hcap c s a r s' HS E. destruct (on_control_refines feats cs handler Hcs cap hcap c s a r s' HS E) as (e1 & e2 & e3 & _). auto. Qed.
Print Assumptions C01_event.

(* every Enter, whatever the line (empty, help request, rejected by the typed parser, dispatched): the bytes written are CR LF, then output
   X that is empty or ends with a line break, then exactly one prompt - the one in force after the call - at the very end
   (printable environment text: env_ok; Proofs/ViewProofs.v). With C13's Enter frame this is the "one fresh prompt" clause. *)
Theorem C01_prompt : forall feats cs handler, ViewProofs.env_ok cs handler -> forall cap hcap s a, SRel cap hcap s a ->
  Forall TerminalProofs.pchar (IdealEditor.chars (aline a)) ->
  exists s' X, on_enter okT feats cs handler s = (Ok tt, s') /\
    ViewProofs.obytes s' = ViewProofs.obytes s ++ [13; 10] ++ X ++ prompt s' /\ ViewProofs.EndsOK X.
Proof. exact ViewProofs.on_enter_out. Qed.
Print Assumptions C01_prompt.

Example C01_nonvacuous :
  let feats := {| f_hist := true; f_ac := true; f_help := true |} in
  (* "ab" Left "x" Enter, Up, Enter, "help" Enter: two dispatches of axb, none for help *)
  let bs := [97; 98; 27; 91; 68; 120; 13; 27; 91; 65; 13; 104; 101; 108; 112; 13] in
  snd (arun feats raw_cmdset (fun _ _ _ => []) 8 16 (astate0 [36]) (snd (runa ig0 bs))) = [([97;120;98], []); ([97;120;98], [])]
  /\ hcalls (fst (crun feats raw_cmdset (fun _ _ _ => []) (snd (api_build okT (cli_init 8 16 [36]))) bs)) = [([97;120;98], []); ([97;120;98], [])].
Proof. split; vm_compute; reflexivity. Qed.
