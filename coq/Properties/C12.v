(* C12 - help requests are answered by the library in full and never reach the handler. Statements only.
   Routing is Model/Args.v (HelpRequest::from_command); the help text is Model/Derive.v (the code derive(Help) emits); as for C09 the
   tie between the proc-macro and the model is established on the declarations generated and compiled each run. *)
From EC Require Import Base Generated.Codes Model.Args Model.Writer Model.Cli Model.Derive Model.Doc Spec.ArgSpec Spec.Framing Spec.Session
  Proofs.ArgsProofs Proofs.DeriveProofs Proofs.HelpProofs Proofs.DocProofs.

(* routing: `help` alone lists everything; `help <value> ...` asks about that command with the remaining tokens; any other command
   is a help request iff one of its classified arguments (hence before any `--`, also inside a cluster) is --help or -h *)
Theorem C12_help_alone : help_request HELP_NAME [] = Some (Some HAll).
Proof. exact help_request_help_alone. Qed.
Print Assumptions C12_help_alone.
Theorem C12_help_command : forall v rest, classify_tok false v = ([Value v], false) ->
  help_request HELP_NAME (v :: rest) = Some (Some (HCommand v rest)).
Proof. exact help_request_help_value. Qed.
Print Assumptions C12_help_command.
Theorem C12_help_option : forall name args, list_eqb name HELP_NAME = false -> Forall valid_tok args ->
  help_request name args = Some (if existsb is_help_arg (classify_all false args) then Some (HCommand name args) else None).
Proof. exact help_request_not_help. Qed.
Print Assumptions C12_help_option.

(* a help request never reaches the handler: the abstract dispatch (which the Cli refines, C01) is empty *)
Theorem C12_never_dispatched : forall feats cs a n args req, f_help feats = true ->
  QuoteSpec.tokens_fun (IdealEditor.ibytes (aline a)) = n :: args -> help_request n args = Some (Some req) -> dispatch feats cs a = [].
Proof. intros feats cs a n args req Hf Ht Hr. unfold dispatch. rewrite Ht, Hf, Hr. reflexivity. Qed.
Print Assumptions C12_never_dispatched.

(* completeness of `help`: the title line, then exactly one line per command, in declaration order, with its name and summary *)
Theorem C12_list_complete : forall e, hops_bytes (list_commands_hops e) =
  lf_to_crlf (e_title e ++ [58]) ++ [13; 10] ++
  flat_map (fun c => element_bytes (c_name c) (odefault (c_short c)) (max_len (map c_name (e_cmds e)))) (e_cmds e).
Proof. exact help_list_enum. Qed.
Print Assumptions C12_list_complete.

(* unknown and hidden commands: `error: unknown command` (cs_cmd_help = None makes process_help print it) *)
Theorem C12_unknown : forall fuel parent cmds name args, Forall (fun d => c_name d <> name) cmds ->
  cmd_help_enum (S fuel) parent cmds name args = Some None.
Proof. exact help_enum_unknown. Qed.
Print Assumptions C12_unknown.
Theorem C12_hidden : forall ms name args,
  Forall (fun m : bool * enumdecl => fst m = true \/ Forall (fun d => c_name d <> name) (e_cmds (snd m))) ms ->
  cmd_help_set (SGroup ms) name args = Some None.
Proof. exact help_group_hidden_unknown. Qed.
Print Assumptions C12_hidden.
(* help for a command: its own help with the accumulated parent path in the usage line *)
Theorem C12_command_help : forall fuel parent cmds name args c, find_cmd cmds name = Some c -> c_sub c = None ->
  cmd_help_enum (S fuel) parent cmds name args = Some (Some (own_help_hops parent c)).
Proof. exact help_enum_leaf. Qed.
Print Assumptions C12_command_help.

(* nested sub-command path: `help <cmd> <sub> rest` / `<cmd> <sub> ... --help`: when the first token after a command that has
   sub-commands is a plain value, help continues in the sub-command enum with that value as the command, the rest as its arguments and
   the command's name appended to the path of the usage line; with nothing after it the command's own help is printed *)
Theorem C12_subcommand_path : forall f parent cmds name v rest c o t subs,
  find_cmd cmds name = Some c -> c_sub c = Some (o, t, subs) -> classify_tok false v = ([Value v], false) ->
  cmd_help_enum (S f) parent cmds name (v :: rest) = cmd_help_enum f (parent ++ [HWrite (c_name c); HWrite [32]]) subs v rest.
Proof. exact help_enum_descend. Qed.
Print Assumptions C12_subcommand_path.
Theorem C12_command_with_subcommands : forall f parent cmds name c o t subs,
  find_cmd cmds name = Some c -> c_sub c = Some (o, t, subs) ->
  cmd_help_enum (S f) parent cmds name [] = Some (Some (own_help_hops parent c)).
Proof. exact help_enum_self. Qed.
Print Assumptions C12_command_with_subcommands.

(* "in full": what a command's own help contains (Infix x l: x occurs contiguously in l; element_bytes: one list line - two blanks, name,
   padding to the column width, two blanks, text, CR LF). The description comes first; the usage line shows "Usage: ", the whole path
   of parent commands and the command's name, and names every positional argument; every positional argument has its line with usage
   name and help text; every option and flag has its line with short and long name, value name in <> or [] and help text, and -h, --help
   is always listed; every sub-command is listed with its name and summary. For every declaration, every parent path. *)
Theorem C12_description_first : forall parent c l, c_long c = Some l ->
  exists r, hops_bytes (own_help_hops parent c) = lf_to_crlf l ++ [13; 10] ++ r.
Proof. exact own_help_description. Qed.
Print Assumptions C12_description_first.
Theorem C12_usage_path : forall parent c,
  Infix (lf_to_crlf H_USAGE ++ [32] ++ hops_bytes parent ++ lf_to_crlf (c_name c)) (hops_bytes (own_help_hops parent c)).
Proof. exact own_help_usage. Qed.
Print Assumptions C12_usage_path.
Theorem C12_usage_positional : forall parent c d, c_sub c = None -> In d (positionals (c_args c)) ->
  Infix ([32] ++ lf_to_crlf (full_name d)) (hops_bytes (own_help_hops parent c)).
Proof. exact own_help_usage_positional. Qed.
Print Assumptions C12_usage_positional.
Theorem C12_every_positional : forall parent c d, In d (positionals (c_args c)) ->
  Infix (element_bytes (full_name d) (odefault (a_help d)) (max_len (map full_name (positionals (c_args c))))) (hops_bytes (own_help_hops parent c)).
Proof. exact own_help_positional. Qed.
Print Assumptions C12_every_positional.
Theorem C12_every_option : forall parent c d p, In d (c_args c) -> option_line d = Some p ->
  Infix (element_bytes (fst p) (snd p) (max_len (map fst (option_lines (c_args c))))) (hops_bytes (own_help_hops parent c)).
Proof. exact own_help_option. Qed.
Print Assumptions C12_every_option.
Theorem C12_help_option_listed : forall parent c,
  Infix (element_bytes H_HELP_OPT_NAMES H_HELP_OPT_TEXT (max_len (map fst (option_lines (c_args c)))))
        (hops_bytes (own_help_hops parent c)).
Proof. exact own_help_help_option. Qed.
Print Assumptions C12_help_option_listed.
Theorem C12_subcommands_listed : forall parent c o t subs sc, c_sub c = Some (o, t, subs) -> In sc subs ->
  Infix (element_bytes (c_name sc) (odefault (c_short sc)) (max_len (map c_name subs))) (hops_bytes (own_help_hops parent c)).
Proof. exact own_help_subcommands. Qed.
Print Assumptions C12_subcommands_listed.
(* `help` on a command group: exactly the listings (C12_list_complete) of the members that are visible and not empty, in declaration
   order, separated by a blank line - each of them occurs, a hidden one contributes nothing *)
Theorem C12_group_listing : forall ms,
  list_commands_set (SGroup ms) = join_blocks (map (fun m : bool * enumdecl => list_commands_hops (snd m)) (filter listed ms)) /\
  forall m, In m ms -> listed m = true -> Infix (hops_bytes (list_commands_hops (snd m))) (hops_bytes (list_commands_set (SGroup ms))).
Proof. intros ms. split; [apply help_list_group_blocks|intros m; apply help_list_group_member]. Qed.
Print Assumptions C12_group_listing.

(* summaries and descriptions come from the doc comments through Model/Doc.v (the model of command/doc.rs; it is what the driver
   evaluates on the declarations of every run): no doc comment - no summary; the summary loses exactly one trailing period, an ellipsis
   stays; examples: several paragraphs separated by several blank lines, leading and trailing blank lines, one attribute with line feeds *)
Theorem C12_summary_period : forall s,
  (forall r, s = r ++ [46; 46] -> remove_period s = s) /\
  (forall r, s = r ++ [46] -> (forall r', r <> r' ++ [46]) -> remove_period s = r) /\
  ((forall r, s <> r ++ [46]) -> remove_period s = s).
Proof. exact remove_period_spec. Qed.
Print Assumptions C12_summary_period.
Example C12_doc_examples :
  doc_help [] = (None, None) /\
  doc_help [[32;65;46]] = (Some [65], Some [65;46]) /\
  doc_help [[]; [32;65]; []; []; [32;66;46;46]; [32]] = (Some [65], Some [65;13;10;13;10;66;46;46]) /\
  doc_help [[32;65;10;32;98;10;10;32;67;46]] = (Some [65;32;98], Some [65;32;98;13;10;13;10;67;46]).
Proof. repeat split; vm_compute; reflexivity. Qed.

Example C12_nonvacuous :
  let sub := Cmd [103] (Some [71]) (Some [71]) [] None in
  let top := Cmd [98] (Some [66]) (Some [66; 46]) [{| a_field := [110]; a_kind := KOpt (Some [110]) (Some 110); a_ty := TStr; a_optional := true; a_default := DNone; a_valname := [78]; a_help := Some [104] |}]
                 (Some (false, [83], [sub])) in
  (* nested path: `help b g` prints the usage line with the full command path "b g" *)
  option_map (option_map hops_bytes) (cmd_help_enum 4 [] [top] [98] [[103]])
  = Some (Some ([71; 13; 10; 13; 10] ++ H_USAGE ++ [32;98;32;103;13;10] ++ [13;10] ++ H_OPTIONS ++ [13;10] ++ [32;32] ++ H_HELP_OPT_NAMES ++ [32;32] ++ H_HELP_OPT_TEXT ++ [13;10])).
Proof. vm_compute. reflexivity. Qed.
