(* C12 - help requests are answered by the library in full and never reach the handler. Statements only.
   Routing is Model/Args.v (HelpRequest::from_command); the help text is Model/Derive.v (the code derive(Help) emits); as for C09 the
   tie between the proc-macro and the model is established on the declarations generated and compiled each run. *)
From EC Require Import Base Generated.Codes Model.Args Model.Writer Model.Cli Model.Derive Spec.ArgSpec Spec.Framing Spec.Session
  Proofs.ArgsProofs Proofs.DeriveProofs.

(* routing: `help` alone lists everything; `help <value> ...` asks about that command with the remaining tokens; any other command
   is a help request iff one of its classified arguments (hence before any `--`, also inside a cluster) is --help or -h *)
Theorem C12_help_alone : help_request HELP_NAME [] = Some (Some HAll).
Proof. exact help_request_help_alone. Qed.
Print Assumptions C12_help_alone.
Theorem C12_help_command : forall v rest, classify_tok false v = ([Value v], false) ->
  help_request HELP_NAME (v :: rest) = Some (Some (HCommand v rest)).
Proof. exact help_request_help_value. Qed.
Print Assumptions C12_help_command.
Theorem C12_help_option : forall name args, list_eqb name HELP_NAME = false -> Forall valid_tok args ->
  help_request name args = Some (if existsb is_help_arg (classify_all false args) then Some (HCommand name args) else None).
Proof. exact help_request_not_help. Qed.
Print Assumptions C12_help_option.

(* a help request never reaches the handler: the abstract dispatch (which the Cli refines, C01) is empty *)
Theorem C12_never_dispatched : forall feats cs a n args req, f_help feats = true ->
  QuoteSpec.tokens_fun (IdealEditor.ibytes (aline a)) = n :: args -> help_request n args = Some (Some req) -> dispatch feats cs a = [].
Proof. intros feats cs a n args req Hf Ht Hr. unfold dispatch. rewrite Ht, Hf, Hr. reflexivity. Qed.
Print Assumptions C12_never_dispatched.

(* completeness of `help`: the title line, then exactly one line per command, in declaration order, with its name and summary *)
Theorem C12_list_complete : forall e, hops_bytes (list_commands_hops e) =
  lf_to_crlf (e_title e ++ [58]) ++ [13; 10] ++
  flat_map (fun c => element_bytes (c_name c) (odefault (c_short c)) (max_len (map c_name (e_cmds e)))) (e_cmds e).
Proof. exact help_list_enum. Qed.
Print Assumptions C12_list_complete.

(* unknown and hidden commands: `error: unknown command` (cs_cmd_help = None makes process_help print it) *)
Theorem C12_unknown : forall fuel parent cmds name args, Forall (fun d => c_name d <> name) cmds ->
  cmd_help_enum (S fuel) parent cmds name args = Some None.
Proof. exact help_enum_unknown. Qed.
Print Assumptions C12_unknown.
Theorem C12_hidden : forall ms name args,
  Forall (fun m : bool * enumdecl => fst m = true \/ Forall (fun d => c_name d <> name) (e_cmds (snd m))) ms ->
  cmd_help_set (SGroup ms) name args = Some None.
Proof. exact help_group_hidden_unknown. Qed.
Print Assumptions C12_hidden.
(* help for a command: its own help with the accumulated parent path in the usage line *)
Theorem C12_command_help : forall fuel parent cmds name args c, find_cmd cmds name = Some c -> c_sub c = None ->
  cmd_help_enum (S fuel) parent cmds name args = Some (Some (own_help_hops parent c)).
Proof. exact help_enum_leaf. Qed.
Print Assumptions C12_command_help.

Example C12_nonvacuous :
  let sub := Cmd [103] (Some [71]) (Some [71]) [] None in
  let top := Cmd [98] (Some [66]) (Some [66; 46]) [{| a_field := [110]; a_kind := KOpt (Some [110]) (Some 110); a_ty := TStr; a_optional := true; a_default := DNone; a_valname := [78]; a_help := Some [104] |}]
                 (Some (false, [83], [sub])) in
  (* nested path: `help b g` prints the usage line with the full command path "b g" *)
  option_map (option_map hops_bytes) (cmd_help_enum 4 [] [top] [98] [[103]])
  = Some (Some ([71; 13; 10; 13; 10] ++ [85;115;97;103;101;58;32;98;32;103;13;10] ++ [13;10] ++ [79;112;116;105;111;110;115;58;13;10] ++ [32;32;45;104;44;32;45;45;104;101;108;112;32;32;80;114;105;110;116;32;104;101;108;112;13;10])).
Proof. vm_compute. reflexivity. Qed.
