(* C06 - what the terminal shows is the prompt plus the edited line, cursor included. Statements only.
   The terminal is Spec/Terminal.v: a byte-fed ECMA-48 line terminal (CR, LF, CSI CUF/CUB/DCH/ICH with optional parameter, EL 0/1/2,
   one cell per UTF-8 character). `term s` is that terminal after ALL bytes the Cli has written so far. The sink works (okT): the property
   is about the bytes emitted. "Printable": no byte below 0x20 (application output may also contain LF and CR); that is the hypothesis
   env_ok on command names, handler output and prompts, help texts and parse-error texts, and vcall_ok on what the application passes
   to Cli::write / set_prompt. Typed characters need no hypothesis: the decoder only hands out printable ones (accept_typed_ge32). *)
From EC Require Import Base Model.Input Model.Editor Model.Sink Model.Writer Model.Cli Spec.Terminal Spec.ArgSpec Spec.Session
  Proofs.SinkOk Proofs.SafetyProofs Proofs.SessionProofs Proofs.TerminalProofs Proofs.ViewProofs.

(* after building the Cli and after EVERY sequence of API calls - bytes of any kind (characters of any encoded length, Backspace, arrows,
   Tab, Enter with its dispatch / help / error output, history recall, rejected characters, malformed input), Cli::write and
   Cli::set_prompt interleaved at any position, handler-side prompt changes - for every buffer size, feature set and command set:
   every call returns Ok, no escape sequence is left open, the current terminal row shows exactly prompt ++ line (ignoring trailing
   blanks) and the terminal cursor is at column |prompt| + editor cursor. Quantifying over all call lists covers every moment between calls. *)
Theorem C06_view : forall feats cs handler cp hc p calls,
  cmdset_ok cs -> env_ok cs handler -> ptext p -> Forall vcall_ok calls ->
  let s0 := snd (api_build okT (cli_init cp hc p)) in
  let '(s', rs) := vrun feats cs handler s0 calls in
  fst (api_build okT (cli_init cp hc p)) = Ok tt /\ Forall (fun x => x = Ok tt) rs /\
  view_ok (term s') (prompt s') (text (ed s')) (cursor (ed s')) = true.
Proof. exact view_always. Qed.
Print Assumptions C06_view.

(* the invariant behind it, one byte at a time, in its exact form: the row is prompt cells ++ line cells ++ blanks (View), tied to the
   abstract session of C01 (VInv contains SRel) *)
Theorem C06_byte : forall feats cs handler, cmdset_ok cs -> env_ok cs handler -> forall cp hc b s a, byte b -> VInv cp hc s a ->
  exists s', api_process_byte okT feats cs handler b s = (Ok tt, s') /\
             VInv cp hc s' (fst (astep_opt feats cs handler cp hc a (snd (accept (ig s) b)))).
Proof. exact process_byte_view. Qed.
Print Assumptions C06_byte.
Theorem C06_write : forall cp hc hs s a, hops_ok hs -> VInv cp hc s a ->
  exists s', api_write okT hs s = (Ok tt, s') /\ VInv cp hc s' a /\ hcalls s' = hcalls s /\ ig s' = ig s.
Proof. exact write_view. Qed.
Print Assumptions C06_write.
Theorem C06_set_prompt : forall cp hc p s a, ptext p -> VInv cp hc s a ->
  exists s', api_set_prompt okT p s = (Ok tt, s') /\ VInv cp hc s' (set_aprompt p a) /\ hcalls s' = hcalls s /\ ig s' = ig s.
Proof. exact set_prompt_view. Qed.
Print Assumptions C06_set_prompt.
(* the invariant implies what the correspondence check computes on the implementation's bytes *)
Theorem C06_oracle : forall cp hc s a, VInv cp hc s a -> view_ok (term s) (prompt s) (text (ed s)) (cursor (ed s)) = true.
Proof. exact VInv_view_ok. Qed.
Print Assumptions C06_oracle.

(* non-vacuity: the environment hypotheses are satisfiable, and a concrete session (typing, moving left, inserting inside the line,
   application output while editing, prompt change, Backspace, Enter with handler output) evaluates to the claimed view *)
Definition demo_handler : nat -> list N -> list (list N) -> list hop := fun _ _ _ => [HWriteln [111; 107]; HSetPrompt [35; 32]].
Lemma demo_env : env_ok raw_cmdset demo_handler.
Proof.
  split; cbn.
  - constructor.
  - intros n nm ar. unfold demo_handler. constructor; [|constructor; [|constructor]]; cbn [hop_ok].
    + apply text_ok_ascii. repeat constructor; lia.
    + split; [exists [[35]; [32]]; split; [repeat constructor; cbn; lia|reflexivity]|repeat constructor; unfold ge32; lia].
  - constructor.
  - discriminate.
  - discriminate.
  - discriminate.
Qed.
Example C06_nonvacuous :
  let calls := [VByte 97; VByte 206; VByte 187; VByte 99; VByte 27; VByte 91; VByte 68; VByte 120; VWrite [HWrite [104; 105; 10; 33]];
                VSetPrompt [62]; VByte 8; VByte 13] in
  Forall vcall_ok calls /\
  let s' := fst (vrun {| f_hist := true; f_ac := true; f_help := true |} raw_cmdset demo_handler (snd (api_build okT (cli_init 8 16 [36; 32]))) calls) in
  view_ok (term s') (prompt s') (text (ed s')) (cursor (ed s')) = true /\ prompt s' = [35; 32] /\ hcalls s' = [([97; 206; 187; 99], [])].
Proof.
  split.
  - repeat (apply Forall_cons; [try (unfold vcall_ok, byte; lia)|]); [|constructor| |constructor]; unfold vcall_ok.
    + cbn [hop_ok]. exists [[104]; [105]; [10]; [33]]. split; [reflexivity|].
      constructor; [left; apply pchar_ascii; lia|]. constructor; [left; apply pchar_ascii; lia|]. constructor; [right; left; reflexivity|].
      constructor; [left; apply pchar_ascii; lia|constructor].
    + split; [exists [[62]]; split; [repeat constructor; cbn; lia|reflexivity]|repeat constructor; unfold ge32; lia].
  - vm_compute. repeat split; reflexivity.
Qed.
