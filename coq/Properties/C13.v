(* C13 - application output is framed on its own lines and never damages the input. Statements only.
   hops: the application's operations on the handle (write_str / writeln_str / formatted writes, any texts, any split, empty ones).
   hops_bytes, needs_break, frame_write, frame_enter: Spec/Framing.v (each LF becomes CR LF; one line break is added iff the output is
   non-empty and did not already end with one; ECMA-48 CR / EL 2 / CUB spelled out there independently of codes.rs). *)
From EC Require Import Base Model.Utils Model.Editor Model.Sink Model.Writer Model.Cli Spec.Framing Spec.Session
  Proofs.ArgsProofs Proofs.SinkOk Proofs.SafetyProofs Proofs.SessionProofs Proofs.ViewProofs Proofs.EnterFrame.

(* (W1) whatever the sequence of operations, the bytes reaching the sink are the texts with every LF turned into CR LF (writeln adds
   CR LF), and the writer's dirty flag says exactly "non-empty and not ending in a line feed" *)
Theorem C13_writer_bytes : forall hs s, exists s' O, run_hops okT hs s = (Ok tt, s') /\
  out (sk s') = out (sk s) ++ O /\ ops_bytes O = hops_bytes hs.
Proof. intros hs s. destruct (run_hops_ok hs s) as (s' & O & E & _ & H1 & H2 & _). eauto. Qed.
Print Assumptions C13_writer_bytes.
Theorem C13_dirty : forall hs, is_dirty (fold_left wnext_hop hs w0) = needs_break (hops_bytes hs).
Proof. exact is_dirty_hops. Qed.
Print Assumptions C13_dirty.

(* (W3) Cli::write at any point of any session: CR, erase line, the output, a line break iff needed, the prompt, the line being
   edited, and the cursor moved back to where it was; line, cursor, decoder, history, prompt untouched; flushed *)
Theorem C13_write_frame : forall hs s, exists s' O, api_write okT hs s = (Ok tt, s') /\ wframe s s' /\ out (sk s') = out (sk s) ++ O
  /\ ops_bytes O = frame_write hs (prompt s) (text (ed s)) (ed_len (ed s) - cursor (ed s)) /\ last_is_flush O.
Proof. exact api_write_ok. Qed.
Print Assumptions C13_write_frame.

(* (W2) Enter on a line that is dispatched: CR LF after the submitted line, the handler's output, a line break iff needed, then the
   prompt in force afterwards (the handler may have changed it) at column 0 of a fresh line; flushed *)
Theorem C13_enter_frame : forall feats cs handler, cmdset_ok cs -> forall cap hcap s a n args, SRel cap hcap s a ->
  dispatch feats cs a = [(n, args)] -> cs_fail cs (acalls a) n args = None ->
  exists s' O, on_enter okT feats cs handler s = (Ok tt, s') /\ out (sk s') = out (sk s) ++ O /\
    ops_bytes O = frame_enter (handler (acalls a) n args) (last_prompt (aprompt a) (handler (acalls a) n args)) /\ last_is_flush O.
Proof. intros feats cs handler Hcs cap hcap s a n args. exact (on_enter_bytes feats cs handler cap hcap s a n args). Qed.
Print Assumptions C13_enter_frame.

(* (W2'), every dispatched line, ALSO when the command processor writes output and then rejects the command with a parse error
   (a hand-written CommandProcessor may do that; cs_fail): CR LF, the output, a line break iff needed, then the `error: ...` line on its
   own line, then the prompt in force. Everything the terminal has received is what it had before plus exactly these bytes. *)
Theorem C13_enter_frame_full : forall feats cs handler, cmdset_ok cs -> forall cap hcap s a n args, SRel cap hcap s a ->
  dispatch feats cs a = [(n, args)] ->
  exists s', on_enter okT feats cs handler s = (Ok tt, s') /\
    Outs s s' (frame_enter_full (handler (acalls a) n args) (cs_fail cs (acalls a) n args) (last_prompt (aprompt a) (handler (acalls a) n args))).
Proof. intros feats cs handler Hcs cap hcap s a n args. exact (on_enter_frame feats cs handler cap hcap s a n args). Qed.
Print Assumptions C13_enter_frame_full.

(* the framing rule itself: after the frame the prompt starts right after a line break, or the output was empty *)
Theorem C13_prompt_on_fresh_line : forall hs, let h := hops_bytes hs in
  let body := h ++ (if needs_break h then [13; 10] else []) in body = [] \/ ends_with_lf body = true.
Proof.
  intros hs h body. subst body. destruct (needs_break h) eqn:E.
  - right. rewrite ends_with_lf_app by discriminate. reflexivity.
  - rewrite app_nil_r. unfold needs_break in E. destruct h as [|b r]; [left; reflexivity|]. right. apply negb_false_iff in E. exact E.
Qed.
Print Assumptions C13_prompt_on_fresh_line.

Example C13_nonvacuous :
  hops_bytes [HWrite [97; 10; 98]; HWrite []; HWriteln [99; 10; 100]; HWrite [101]] = [97; 13; 10; 98; 99; 13; 10; 100; 13; 10; 101]
  /\ frame_write [HWrite [104; 105]] [36; 32] [97; 98; 99; 100] 2 = [13; 27; 91; 50; 75; 104; 105; 13; 10; 36; 32; 97; 98; 99; 100; 27; 91; 68; 27; 91; 68]
  /\ frame_enter [HWriteln [111; 107]] [36; 32] = [13; 10; 111; 107; 13; 10; 36; 32].
Proof. repeat split; vm_compute; reflexivity. Qed.
