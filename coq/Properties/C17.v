(* C17 - every Unicode scalar value: the library's encoding, decoding, counting, indexing and common-prefix computations agree
   with the UTF-8 definitions for EVERY scalar value (no enumeration). Statements only. *)
From EC Require Import Base Model.Utf8 Model.Utils Model.Input Model.Args Spec.Utf8Spec Spec.ArgSpec Spec.KeyUnits Spec.QuoteSpec Spec.HistSpec
  Proofs.Utf8Proofs Proofs.UtilsProofs Proofs.InputProofs Proofs.TokenProofs Proofs.HistoryProofs Proofs.ScalarProofs.

(* encode_utf8 produces the well-formed encoding of the scalar, of the length its range demands, and decoding gives it back *)
Theorem C17_encode : forall c, scalar c ->
  wf_char (encode_utf8 c) /\ decode_char (encode_utf8 c) = c /\
  length (encode_utf8 c) = if c <? 0x80 then 1%nat else if c <? 0x800 then 2%nat else if c <? 0x10000 then 3%nat else 4%nat.
Proof. intros c H. split; [exact (encode_wf c H)|split; [exact (decode_encode c H)|exact (encode_len c)]]. Qed.
Print Assumptions C17_encode.

(* every well-formed byte sequence is the encoding of a scalar: the two directions together say encode/decode are inverse bijections *)
Theorem C17_decode : forall s, wf_char s -> scalar (decode_char s) /\ encode_utf8 (decode_char s) = s.
Proof. intros s H. split; [exact (decode_scalar s H)|exact (encode_decode s H)]. Qed.
Print Assumptions C17_decode.

(* char_pop_front takes exactly the first scalar off, whatever follows (as long as what follows starts a new character) *)
Theorem C17_pop_front : forall c r, scalar c -> ~ starts_cont r ->
  char_pop_front (encode_utf8 c ++ r) = Some (Some (c, r)).
Proof. exact pop_front_encode. Qed.
Print Assumptions C17_pop_front.

Theorem C17_count : forall cs, Forall scalar cs -> char_count (concat (map encode_utf8 cs)) = length cs.
Proof.
  intros cs H. rewrite char_count_concat, map_length; [reflexivity|].
  apply Forall_forall. intros x Hx. apply in_map_iff in Hx as (c & <- & Hc). apply encode_wf. eapply Forall_forall; eauto.
Qed.
Print Assumptions C17_count.

Theorem C17_index : forall cs k, Forall wf_char cs ->
  char_byte_index (concat cs) k = if Nat.ltb k (length cs) then Some (length (concat (firstn k cs))) else None.
Proof. exact cbi_spec. Qed.
Print Assumptions C17_index.

Theorem C17_prefix : forall a b, Forall wf_char a -> Forall wf_char b ->
  common_prefix_len (concat a) (concat b) = length (concat (lcp2 a b)).
Proof. exact cpl_spec. Qed.
Print Assumptions C17_prefix.

(* typed: the bytes of any scalar from U+0020 upward (DEL aside) decode to exactly one character event carrying it *)
Theorem C17_typed : forall c, scalar c -> 0x20 <= c -> c <> 0x7F ->
  snd (runa ig0 (encode_utf8 c)) = [Chr (encode_utf8 c)].
Proof.
  intros c Hs Hc Hd.
  assert (W : wf_unit (UChar (encode_utf8 c))).
  { cbn. split; [exact (encode_wf c Hs)|]. split.
    - unfold encode_utf8. brk; cbn; intros x [= <-]; lia.
    - unfold encode_utf8. brk; try congruence; intros [= E]; lia. }
  pose proof (decode_units [UChar (encode_utf8 c)] ig0 eq_refl (Forall_cons _ W (Forall_nil _))) as H.
  cbn [flat_map bytes_of events_of app] in H. rewrite app_nil_r in H. apply H.
  cbn. split; [|exact I]. unfold compat. cbn. repeat split; intros [? ?]; lia.
Qed.
Print Assumptions C17_typed.

(* submitted: for EVERY scalar value other than blank and the double quote (which have their own meaning in the quoting rules) the
   character on its own is one token - a command name - and after any command word it is one argument, byte for byte *)
Theorem C17_submitted : forall c, scalar c -> c <> 32 -> c <> 0 -> c <> 34 ->
  tokens_fun (encode_utf8 c) = [encode_utf8 c] /\
  forall w, bare w -> tokens_fun (w ++ 32 :: encode_utf8 c) = [w; encode_utf8 c].
Proof. intros c Hs H1 H2 H3. split; [apply scalar_as_name; assumption|intros w Hw; apply scalar_as_argument; assumption]. Qed.
Print Assumptions C17_submitted.
(* used as a short-option character: `-c` is exactly the short option c, for every scalar value but `-` itself (`--` ends option parsing) *)
Theorem C17_short_option : forall c, scalar c -> c <> 45 -> classify_tok false (45 :: encode_utf8 c) = ([ShortOption c], false).
Proof. exact scalar_as_short_option. Qed.
Print Assumptions C17_short_option.
(* recalled from history: a submitted line consisting of the character is recorded whenever it fits and comes back byte for byte *)
Theorem C17_recalled : forall c cap, scalar c -> c <> 0 -> (esize (encode_utf8 c) <= cap)%nat ->
  snd (hs_older (hs_push cap hspec0 (encode_utf8 c))) = Some (encode_utf8 c).
Proof. exact scalar_recalled. Qed.
Print Assumptions C17_recalled.

Example C17_nonvacuous :
  scalar 0x10FFFF /\ encode_utf8 0x10FFFF = [0xF4; 0x8F; 0xBF; 0xBF] /\ encode_utf8 0xFFFF = [0xEF; 0xBF; 0xBF] /\ encode_utf8 0x800 = [0xE0; 0xA0; 0x80]
  /\ char_byte_index (concat [[0x61]; encode_utf8 0x20AC; encode_utf8 0x1F600]) 2 = Some 4%nat.
Proof. unfold scalar. repeat split; try lia; vm_compute; reflexivity. Qed.
