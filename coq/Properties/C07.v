(* C07 - tokenisation follows the documented quoting rules and can carry any string. Statements only.
   tokens_fun (Spec/QuoteSpec.v) is the declarative reading of the rules; tokens_new is the in-place Tokens::new. *)
From EC Require Import Base Model.Token Spec.QuoteSpec Proofs.TokenProofs.

(* (a) the in-place tokeniser never writes out of range or over unread input (no None) - for EVERY byte string *)
Theorem C07_inplace_total : forall input, exists buf' raw e, tokens_new input = Some (buf', raw, e).
Proof. intros input. destruct (tokens_new_spec input) as [b H]. eauto. Qed.
Print Assumptions C07_inplace_total.

(* (a') and for every NUL-free line its tokens are exactly those of the quoting rules *)
Theorem C07_inplace : forall input, nul_free input ->
  exists buf' raw e, tokens_new input = Some (buf', raw, e) /\ tokens_iter raw e = tokens_fun input.
Proof. exact tokens_inplace_fun. Qed.
Print Assumptions C07_inplace.

(* (b) the rules, as laws: blanks separate, a quoted item yields its content and the next token may start directly after
   the closing quote, a bare word yields itself *)
Theorem C07_blank : forall r, tokens_fun (32 :: r) = tokens_fun r.
Proof. exact blank_skipped. Qed.
Print Assumptions C07_blank.
Theorem C07_quoted_item : forall s r, nul_free s -> tokens_fun (quote s ++ r) = s :: tokens_fun r.
Proof. exact quoted_then. Qed.
Print Assumptions C07_quoted_item.
Theorem C07_bare_word : forall w r, bare w -> tokens_fun (w ++ 32 :: r) = w :: tokens_fun r.
Proof. exact bare_then. Qed.
Print Assumptions C07_bare_word.

(* (c) round trip: ANY list of NUL-free strings (empty ones anywhere, quotes, backslashes, blanks, any UTF-8) is passed verbatim *)
Theorem C07_roundtrip : forall l, Forall nul_free l -> tokens_fun (render_quoted l) = l.
Proof. exact quote_roundtrip. Qed.
Print Assumptions C07_roundtrip.

Theorem C07_roundtrip_inplace : forall l, Forall nul_free l ->
  exists buf' raw e, tokens_new (render_quoted l) = Some (buf', raw, e) /\ tokens_iter raw e = l.
Proof.
  intros l H.
  assert (Hn : nul_free (render_quoted l)).
  { clear -H. unfold nul_free in *. induction l as [|s l IH]; [constructor|]. inversion H as [|? ? Hs Hl]; subst.
    assert (Q : Forall (fun b => b <> 0) (quote s)).
    { unfold quote. constructor; [discriminate|]. apply Forall_app. split; [|constructor; [discriminate|constructor]].
      unfold escape. induction Hs as [|b s' Hb Hs' IH2]; [constructor|]. cbn [flat_map].
      destruct ((b =? 34) || (b =? 92)); cbn [app]; repeat constructor; auto; discriminate. }
    destruct l as [|s2 l']; [exact Q|]. cbn [render_quoted]. apply Forall_app. split; [exact Q|]. constructor; [discriminate|]. apply IH, Hl. }
  destruct (tokens_inplace_fun _ Hn) as (b & raw & e & E1 & E2). exists b, raw, e. split; [exact E1|].
  rewrite E2. apply quote_roundtrip, H.
Qed.
Print Assumptions C07_roundtrip_inplace.

Example C07_nonvacuous :
  tokens_fun [34;34;32;97;98;99] = [[]; [97;98;99]]                 (* `"" abc` : the empty first token is kept *)
  /\ tokens_fun [34;34;34;34] = [[]; []]
  /\ option_map (fun r => tokens_iter (snd (fst r)) (snd r)) (tokens_new [34;34;32;97;98;99]) = Some [[]; [97;98;99]]
  /\ tokens_fun (render_quoted [[]; [32;34;92]; [0xC3;0xA9]]) = [[]; [32;34;92]; [0xC3;0xA9]].
Proof. repeat split; vm_compute; reflexivity. Qed.
