(* C09 - derived command parsers accept and reject exactly what the declaration says. Statements only.
   Model/Derive.v is an interpreter of the code the derive macros emit over a declaration datatype (unit / struct / tuple-subcommand
   variants, positional / option / flag fields, Option, default_value, default_value_t, explicit names, nested sub-commands, groups,
   hidden groups); `conv` is the field type's canonical parser. That the proc-macro emits what the model interprets is established
   only on the declarations generated and compiled each run (programs are sampled - stated in DESIGN.md and MANIFEST.json). *)
From EC Require Import Base Generated.Codes Model.Args Model.Cli Model.Derive Model.Group Spec.ArgSpec Spec.Session Proofs.ArgsProofs Proofs.DeriveProofs Proofs.SessionProofs Proofs.HelpProofs Proofs.SubcmdProofs Proofs.GroupProofs.

(* dispatch by name: unknown name <=> no variant has it; otherwise the FIRST variant with that name parses the arguments *)
Theorem C09_unknown : forall fuel cmds name args, Forall (fun d => c_name d <> name) cmds -> parse_enum (S fuel) cmds name args = PErr EUnknown.
Proof. exact parse_unknown. Qed.
Print Assumptions C09_unknown.
Theorem C09_dispatch : forall fuel cmds name args c, find_cmd cmds name = Some c ->
  (exists pre post, cmds = pre ++ c :: post /\ c_name c = name /\ Forall (fun d => c_name d <> name) pre) /\
  parse_enum (S fuel) cmds name args = parse_cmd (parse_enum fuel) c args.
Proof. intros fuel cmds name args c H. split; [exact (find_cmd_first cmds name c H)|exact (parse_known fuel cmds name args c H)]. Qed.
Print Assumptions C09_dispatch.
(* a unit variant accepts its name whatever follows *)
Theorem C09_unit : forall ps c args, c_args c = [] -> c_sub c = None -> parse_cmd ps c args = POk (TV (c_name c) [] None).
Proof. exact parse_unit_any. Qed.
Print Assumptions C09_unit.
(* groups try their members in order; only UnknownCommand passes on *)
Theorem C09_group_order : forall ms name args,
  fst (parse_group ms name args) =
  match find (fun m : bool * enumdecl => match parse_enum PARSE_FUEL (e_cmds (snd m)) name args with PErr EUnknown => false | _ => true end) ms with
  | Some m => parse_enum PARSE_FUEL (e_cmds (snd m)) name args
  | None => PErr EUnknown
  end.
Proof. exact parse_group_first. Qed.
Print Assumptions C09_group_order.

(* a command with fields and no sub-command: the emitted iterator loop IS the three-rule state machine `loop_items` run over the
   classified items of the argument tokens (C08) - option names select a field (flags set it, options then expect a value), a value
   goes to the pending option or the next positional, `--` is skipped; the first item that fits nowhere is the error reported
   (unexpected option / unexpected argument / unparsable value with the expected type) - followed by the construction below *)
Theorem C09_arguments : forall ps c args, c_sub c = None -> c_args c <> [] -> Forall valid_tok args ->
  parse_cmd ps c args =
  match loop_items c (classify_all false args) PNormal 0 [] with
  | inl er => PErr er
  | inr e => match build_fields (c_args c) e with inl er => PErr er | inr fs => POk (TV (c_name c) fs None) end
  end.
Proof. exact parse_cmd_items. Qed.
Print Assumptions C09_arguments.

(* construction: fields in declaration order; the error is the FIRST required argument (no Option, no default, not a flag) that was not
   given, by its usage name; otherwise every field gets a value *)
Theorem C09_first_missing : forall ds e, forallb default_ok ds = true ->
  match build_fields ds e with
  | inl er => exists pre d post, ds = pre ++ d :: post /\ er = EMissing (full_name d) /\ required d = true /\ env_get e (a_field d) = None
              /\ Forall (fun x => required x = true -> env_get e (a_field x) <> None) pre
  | inr fs => map fst fs = map a_field ds /\ Forall (fun x => required x = true -> env_get e (a_field x) <> None) ds
  end.
Proof. exact build_fields_missing. Qed.
Print Assumptions C09_first_missing.

(* sub-commands: when the first token after a command that has a sub-command is a plain value it names the sub-command, which is parsed
   (by the sub-command enum's own parser) from exactly the remaining tokens; its error is the error reported; with nothing after the
   command an optional sub-command is absent and a required one is reported missing as <COMMAND>, after the command's own arguments *)
Theorem C09_subcommand : forall ps c o t subs v rest, c_sub c = Some (o, t, subs) -> classify_tok false v = ([Value v], false) ->
  parse_cmd ps c (v :: rest) =
  match ps subs v rest with
  | PErr er => PErr er
  | PPanic => PPanic
  | POk tv => match build_fields (c_args c) [] with inl er => PErr er | inr fs => POk (TV (c_name c) fs (Some (Some tv))) end
  end.
Proof. exact parse_cmd_sub_first. Qed.
Print Assumptions C09_subcommand.
Theorem C09_subcommand_missing : forall ps c o t subs, c_sub c = Some (o, t, subs) ->
  parse_cmd ps c [] =
  match build_fields (c_args c) [] with
  | inl er => PErr er
  | inr fs => if o then POk (TV (c_name c) fs (Some None)) else PErr (EMissing SUB_NAME_REQ)
  end.
Proof. exact parse_cmd_sub_missing. Qed.
Print Assumptions C09_subcommand_missing.

(* NESTED command groups (a group as a member of a group; Model/Group.v is the model of what derive(CommandGroup) emits then): parsing is
   that of the flat group with the same enums in the same order - the first member at any depth, hidden or not, that does not answer
   UnknownCommand decides. The same holds for completion names, the `help` listing and command help (hidden = some group above is
   hidden): the checks therefore hand nested declarations to the driver in flattened form. *)
Theorem C09_nested_groups : forall name args t hidden, g_parse name args t = fst (parse_group (flatten hidden t) name args).
Proof. exact parse_flatten. Qed.
Print Assumptions C09_nested_groups.
Theorem C09_nested_groups_names_help : forall t,
  (forall hidden, set_names (SGroup (flatten hidden t)) = if hidden then [] else g_names t) /\
  (forall name args, g_help name args t = cmd_help_group (flatten false t) name args) /\
  (forall ms, t = GNode ms -> g_list t = list_commands_set (SGroup (flatten false t))).
Proof.
  intros t. split; [intros hidden; exact (names_flatten t hidden)|]. split; [intros name args; exact (help_flatten name args t)|].
  intros ms ->. exact (list_group_flatten ms).
Qed.
Print Assumptions C09_nested_groups_names_help.

(* a line the typed parser rejects never reaches the handler (abstract dispatch, which the Cli refines: C01) *)
Theorem C09_no_call_on_error : forall feats cs a n args e, QuoteSpec.tokens_fun (IdealEditor.ibytes (aline a)) = n :: args ->
  cs_parse cs n args = Some e -> dispatch feats cs a = [].
Proof. intros feats cs a n args e Ht Hp. unfold dispatch. rewrite Ht, Hp. destruct (f_help feats && _); reflexivity. Qed.
Print Assumptions C09_no_call_on_error.

(* integer fields (i8 u16 i16 u32 i32 ...; `conv` mirrors core::num's decimal from_str): an accepted value is in the type's range, and
   a minus sign is accepted only by signed types *)
Theorem C09_int_range : forall sg bits s v, conv (TInt sg bits) s = Some v ->
  exists neg n, v = VInt neg n /\
    (if neg then sg = true /\ 0 < n /\ n <= 2 ^ (bits - 1) else n < (if sg then 2 ^ (bits - 1) else 2 ^ bits)).
Proof. exact conv_int_range. Qed.
Print Assumptions C09_int_range.

Example C09_nonvacuous :
  let level := {| a_field := [108]; a_kind := KOpt (Some [108;118]) (Some 108); a_ty := TU8; a_optional := false; a_default := DVal (VNum 5); a_valname := [76]; a_help := None |} in
  let verb := {| a_field := [118]; a_kind := KFlag None (Some 118); a_ty := TBool; a_optional := false; a_default := DNone; a_valname := [86]; a_help := None |} in
  let file := {| a_field := [102]; a_kind := KPos; a_ty := TStr; a_optional := false; a_default := DNone; a_valname := [70]; a_help := None |} in
  let c := Cmd [99] None None [level; verb; file] None in
  parse_enum 4 [c] [99] [[45;118;108]; [55]; [120]] = POk (TV [99] [([108], FPlain (VNum 7)); ([118], FPlain (VBool true)); ([102], FPlain (VStr [120]))] None)
  /\ parse_enum 4 [c] [99] [[45;108]; [51;48;48]; [120]] = PErr (EParseValue [51;48;48] [117;56])
  /\ parse_enum 4 [c] [99] [[45;118]] = PErr (EMissing [60;70;62])
  /\ parse_enum 4 [c] [99] [[120]; [121]] = PErr (EUnexpArg [121])
  /\ parse_enum 4 [c] [100] [] = PErr EUnknown
  /\ conv (TInt true 8) [45; 49; 50; 56] = Some (VInt true 128) /\ conv (TInt true 8) [49; 50; 56] = None
  /\ conv (TInt false 16) [45; 49] = None /\ conv (TInt false 16) [43; 48; 48; 55] = Some (VInt false 7) /\ conv (TInt true 16) [45; 48] = Some (VInt false 0).
Proof. repeat split; vm_compute; reflexivity. Qed.
