(* C03 - no panic, abort, overflow or out-of-bounds access for any input and buffer size. Statements only.
   The model is written in "checked style": every operation that can panic or is undefined behaviour in the Rust (slice index / range,
   copy_within, usize subtraction, split_at_mut, get_unchecked, unwrap_unchecked, from_utf8_unchecked on the path of char_pop_front,
   char::from_u32_unchecked) returns None where its precondition fails, and None surfaces as the result Panic. The theorems say
   Panic is never the result. What the theorems cannot exhibit: that each Rust site matches its model primitive (a reading,
   validated by the correspondence check running the real code with overflow and UB-precondition checks on). *)
From EC Require Import Base Model.Utf8 Model.Input Model.Editor Model.History Model.Sink Model.Writer Model.Cli
  Proofs.ArgsProofs Proofs.SafetyProofs.

(* one call of process_byte with ANY byte, in ANY state satisfying the invariant, under ANY sink behaviour, feature set and handler,
   for ANY command set whose names are valid NUL-free UTF-8: never Panic, and the invariant is kept *)
Theorem C03_process_byte : forall okf feats cs handler, cmdset_ok cs -> forall b s r s', byte b -> CliInv s ->
  api_process_byte okf feats cs handler b s = (r, s') -> r <> Panic /\ CliInv s'.
Proof. intros okf feats cs handler H. exact (process_byte_safe okf feats cs handler H). Qed.
Print Assumptions C03_process_byte.

Theorem C03_write : forall okf hs s r s', CliInv s -> api_write okf hs s = (r, s') -> r <> Panic /\ CliInv s'.
Proof. exact write_safe. Qed.
Print Assumptions C03_write.
Theorem C03_set_prompt : forall okf p s r s', CliInv s -> api_set_prompt okf p s = (r, s') -> r <> Panic /\ CliInv s'.
Proof. exact set_prompt_safe. Qed.
Print Assumptions C03_set_prompt.

(* every sequence of API calls - bytes 0..255, application writes, prompt changes, in any order and number - from a freshly built
   Cli with ANY command-buffer size and ANY history-buffer size (0 and 1 included): no call ever panics *)
Theorem C03_total : forall okf feats cs handler, cmdset_ok cs -> forall cap hcap pr calls,
  Forall call_ok calls ->
  Forall (fun x => x <> Panic) (snd (api_run okf feats cs handler (snd (api_build okf (cli_init cap hcap pr))) calls)).
Proof.
  intros okf feats cs handler Hcs cap hcap pr calls Hc.
  assert (Hi : CliInv (snd (api_build okf (cli_init cap hcap pr)))).
  { destruct (api_build okf (cli_init cap hcap pr)) as [r s1] eqn:E. cbn [snd].
    destruct (ClassProofs.Same_bind _ _ ClassProofs.Same_get (fun s0 => ClassProofs.Same_bind _ _ (ClassProofs.Same_wr okf (prompt s0)) (fun _ => ClassProofs.Same_fl okf)) _ _ _ E) as (a & b & c).
    eapply CliInv_same; eauto. apply CliInv_init. }
  exact (proj1 (api_run_safe okf feats cs handler Hcs calls _ Hc Hi)).
Qed.
Print Assumptions C03_total.

(* the raw command set (no names) satisfies the side condition *)
Example C03_raw_cmdset_ok : cmdset_ok raw_cmdset.
Proof. split; constructor. Qed.

Example C03_nonvacuous :
  let feats := {| f_hist := true; f_ac := true; f_help := true |} in
  let okT := fun _ : nat => true in
  (* 1-byte buffers, a 4-byte character, arrows, Tab, Enter, Up, malformed bytes *)
  snd (api_run okT feats raw_cmdset (fun _ _ _ => []) (snd (api_build okT (cli_init 1 1 [36]))) 
        (map AByte [0xF0; 0x9F; 0x98; 0x80; 97; 98; 27; 91; 68; 9; 13; 27; 91; 65; 0xC0; 0x80; 8; 8; 13]))
  = repeat (Ok tt) 19.
Proof. vm_compute. reflexivity. Qed.
