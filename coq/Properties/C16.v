(* C16 - disabling a feature removes that facility only. Statements only.
   The model's `features` record gates exactly what cfg(feature) gates in cli.rs (the correspondence check builds the crate under all
   eight feature subsets and compares each with the model configured alike). *)
From EC Require Import Base Model.Input Model.Editor Model.Token Model.Args Model.History Model.Sink Model.Writer Model.Cli
  Spec.Session Proofs.FeatureProofs.

(* with history off Up and Down do nothing: same state, no output, Ok - under any sink *)
Theorem C16_hist_off : forall okf feats cs handler s, f_hist feats = false ->
  on_control okf feats cs handler Up s = (Ok tt, s) /\ on_control okf feats cs handler Down s = (Ok tt, s).
Proof. intros okf feats cs handler s H. split; apply hist_off_updown; exact H. Qed.
Print Assumptions C16_hist_off.
(* ... and Enter records nothing *)
Theorem C16_hist_off_enter : forall okf feats cs handler s r s', f_hist feats = false ->
  on_control okf feats cs handler Enter s = (r, s') -> hist s' = hist s.
Proof. intros okf feats cs handler s r s' H E. exact (hist_off_enter okf cs handler feats s r s' H E). Qed.
Print Assumptions C16_hist_off_enter.

(* with autocomplete off Tab does nothing *)
Theorem C16_ac_off : forall okf feats cs handler s, f_ac feats = false -> on_control okf feats cs handler Tab s = (Ok tt, s).
Proof. intros okf feats cs handler s H. apply ac_off_tab. exact H. Qed.
Print Assumptions C16_ac_off.

(* with help off `help` and `--help` lines are delivered to the command processor like any other command *)
Theorem C16_help_off : forall okf feats cs handler raw empty, f_help feats = false ->
  process_input okf feats cs handler raw empty =
  match from_tokens (tokens_iter raw empty) with None => ret tt | Some (name, args) => process_command okf cs handler name args end.
Proof. intros. apply help_off_input. assumption. Qed.
Print Assumptions C16_help_off.
Theorem C16_help_off_dispatch : forall feats cs a, f_help feats = false ->
  dispatch feats cs a = match QuoteSpec.tokens_fun (IdealEditor.ibytes (aline a)) with
                        | [] => []
                        | name :: args => match cs_parse cs name args with Some _ => [] | None => [(name, args)] end
                        end.
Proof. intros feats cs a H. unfold dispatch. rewrite H. reflexivity. Qed.
Print Assumptions C16_help_off_dispatch.

(* identical except for the disabled facility: two feature sets with the same help setting; on event lists that do not use what
   differs (no Up/Down if history differs, no Tab if autocomplete differs) the abstract sessions - which the Cli refines under each
   feature set (C01) - go through the same lines, prompts and handler calls *)
Theorem C16_equiv_off_facility : forall cs handler cap hcap f1 f2, f_help f1 = f_help f2 -> forall evs p,
  (f_hist f1 <> f_hist f2 -> forallb (fun ev => negb (uses_history ev)) evs = true) ->
  (f_ac f1 <> f_ac f2 -> forallb (fun ev => negb (uses_tab ev)) evs = true) ->
  same_but_hist (fst (arun' cs handler cap hcap f1 (astate0 p) evs)) (fst (arun' cs handler cap hcap f2 (astate0 p) evs)) /\
  snd (arun' cs handler cap hcap f1 (astate0 p) evs) = snd (arun' cs handler cap hcap f2 (astate0 p) evs).
Proof.
  intros cs handler cap hcap f1 f2 Hh evs p H1 H2. apply arun_equiv; auto. unfold same_but_hist. auto.
Qed.
Print Assumptions C16_equiv_off_facility.
