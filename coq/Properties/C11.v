(* C11 - Tab completes to the common continuation of all matching command names. Statements only.
   complete_spec (Spec/CompletionSpec.v) is the declarative completion over characters; the model is Editor::autocompletion driven by
   the derived scan over all visible names in declaration order (any order, any grouping) followed by the built-in `help`. *)
From Coq Require Import Permutation.
From EC Require Import Base Generated.Codes Model.Utils Model.Input Model.Editor Model.Sink Model.Cli Spec.Utf8Spec Spec.ArgSpec Spec.IdealEditor Spec.CompletionSpec Spec.Session
  Proofs.ArgsProofs Proofs.EditorProofs Proofs.CompletionProofs Proofs.OrderProofs Proofs.SinkOk Proofs.SafetyProofs Proofs.SessionProofs.

(* the fold of merge_autocompletion over ANY list of candidates (any order, any number, empty ones, ones longer than the room) yields
   the longest common prefix cut to the whole characters that fit; "partial" iff more than one candidate or truncated *)
Theorem C11_merge_fold : forall room xs, Forall (Forall wf_char) xs ->
  let ac := fold_left ac_merge (map (@concat N) xs) (ac_new room) in
  match xs with
  | [] => ac_done ac = None
  | _ => ac_done ac = Some (concat (fit_chars room (lcp_all xs))) /\ ac_partial ac = (Nat.leb 2 (length xs) || not_full room (lcp_all xs))
  end.
Proof. exact merge_all. Qed.
Print Assumptions C11_merge_fold.

(* Tab on ANY line, cursor position, buffer size and set of (valid UTF-8) names: no panic, the result is exactly complete_spec,
   and the editor stays a well-formed line within the buffer *)
Theorem C11_tab : forall cap e i cs, Rep cap e i -> Forall valid_tok (cs_names cs) ->
  exists e' i', ed_autocompletion e (complete_with cs) = Some e' /\ Rep cap e' i' /\
    (text e', cursor e') = complete_spec (cs_names cs ++ [HELP_CANDIDATE]) cap (text e) (cursor e).
Proof. exact autocompletion_spec. Qed.
Print Assumptions C11_tab.

(* the property's own clauses, on characters (TabShape): Tab either changes nothing, or only blanks after the cursor are dropped, what is
   appended consists of characters of a matching name (and possibly one blank), and the cursor goes to the end - so completion never
   alters or removes a non-blank character already typed; Rep cap e' i' says the result never exceeds the command buffer *)
Theorem C11_shape : forall cap e i cs, Rep cap e i -> Forall valid_tok (cs_names cs) ->
  exists e' i', ed_autocompletion e (complete_with cs) = Some e' /\ Rep cap e' i' /\
    (text e', cursor e') = complete_spec (cs_names cs ++ [HELP_CANDIDATE]) cap (text e) (cursor e) /\
    TabShape (cs_names cs ++ [HELP_CANDIDATE]) i i'.
Proof. exact autocompletion_spec_shape. Qed.
Print Assumptions C11_shape.

(* through the whole Cli: when the byte received decodes to Tab (feature autocomplete on), line and cursor afterwards are exactly
   complete_spec of the line and cursor before, over every name the command set exposes plus the built-in help - every buffer size,
   command set, handler, decoder state; with the feature off the line is untouched *)
Theorem C11_cli : forall feats cs handler, cmdset_ok cs -> forall cap hcap b s a r s', byte b -> SRel cap hcap s a ->
  snd (accept (ig s) b) = Some (Ctl Tab) ->
  api_process_byte okT feats cs handler b s = (r, s') ->
  r = Ok tt /\ hcalls s' = hcalls s /\
  (text (ed s'), cursor (ed s')) =
    (if f_ac feats then complete_spec (cs_names cs ++ [HELP_CANDIDATE]) cap (text (ed s)) (cursor (ed s)) else (text (ed s), cursor (ed s))).
Proof.
  intros feats cs handler Hcs cap hcap b s a r s' Hb HS Ht E.
  destruct (process_byte_refines feats cs handler Hcs cap hcap b s a r s' Hb HS E) as (-> & (R' & _) & Hc & _).
  rewrite Ht in *. cbn [astep_opt astep] in *.
  destruct HS as (R & _). pose proof R as (_ & q2 & q3 & _).
  split; [reflexivity|]. destruct (f_ac feats).
  - destruct Hcs as [Hvn _]. destruct (autocompletion_spec cap (ed s) (aline a) cs R Hvn) as (e2 & i2 & _ & (_ & t2 & _ & w2 & _) & Esp).
    unfold ibytes in *. rewrite <- q2, <- q3 in *. rewrite <- Esp in *. cbn [fst snd set_line aline] in *.
    rewrite app_nil_r in Hc. split; [exact Hc|]. destruct R' as (_ & r2 & r3 & _). cbn [chars icur] in *. rewrite r2, r3.
    rewrite t2, chars_of_concat by exact w2. reflexivity.
  - cbn [fst snd] in *. rewrite app_nil_r in Hc. split; [exact Hc|]. destruct R' as (_ & r2 & r3 & _). rewrite r2, r3, q2, q3. reflexivity.
Qed.
Print Assumptions C11_cli.

(* "in whatever order they are declared": the completion is a function of the SET of names - any permutation of the declaration order,
   across groups or within one, gives the same line and cursor *)
Theorem C11_order_independent : forall names names' cap text cursor, Permutation names names' ->
  complete_spec names cap text cursor = complete_spec names' cap text cursor.
Proof. exact complete_spec_perm. Qed.
Print Assumptions C11_order_independent.

(* ... for the modelled code itself: two command sets exposing the same names in different orders complete every line alike *)
Theorem C11_declaration_order : forall cap e i cs cs', Rep cap e i -> Forall valid_tok (cs_names cs) ->
  Permutation (cs_names cs) (cs_names cs') ->
  exists e1 e2, ed_autocompletion e (complete_with cs) = Some e1 /\ ed_autocompletion e (complete_with cs') = Some e2 /\
    text e1 = text e2 /\ cursor e1 = cursor e2.
Proof.
  intros cap e i cs cs' R Hv P.
  assert (Hv' : Forall valid_tok (cs_names cs')) by (eapply Permutation_Forall; eauto).
  destruct (autocompletion_spec cap e i cs R Hv) as (e1 & i1 & E1 & _ & S1).
  destruct (autocompletion_spec cap e i cs' R Hv') as (e2 & i2 & E2 & _ & S2).
  exists e1, e2. split; [exact E1|]. split; [exact E2|].
  rewrite (complete_spec_perm _ (cs_names cs' ++ [HELP_CANDIDATE])) in S1 by (apply Permutation_app_tail; exact P).
  rewrite <- S2 in S1. injection S1 as -> ->. split; reflexivity.
Qed.
Print Assumptions C11_declaration_order.

Example C11_nonvacuous :
  (* names in an order where the ones sharing a prefix are not adjacent; tight buffer; prefix-of-another *)
  complete_spec [[103;101;116;45;108;101;100]; [115;101;116]; [103;101;116;45;97;100;99]; [104;101;108;112]] 40 [103;101] 2 = ([103;101;116;45], 4%nat) /\
  complete_spec [[103;101;116;45;108;101;100]; [103;111]; [104;101;108;112]] 4 [103] 1 = ([103], 1%nat) /\
  complete_spec [[103;101;116]; [103;101;116;45;108;101;100]; [104;101;108;112]] 40 [103;101;116] 3 = ([103;101;116], 3%nat) /\
  complete_spec [[104;101;108;112]] 40 [32;104;101;32;32] 3 = ([32;104;101;108;112;32], 6%nat) /\
  complete_spec [[104;101;108;112]] 5 [104;101] 2 = ([104;101;108;112;32], 5%nat) /\
  complete_spec [[104;101;108;112]] 4 [104;101] 2 = ([104;101;108;112], 4%nat) /\
  complete_spec [[104;101;108;112]] 40 [104;101;32;120] 4 = ([104;101;32;120], 4%nat).
Proof. repeat split; vm_compute; reflexivity. Qed.
