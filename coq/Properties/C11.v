(* C11 - Tab completes to the common continuation of all matching command names. Statements only.
   complete_spec (Spec/CompletionSpec.v) is the declarative completion over characters; the model is Editor::autocompletion driven by
   the derived scan over all visible names in declaration order (any order, any grouping) followed by the built-in `help`. *)
From EC Require Import Base Generated.Codes Model.Utils Model.Editor Model.Cli Spec.Utf8Spec Spec.ArgSpec Spec.IdealEditor Spec.CompletionSpec
  Proofs.ArgsProofs Proofs.EditorProofs Proofs.CompletionProofs.

(* the fold of merge_autocompletion over ANY list of candidates (any order, any number, empty ones, ones longer than the room) yields
   the longest common prefix cut to the whole characters that fit; "partial" iff more than one candidate or truncated *)
Theorem C11_merge_fold : forall room xs, Forall (Forall wf_char) xs ->
  let ac := fold_left ac_merge (map (@concat N) xs) (ac_new room) in
  match xs with
  | [] => ac_done ac = None
  | _ => ac_done ac = Some (concat (fit_chars room (lcp_all xs))) /\ ac_partial ac = (Nat.leb 2 (length xs) || not_full room (lcp_all xs))
  end.
Proof. exact merge_all. Qed.
Print Assumptions C11_merge_fold.

(* Tab on ANY line, cursor position, buffer size and set of (valid UTF-8) names: no panic, the result is exactly complete_spec,
   and the editor stays a well-formed line within the buffer *)
Theorem C11_tab : forall cap e i cs, Rep cap e i -> Forall valid_tok (cs_names cs) ->
  exists e' i', ed_autocompletion e (complete_with cs) = Some e' /\ Rep cap e' i' /\
    (text e', cursor e') = complete_spec (cs_names cs ++ [HELP_CANDIDATE]) cap (text e) (cursor e).
Proof. exact autocompletion_spec. Qed.
Print Assumptions C11_tab.

Example C11_nonvacuous :
  (* names in an order where the ones sharing a prefix are not adjacent; tight buffer; prefix-of-another *)
  complete_spec [[103;101;116;45;108;101;100]; [115;101;116]; [103;101;116;45;97;100;99]; [104;101;108;112]] 40 [103;101] 2 = ([103;101;116;45], 4%nat) /\
  complete_spec [[103;101;116;45;108;101;100]; [103;111]; [104;101;108;112]] 4 [103] 1 = ([103], 1%nat) /\
  complete_spec [[103;101;116]; [103;101;116;45;108;101;100]; [104;101;108;112]] 40 [103;101;116] 3 = ([103;101;116], 3%nat) /\
  complete_spec [[104;101;108;112]] 40 [32;104;101;32;32] 3 = ([32;104;101;108;112;32], 6%nat) /\
  complete_spec [[104;101;108;112]] 5 [104;101] 2 = ([104;101;108;112;32], 5%nat) /\
  complete_spec [[104;101;108;112]] 4 [104;101] 2 = ([104;101;108;112], 4%nat) /\
  complete_spec [[104;101;108;112]] 40 [104;101;32;120] 4 = ([104;101;32;120], 4%nat).
Proof. repeat split; vm_compute; reflexivity. Qed.
