(* C05 - the line editor refines an ideal editor over Unicode scalar values. Statements only.
   Rep cap e i: the editor e (bytes + char cursor) represents the ideal state i (list of well-formed chars + cursor) in a buffer of cap bytes. *)
From EC Require Import Base Model.Utils Model.Input Model.Editor Model.Sink Model.Cli Spec.Utf8Spec Spec.IdealEditor Spec.Session
  Proofs.EditorProofs Proofs.SinkOk Proofs.SafetyProofs Proofs.SessionProofs.

(* one operation: the byte-level editor does not panic (Some), returns the ideal editor's result (accepted / moved) and
   ends in a state representing the ideal editor's next state - for every buffer size, every state, every operation *)
Theorem C05_step : forall cap e i o, Rep cap e i -> eop_wf o ->
  exists e', ed_step e o = Some (e', snd (ideal_step cap i (to_iop o))) /\ Rep cap e' (fst (ideal_step cap i (to_iop o))).
Proof. exact EditorProofs.step_refines. Qed.
Print Assumptions C05_step.

(* every operation sequence from the empty editor, any length, any buffer size (0 and 1 included) *)
Theorem C05_run : forall cap os, Forall eop_wf os ->
  exists e', ed_run (ed_new cap) os = Some (e', snd (ideal_run cap ideal0 (map to_iop os)))
             /\ Rep cap e' (fst (ideal_run cap ideal0 (map to_iop os))).
Proof. intros cap os H. exact (EditorProofs.run_refines cap os (ed_new cap) ideal0 (Rep_init cap) H). Qed.
Print Assumptions C05_run.

(* a character is accepted iff the line's UTF-8 length stays within the buffer; a rejected one changes nothing *)
Theorem C05_accept_iff : forall cap i cs,
  snd (ideal_step cap i (IInsert cs)) = true <-> (length (ibytes i) + length (concat cs) <= cap)%nat.
Proof. intros cap i cs. unfold ideal_step. destruct (Nat.leb_spec (length (ibytes i) + length (concat cs)) cap); cbn; split; intros; try lia; try discriminate; reflexivity. Qed.
Print Assumptions C05_accept_iff.

Theorem C05_rejected_changes_nothing : forall cap e i cs, Rep cap e i -> Forall wf_char cs ->
  snd (ideal_step cap i (IInsert cs)) = false -> ed_insert e (concat cs) = Some (e, false).
Proof. exact insert_rejected. Qed.
Print Assumptions C05_rejected_changes_nothing.

(* non-vacuity: a 5-byte buffer, mixed widths, the euro sign is rejected when it no longer fits, insertion in the middle *)
(* through the whole Cli: for every byte received, the edited line and cursor afterwards are those of the ideal line of the abstract
   session after the decoded event (insert at the cursor, Backspace = left then remove, Left/Right, recall and completion replace
   the line, Enter empties it) - every buffer size, feature set, command set, handler; working sink *)
Theorem C05_cli : forall feats cs handler, cmdset_ok cs -> forall cap hcap b s a r s', byte b -> SRel cap hcap s a ->
  api_process_byte okT feats cs handler b s = (r, s') ->
  let a' := fst (astep_opt feats cs handler cap hcap a (snd (accept (ig s) b))) in
  r = Ok tt /\ text (ed s') = ibytes (aline a') /\ cursor (ed s') = icur (aline a') /\ Rep cap (ed s') (aline a').
Proof.
  intros feats cs handler Hcs cap hcap b s a r s' Hb HS E. cbn zeta.
  destruct (process_byte_refines feats cs handler Hcs cap hcap b s a r s' Hb HS E) as (-> & (R & _) & _).
  split; [reflexivity|]. pose proof R as (q1 & q2 & q3 & q4). split; [exact q2|]. split; [exact q3|exact R].
Qed.
Print Assumptions C05_cli.

Example C05_nonvacuous :
  let os := [EInsert [[0x61]]; EInsert [[0xC3;0xA9]]; ELeft; EInsert [[0xE2;0x82;0xAC]]; EInsert [[0x62]]; ELeft; ELeft; ERemove; ERight; ERight; ERight] in
  Forall eop_wf os /\
  option_map (fun r => (text (fst r), cursor (fst r), snd r)) (ed_run (ed_new 5) os)
  = Some ([0x62; 0xC3; 0xA9], 2%nat, [true; true; true; false; true; true; true; true; true; true; false]).
Proof. cbn zeta. split; [repeat constructor; cbn; unfold cont; lia|vm_compute; reflexivity]. Qed.
