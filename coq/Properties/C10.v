(* C10 - history recalls submitted lines newest-first, deduplicated, oldest evicted first. Statements only.
   HRep cap h s: the byte-level history h (NUL-separated buffer, byte cursor) represents the abstract history s
   (entry list oldest first, position); in particular entries are NUL-free, non-empty, pairwise distinct and fit. *)
From EC Require Import Base Model.Input Model.History Model.Sink Model.Cli Spec.HistSpec Spec.Session Proofs.ListFacts Proofs.HistoryProofs
  Proofs.SinkOk Proofs.SafetyProofs Proofs.SessionProofs Proofs.WholeHistory.

(* (1) refinement: every operation (push of ANY line, older, newer) on a represented state does not panic, returns what the
   abstract history returns - byte for byte - and ends in a represented state; every history size *)
Theorem C10_step : forall cap h s o, HRep cap h s ->
  exists h', hist_step h o = Some (h', snd (hs_step cap s o)) /\ HRep cap h' (fst (hs_step cap s o)).
Proof. exact hist_step_refines. Qed.
Print Assumptions C10_step.

(* all operation sequences from the empty history, any length, any history-buffer size (0 and 1 included) *)
Theorem C10_run : forall cap os,
  exists h', hist_run (hist_new cap) os = Some (h', snd (hs_run cap hspec0 os)) /\ HRep cap h' (fst (hs_run cap hspec0 os)).
Proof. intros cap os. exact (hist_run_refines cap os (hist_new cap) hspec0 (HRep_init cap)). Qed.
Print Assumptions C10_run.

(* what the abstract history does, in the words of the property *)
(* each distinct line at most once, everything fits: part of HRep, hence true of every reachable state *)
Theorem C10_distinct_and_fits : forall cap h s, HRep cap h s -> NoDup (ents s) /\ (total (ents s) <= cap)%nat.
Proof. intros cap h s (_ & _ & _ & Hnd & Hfit & _). rewrite enc_total in Hfit. auto. Qed.
Print Assumptions C10_distinct_and_fits.

(* a recorded line becomes the newest; what is kept of the rest is a suffix (the oldest go first) that fits together with it,
   and the longest such suffix (only as many as necessary) *)
Theorem C10_push_recorded : forall cap s t, acceptable cap t = true -> Forall good (ents s) ->
  exists m, ents (hs_push cap s t) = skipn m (remove_entry t (ents s)) ++ [t]
    /\ (total (skipn m (remove_entry t (ents s))) + esize t <= cap)%nat
    /\ (forall m', (m' < m)%nat -> (cap < total (skipn m' (remove_entry t (ents s))) + esize t)%nat)
    /\ pos (hs_push cap s t) = None.
Proof.
  intros cap s t Ha Hg. unfold hs_push. rewrite Ha. cbn [ents pos].
  destruct (acceptable_good cap t Ha) as [_ Hsz].
  destruct (evict_m_le (cap - esize t) (remove_entry t (ents s))) as (m & Hm & Hml).
  exists m. rewrite Hm. split; [reflexivity|]. split; [|split; [|reflexivity]].
  - pose proof (evict_total (cap - esize t) (remove_entry t (ents s))) as H. rewrite Hm in H. lia.
  - intros m' Hlt. pose proof (evict_longest (cap - esize t) _ m Hm Hml (remove_entry_good t _ Hg) m' Hlt). lia.
Qed.
Print Assumptions C10_push_recorded.

(* empty lines, lines with NUL and lines that cannot fit are not recorded and drop nothing *)
Theorem C10_push_rejected : forall cap s t, acceptable cap t = false -> hs_push cap s t = s.
Proof. intros cap s t H. unfold hs_push. rewrite H. reflexivity. Qed.
Print Assumptions C10_push_rejected.

(* Up steps from the newest to the oldest and then does nothing; Down steps back and past the newest gives nothing (empty line) *)
Theorem C10_navigation : forall s,
  (pos s = None -> ents s <> [] -> hs_older s = ({| ents := ents s; pos := Some (length (ents s) - 1)%nat |}, nth_error (ents s) (length (ents s) - 1))) /\
  (forall i, pos s = Some (S i) -> hs_older s = ({| ents := ents s; pos := Some i |}, nth_error (ents s) i)) /\
  (pos s = Some O -> hs_older s = (s, None)) /\
  (forall i, pos s = Some i -> (S i < length (ents s))%nat -> hs_newer s = ({| ents := ents s; pos := Some (S i) |}, nth_error (ents s) (S i))) /\
  (forall i, pos s = Some i -> (length (ents s) <= S i)%nat -> hs_newer s = ({| ents := ents s; pos := None |}, None)) /\
  (pos s = None -> hs_newer s = (s, None)).
Proof.
  intros s. unfold hs_older, hs_newer. repeat split.
  - intros -> Hne. destruct (ents s) as [|e es] eqn:E; [congruence|]. cbn [length]. replace (S (length es) - 1)%nat with (length es) by lia. reflexivity.
  - intros i ->. reflexivity.
  - intros ->. reflexivity.
  - intros i -> H. destruct (Nat.ltb_spec (S i) (length (ents s))); [reflexivity|lia].
  - intros i -> H. destruct (Nat.ltb_spec (S i) (length (ents s))); [lia|reflexivity].
  - intros ->. reflexivity.
Qed.
Print Assumptions C10_navigation.

(* the closed form over the WHOLE submission history (retained cap L = the longest suffix that fits of the acceptable lines of L, each
   kept at its last submission): after ANY sequence of submitted lines - duplicates, empty lines, lines that cannot fit, any number of
   evictions on the way - the history holds exactly retained cap L, and the position is reset; the same for the byte-level buffer;
   and pressing Up as many times as there are entries shows every one of them, newest first *)
Theorem C10_whole_history : forall cap L,
  ents (fold_left (hs_push cap) L hspec0) = retained cap L /\ pos (fold_left (hs_push cap) L hspec0) = None.
Proof. exact whole_history. Qed.
Print Assumptions C10_whole_history.
Theorem C10_whole_history_bytes : forall cap L, exists h', option_map fst (hist_run (hist_new cap) (map HPush L)) = Some h' /\
  HRep cap h' {| ents := retained cap L; pos := None |}.
Proof. exact whole_history_bytes. Qed.
Print Assumptions C10_whole_history_bytes.
Theorem C10_recall_all : forall cap es,
  snd (hs_run cap {| ents := es; pos := None |} (repeat HOlder (length es))) = map Some (rev es).
Proof. exact recall_all. Qed.
Print Assumptions C10_recall_all.

(* through the whole Cli: for every byte received the history buffer afterwards represents the abstract history of the abstract session
   after the decoded event: Enter records the line exactly as it stands (hs_push of its bytes, blanks included), Up / Down move the
   position (hs_older / hs_newer) and show the entry, nothing else touches it - every buffer size, feature set, command set, handler *)
Theorem C10_cli : forall feats cs handler, cmdset_ok cs -> forall cap hcap b s a r s', byte b -> SRel cap hcap s a ->
  api_process_byte okT feats cs handler b s = (r, s') ->
  r = Ok tt /\ HRep hcap (hist s') (ahist (fst (astep_opt feats cs handler cap hcap a (snd (accept (ig s) b))))).
Proof.
  intros feats cs handler Hcs cap hcap b s a r s' Hb HS E.
  destruct (process_byte_refines feats cs handler Hcs cap hcap b s a r s' Hb HS E) as (-> & (_ & H & _) & _). auto.
Qed.
Print Assumptions C10_cli.

(* ab, c, an empty line, e-acute, ab again, a line that cannot fit, def - into an 8-byte history: c and e-acute had to go for def, ab moved up *)
Example C10_whole_nonvacuous :
  retained 8 [[97;98]; [99]; []; [0xC3;0xA9]; [97;98]; [1;2;3;4;5;6;7;8;9]; [100;101;102]] = [[97;98]; [100;101;102]].
Proof. vm_compute. reflexivity. Qed.

Example C10_nonvacuous :
  let os := [HPush [97;98]; HPush [99]; HPush [0xC3;0xA9]; HPush [97;98]; HOlder; HOlder; HOlder; HOlder; HNewer; HPush [100;101;102;103]; HOlder; HOlder] in
  option_map snd (hist_run (hist_new 8) os)
  = Some [None; None; None; None; Some [97;98]; Some [0xC3;0xA9]; Some [99]; None; Some [0xC3;0xA9]; None; Some [100;101;102;103]; Some [97;98]].
Proof. vm_compute. reflexivity. Qed.
