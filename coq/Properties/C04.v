(* C04 - byte stream decodes into key events. Statements only. *)
From EC Require Import Base Model.Utf8 Model.Input Spec.Utf8Spec Spec.KeyUnits Proofs.InputProofs.

(* every stream that is a concatenation of well-formed key units, segmented greedily, decodes into
   exactly the events of those units, from any decoder state that is not inside a CSI sequence *)
Theorem C04_decode : forall us g, csi g = false -> Forall wf_unit us -> greedy (last g) us ->
  snd (runa g (flat_map bytes_of us)) = flat_map events_of us.
Proof. exact decode_units. Qed.
Print Assumptions C04_decode.

Theorem C04_decode_init : forall us, Forall wf_unit us -> greedy 0 us ->
  snd (runa ig0 (flat_map bytes_of us)) = flat_map events_of us.
Proof. intros us. exact (decode_units us ig0 eq_refl). Qed.
Print Assumptions C04_decode_init.

Theorem C04_n_terminators : forall us g, csi g = false -> forallb is_term us = true -> greedy (last g) us ->
  snd (runa g (flat_map bytes_of us)) = repeat (Ctl Enter) (length us).
Proof. exact n_terminators. Qed.
Print Assumptions C04_n_terminators.

(* non-vacuity: a greedy, well-formed stream with repeated pairs, a lone ESC, a CSI with parameters *)
Example C04_nonvacuous :
  let us := [UTerm TCRLF; UTerm TCRLF; UTerm TCR; UChar [97]; UIgn 27; UCsi [49;59] 65; UChar [0xE2;0x82;0xAC]; UTerm TLFCR; UTerm TLF] in
  greedy 0 us /\ Forall wf_unit us /\
  snd (runa ig0 (flat_map bytes_of us)) = [Ctl Enter; Ctl Enter; Ctl Enter; Chr [97]; Ctl Up; Chr [0xE2;0x82;0xAC]; Ctl Enter; Ctl Enter].
Proof.
  cbn zeta. split; [|split].
  - cbn. unfold compat, first_of; cbn. repeat split; intros [? ?]; lia.
  - repeat constructor; cbn; unfold cont; try lia; try congruence; intros x [= <-]; lia.
  - vm_compute. reflexivity.
Qed.

(* the executable side conditions used by the direct oracle are sound *)
Theorem C04_decode_oracle : forall us, forallb wf_unitb us = true -> greedyb 0 us = true ->
  snd (runa ig0 (flat_map bytes_of us)) = flat_map events_of us.
Proof. exact decode_units_b. Qed.
Print Assumptions C04_decode_oracle.
