(* C04 - byte stream decodes into key events. Statements only. *)
From EC Require Import Base Model.Utf8 Model.Input Model.Sink Model.Writer Model.Cli Spec.Utf8Spec Spec.KeyUnits Proofs.InputProofs
  Proofs.SafetyProofs Proofs.DecoderProofs.

(* every stream that is a concatenation of well-formed key units, segmented greedily, decodes into
   exactly the events of those units, from any decoder state that is not inside a CSI sequence *)
Theorem C04_decode : forall us g, csi g = false -> Forall wf_unit us -> greedy (last g) us ->
  snd (runa g (flat_map bytes_of us)) = flat_map events_of us.
Proof. exact decode_units. Qed.
Print Assumptions C04_decode.

Theorem C04_decode_init : forall us, Forall wf_unit us -> greedy 0 us ->
  snd (runa ig0 (flat_map bytes_of us)) = flat_map events_of us.
Proof. intros us. exact (decode_units us ig0 eq_refl). Qed.
Print Assumptions C04_decode_init.

Theorem C04_n_terminators : forall us g, csi g = false -> forallb is_term us = true -> greedy (last g) us ->
  snd (runa g (flat_map bytes_of us)) = repeat (Ctl Enter) (length us).
Proof. exact n_terminators. Qed.
Print Assumptions C04_n_terminators.

(* non-vacuity: a greedy, well-formed stream with repeated pairs, a lone ESC, a CSI with parameters *)
Example C04_nonvacuous :
  let us := [UTerm TCRLF; UTerm TCRLF; UTerm TCR; UChar [97]; UIgn 27; UCsi [49;59] 65; UChar [0xE2;0x82;0xAC]; UTerm TLFCR; UTerm TLF] in
  greedy 0 us /\ Forall wf_unit us /\
  snd (runa ig0 (flat_map bytes_of us)) = [Ctl Enter; Ctl Enter; Ctl Enter; Chr [97]; Ctl Up; Chr [0xE2;0x82;0xAC]; Ctl Enter; Ctl Enter].
Proof.
  cbn zeta. split; [|split].
  - cbn. unfold compat, first_of; cbn. repeat split; intros [? ?]; lia.
  - repeat constructor; cbn; unfold cont; try lia; try congruence; intros x [= <-]; lia.
  - vm_compute. reflexivity.
Qed.

(* the executable side conditions used by the direct oracle are sound *)
Theorem C04_decode_oracle : forall us, forallb wf_unitb us = true -> greedyb 0 us = true ->
  snd (runa ig0 (flat_map bytes_of us)) = flat_map events_of us.
Proof. exact decode_units_b. Qed.
Print Assumptions C04_decode_oracle.

(* "depends only on the byte sequence", for the decoder as the Cli keeps it between calls: after ANY sequence of API calls (bytes,
   Cli::write, set_prompt in any order), under EVERY sink behaviour okf (any call may fail, once or for good), with any command set and
   handler, and whatever the calls returned, the decoder inside the Cli is in the state its own run over the bytes fed so far ends in -
   so the second byte of a CR LF pair is swallowed also when the call for the first byte failed *)
Theorem C04_cli_decoder : forall okf feats cs handler calls s,
  ig (fst (api_run okf feats cs handler s calls)) = fst (runa (ig s) (fed_bytes calls)).
Proof. exact cli_decoder. Qed.
Print Assumptions C04_cli_decoder.

(* one call: the byte moves the decoder exactly as `accept` says, whatever the call returns *)
Theorem C04_cli_byte : forall okf feats cs handler b s r s',
  api_process_byte okf feats cs handler b s = (r, s') -> ig s' = fst (accept (ig s) b).
Proof. exact process_byte_decoder. Qed.
Print Assumptions C04_cli_byte.

(* non-vacuity: `a` CR with the sink failing from the first call of the Enter on, then LF and `b` with the sink still failing: the decoder
   has paired CR LF (one Enter) although every call returned Err *)
Example C04_cli_nonvacuous :
  let feats := {| f_hist := true; f_ac := true; f_help := true |} in
  let h := fun (_ : nat) (_ : list N) (_ : list (list N)) => @nil hop in
  let okf := fun n : nat => Nat.ltb n 4 in
  let s0 := snd (api_build (fun _ => true) (cli_init 16 16 [36; 32])) in
  let '(s, rs) := api_run okf feats raw_cmdset h s0 [AByte 97; AByte 13; AWrite [HWrite [120]]; AByte 10; AByte 98] in
  ig s = fst (runa ig0 [97; 13; 10; 98]) /\ snd (runa ig0 [97; 13; 10; 98]) = [Chr [97]; Ctl Enter; Chr [98]] /\ In Err rs.
Proof. vm_compute. repeat split; try reflexivity. right. left. reflexivity. Qed.
