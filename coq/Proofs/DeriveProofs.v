(* C09 / C12: theorems about the model of the code the derive macros emit (Model/Derive.v) and about help routing. *)
From EC Require Import Base Generated.Codes Model.Utils Model.Args Model.Writer Model.Cli Model.Derive Spec.Utf8Spec Spec.ArgSpec Spec.Framing
  Proofs.ListFacts Proofs.UtilsProofs Proofs.ArgsProofs.

(* ---------- C12 routing: which lines are help requests *)
Lemma help_request_help_alone : help_request HELP_NAME [] = Some (Some HAll).
Proof. vm_compute. reflexivity. Qed.

Lemma help_request_not_help name args : list_eqb name HELP_NAME = false -> Forall valid_tok args ->
  help_request name args = Some (if existsb is_help_arg (classify_all false args) then Some (HCommand name args) else None).
Proof. intros Hn Hv. unfold help_request. rewrite Hn, (args_classified args Hv). cbn [obind]. destruct (existsb is_help_arg (classify_all false args)); reflexivity. Qed.

(* `help <value> rest...` asks about command <value> with the remaining tokens *)
Lemma help_request_help_value v rest : classify_tok false v = ([Value v], false) ->
  help_request HELP_NAME (v :: rest) = Some (Some (HCommand v rest)).
Proof.
  intros Hc. unfold help_request. rewrite list_eqb_refl. unfold ai_next, ai_new. cbn [leftover toks vonly].
  change (char_pop_front []) with (Some (@None (N * list N))). cbn [obind].
  unfold classify_tok in Hc. destruct v as [|b0 [|b1 r]]; try reflexivity.
  destruct (b0 =? 45); [|reflexivity]. destruct (b1 =? 45); [destruct r; discriminate|]. injection Hc as Hc _. exfalso.
  destruct (chars_of (b1 :: r)) eqn:E; [discriminate|]. cbn in Hc. discriminate.
Qed.

(* an option -h / --help anywhere before `--`, also inside a cluster, makes the line a help request *)
Lemma is_help_arg_long : is_help_arg (LongOption HELP_LONG) = true.
Proof. unfold is_help_arg. apply list_eqb_refl. Qed.
Lemma is_help_arg_short : is_help_arg (ShortOption HELP_SHORT) = true.
Proof. unfold is_help_arg. apply N.eqb_refl. Qed.

(* ---------- C09: dispatch by name *)
Lemma find_cmd_first cmds name c : find_cmd cmds name = Some c ->
  exists pre post, cmds = pre ++ c :: post /\ c_name c = name /\ Forall (fun d => c_name d <> name) pre.
Proof.
  induction cmds as [|d cmds IH]; [discriminate|]. cbn. destruct (list_eqb (c_name d) name) eqn:E.
  - intros [= <-]. exists [], cmds. apply list_eqb_spec in E. auto.
  - intros H. destruct (IH H) as (pre & post & -> & Hn & Hp). exists (d :: pre), post. split; [reflexivity|]. split; [exact Hn|].
    constructor; [|exact Hp]. intros X. rewrite X, list_eqb_refl in E. discriminate.
Qed.
Lemma find_cmd_none cmds name : find_cmd cmds name = None <-> Forall (fun d => c_name d <> name) cmds.
Proof.
  induction cmds as [|d cmds IH]; cbn; [split; [constructor|reflexivity]|]. destruct (list_eqb (c_name d) name) eqn:E.
  - apply list_eqb_spec in E. split; [discriminate|]. intros H. inversion H; subst. congruence.
  - rewrite IH. split; [intros H; constructor; [intros X; rewrite X, list_eqb_refl in E; discriminate|exact H]|intros H; inversion H; assumption].
Qed.

Theorem parse_unknown fuel cmds name args : Forall (fun d => c_name d <> name) cmds -> parse_enum (S fuel) cmds name args = PErr EUnknown.
Proof. intros H. cbn [parse_enum]. apply find_cmd_none in H. rewrite H. reflexivity. Qed.
Theorem parse_known fuel cmds name args c : find_cmd cmds name = Some c ->
  parse_enum (S fuel) cmds name args = parse_cmd (parse_enum fuel) c args.
Proof. intros H. cbn [parse_enum]. rewrite H. reflexivity. Qed.
Theorem parse_unit ps name args : parse_cmd ps (Cmd name None None [] None) args = POk (TV name [] None).
Proof. reflexivity. Qed.
Lemma parse_unit_any ps c args : c_args c = [] -> c_sub c = None -> parse_cmd ps c args = POk (TV (c_name c) [] None).
Proof. intros H1 H2. unfold parse_cmd. rewrite H1, H2. reflexivity. Qed.

(* groups: members in order; UnknownCommand passes on, anything else is final *)
Theorem parse_group_first ms name args :
  fst (parse_group ms name args) =
  match find (fun m : bool * enumdecl => match parse_enum PARSE_FUEL (e_cmds (snd m)) name args with PErr EUnknown => false | _ => true end) ms with
  | Some m => parse_enum PARSE_FUEL (e_cmds (snd m)) name args
  | None => PErr EUnknown
  end.
Proof.
  induction ms as [|[h e] ms IH]; [reflexivity|]. cbn [parse_group find snd].
  destruct (parse_enum PARSE_FUEL (e_cmds e) name args) as [er|t|] eqn:E; [destruct er|..]; try (cbn [fst snd]; rewrite E; reflexivity).
  destruct (parse_group ms name args) as [p i]. cbn [fst] in *. exact IH.
Qed.

(* ---------- C09: the first missing required argument, in declaration order *)
Definition required (d : argdecl) : bool :=
  negb (a_optional d) && (match a_kind d with KFlag _ _ => false | _ => true end) && (match a_default d with DNone => true | _ => false end).
Definition default_ok (d : argdecl) : bool :=
  match a_default d with DStr s => (match conv (a_ty d) s with Some _ => true | None => false end) | _ => true end.

Theorem build_fields_missing : forall ds e, forallb default_ok ds = true ->
  match build_fields ds e with
  | inl er => exists pre d post, ds = pre ++ d :: post /\ er = EMissing (full_name d) /\ required d = true /\ env_get e (a_field d) = None
              /\ Forall (fun x => required x = true -> env_get e (a_field x) <> None) pre
  | inr fs => map fst fs = map a_field ds /\ Forall (fun x => required x = true -> env_get e (a_field x) <> None) ds
  end.
Proof.
  induction ds as [|d ds IH]; intros e Hd; [cbn; auto|]. cbn [forallb] in Hd. apply andb_true_iff in Hd as [Hd1 Hd2].
  specialize (IH e Hd2).
  (* the head either is the first missing one, or yields a field value *)
  assert (HEAD : (exists fv, forall (rest : perr + list (list N * fval)),
                     build_fields (d :: ds) e = match build_fields ds e with inl er => inl er | inr l => inr ((a_field d, fv) :: l) end)
                    /\ (required d = true -> env_get e (a_field d) <> None)
                 \/ (build_fields (d :: ds) e = inl (EMissing (full_name d)) /\ required d = true /\ env_get e (a_field d) = None)).
  { cbn [build_fields]. unfold required, default_ok in *.
    destruct (a_optional d) eqn:Eo; [left; split; [eexists; intros _; reflexivity|cbn; discriminate]|].
    destruct (a_kind d) eqn:Ek; [| |left; split; [eexists; intros _; reflexivity|cbn; discriminate]];
    (destruct (a_default d) eqn:Edf;
     [destruct (env_get e (a_field d)) eqn:Eg; [left; split; [eexists; intros _; reflexivity|intros _; congruence]|right; cbn; auto]
     |unfold conv_field; destruct (conv (a_ty d) s) eqn:Ec; [|discriminate]; left; split; [eexists; intros _; reflexivity|cbn; discriminate]
     |left; split; [eexists; intros _; reflexivity|cbn; discriminate]]). }
  destruct HEAD as [[[fv Hfv] Hreq]|(Hm & Hr & Hg)].
  - rewrite (Hfv (inr [])). destruct (build_fields ds e) as [er|fs].
    + destruct IH as (pre & d0 & post & -> & H1 & H2 & H3 & H4). exists (d :: pre), d0, post. repeat split; auto.
    + destruct IH as [I1 I2]. cbn [map fst]. split; [f_equal; exact I1|constructor; assumption].
  - rewrite Hm. exists [], d, ds. repeat split; auto.
Qed.

(* ---------- C09: the argument state machine runs over the classified items (iterator elimination) *)
Definition IT (it : aiter) : Prop := exists lcs, leftover it = concat lcs /\ Forall wf_char lcs /\ Forall valid_tok (toks it).
Definition it_items (it : aiter) : list arg :=
  map (fun c => ShortOption (decode_char c)) (chars_of (leftover it)) ++ classify_all (vonly it) (toks it).

Lemma ai_next_spec it : IT it ->
  match it_items it with
  | [] => ai_next it = Some None
  | a :: rest => exists it', ai_next it = Some (Some (a, it')) /\ IT it' /\ it_items it' = rest
  end.
Proof.
  intros (lcs & Hl & Hw & Hv). unfold it_items at 1. unfold ai_next. rewrite Hl, chars_of_concat by exact Hw.
  destruct lcs as [|c lcs].
  - cbn [concat map app]. change (char_pop_front []) with (Some (@None (N * list N))). cbn [obind].
    destruct (toks it) as [|raw ts] eqn:Et; [reflexivity|]. inversion Hv as [|? ? Hraw Hts]; subst. cbn [classify_all]. unfold classify_tok.
    assert (NEXT : forall (vo' : bool) (a : arg), exists it', Some (Some (a, {| vonly := vo'; leftover := concat []; toks := ts |})) = Some (Some (a, it')) /\ IT it' /\ it_items it' = classify_all vo' ts).
    { intros vo' a. eexists. split; [reflexivity|]. split; [exists []; cbn; auto|]. unfold it_items. cbn [leftover vonly toks]. reflexivity. }
    destruct (vonly it); [cbn [app]; apply NEXT|].
    destruct raw as [|b0 [|b1 rest]]; try (cbn [app]; apply NEXT).
    destruct (b0 =? 45) eqn:E0; [|cbn [app]; apply NEXT].
    destruct (b1 =? 45) eqn:E1.
    + destruct rest; cbn [app]; apply NEXT.
    + apply N.eqb_eq in E0. subst b0. destruct (valid_dash_tail _ Hraw) as (cs & Hcs & Ecs). destruct cs as [|c cs]; [discriminate|]. inversion Hcs as [|? ? Hc Hcs']; subst.
      rewrite Ecs, pop_front_concat, chars_of_concat by (auto; constructor; auto). cbn [obind map app].
      eexists. split; [reflexivity|]. split; [exists cs; cbn; auto|]. unfold it_items. cbn [leftover vonly toks]. rewrite chars_of_concat by exact Hcs'. reflexivity.
  - inversion Hw as [|? ? Hc Hlcs]; subst. rewrite pop_front_concat by assumption. cbn [obind map app].
    eexists. split; [reflexivity|]. split; [exists lcs; cbn; auto|]. unfold it_items. cbn [leftover vonly toks]. rewrite chars_of_concat by exact Hlcs. reflexivity.
Qed.

Lemma IT_new ts : Forall valid_tok ts -> IT (ai_new ts) /\ it_items (ai_new ts) = classify_all false ts.
Proof. intros H. split; [exists []; cbn; auto|reflexivity]. Qed.

(* the same state machine written over the item list, for a command without a sub-command *)
Fixpoint loop_items (c : cmddecl) (items : list arg) (st : pstate) (npos : nat) (e : env) : perr + env :=
  match items with
  | [] => inr e
  | a :: rest =>
    match find_named (c_args c) a with
    | Some d => match a_kind d with
                | KFlag _ _ => loop_items c rest PNormal npos (env_set e (a_field d) (VBool true))
                | _ => loop_items c rest (PExpect (a_field d)) npos e
                end
    | None =>
      match a with
      | Value v =>
        match st with
        | PExpect fld => match find_field (c_args c) fld with
                         | None => inl EUnknown   (* cannot happen: fld is a declared field *)
                         | Some d => match conv_field d v with inl er => inl er | inr x => loop_items c rest PNormal npos (env_set e fld x) end
                         end
        | PNormal => match nth_error (positionals (c_args c)) npos with
                     | None => inl (EUnexpArg v)
                     | Some d => match conv_field d v with inl er => inl er | inr x => loop_items c rest PNormal (S npos) (env_set e (a_field d) x) end
                     end
        end
      | LongOption n => inl (EUnexpLong n)
      | ShortOption ch => inl (EUnexpShort ch)
      | DoubleDash => loop_items c rest st npos e
      end
    end
  end.

Lemma find_named_field ds a d : find_named ds a = Some d -> find_field ds (a_field d) <> None -> True.
Proof. auto. Qed.

Theorem arg_loop_items ps c : c_sub c = None -> forall fuel it st npos e, IT it -> (length (it_items it) < fuel)%nat ->
  (forall fld, st = PExpect fld -> find_field (c_args c) fld <> None) ->
  arg_loop ps fuel c it st npos e = Some (match loop_items c (it_items it) st npos e with inl er => inl er | inr e' => inr (e', None) end).
Proof.
  intros Hsub. induction fuel as [|f IH]; intros it st npos e Hit Hf Hst; [lia|]. cbn [arg_loop].
  pose proof (ai_next_spec it Hit) as Hn. destruct (it_items it) as [|a rest] eqn:Ei.
  - rewrite Hn. reflexivity.
  - destruct Hn as (it' & En & Hit' & Ei'). rewrite En. cbn [loop_items]. cbn [length] in Hf.
    destruct (find_named (c_args c) a) as [d|] eqn:Efn.
    + assert (Hfd : find_field (c_args c) (a_field d) <> None).
      { clear -Efn. induction (c_args c) as [|x l IHl]; [discriminate|]. cbn in *.
        destruct (a_kind x); try (destruct (name_matches _ _ a); [injection Efn as ->; rewrite list_eqb_refl; discriminate|]);
        destruct (list_eqb (a_field x) (a_field d)); try discriminate; auto. }
      destruct (a_kind d); (rewrite IH; [rewrite Ei'; reflexivity|exact Hit'|rewrite Ei'; lia|]); intros fld Hx; try discriminate; injection Hx as <-; exact Hfd.
    + destruct a as [| n | ch | v]; try reflexivity.
      * rewrite IH; [rewrite Ei'; reflexivity|exact Hit'|rewrite Ei'; lia|exact Hst].
      * destruct st as [|fld].
        -- rewrite Hsub. destruct (nth_error (positionals (c_args c)) npos) as [d|]; [|reflexivity].
           destruct (conv_field d v); [reflexivity|]. rewrite IH; [rewrite Ei'; reflexivity|exact Hit'|rewrite Ei'; lia|discriminate].
        -- destruct (find_field (c_args c) fld) as [d|] eqn:Eff; [|exfalso; exact (Hst fld eq_refl Eff)].
           destruct (conv_field d v); [reflexivity|]. rewrite IH; [rewrite Ei'; reflexivity|exact Hit'|rewrite Ei'; lia|discriminate].
Qed.

Lemma split_chars_len : forall fuel l, (length (split_chars fuel l) <= length l)%nat.
Proof.
  induction fuel as [|f IH]; intros l; cbn [split_chars]; [cbn; lia|]. destruct l as [|x l]; [cbn; lia|]. cbn [length].
  specialize (IH (skipn (lead_len x) (x :: l))). rewrite skipn_length in IH. cbn [length] in IH.
  assert (1 <= lead_len x)%nat by (unfold lead_len; brk; lia). lia.
Qed.
Lemma classify_tok_len vo t : (length (fst (classify_tok vo t)) <= length t + 1)%nat.
Proof.
  unfold classify_tok. destruct vo; [cbn; lia|]. destruct t as [|b0 [|b1 r]]; try (cbn; lia).
  destruct (b0 =? 45); [|cbn; lia]. destruct (b1 =? 45); [destruct r; cbn; lia|]. cbn [fst]. rewrite map_length. unfold chars_of.
  pose proof (split_chars_len (length (b1 :: r)) (b1 :: r)). cbn [length] in *. lia.
Qed.
Lemma classify_all_len : forall ts vo, (length (classify_all vo ts) <= length (concat ts) + length ts)%nat.
Proof.
  induction ts as [|t ts IH]; intros vo; [cbn; lia|]. cbn [classify_all concat length].
  pose proof (classify_tok_len vo t) as H. destruct (classify_tok vo t) as [items vo']. cbn [fst] in H. rewrite !app_length. specialize (IH vo'). lia.
Qed.

(* the whole parse of a command without sub-command, over the classified items of its (valid) argument tokens *)
Theorem parse_cmd_items ps c args : c_sub c = None -> c_args c <> [] -> Forall valid_tok args ->
  parse_cmd ps c args =
  match loop_items c (classify_all false args) PNormal 0 [] with
  | inl er => PErr er
  | inr e => match build_fields (c_args c) e with inl er => PErr er | inr fs => POk (TV (c_name c) fs None) end
  end.
Proof.
  intros Hsub Hne Hv. unfold parse_cmd. rewrite Hsub. destruct (c_args c) as [|d ds] eqn:Ea; [congruence|].
  destruct (IT_new args Hv) as [Hit Hitems].
  rewrite <- Ea. rewrite (arg_loop_items ps c Hsub (args_fuel args) (ai_new args) PNormal 0 [] Hit); [|rewrite Hitems| discriminate].
  - rewrite Hitems. destruct (loop_items c (classify_all false args) PNormal 0 []); [reflexivity|]. destruct (build_fields (c_args c) e); reflexivity.
  - unfold args_fuel. pose proof (classify_all_len args false). lia.
Qed.

(* ---------- C12: completeness of the help listing *)
Lemma hops_bytes_app a b : hops_bytes (a ++ b) = hops_bytes a ++ hops_bytes b.
Proof. apply flat_map_app. Qed.
Lemma hops_bytes_repeat_sp n : hops_bytes (repeat (HWrite [32]) n) = repeat 32 n.
Proof. induction n as [|n IH]; [reflexivity|]. cbn [repeat]. change (hops_bytes (HWrite [32] :: repeat (HWrite [32]) n)) with ([32] ++ hops_bytes (repeat (HWrite [32]) n)). rewrite IH. reflexivity. Qed.

Definition element_bytes (name desc : list N) (longest : nat) : list N :=
  [32; 32] ++ lf_to_crlf name ++ repeat 32 (longest - length name) ++ [32; 32] ++ lf_to_crlf desc ++ [13; 10].
Lemma list_element_bytes name desc longest : hops_bytes (list_element_hops name desc longest) = element_bytes name desc longest.
Proof.
  unfold list_element_hops, element_bytes. rewrite !hops_bytes_app, hops_bytes_repeat_sp. cbn [hops_bytes flat_map hop_bytes app]. rewrite !app_nil_r.
  change (lf_to_crlf [32; 32]) with [32; 32]. rewrite <- !app_assoc. reflexivity.
Qed.

Lemma elements_bytes m : forall cs, hops_bytes (flat_map (fun c => list_element_hops (c_name c) (odefault (c_short c)) m) cs)
  = flat_map (fun c => element_bytes (c_name c) (odefault (c_short c)) m) cs.
Proof. induction cs as [|c cs IH]; [reflexivity|]. cbn [flat_map]. rewrite hops_bytes_app, list_element_bytes, IH. reflexivity. Qed.

(* `help` on an enum: the title line, then exactly one line per command, in declaration order, with its name and summary *)
Theorem help_list_enum e : hops_bytes (list_commands_hops e) =
  lf_to_crlf (e_title e ++ [58]) ++ [13; 10] ++
  flat_map (fun c => element_bytes (c_name c) (odefault (c_short c)) (max_len (map c_name (e_cmds e)))) (e_cmds e).
Proof.
  unfold list_commands_hops, title_hops. rewrite !hops_bytes_app, elements_bytes. cbn [hops_bytes flat_map hop_bytes app]. rewrite !app_nil_r. reflexivity.
Qed.

(* hidden groups contribute nothing to the listing, and asking about a command that only hidden groups know is `unknown command` *)
Theorem help_group_hidden_unknown ms name args :
  Forall (fun m : bool * enumdecl => fst m = true \/ Forall (fun d => c_name d <> name) (e_cmds (snd m))) ms ->
  cmd_help_set (SGroup ms) name args = Some None.
Proof.
  induction ms as [|[h e] ms IH]; intros H; [reflexivity|]. inversion H as [|? ? H1 H2]; subst. cbn [cmd_help_set cmd_help_group] in *.
  destruct h; [apply IH, H2|]. destruct H1 as [H1|H1]; [discriminate|]. cbn [snd] in H1.
  unfold PARSE_FUEL. cbn [cmd_help_enum]. apply find_cmd_none in H1. rewrite H1. apply IH, H2.
Qed.
Theorem help_enum_unknown fuel parent cmds name args : Forall (fun d => c_name d <> name) cmds ->
  cmd_help_enum (S fuel) parent cmds name args = Some None.
Proof. intros H. cbn [cmd_help_enum]. apply find_cmd_none in H. rewrite H. reflexivity. Qed.

(* help for a command without sub-command is its own help with the accumulated parent path in the usage line *)
Theorem help_enum_leaf fuel parent cmds name args c : find_cmd cmds name = Some c -> c_sub c = None ->
  cmd_help_enum (S fuel) parent cmds name args = Some (Some (own_help_hops parent c)).
Proof. intros H Hs. cbn [cmd_help_enum]. rewrite H, Hs. reflexivity. Qed.

(* ---- integer fields: whatever is accepted is in the type's range, with the sign only where the type has one *)
Lemma conv_int_range sg bits s v : conv (TInt sg bits) s = Some v ->
  exists neg n, v = VInt neg n /\
    (if neg then sg = true /\ 0 < n /\ n <= 2 ^ (bits - 1) else n < (if sg then 2 ^ (bits - 1) else 2 ^ bits)).
Proof.
  unfold conv, conv_int.
  set (p := match s with 43 :: r => (false, r) | 45 :: r => if sg then (true, r) else (false, s) | _ => (false, s) end).
  assert (Hp : fst p = true -> sg = true).
  { subst p. destruct s as [|b r]; [discriminate|]. destruct (N.eq_dec b 43) as [->|]; [discriminate|]. destruct (N.eq_dec b 45) as [->|].
    - destruct sg; [reflexivity|discriminate].
    - destruct b as [|q]; [discriminate|]. do 6 (destruct q as [q|q|]; try discriminate); congruence. }
  destruct p as [neg ds]. cbn [fst] in Hp. destruct ds as [|d0 dr]; [discriminate|]. destruct (parse_dec 0 (d0 :: dr)) as [n|]; [|discriminate].
  destruct neg.
  - destruct (n <=? 2 ^ (bits - 1)) eqn:E; [|discriminate]. intros [= <-]. destruct (n =? 0) eqn:E0; cbn [negb].
    + exists false, n. split; [reflexivity|]. assert (n = 0) by lia. subst. destruct sg; apply N.neq_0_lt_0, N.pow_nonzero; discriminate.
    + exists true, n. split; [reflexivity|]. split; [auto|lia].
  - destruct (n <? (if sg then 2 ^ (bits - 1) else 2 ^ bits)) eqn:E; [|discriminate]. intros [= <-]. exists false, n. split; [reflexivity|lia].
Qed.
