(* C11 "in whatever order they are declared": the declarative completion does not depend on the order of the names. *)
From Coq Require Import Permutation.
From EC Require Import Base Model.Utils Model.Editor Model.Cli Spec.Utf8Spec Spec.ArgSpec Spec.CompletionSpec Proofs.CompletionProofs.

Lemma lcp2_idem a : lcp2 a a = a.
Proof. induction a as [|x a IH]; [reflexivity|]. cbn. rewrite list_eqb_refl, IH. reflexivity. Qed.

Lemma lcp2_assoc : forall a b c, lcp2 (lcp2 a b) c = lcp2 a (lcp2 b c).
Proof.
  induction a as [|x a IH]; intros [|y b] [|z c]; cbn; try reflexivity.
  - destruct (list_eqb x y); reflexivity.
  - destruct (list_eqb x y) eqn:Exy; destruct (list_eqb y z) eqn:Eyz; cbn [lcp2]; rewrite ?Exy; try reflexivity.
    + apply list_eqb_spec in Exy. apply list_eqb_spec in Eyz. subst. rewrite list_eqb_refl, IH. reflexivity.
    + apply list_eqb_spec in Exy. subst. rewrite Eyz. reflexivity.
Qed.

Lemma fold_lcp2_out : forall l x a, fold_left lcp2 l (lcp2 x a) = lcp2 x (fold_left lcp2 l a).
Proof. induction l as [|y l IH]; intros x a; cbn [fold_left]; [reflexivity|]. rewrite lcp2_assoc. apply IH. Qed.

Lemma fold_lcp2_absorb : forall l x a, In x l -> lcp2 x (fold_left lcp2 l a) = fold_left lcp2 l a.
Proof.
  induction l as [|y l IH]; intros x a Hin; [destruct Hin|]. cbn [fold_left]. destruct Hin as [->|Hin]; [|apply IH, Hin].
  rewrite (lcp2_comm a x), fold_lcp2_out, <- lcp2_assoc, lcp2_idem. reflexivity.
Qed.

Lemma fold_lcp2_perm l l' : Permutation l l' -> forall a, fold_left lcp2 l a = fold_left lcp2 l' a.
Proof.
  induction 1 as [|x l l' _ IH|x y l|l l' l'' _ IH1 _ IH2]; intros a; cbn [fold_left].
  - reflexivity.
  - apply IH.
  - f_equal. rewrite !lcp2_assoc, (lcp2_comm y x). reflexivity.
  - rewrite IH1. apply IH2.
Qed.

Lemma lcp_all_perm l l' : Permutation l l' -> lcp_all l = lcp_all l'.
Proof.
  intros P. destruct l as [|x r]; [apply Permutation_nil in P; subst; reflexivity|].
  destruct l' as [|y r']; [apply Permutation_sym, Permutation_nil in P; discriminate|].
  cbn [lcp_all].
  (* both sides equal the fold over the whole list started from x *)
  transitivity (fold_left lcp2 (x :: r) x); [cbn [fold_left]; rewrite lcp2_idem; reflexivity|].
  rewrite (fold_lcp2_perm _ _ P). cbn [fold_left]. rewrite fold_lcp2_out.
  assert (Hin : In x (y :: r')) by (eapply Permutation_in; [exact P|left; reflexivity]).
  destruct Hin as [->|Hin].
  - transitivity (fold_left lcp2 r' (lcp2 x x)); [rewrite fold_lcp2_out; reflexivity|]. rewrite lcp2_idem. reflexivity.
  - apply fold_lcp2_absorb, Hin.
Qed.

Lemma filter_perm {A} (f : A -> bool) l l' : Permutation l l' -> Permutation (filter f l) (filter f l').
Proof.
  induction 1 as [|x l l' _ IH|x y l|l l' l'' _ IH1 _ IH2]; cbn [filter].
  - constructor.
  - destruct (f x); [constructor|]; exact IH.
  - destruct (f x), (f y); try apply Permutation_refl. apply perm_swap.
  - eapply Permutation_trans; eauto.
Qed.

Theorem complete_spec_perm names names' cap text cursor :
  Permutation names names' -> complete_spec names cap text cursor = complete_spec names' cap text cursor.
Proof.
  intros P. unfold complete_spec.
  set (removed := if Nat.ltb cursor (length (chars_of text)) then trailing_spaces (concat (skipn cursor (chars_of text))) else O).
  set (t := firstn (length text - removed) text). set (w := trim_start t).
  destruct w as [|b w'] eqn:Ew; [reflexivity|]. destruct (existsb (fun b0 => b0 =? 32) (b :: w')); [reflexivity|].
  pose proof (filter_perm (fun n => starts_with n (b :: w')) _ _ P) as Pf.
  set (m := filter (fun n => starts_with n (b :: w')) names) in *. set (m' := filter (fun n => starts_with n (b :: w')) names') in *.
  assert (Hl : lcp_all (map (fun n => chars_of (skipn (length (b :: w')) n)) m) = lcp_all (map (fun n => chars_of (skipn (length (b :: w')) n)) m'))
    by (apply lcp_all_perm, Permutation_map, Pf).
  pose proof (Permutation_length Pf) as Hn.
  destruct m as [|x1 m1]; [apply Permutation_nil in Pf; rewrite Pf; reflexivity|].
  destruct m' as [|y1 m1']; [apply Permutation_sym, Permutation_nil in Pf; discriminate|].
  rewrite Hl.
  assert (Hu : (match x1 :: m1 with [_] => true | _ => false end) = (match y1 :: m1' with [_] => true | _ => false end)).
  { destruct m1, m1'; cbn in Hn; try discriminate; reflexivity. }
  rewrite Hu. reflexivity.
Qed.
