From EC Require Import Base Model.Token Spec.QuoteSpec Proofs.ListFacts.

(* ---- functional view of Tokens::new: the bytes it outputs and the final `empty` flag, no buffer *)
Fixpoint tok_out (m : tmode) (e : bool) (bs : list N) : list N * bool :=
  match bs with
  | [] => ([], e)
  | b :: r =>
    match m with
    | MSpace =>
      if b =? 34 then let '(o, e') := tok_out MQuoted false r in ((if e then [] else [0]) ++ o, e')
      else if negb (b =? 32) && negb (b =? 0) then let '(o, e') := tok_out MNormal false r in ((if e then [] else [0]) ++ b :: o, e')
      else tok_out MSpace e r
    | MNormal => if (b =? 32) || (b =? 0) then tok_out MSpace e r else let '(o, e') := tok_out MNormal e r in (b :: o, e')
    | MQuoted => if (b =? 34) || (b =? 0) then tok_out MSpace e r
                 else if b =? 92 then tok_out MUnescape e r
                 else let '(o, e') := tok_out MQuoted e r in (b :: o, e')
    | MUnescape => let '(o, e') := tok_out MQuoted e r in (b :: o, e')
    end
  end.

(* ---- (a) the in-place loop computes tok_out and never writes at or beyond the read position *)
Definition slack (m : tmode) (e : bool) : nat :=
  match m, e with
  | MSpace, true => 0 | MSpace, false => 1 | MNormal, _ => 0 | MQuoted, _ => 1 | MUnescape, _ => 2
  end%nat.

(* state after k bytes: buffer = out ++ Z where out is the output so far and the unread input is the suffix of Z from k - |out| *)
Definition TInv (k : nat) (s : tstate) (unread out : list N) : Prop :=
  exists Z, tbuf s = out ++ Z /\ length out = tins s /\ skipn (k - tins s) Z = unread
    /\ (tins s + slack (tmd s) (tempty s) <= k)%nat /\ (tempty s = true -> out = [] /\ tmd s = MSpace).

Lemma do_write : forall (out Z : list N) x, Z <> [] -> set_nth (out ++ Z) (length out) x = Some ((out ++ [x]) ++ tl Z).
Proof. induction out as [|y out IH]; intros Z x HZ; cbn.
  - destruct Z; [congruence|reflexivity].
  - rewrite IH by exact HZ. reflexivity. Qed.
Lemma skipn_tl {A} : forall n (Z : list A), skipn n (tl Z) = skipn (S n) Z.
Proof. intros n [|z Z]; [destruct n; reflexivity|reflexivity]. Qed.
Lemma skipn_S_tl {A} : forall n (Z : list A), skipn (S n) Z = tl (skipn n Z).
Proof. induction n as [|n IH]; intros [|z Z]; cbn [skipn tl]; try reflexivity. apply IH. Qed.
Lemma skipn_cons_nth {A} : forall n (Z : list A) b r, skipn n Z = b :: r -> nth_error Z n = Some b.
Proof. induction n as [|n IH]; intros [|z Z] b r H; cbn in *; try discriminate; [congruence|eauto]. Qed.
Lemma skipn_cons_len {A} : forall n (Z : list A) b r, skipn n Z = b :: r -> (n < length Z)%nat.
Proof. induction n as [|n IH]; intros [|z Z] b r H; cbn in *; try discriminate; [lia|]. apply IH in H. lia. Qed.
Lemma nth_error_app_r {A} (out Z : list A) k : (length out <= k)%nat -> nth_error (out ++ Z) k = nth_error Z (k - length out).
Proof. intros H. rewrite nth_error_app2 by exact H. reflexivity. Qed.

Ltac tinv := cbn [tbuf tins tmd tempty slack] in *; split; [|split; [|split; [|split]]]; auto; try discriminate; try lia.

Lemma tok_step_inv k s b rest out : TInv k s (b :: rest) out ->
  exists s' o0, tok_step s k = Some s' /\ TInv (S k) s' rest (out ++ o0) /\
    forall o e, tok_out (tmd s') (tempty s') rest = (o, e) -> tok_out (tmd s) (tempty s) (b :: rest) = (o0 ++ o, e).
Proof.
  intros (Z & Hb & Ho & Hu & Hs & He).
  pose proof (skipn_cons_len _ _ _ _ Hu) as HZl.
  assert (HZ : Z <> []) by (destruct Z; cbn in HZl; [lia|congruence]).
  unfold tok_step.
  assert (Hn : nth_error (tbuf s) k = Some b).
  { rewrite Hb, nth_error_app_r by lia. rewrite Ho. eapply skipn_cons_nth, Hu. }
  rewrite Hn.
  (* the three kinds of steps *)
  assert (NOWRITE : forall m' e', (tins s + slack m' e' <= S k)%nat -> (e' = true -> out = [] /\ m' = MSpace) ->
            TInv (S k) {| tbuf := tbuf s; tins := tins s; tmd := m'; tempty := e' |} rest (out ++ [])).
  { intros m' e' H1 H2. exists Z. rewrite app_nil_r. tinv.
    replace (S k - tins s)%nat with (S (k - tins s)) by lia. rewrite skipn_S_tl, Hu. reflexivity. }
  assert (WRITE1 : forall x m', (S (tins s) + slack m' false <= S k)%nat ->
            exists b1, set_nth (tbuf s) (tins s) x = Some b1 /\
            TInv (S k) {| tbuf := b1; tins := S (tins s); tmd := m'; tempty := false |} rest (out ++ [x])).
  { intros x m' H1. rewrite Hb, <- Ho, do_write by exact HZ. eexists. split; [reflexivity|].
    exists (tl Z). tinv. - rewrite app_length; cbn [length]; lia.
    - rewrite Ho. replace (S k - S (tins s))%nat with (k - tins s)%nat by lia. rewrite skipn_tl, skipn_S_tl, Hu. reflexivity. }
  assert (WRITE2 : forall x y m', (1 <= k - tins s)%nat -> (S (S (tins s)) + slack m' false <= S k)%nat ->
            exists b1 b2, set_nth (tbuf s) (tins s) x = Some b1 /\ set_nth b1 (S (tins s)) y = Some b2 /\
            TInv (S k) {| tbuf := b2; tins := S (S (tins s)); tmd := m'; tempty := false |} rest (out ++ [x; y])).
  { intros x y m' H0 H1. rewrite Hb, <- Ho, do_write by exact HZ.
    assert (HZ2 : tl Z <> []). { destruct Z as [|z [|z2 Z2]]; cbn in *; try lia; congruence. }
    do 2 eexists. split; [reflexivity|].
    replace (S (length out)) with (length (out ++ [x])) by (rewrite app_length; cbn; lia).
    rewrite do_write by exact HZ2. split; [reflexivity|].
    exists (tl (tl Z)). tinv.
    - rewrite <- !app_assoc. reflexivity.
    - rewrite !app_length; cbn [length]; lia.
    - rewrite app_length. cbn [length]. replace (S k - S (length out + 1))%nat with (k - tins s - 1)%nat by lia.
      rewrite !skipn_tl. replace (S (S (k - tins s - 1))) with (S (k - tins s)) by lia. rewrite skipn_S_tl, Hu. reflexivity.
    - rewrite app_length. cbn [length]. lia. }
  destruct s as [buf ins md emp]. cbn [tbuf tins tmd tempty] in *.
  destruct md; cbn [slack] in Hs.
  - (* MSpace *)
    destruct (b =? 34) eqn:Eq.
    + destruct emp.
      * destruct (He eq_refl) as [-> _]. cbn in Ho. subst ins.
        exists {| tbuf := buf; tins := 0; tmd := MQuoted; tempty := false |}, []. split; [reflexivity|]. split.
        { apply NOWRITE; [cbn; lia|discriminate]. }
        intros o e H. cbn [tok_out tmd tempty] in *. rewrite Eq, H. reflexivity.
      * destruct (WRITE1 0 MQuoted) as (b1 & E1 & I1); [cbn; lia|]. rewrite E1. cbn [obind].
        eexists _, [0]. split; [reflexivity|]. split; [exact I1|].
        intros o e H. cbn [tok_out tmd tempty] in *. rewrite Eq, H. reflexivity.
    + destruct (negb (b =? 32) && negb (b =? 0)) eqn:Ev.
      * destruct emp.
        -- destruct (WRITE1 b MNormal) as (b1 & E1 & I1); [cbn; lia|]. rewrite E1. cbn [obind].
           eexists _, [b]. split; [reflexivity|]. split; [exact I1|].
           intros o e H. cbn [tok_out tmd tempty] in *. rewrite Eq, Ev, H. reflexivity.
        -- destruct (WRITE2 0 b MNormal) as (b1 & b2 & E1 & E2 & I2); [lia|cbn; lia|]. rewrite E1. cbn [obind]. rewrite E2. cbn [obind].
           eexists _, [0; b]. split; [reflexivity|]. split; [exact I2|].
           intros o e H. cbn [tok_out tmd tempty] in *. rewrite Eq, Ev, H. reflexivity.
      * eexists _, []. split; [reflexivity|]. split.
        { destruct buf; apply (NOWRITE MSpace emp); destruct emp; cbn; try lia; auto; discriminate. }
        intros o e H. cbn [tok_out tmd tempty] in *. rewrite Eq, Ev, H. reflexivity.
  - (* MNormal *)
    destruct emp; [destruct (He eq_refl) as [_ X]; discriminate|].
    destruct ((b =? 32) || (b =? 0)) eqn:Ev.
    + eexists _, []. split; [reflexivity|]. split; [apply (NOWRITE MSpace false); [cbn; lia|discriminate]|].
      intros o e H. cbn [tok_out tmd tempty] in *. rewrite Ev, H. reflexivity.
    + destruct (WRITE1 b MNormal) as (b1 & E1 & I1); [cbn; lia|]. rewrite E1. cbn [obind].
      eexists _, [b]. split; [reflexivity|]. split; [exact I1|].
      intros o e H. cbn [tok_out tmd tempty] in *. rewrite Ev, H. reflexivity.
  - (* MQuoted *)
    destruct emp; [destruct (He eq_refl) as [_ X]; discriminate|].
    destruct ((b =? 34) || (b =? 0)) eqn:Ev.
    + eexists _, []. split; [reflexivity|]. split; [apply (NOWRITE MSpace false); [cbn; lia|discriminate]|].
      intros o e H. cbn [tok_out tmd tempty] in *. rewrite Ev, H. reflexivity.
    + destruct (b =? 92) eqn:Es.
      * eexists _, []. split; [reflexivity|]. split; [apply (NOWRITE MUnescape false); [cbn; lia|discriminate]|].
        intros o e H. cbn [tok_out tmd tempty] in *. rewrite Ev, Es, H. reflexivity.
      * destruct (WRITE1 b MQuoted) as (b1 & E1 & I1); [cbn; lia|]. rewrite E1. cbn [obind].
        eexists _, [b]. split; [reflexivity|]. split; [exact I1|].
        intros o e H. cbn [tok_out tmd tempty] in *. rewrite Ev, Es, H. reflexivity.
  - (* MUnescape *)
    destruct emp; [destruct (He eq_refl) as [_ X]; discriminate|].
    destruct (WRITE1 b MQuoted) as (b1 & E1 & I1); [cbn; lia|]. rewrite E1. cbn [obind].
    eexists _, [b]. split; [reflexivity|]. split; [exact I1|].
    intros o e H. cbn [tok_out tmd tempty] in *. rewrite H. reflexivity.
Qed.

Lemma tok_loop_inv : forall unread k s out, TInv k s unread out ->
  exists s', tok_loop s k (length unread) = Some s' /\
    TInv (k + length unread) s' [] (out ++ fst (tok_out (tmd s) (tempty s) unread)) /\
    tempty s' = snd (tok_out (tmd s) (tempty s) unread).
Proof.
  induction unread as [|b rest IH]; intros k s out H.
  - exists s. cbn [length tok_loop tok_out fst snd]. rewrite Nat.add_0_r, app_nil_r. auto.
  - destruct (tok_step_inv k s b rest out H) as (s1 & o0 & E1 & I1 & Hout).
    cbn [length tok_loop]. rewrite E1. cbn [obind].
    destruct (IH (S k) s1 (out ++ o0) I1) as (s2 & E2 & I2 & He2). exists s2. split; [exact E2|].
    destruct (tok_out (tmd s1) (tempty s1) rest) as [o e] eqn:Eo. rewrite (Hout o e eq_refl). cbn [fst snd] in *.
    split; [|exact He2]. replace (k + S (length rest))%nat with (S k + length rest)%nat by lia. rewrite app_assoc. exact I2.
Qed.

(* Tokens::new never panics (every write index is in range and below the read position) and computes tok_out *)
Theorem tokens_new_spec input : exists buf', tokens_new input =
  Some (buf', fst (tok_out MSpace true input), snd (tok_out MSpace true input)).
Proof.
  unfold tokens_new.
  assert (I0 : TInv 0 {| tbuf := input; tins := 0; tmd := MSpace; tempty := true |} input []).
  { exists input. cbn. repeat split; auto. }
  destruct (tok_loop_inv input 0 _ [] I0) as (s' & E & (Z & Hb & Ho & _) & He). cbn [tmd tempty app] in *.
  rewrite E. cbn [obind]. rewrite Hb. rewrite app_length.
  destruct (Nat.ltb_spec (length (fst (tok_out MSpace true input)) + length Z) (tins s')); [lia|].
  rewrite <- Ho, firstn_app, Nat.sub_diag, firstn_all. cbn [firstn]. rewrite app_nil_r, He. eexists. reflexivity.
Qed.

(* ---- (b) splitting the output at NUL gives the tokens of the quoting rules *)
Definition nul_free (bs : list N) : Prop := Forall (fun b => b <> 0) bs.
Definition qm (m : tmode) : qmode := match m with MSpace => QSpace | MNormal => QNormal | MQuoted => QQuoted | MUnescape => QUnescape end.

Lemma split0_cons_nz c b r : b <> 0 -> split0 c (b :: r) = split0 (b :: c) r.
Proof. intros H. cbn. destruct (b =? 0) eqn:E; [apply N.eqb_eq in E; congruence|reflexivity]. Qed.

(* inside a token (some token has started): cur holds the current token reversed *)
Lemma tok_out_tokens : forall bs m cur, nul_free bs -> m <> MSpace ->
  split0 cur (fst (tok_out m false bs)) = tokens_go (qm m) cur bs /\ snd (tok_out m false bs) = false
with tok_out_tokens_space : forall bs cur, nul_free bs ->
  split0 cur (fst (tok_out MSpace false bs)) = rev cur :: tokens_go QSpace [] bs /\ snd (tok_out MSpace false bs) = false.
Proof.
  - induction bs as [|b r IH]; intros m cur Hn Hm.
    + destruct m; try congruence; cbn; auto.
    + inversion Hn as [|? ? Hb Hr]; subst.
      assert (E0 : (b =? 0) = false) by (apply N.eqb_neq; exact Hb).
      destruct m; try congruence; cbn [tok_out tokens_go qm].
      * rewrite E0, orb_false_r. destruct (b =? 32) eqn:E.
        -- apply tok_out_tokens_space, Hr.
        -- destruct (IH MNormal (b :: cur) Hr) as [H1 H2]; [discriminate|].
           destruct (tok_out MNormal false r) as [o e]. cbn [fst snd] in *. rewrite split0_cons_nz by exact Hb. auto.
      * rewrite E0, orb_false_r. destruct (b =? 34) eqn:E.
        -- apply tok_out_tokens_space, Hr.
        -- destruct (b =? 92) eqn:E2.
           ++ apply (IH MUnescape cur Hr). discriminate.
           ++ destruct (IH MQuoted (b :: cur) Hr) as [H1 H2]; [discriminate|].
              destruct (tok_out MQuoted false r) as [o e]. cbn [fst snd] in *. rewrite split0_cons_nz by exact Hb. auto.
      * destruct (IH MQuoted (b :: cur) Hr) as [H1 H2]; [discriminate|].
        destruct (tok_out MQuoted false r) as [o e]. cbn [fst snd] in *. rewrite split0_cons_nz by exact Hb. auto.
  - induction bs as [|b r IH]; intros cur Hn.
    + cbn. auto.
    + inversion Hn as [|? ? Hb Hr]; subst.
      assert (E0 : (b =? 0) = false) by (apply N.eqb_neq; exact Hb).
      cbn [tok_out tokens_go]. destruct (b =? 34) eqn:E.
      * destruct (tok_out_tokens r MQuoted [] Hr) as [H1 H2]; [discriminate|].
        destruct (tok_out MQuoted false r) as [o e]. cbn [fst snd app] in *. cbn [split0]. rewrite N.eqb_refl. rewrite H1. auto.
      * rewrite E0. destruct (b =? 32) eqn:E2; cbn [negb andb orb].
        -- apply IH, Hr.
        -- destruct (tok_out_tokens r MNormal [b] Hr) as [H1 H2]; [discriminate|].
           destruct (tok_out MNormal false r) as [o e]. cbn [fst snd app] in *. cbn [split0]. rewrite N.eqb_refl, E0.
           rewrite H1. auto.
Qed.

Lemma tok_out_tokens_start : forall bs, nul_free bs ->
  tokens_iter (fst (tok_out MSpace true bs)) (snd (tok_out MSpace true bs)) = tokens_go QSpace [] bs.
Proof.
  induction bs as [|b r IH]; intros Hn; [reflexivity|].
  inversion Hn as [|? ? Hb Hr]; subst.
  assert (E0 : (b =? 0) = false) by (apply N.eqb_neq; exact Hb).
  cbn [tok_out tokens_go]. destruct (b =? 34) eqn:E.
  - destruct (tok_out_tokens r MQuoted [] Hr) as [H1 H2]; [discriminate|].
    destruct (tok_out MQuoted false r) as [o e]. cbn [fst snd app] in *. subst e. unfold tokens_iter. exact H1.
  - rewrite E0. destruct (b =? 32) eqn:E2; cbn [negb andb orb].
    + apply IH, Hr.
    + destruct (tok_out_tokens r MNormal [b] Hr) as [H1 H2]; [discriminate|].
      destruct (tok_out MNormal false r) as [o e]. cbn [fst snd app] in *. subst e. unfold tokens_iter.
      rewrite split0_cons_nz by exact Hb. exact H1.
Qed.

(* Tokens::new followed by iter() = the tokens of the quoting rules, for every NUL-free line *)
Theorem tokens_inplace_fun input : nul_free input ->
  exists buf' raw e, tokens_new input = Some (buf', raw, e) /\ tokens_iter raw e = tokens_fun input.
Proof.
  intros Hn. destruct (tokens_new_spec input) as [buf' E]. do 3 eexists. split; [exact E|].
  apply tok_out_tokens_start, Hn.
Qed.

(* ---- (c) round trip: any list of NUL-free strings survives quoting *)
Lemma go_quoted_escape : forall s cur r, nul_free s ->
  tokens_go QQuoted cur (escape s ++ 34 :: r) = (rev cur ++ s) :: tokens_go QSpace [] r.
Proof.
  induction s as [|b s IH]; intros cur r Hn.
  - cbn. rewrite app_nil_r. reflexivity.
  - inversion Hn as [|? ? Hb Hs]; subst.
    assert (E0 : (b =? 0) = false) by (apply N.eqb_neq; exact Hb).
    unfold escape. cbn [flat_map]. fold (escape s).
    destruct (b =? 34) eqn:E1; cbn [orb].
    + cbn [app tokens_go]. change (92 =? 34) with false. change (92 =? 0) with false. change (92 =? 92) with true. cbn [orb].
      rewrite IH by exact Hs. cbn [rev]. rewrite <- app_assoc. reflexivity.
    + destruct (b =? 92) eqn:E2.
      * cbn [app tokens_go]. change (92 =? 34) with false. change (92 =? 0) with false. change (92 =? 92) with true. cbn [orb].
        rewrite IH by exact Hs. cbn [rev]. rewrite <- app_assoc. reflexivity.
      * cbn [app tokens_go]. rewrite E1, E0, E2. cbn [orb]. rewrite IH by exact Hs. cbn [rev]. rewrite <- app_assoc. reflexivity.
Qed.

Theorem quote_roundtrip : forall l, Forall nul_free l -> tokens_fun (render_quoted l) = l.
Proof.
  unfold tokens_fun. induction l as [|s l IH]; intros H; [reflexivity|].
  inversion H as [|? ? Hs Hl]; subst. destruct l as [|s2 l'].
  - cbn [render_quoted]. unfold quote. cbn [tokens_go app]. change (34 =? 34) with true. cbn iota.
    rewrite go_quoted_escape by exact Hs. reflexivity.
  - cbn [render_quoted]. unfold quote at 1. cbn [app]. rewrite <- app_assoc. cbn [tokens_go app]. change (34 =? 34) with true. cbn iota.
    rewrite go_quoted_escape by exact Hs. cbn [rev app]. f_equal.
    cbn [tokens_go]. change (32 =? 34) with false. change (32 =? 32) with true. cbn [orb]. cbn iota. apply IH, Hl.
Qed.

(* a quoted item yields its content whatever follows, also directly adjacent *)
Lemma quoted_then : forall s r, nul_free s -> tokens_fun (quote s ++ r) = s :: tokens_fun r.
Proof.
  intros s r H. unfold tokens_fun, quote. cbn [app]. rewrite <- app_assoc. cbn [tokens_go app]. change (34 =? 34) with true. cbn iota.
  rewrite go_quoted_escape by exact H. reflexivity.
Qed.

(* a bare word (no blank, no NUL, not starting with a quote) followed by a blank yields itself *)
Definition bare (w : list N) : Prop := w <> [] /\ hd 0 w <> 34 /\ Forall (fun b => b <> 32 /\ b <> 0) w.
Lemma go_normal_word : forall w cur r, Forall (fun b => b <> 32 /\ b <> 0) w ->
  tokens_go QNormal cur (w ++ 32 :: r) = (rev cur ++ w) :: tokens_go QSpace [] r.
Proof.
  induction w as [|b w IH]; intros cur r H.
  - cbn. rewrite app_nil_r. reflexivity.
  - inversion H as [|? ? [H1 H2] Hw]; subst. cbn [app tokens_go].
    assert (E : (b =? 32) || (b =? 0) = false) by lia. rewrite E. rewrite IH by exact Hw. cbn [rev]. rewrite <- app_assoc. reflexivity.
Qed.
Lemma bare_then : forall w r, bare w -> tokens_fun (w ++ 32 :: r) = w :: tokens_fun r.
Proof.
  intros w r (Hne & Hq & Hw). destruct w as [|b w]; [congruence|]. inversion Hw as [|? ? [H1 H2] Hw']; subst.
  unfold tokens_fun. cbn [app tokens_go hd] in *.
  assert (E1 : (b =? 34) = false) by lia. assert (E2 : (b =? 32) || (b =? 0) = false) by lia. rewrite E1, E2.
  rewrite go_normal_word by exact Hw'. reflexivity.
Qed.
Lemma blank_skipped : forall r, tokens_fun (32 :: r) = tokens_fun r.
Proof. reflexivity. Qed.
