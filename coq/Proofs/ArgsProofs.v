From EC Require Import Base Generated.Codes Model.Utils Model.Args Spec.Utf8Spec Spec.ArgSpec Proofs.ListFacts Proofs.Utf8Proofs Proofs.UtilsProofs.

Definition valid_tok (t : list N) : Prop := exists cs, Forall wf_char cs /\ t = concat cs.

(* splitting valid text into chars by lead byte recovers the chars *)
Lemma split_chars_concat : forall cs fuel, Forall wf_char cs -> (length (concat cs) <= fuel)%nat -> split_chars fuel (concat cs) = cs.
Proof.
  induction cs as [|c cs IH]; intros fuel H Hf.
  - destruct fuel; reflexivity.
  - inversion H as [|? ? Hc Hcs]; subst.
    pose proof (wf_char_nonempty c Hc) as Hne. pose proof (wf_len_lead c Hc) as Hl.
    cbn [concat] in *. rewrite app_length in Hf.
    destruct fuel as [|f]; [destruct c; [congruence|cbn in Hf; lia]|].
    cbn [split_chars]. destruct c as [|x c']; [congruence|]. cbn [app hd] in *.
    rewrite <- Hl. change (x :: c' ++ concat cs) with ((x :: c') ++ concat cs).
    rewrite firstn_app, Nat.sub_diag, firstn_all, skipn_app, Nat.sub_diag, skipn_all. cbn [firstn skipn app]. rewrite app_nil_r.
    f_equal. apply IH; [exact Hcs|cbn in Hf; lia].
Qed.
Lemma chars_of_concat cs : Forall wf_char cs -> chars_of (concat cs) = cs.
Proof. intros H. apply split_chars_concat; [exact H|lia]. Qed.

Lemma pop_front_concat c cs : wf_char c -> Forall wf_char cs ->
  char_pop_front (concat (c :: cs)) = Some (Some (decode_char c, concat cs)).
Proof.
  intros Hc Hcs. cbn [concat]. apply pop_front_wf; [exact Hc|].
  destruct cs as [|d cs']; [cbn; auto|]. inversion Hcs; subst. cbn [concat]. apply wf_not_starts_cont. assumption.
Qed.

Definition mu (lcs : list (list N)) (ts : list (list N)) : nat := (length (concat lcs) + length (concat ts) + length ts)%nat.

(* first byte of a valid token that starts with a dash: the dash is a char of its own *)
Lemma valid_dash_tail r : valid_tok (45 :: r) -> valid_tok r.
Proof.
  intros (cs & Hw & E). destruct cs as [|c cs]; [discriminate|]. inversion Hw as [|? ? Hc Hcs]; subst.
  destruct c as [|x [|y c']]; cbn [wf_char] in Hc; try contradiction.
  - cbn in E. injection E as <- ->. exists cs. auto.
  - cbn in E. injection E as <- _. exfalso. destruct c' as [|z [|w [|v t]]]; cbn in Hc; unfold cont in *; try contradiction; lia.
Qed.

Lemma collect_spec : forall fuel vo lcs ts, Forall wf_char lcs -> Forall valid_tok ts -> (mu lcs ts < fuel)%nat ->
  ai_collect fuel {| vonly := vo; leftover := concat lcs; toks := ts |}
  = Some (map (fun c => ShortOption (decode_char c)) lcs ++ classify_all vo ts).
Proof.
  induction fuel as [|f IH]; intros vo lcs ts Hl Ht Hm; [lia|].
  cbn [ai_collect]. unfold ai_next. cbn [leftover toks vonly].
  destruct lcs as [|c lcs].
  - (* no leftover: next token *)
    cbn [concat map app]. change (char_pop_front []) with (Some (@None (N * list N))). cbn [obind].
    destruct ts as [|raw ts]; [reflexivity|].
    inversion Ht as [|? ? Hraw Hts]; subst. cbn [classify_all]. unfold classify_tok.
    assert (STEP : forall vo' a, ai_collect f {| vonly := vo'; leftover := []; toks := ts |} = Some (classify_all vo' ts) ->
              (do l <- ai_collect f {| vonly := vo'; leftover := []; toks := ts |}; Some (a :: l)) = Some ([a] ++ classify_all vo' ts)).
    { intros vo' a H. rewrite H. reflexivity. }
    assert (REC : forall vo', ai_collect f {| vonly := vo'; leftover := []; toks := ts |} = Some (classify_all vo' ts)).
    { intros vo'. change (@nil N) with (concat (@nil (list N))). rewrite IH.
      - reflexivity.
      - apply Forall_nil.
      - exact Hts.
      - unfold mu in *. cbn [concat length] in *. rewrite app_length in Hm. lia. }
    destruct vo; [cbn [obind]; apply STEP, REC|].
    destruct raw as [|b0 [|b1 rest]]; try (cbn [obind]; apply STEP, REC).
    destruct (b0 =? 45) eqn:E0; [|cbn [obind]; apply STEP, REC].
    destruct (b1 =? 45) eqn:E1.
    + destruct rest; cbn [obind]; apply STEP, REC.
    + apply N.eqb_eq in E0. subst b0.
      assert (Hv : valid_tok (b1 :: rest)) by (apply valid_dash_tail, Hraw).
      destruct Hv as (cs & Hcs & Ecs). destruct cs as [|c cs]; [discriminate|]. inversion Hcs as [|? ? Hc Hcs']; subst.
      assert (Hlen : length (b1 :: rest) = (length c + length (concat cs))%nat) by (rewrite Ecs; cbn [concat]; apply app_length).
      assert (Hmu : (mu cs ts < f)%nat).
      { unfold mu in *. cbn [concat] in Hm. rewrite app_length in Hm. cbn [length] in Hm, Hlen. lia. }
      rewrite Ecs, pop_front_concat by assumption. cbn [obind].
      rewrite IH; [|exact Hcs'|exact Hts|exact Hmu].
      rewrite chars_of_concat by (constructor; assumption).
      cbn [map app]. reflexivity.
  - (* pop one leftover char *)
    inversion Hl as [|? ? Hc Hlcs]; subst. rewrite pop_front_concat by assumption. cbn [obind map app].
    rewrite IH; [reflexivity|exact Hlcs|exact Ht|unfold mu in *; cbn [concat] in *; rewrite app_length in *; pose proof (wf_char_len c Hc); lia].
Qed.

Theorem args_classified ts : Forall valid_tok ts -> args_of ts = Some (classify_all false ts).
Proof.
  intros H. unfold args_of, ai_new. change (@nil N) with (concat (@nil (list N))).
  rewrite collect_spec; [reflexivity|constructor|exact H|unfold mu, args_fuel; cbn; lia].
Qed.

(* ---- nothing lost or invented: the items of one token, re-joined, give the token back *)
Definition render_items (l : list arg) : list N :=
  match l with
  | [DoubleDash] => [45; 45]
  | [LongOption n] => 45 :: 45 :: n
  | [Value v] => v
  | _ => 45 :: concat (map (fun a => match a with ShortOption c => encode_utf8 c | _ => [] end) l)
  end.

Theorem rejoin_tok vo t : valid_tok t -> render_items (fst (classify_tok vo t)) = t.
Proof.
  intros Hv. unfold classify_tok. destruct vo; [reflexivity|].
  destruct t as [|b0 [|b1 r]]; try reflexivity.
  destruct (b0 =? 45) eqn:E0; [|reflexivity]. apply N.eqb_eq in E0. subst.
  destruct (b1 =? 45) eqn:E1.
  - apply N.eqb_eq in E1. subst. destruct r; reflexivity.
  - destruct (valid_dash_tail _ Hv) as (cs & Hcs & Ecs). rewrite Ecs, chars_of_concat by exact Hcs. cbn [fst].
    destruct cs as [|c cs]; [discriminate|].
    assert (R : forall l, Forall wf_char l -> concat (map (fun a => match a with ShortOption c0 => encode_utf8 c0 | _ => [] end)
                   (map (fun c0 => ShortOption (decode_char c0)) l)) = concat l).
    { induction l as [|x l IHl]; intros Hl; [reflexivity|]. inversion Hl; subst. cbn [map concat]. rewrite encode_decode, IHl by assumption. reflexivity. }
    cbn [map render_items]. destruct cs as [|c2 cs'].
    + cbn [map concat]. inversion Hcs; subst. rewrite encode_decode by assumption. reflexivity.
    + f_equal. apply (R (c :: c2 :: cs') Hcs).
Qed.

(* values after `--` *)
Lemma classify_all_vo ts : classify_all true ts = map Value ts.
Proof. induction ts as [|t r IH]; [reflexivity|]. cbn. rewrite IH. reflexivity. Qed.
