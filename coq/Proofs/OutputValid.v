(* C02, echo clause: every slice the Cli hands to the sink is well-formed UTF-8 - for every sink behaviour, every byte stream, every API
   call sequence - provided the texts that come from outside (prompts, command names, handler / help / error texts) are. *)
From Coq Require Import ZArith.
From EC Require Import Base Generated.Codes Model.Utf8 Model.Utils Model.Input Model.Editor Model.Token Model.Args Model.History Model.Sink Model.Writer Model.Cli
  Spec.Utf8Spec Spec.QuoteSpec Spec.ArgSpec Spec.IdealEditor Spec.HistSpec
  Proofs.ListFacts Proofs.Utf8Proofs Proofs.UtilsProofs Proofs.InputProofs Proofs.EditorProofs Proofs.TokenProofs Proofs.TokenValid Proofs.ArgsProofs
  Proofs.HistoryProofs Proofs.CompletionProofs Proofs.FlushProofs Proofs.ClassProofs Proofs.SafetyProofs.
Ltac Zify.zify_post_hook ::= Z.div_mod_to_equations.

Definition wvalid (o : sinkop) : Prop := match o with SW b => valid_tok b | _ => True end.
Definition Vout (s s' : cli) : Prop := exists O, out (sk s') = out (sk s) ++ O /\ Forall wvalid O.
Lemma Vout_refl s : Vout s s. Proof. exists []. rewrite app_nil_r. auto. Qed.
Lemma Vout_trans a b c : Vout a b -> Vout b c -> Vout a c.
Proof. intros (O1 & E1 & V1) (O2 & E2 & V2). exists (O1 ++ O2). rewrite E2, E1, app_assoc. split; [reflexivity|apply Forall_app_intro; assumption]. Qed.
Lemma Vout_same_sk s s' : sk s' = sk s -> Vout s s'. Proof. intros E. exists []. rewrite E, app_nil_r. auto. Qed.

(* ---------- valid UTF-8: closure facts *)
Lemma valid_nil : valid_tok []. Proof. exists []. split; [constructor|reflexivity]. Qed.
Lemma valid_app a b : valid_tok a -> valid_tok b -> valid_tok (a ++ b).
Proof. intros (ca & Ha & ->) (cb & Hb & ->). exists (ca ++ cb). split; [apply Forall_app_intro; assumption|rewrite concat_app; reflexivity]. Qed.
Lemma valid_ascii bs : Forall (fun b => b < 128) bs -> valid_tok bs.
Proof.
  intros H. exists (map (fun b => [b]) bs). split.
  - induction H as [|b bs Hb _ IH]; [constructor|]. cbn [map]. constructor; [exact Hb|exact IH].
  - clear H. induction bs as [|b bs IH]; [reflexivity|]. cbn [map concat app]. rewrite <- IH. reflexivity.
Qed.
Lemma valid_wf c : wf_char c -> valid_tok c.
Proof. intros H. exists [c]. split; [constructor; [exact H|constructor]|cbn; rewrite app_nil_r; reflexivity]. Qed.
Lemma valid_chars cs : Forall wf_char cs -> valid_tok (concat cs).
Proof. intros H. exists cs. auto. Qed.

(* splitting valid text at LF gives valid lines and a valid rest *)
Lemma split_lf_high : forall bs cur r, Forall high bs -> split_lf cur (bs ++ r) = split_lf (rev bs ++ cur) r.
Proof.
  induction bs as [|b bs IH]; intros cur r H; [reflexivity|]. inversion H as [|? ? Hb Hbs]; subst. cbn [app split_lf].
  assert (E : (b =? LINE_FEED) = false) by (unfold high, LINE_FEED in *; lia). rewrite E, IH by exact Hbs. cbn [rev]. rewrite <- app_assoc. reflexivity.
Qed.
Lemma split_lf_valid : forall cs cur, Forall wf_char cs -> Forall wf_char cur ->
  Forall valid_tok (fst (split_lf (rev (concat cur)) (concat cs))) /\ valid_tok (snd (split_lf (rev (concat cur)) (concat cs))).
Proof.
  induction cs as [|c cs IH]; intros cur Hcs Hcur.
  - cbn [concat split_lf fst snd]. rewrite rev_involutive. split; [constructor|apply valid_chars, Hcur].
  - inversion Hcs as [|? ? Hc Hcs']; subst. cbn [concat].
    destruct (Nat.lt_ge_cases (length c) 2) as [Hs|Hm].
    + destruct (wf_single c Hc Hs) as (b & -> & Hb). cbn [app split_lf].
      destruct (b =? LINE_FEED) eqn:E.
      * specialize (IH [] Hcs' (Forall_nil _)). cbn [concat rev] in IH. destruct (split_lf [] (concat cs)) as [ls rest]. cbn [fst snd] in *.
        rewrite rev_involutive. split; [constructor; [apply valid_chars, Hcur|tauto]|tauto].
      * assert (Hadd : b :: rev (concat cur) = rev (concat (cur ++ [[b]]))) by (rewrite concat_app; cbn [concat app]; rewrite rev_app_distr; reflexivity).
        rewrite Hadd. apply IH; [exact Hcs'|apply Forall_app_intro; [exact Hcur|constructor; [exact Hc|constructor]]].
    + rewrite split_lf_high by (apply wf_multibyte_high; assumption).
      assert (Hadd : rev c ++ rev (concat cur) = rev (concat (cur ++ [c]))) by (rewrite concat_app; cbn [concat]; rewrite app_nil_r, rev_app_distr; reflexivity).
      rewrite Hadd. apply IH; [exact Hcs'|apply Forall_app_intro; [exact Hcur|constructor; [exact Hc|constructor]]].
Qed.
Lemma split_lf_valid0 t : valid_tok t -> Forall valid_tok (fst (split_lf [] t)) /\ valid_tok (snd (split_lf [] t)).
Proof. intros (cs & Hw & ->). exact (split_lf_valid cs [] Hw (Forall_nil _)). Qed.

(* ---------- the environment: texts that come from outside are valid UTF-8 *)
Definition hop_valid (h : hop) : Prop := match h with HWrite t => valid_tok t | HWriteln t => valid_tok t | HSetPrompt p => valid_tok p end.
Definition perr_valid (e : perr) : Prop :=
  match e with
  | EMissing n => valid_tok n
  | EParseValue v ex => valid_tok v /\ valid_tok ex
  | EUnexpArg v => valid_tok v
  | EUnexpLong n => valid_tok n
  | EUnexpShort c => valid_tok (encode_utf8 c)
  | EUnknown => True
  end.
Record env_valid (cs : cmdset) (handler : nat -> list N -> list (list N) -> list hop) : Prop := {
  ev_handler : forall n name args, Forall hop_valid (handler n name args);
  ev_list : Forall hop_valid (cs_list_help cs);
  ev_help : forall n a hs, cs_cmd_help cs n a = Some hs -> Forall hop_valid hs;
  ev_parse : forall n a e, Forall valid_tok (n :: a) -> cs_parse cs n a = Some e -> perr_valid e;
  ev_fail : forall k n a e, Forall valid_tok (n :: a) -> cs_fail cs k n a = Some e -> perr_valid e }.

(* ---------- a small Hoare logic: under invariant P every write is valid and P is kept *)
Definition PA (s : cli) : Prop := valid_tok (prompt s) /\ match newp s with Some p => valid_tok p | None => True end.
Definition VS (P : cli -> Prop) {A} (f : M cli A) : Prop := forall s r s', P s -> f s = (r, s') -> P s' /\ Vout s s'.

Lemma VS_bind (P : cli -> Prop) {A B} (m : M cli A) (f : A -> M cli B) : VS P m -> (forall a, VS P (f a)) -> VS P (bind m f).
Proof.
  intros Hm Hf s r s' HP E. unfold bind in E. destruct (m s) as [r1 s1] eqn:Em. destruct (Hm _ _ _ HP Em) as [P1 V1].
  destruct r1 as [a| |]; [|injection E as <- <-; auto|injection E as <- <-; auto].
  destruct (Hf a _ _ _ P1 E) as [P2 V2]. split; [exact P2|eapply Vout_trans; eauto].
Qed.
Lemma VS_bind_get (P : cli -> Prop) {A} (k : cli -> M cli A) : (forall s0, P s0 -> VS P (k s0)) -> VS P (bind get k).
Proof. intros H s r s' HP E. change (bind get k s) with (k s s) in E. exact (H s HP s r s' HP E). Qed.
Lemma VS_ret (P : cli -> Prop) {A} (a : A) : VS P (ret a). Proof. intros s r s' HP E. injection E as <- <-. split; [exact HP|apply Vout_refl]. Qed.
Lemma VS_get (P : cli -> Prop) : VS P get. Proof. intros s r s' HP E. injection E as <- <-. split; [exact HP|apply Vout_refl]. Qed.
Lemma VS_lift_opt (P : cli -> Prop) {A} (o : option A) : VS P (lift_opt o). Proof. destruct o; intros s r s' HP E; injection E as <- <-; (split; [exact HP|apply Vout_refl]). Qed.
Lemma VS_reraise (P : cli -> Prop) {A} (x : res A) : VS P (reraise x). Proof. intros s r s' HP E. injection E as <- <-. split; [exact HP|apply Vout_refl]. Qed.
Lemma VS_modify (P : cli -> Prop) (g : cli -> cli) : (forall s, P s -> P (g s)) -> (forall s, sk (g s) = sk s) -> VS P (modify g).
Proof. intros H1 H2 s r s' HP E. injection E as <- <-. split; [apply H1, HP|apply Vout_same_sk, H2]. Qed.
Lemma VS_catch (P : cli -> Prop) {A} (m : M cli A) : VS P m -> VS P (catch m).
Proof. intros H s r s' HP E. unfold catch in E. destruct (m s) as [r1 s1] eqn:Em. injection E as <- <-. eapply H; eauto. Qed.

(* invariants that only read fields the sink operations do not touch *)
Definition sink_blind (P : cli -> Prop) : Prop := forall s k, P s -> P (set_sk k s).
Section Ops.
  Variable okf : nat -> bool.
  Variable P : cli -> Prop.
  Hypothesis HP : sink_blind P.

  Lemma VS_wr bs : valid_tok bs -> VS P (wr okf bs).
  Proof.
    intros Hv s r s' Hs E. unfold wr in E. destruct (sk_write okf (sk s) bs) as [r1 k] eqn:Ek. injection E as <- <-. split; [apply HP, Hs|].
    unfold sk_write in Ek. destruct bs as [|b bs]; [injection Ek as <- <-; apply Vout_same_sk; destruct s; reflexivity|].
    destruct (okf (calls (sk s))); injection Ek as <- <-; cbn [sk set_sk out]; eexists; (split; [reflexivity|]); repeat constructor. exact Hv.
  Qed.
  Lemma VS_fl : VS P (fl okf).
  Proof.
    intros s r s' Hs E. unfold fl in E. destruct (sk_flush okf (sk s)) as [r1 k] eqn:Ek. injection E as <- <-. split; [apply HP, Hs|].
    unfold sk_flush in Ek. destruct (okf (calls (sk s))); injection Ek as <- <-; cbn [sk set_sk out]; eexists; (split; [reflexivity|]); repeat constructor.
  Qed.
  Lemma VS_flush_bytes bs : valid_tok bs -> VS P (flush_bytes okf bs).
  Proof. intros H. apply VS_bind; [apply VS_wr, H|intros; apply VS_fl]. Qed.
  Lemma VS_mrepeat n (m : M cli unit) : VS P m -> VS P (mrepeat n m).
  Proof. intros H. induction n; cbn [mrepeat]; [apply VS_ret|]. apply VS_bind; [exact H|intros; assumption]. Qed.
End Ops.

(* ---------- level A: everything that only writes (writer, handler output, errors, help, redraw); generic in the invariant *)
Record inv_ok (P : cli -> Prop) : Prop := {
  io_sk : sink_blind P;
  io_wst : forall s w, P s -> P (set_wst w s);
  io_newp_some : forall s p, P s -> valid_tok p -> P (set_newp (Some p) s);
  io_newp_none : forall s, P s -> P (set_newp None s);
  io_prompt : forall s, P s -> valid_tok (prompt s);
  io_newp_valid : forall s p, P s -> newp s = Some p -> valid_tok p;
  io_set_prompt : forall s p, P s -> valid_tok p -> P (set_prompt_f p s);
  io_log : forall s c, P s -> P (log_call c s) }.

Lemma ascii_valid_consts : valid_tok [CARRIAGE_RETURN] /\ valid_tok CLEAR_LINE /\ valid_tok CRLF /\ valid_tok CURSOR_BACKWARD /\ valid_tok CURSOR_FORWARD
  /\ valid_tok DELETE_CHAR /\ valid_tok INSERT_CHAR /\ valid_tok ERR_PREFIX /\ valid_tok ERR_MISSING /\ valid_tok ERR_PARSE_1 /\ valid_tok ERR_PARSE_2
  /\ valid_tok ERR_UNEXP_ARG /\ valid_tok ERR_UNEXP_LONG_1 /\ valid_tok ERR_UNEXP_LONG_2 /\ valid_tok ERR_UNEXP_SHORT /\ valid_tok ERR_UNKNOWN
  /\ valid_tok HELP_ERR_1 /\ valid_tok HELP_ERR_2.
Proof. repeat split; apply valid_ascii; vm_compute; repeat constructor. Qed.
Ltac vconst := let H := fresh in pose proof ascii_valid_consts as H; tauto.

Section LevelA.
  Variable okf : nat -> bool.
  Variable feats : features.
  Variable cs : cmdset.
  Variable handler : nat -> list N -> list (list N) -> list hop.
  Hypothesis Henv : env_valid cs handler.
  Variable P : cli -> Prop.
  Hypothesis HP : inv_ok P.
  Let Hsk := io_sk P HP.

  Lemma VS_w_set w : VS P (w_set set_wst w).
  Proof. unfold w_set. apply VS_modify; [intros; apply (io_wst P HP); assumption|reflexivity]. Qed.
  Lemma VS_w_lines ls : Forall valid_tok ls -> VS P (w_lines (wr okf) set_wst ls).
  Proof.
    induction 1 as [|l ls Hl _ IH]; cbn [w_lines]; [apply VS_ret|].
    apply VS_bind; [apply VS_wr; assumption|intros]. apply VS_bind; [apply VS_wr; [assumption|vconst]|intros]. apply VS_bind; [apply VS_w_set|intros; exact IH].
  Qed.
  Lemma VS_w_write_str t : valid_tok t -> VS P (w_write_str (wr okf) wst set_wst t).
  Proof.
    intros Hv. unfold w_write_str. destruct (split_lf_valid0 t Hv) as [H1 H2]. destruct (split_lf [] t) as [ls rest]. cbn [fst snd] in *.
    apply VS_bind; [apply VS_w_lines, H1|intros]. destruct rest as [|b r]; [apply VS_ret|].
    apply VS_bind; [apply VS_wr; assumption|intros]. apply VS_bind_get. intros s0 _. apply VS_w_set.
  Qed.
  Lemma VS_w_writeln_str t : valid_tok t -> VS P (w_writeln_str (wr okf) wst set_wst t).
  Proof.
    intros Hv. unfold w_writeln_str. apply VS_bind; [apply VS_w_write_str, Hv|intros]. apply VS_bind; [apply VS_wr; [assumption|vconst]|intros].
    apply VS_bind_get. intros s0 _. apply VS_w_set.
  Qed.
  Lemma VS_run_hops hs : Forall hop_valid hs -> VS P (run_hops okf hs).
  Proof.
    induction 1 as [|h hs Hh _ IH]; cbn [run_hops]; [apply VS_ret|]. destruct h as [t|t|p]; cbn [hop_valid] in Hh.
    - apply VS_bind; [apply VS_w_write_str, Hh|intros; exact IH].
    - apply VS_bind; [apply VS_w_writeln_str, Hh|intros; exact IH].
    - apply VS_bind; [apply VS_modify; [intros; apply (io_newp_some P HP); assumption|reflexivity]|intros; exact IH].
  Qed.
  Lemma VS_clear_line b : VS P (clear_line okf b).
  Proof.
    unfold clear_line. apply VS_bind; [apply VS_wr; [assumption|vconst]|intros]. apply VS_bind; [apply VS_wr; [assumption|vconst]|intros].
    apply VS_bind; [|intros; apply VS_fl; assumption]. destruct b; [apply VS_ret|]. apply VS_bind_get. intros s0 H0. apply VS_wr; [assumption|apply (io_prompt P HP), H0].
  Qed.
  Lemma VS_new_writer : VS P new_writer.
  Proof. unfold new_writer. apply VS_modify; [intros; apply (io_newp_none P HP), (io_wst P HP); assumption|reflexivity]. Qed.
  Lemma VS_dirty_break : VS P (mdo s <- get; (if is_dirty (wst s) then wr okf CRLF else ret tt)).
  Proof. apply VS_bind_get. intros s0 _. destruct (is_dirty (wst s0)); [apply VS_wr; [assumption|vconst]|apply VS_ret]. Qed.

  Lemma VS_process_error e : perr_valid e -> VS P (process_error okf e).
  Proof.
    intros He. unfold process_error. apply VS_bind; [apply VS_wr; [assumption|vconst]|intros].
    apply VS_bind; [|intros; apply VS_bind; [apply VS_wr; [assumption|vconst]|intros; apply VS_fl; assumption]].
    destruct e; cbn [perr_valid] in He; repeat (apply VS_bind; [apply VS_wr; [assumption|try vconst; tauto]|intros]); apply VS_wr; try assumption; try vconst; tauto.
  Qed.
  Lemma VS_process_command name args : Forall valid_tok (name :: args) -> VS P (process_command okf cs handler name args).
  Proof.
    intros Hv. unfold process_command. destruct (cs_parse cs name args) as [e|] eqn:Ep.
    - apply VS_bind; [apply VS_fl; assumption|intros]. apply VS_process_error. exact (ev_parse _ _ Henv name args e Hv Ep).
    - apply VS_bind_get. intros s0 _. apply VS_bind; [apply VS_modify; [intros; apply (io_log P HP); assumption|reflexivity]|intros].
      apply VS_bind; [apply VS_new_writer|intros]. apply VS_bind; [apply VS_catch, VS_run_hops, (ev_handler _ _ Henv)|intros r0].
      apply VS_bind_get. intros s1 H1.
      apply VS_bind. { destruct (newp s1) as [p|] eqn:En; [|apply VS_ret]. apply VS_modify; [intros; apply (io_set_prompt P HP); [assumption|exact (io_newp_valid P HP s1 p H1 En)]|reflexivity]. }
      intros. apply VS_bind; [destruct (is_dirty (wst s1)); [apply VS_wr; [assumption|vconst]|apply VS_ret]|intros].
      apply VS_bind; [apply VS_fl; assumption|intros]. apply VS_bind; [apply VS_reraise|intros].
      destruct (cs_fail cs (length (hcalls s0)) name args) as [e|] eqn:Ef; [|apply VS_ret].
      apply VS_process_error. exact (ev_fail _ _ Henv _ name args e Hv Ef).
  Qed.
  Lemma VS_process_help req : VS P (process_help okf cs req).
  Proof.
    unfold process_help. apply VS_bind; [apply VS_new_writer|intros]. apply VS_bind.
    - apply VS_run_hops. destruct req as [|hn ha]; [exact (ev_list _ _ Henv)|]. destruct (cs_cmd_help cs hn ha) as [hs|] eqn:E; [exact (ev_help _ _ Henv hn ha hs E)|].
      repeat constructor; cbn [hop_valid]; vconst.
    - intros. apply VS_bind_get. intros s1 _. apply VS_bind; [destruct (is_dirty (wst s1)); [apply VS_wr; [assumption|vconst]|apply VS_ret]|intros; apply VS_fl; assumption].
  Qed.
  Lemma VS_process_input raw empty : Forall valid_tok (tokens_iter raw empty) -> VS P (process_input okf feats cs handler raw empty).
  Proof.
    intros Hv. unfold process_input. destruct (tokens_iter raw empty) as [|name args]; cbn [from_tokens]; [apply VS_ret|].
    destruct (f_help feats); [|apply VS_process_command, Hv]. apply VS_bind; [apply VS_lift_opt|intros [req|]]; [apply VS_process_help|apply VS_process_command, Hv].
  Qed.
End LevelA.

(* ---------- the two invariants used *)
Definition P2 (s : cli) : Prop := PA s /\ valid_tok (text (ed s)).
Lemma inv_ok_PA : inv_ok PA.
Proof.
  split; unfold sink_blind, PA; cbn; intros; try tauto.
  - destruct H as [_ H]. rewrite H0 in H. exact H.
Qed.
Lemma inv_ok_P2 : inv_ok P2.
Proof.
  split; unfold sink_blind, P2, PA; cbn; intros; try tauto.
  - destruct H as [[_ H] _]. rewrite H0 in H. exact H.
Qed.

Lemma valid_text_from cp e i c : Rep cp e i -> valid_tok (ed_text_from e c).
Proof.
  intros (_ & Ht & _ & Hw & _). unfold ed_text_from. rewrite Ht, cbi_spec by exact Hw.
  destruct (Nat.ltb c (length (chars i))); [|apply valid_nil]. rewrite skipn_concat_len. apply valid_chars, Forall_skipn, Hw.
Qed.

Section LevelB.
  Variable okf : nat -> bool.
  Variable feats : features.
  Variable cs : cmdset.
  Variable handler : nat -> list N -> list (list N) -> list hop.
  Hypothesis Hcs : cmdset_ok cs.
  Hypothesis Henv : env_valid cs handler.
  Let HA := inv_ok_PA.
  Let H2 := inv_ok_P2.

  Lemma set_ed_PA e s : PA s -> PA (set_ed e s). Proof. unfold PA. cbn. auto. Qed.
  Lemma set_hist_PA h s : PA s -> PA (set_hist h s). Proof. unfold PA. cbn. auto. Qed.
  Lemma set_ig_PA g s : PA s -> PA (set_ig g s). Proof. unfold PA. cbn. auto. Qed.

  (* keys whose echo is made of constants and the typed character *)
  Lemma VS_on_text t : valid_tok t -> VS PA (on_text okf t).
  Proof.
    intros Hv. unfold on_text. apply VS_bind_get. intros s0 _. apply VS_bind; [apply VS_lift_opt|intros [e' [|]]]; [|apply VS_ret].
    apply VS_bind; [apply VS_modify; [intros; apply set_ed_PA; assumption|reflexivity]|intros].
    apply VS_bind; [destruct (Nat.ltb _ _); [apply VS_wr; [apply (io_sk _ HA)|vconst]|apply VS_ret]|intros].
    apply VS_bind; [apply VS_wr; [apply (io_sk _ HA)|exact Hv]|intros; apply VS_fl, (io_sk _ HA)].
  Qed.
  Lemma VS_on_backspace : VS PA (on_backspace okf).
  Proof.
    unfold on_backspace. apply VS_bind_get. intros s0 _. destruct (ed_move_left (ed s0)) as [e1 [|]]; [|apply VS_ret].
    apply VS_bind; [apply VS_lift_opt|intros e2]. apply VS_bind; [apply VS_modify; [intros; apply set_ed_PA; assumption|reflexivity]|intros].
    apply VS_bind; [apply VS_flush_bytes; [apply (io_sk _ HA)|vconst]|intros; apply VS_flush_bytes; [apply (io_sk _ HA)|vconst]].
  Qed.
  Lemma VS_navigate_input fwd : VS PA (navigate_input okf fwd).
  Proof.
    unfold navigate_input. apply VS_bind_get. intros s0 _. destruct (if fwd then ed_move_right (ed s0) else ed_move_left (ed s0)) as [e' [|]]; [|apply VS_ret].
    apply VS_bind; [apply VS_modify; [intros; apply set_ed_PA; assumption|reflexivity]|intros]. apply VS_flush_bytes; [apply (io_sk _ HA)|destruct fwd; vconst].
  Qed.

  (* keys that echo (part of) the line they leave: its validity comes from the C03 invariant of the state reached *)
  Lemma navigate_history_valid older s r s' : PA s -> CliInv s' -> navigate_history okf feats older s = (r, s') -> PA s' /\ Vout s s'.
  Proof.
    intros HP Hi' E. unfold navigate_history in E. destruct (f_hist feats); [|injection E as <- <-; split; [exact HP|apply Vout_refl]].
    rewrite bind_get in E. destruct (if older then hist_older (hist s) else hist_newer (hist s)) as [[h' el]|].
    2:{ rewrite bind_lift_none in E. injection E as <- <-. split; [exact HP|apply Vout_refl]. }
    rewrite bind_lift_some, bind_modify in E.
    destruct (if older then el else Some match el with Some x => x | None => [] end) as [x|].
    2:{ injection E as <- <-. split; [apply set_hist_PA, HP|apply Vout_same_sk; reflexivity]. }
    destruct (ed_insert (ed_clear (ed s)) x) as [r2|].
    2:{ rewrite bind_lift_none in E. injection E as <- <-. split; [apply set_hist_PA, HP|apply Vout_same_sk; reflexivity]. }
    rewrite bind_lift_some, bind_modify in E.
    assert (T : Same (clear_line okf false;; (mdo s2 <- get; wr okf (text (ed s2));; fl okf))).
    { apply Same_bind; [apply Same_clear_line|intros]. apply Same_bind; [apply Same_get|intros]. apply Same_bind; [apply Same_wr|intros; apply Same_fl]. }
    destruct (T _ _ _ E) as (a1 & _ & _). cbn [ed set_ed] in a1.
    assert (Hv : valid_tok (text (fst r2))) by (rewrite <- a1; apply CliInv_text_valid, Hi').
    assert (V : VS P2 (clear_line okf false;; (mdo s2 <- get; wr okf (text (ed s2));; fl okf))).
    { apply VS_bind; [apply VS_clear_line, H2|intros]. apply VS_bind_get. intros s0 [_ Hv0]. apply VS_bind; [apply VS_wr; [apply (io_sk _ H2)|exact Hv0]|intros; apply VS_fl, (io_sk _ H2)]. }
    destruct (V _ _ _ (conj (set_ed_PA _ _ (set_hist_PA h' s HP)) Hv) E) as [[PA' _] Vo]. split; [exact PA'|]. exact Vo.
  Qed.
  Lemma on_tab_valid s r s' : PA s -> CliInv s' -> on_tab okf feats cs s = (r, s') -> PA s' /\ Vout s s'.
  Proof.
    intros HP Hi' E. unfold on_tab in E. destruct (f_ac feats); [|injection E as <- <-; split; [exact HP|apply Vout_refl]].
    rewrite bind_get in E. destruct (ed_autocompletion (ed s) (complete_with cs)) as [e'|].
    2:{ rewrite bind_lift_none in E. injection E as <- <-. split; [exact HP|apply Vout_refl]. }
    rewrite bind_lift_some, bind_modify in E.
    assert (T : Same (if Nat.ltb (cursor (ed s)) (cursor e') then wr okf (ed_text_from e' (cursor (ed s)));; fl okf else ret tt)).
    { destruct (Nat.ltb _ _); [apply Same_bind; [apply Same_wr|intros; apply Same_fl]|apply Same_ret]. }
    destruct (T _ _ _ E) as (a1 & _ & _). cbn [ed set_ed] in a1.
    destruct Hi' as ((i & HR) & _). rewrite a1 in HR.
    assert (V : VS PA (if Nat.ltb (cursor (ed s)) (cursor e') then wr okf (ed_text_from e' (cursor (ed s)));; fl okf else ret tt)).
    { destruct (Nat.ltb _ _); [|apply VS_ret]. apply VS_bind; [apply VS_wr; [apply (io_sk _ HA)|eapply valid_text_from; exact HR]|intros; apply VS_fl, (io_sk _ HA)]. }
    exact (V _ _ _ (set_ed_PA e' s HP) E).
  Qed.
  Lemma on_enter_valid s r s' : PA s -> CliInv s -> on_enter okf feats cs handler s = (r, s') -> PA s' /\ Vout s s'.
  Proof.
    intros HP Hi E. pose proof (CliInv_text_valid s Hi) as Hvt. destruct Hi as (_ & Hnf & _).
    unfold on_enter in E. unfold bind at 1 in E. destruct (wr okf CRLF s) as [r1 s1] eqn:E1.
    destruct (VS_wr okf PA (io_sk _ HA) CRLF ltac:(vconst) _ _ _ HP E1) as [P1 V1].
    destruct (Same_wr okf _ _ _ _ E1) as (a1 & _ & _).
    destruct r1 as [[]| |]; [|injection E as <- <-; auto|injection E as <- <-; auto].
    rewrite bind_get in E.
    assert (Hp : exists s2 r2, (if f_hist feats then mdo h <- lift_opt (hist_push (hist s1) (text (ed s1))); modify (set_hist h) else ret tt) s1 = (r2, s2)
                 /\ PA s2 /\ sk s2 = sk s1 /\ (r2 = Ok tt \/ r2 = Panic)).
    { destruct (f_hist feats); [|exists s1, (Ok tt); auto]. destruct (hist_push (hist s1) (text (ed s1))) as [h|].
      - exists (set_hist h s1), (Ok tt). rewrite bind_lift_some. split; [reflexivity|]. split; [apply set_hist_PA, P1|auto].
      - exists s1, Panic. rewrite bind_lift_none. auto. }
    destruct Hp as (s2 & r2 & Ep & P2' & k2 & Hr2). unfold bind at 1 in E. rewrite Ep in E.
    assert (V12 : Vout s s2) by (eapply Vout_trans; [exact V1|apply Vout_same_sk, k2]).
    destruct Hr2 as [-> | ->]; [|injection E as <- <-; auto].
    rewrite a1 in E. destruct (tokens_inplace_fun (text (ed s)) Hnf) as (buf' & raw & empty & Et & Etok). rewrite Et, bind_lift_some, bind_modify in E.
    assert (Hv : Forall valid_tok (tokens_iter raw empty)) by (rewrite Etok; apply tokens_fun_valid, Hvt).
    assert (V : VS PA (mdo r0 <- catch (process_input okf feats cs handler raw empty); modify (fun s0 => set_ed (ed_clear (ed s0)) s0);; reraise r0;;
                       (mdo s0 <- get; wr okf (prompt s0);; fl okf))).
    { apply VS_bind; [apply VS_catch, VS_process_input; [exact Henv|exact HA|exact Hv]|intros r0].
      apply VS_bind; [apply VS_modify; [intros; apply set_ed_PA; assumption|reflexivity]|intros].
      apply VS_bind; [apply VS_reraise|intros]. apply VS_bind_get. intros s0 H0.
      apply VS_bind; [apply VS_wr; [apply (io_sk _ HA)|exact (proj1 H0)]|intros; apply VS_fl, (io_sk _ HA)]. }
    destruct (V _ _ _ (set_ed_PA _ s2 P2') E) as [P' V']. split; [exact P'|]. eapply Vout_trans; [exact V12|]. eapply Vout_trans; [apply Vout_same_sk; reflexivity|exact V'].
  Qed.

  Lemma on_control_valid c s r s' : PA s -> CliInv s -> CliInv s' -> on_control okf feats cs handler c s = (r, s') -> PA s' /\ Vout s s'.
  Proof.
    intros HP Hi Hi' E. destruct c; cbn [on_control] in E.
    - exact (VS_on_backspace _ _ _ HP E).
    - exact (navigate_history_valid false _ _ _ HP Hi' E).
    - exact (on_enter_valid _ _ _ HP Hi E).
    - exact (VS_navigate_input false _ _ _ HP E).
    - exact (VS_navigate_input true _ _ _ HP E).
    - exact (on_tab_valid _ _ _ HP Hi' E).
    - exact (navigate_history_valid true _ _ _ HP Hi' E).
  Qed.

  Theorem process_byte_valid b s r s' : byte b -> PA s -> CliInv s -> api_process_byte okf feats cs handler b s = (r, s') -> PA s' /\ Vout s s'.
  Proof.
    intros Hb HP Hi E. destruct (process_byte_safe okf feats cs handler Hcs b s r s' Hb Hi E) as [_ Hi'].
    unfold api_process_byte in E. rewrite bind_get in E. destruct (accept (ig s) b) as [g' oi] eqn:Ea. rewrite bind_modify in E.
    pose proof Hi as (H1 & H2' & H3 & H4).
    destruct (accept_inv (ig s) b Hb H4) as [Hg' _]. rewrite Ea in Hg'. cbn [fst] in Hg'.
    assert (Hig : CliInv (set_ig g' s)) by (unfold CliInv; cbn; auto).
    assert (Vg : Vout s (set_ig g' s)) by (apply Vout_same_sk; reflexivity).
    destruct oi as [[c|t]|].
    - destruct (on_control_valid c _ _ _ (set_ig_PA g' s HP) Hig Hi' E) as [P' V']. split; [exact P'|exact (Vout_trans _ _ _ Vg V')].
    - destruct (accept_typed (ig s) b t Hb H4) as [Hw _]; [rewrite Ea; reflexivity|].
      destruct (VS_on_text t (valid_wf t Hw) _ _ _ (set_ig_PA g' s HP) E) as [P' V']. split; [exact P'|exact (Vout_trans _ _ _ Vg V')].
    - injection E as <- <-. split; [apply set_ig_PA, HP|exact Vg].
  Qed.

  Theorem write_valid hs s r s' : Forall hop_valid hs -> PA s -> CliInv s -> api_write okf hs s = (r, s') -> PA s' /\ Vout s s'.
  Proof.
    intros Hh HP Hi E. pose proof (CliInv_text_valid s Hi) as Hvt.
    assert (V : VS P2 (api_write okf hs)).
    { unfold api_write. apply VS_bind; [apply VS_clear_line, H2|intros]. apply VS_bind; [apply VS_new_writer, H2|intros].
      apply VS_bind; [apply VS_run_hops; [exact H2|exact Hh]|intros]. apply VS_bind_get. intros s1 Hs1.
      apply VS_bind; [destruct (is_dirty (wst s1)); [apply VS_wr; [apply (io_sk _ H2)|vconst]|apply VS_ret]|intros].
      apply VS_bind; [apply VS_wr; [apply (io_sk _ H2)|exact (io_prompt _ H2 s1 Hs1)]|intros].
      unfold redraw_line. apply VS_bind_get. intros s3 [_ Hv3]. apply VS_bind; [apply VS_wr; [apply (io_sk _ H2)|exact Hv3]|intros].
      apply VS_bind; [apply VS_mrepeat, VS_wr; [apply (io_sk _ H2)|vconst]|intros; apply VS_fl, (io_sk _ H2)]. }
    destruct (V _ _ _ (conj HP Hvt) E) as [[P' _] V']. auto.
  Qed.
  Theorem set_prompt_valid p s r s' : valid_tok p -> PA s -> CliInv s -> api_set_prompt okf p s = (r, s') -> PA s' /\ Vout s s'.
  Proof.
    intros Hp HP Hi E. pose proof (CliInv_text_valid s Hi) as Hvt.
    assert (V : VS P2 (api_set_prompt okf p)).
    { unfold api_set_prompt. apply VS_bind; [apply VS_modify; [intros; apply (io_set_prompt _ H2); assumption|reflexivity]|intros].
      apply VS_bind; [apply VS_clear_line, H2|intros].
      unfold redraw_line. apply VS_bind_get. intros s3 [_ Hv3]. apply VS_bind; [apply VS_wr; [apply (io_sk _ H2)|exact Hv3]|intros].
      apply VS_bind; [apply VS_mrepeat, VS_wr; [apply (io_sk _ H2)|vconst]|intros; apply VS_fl, (io_sk _ H2)]. }
    destruct (V _ _ _ (conj HP Hvt) E) as [[P' _] V']. auto.
  Qed.

  (* ---------- every API call sequence, every sink behaviour *)
  Definition vcall_valid (c : apicall) : Prop :=
    match c with AByte b => byte b | AWrite hs => Forall hop_valid hs | ASetPrompt p => valid_tok p end.
  Lemma vcall_valid_ok c : vcall_valid c -> call_ok c. Proof. destruct c; cbn; auto. Qed.

  Theorem run_valid : forall calls s, Forall vcall_valid calls -> CliInv s -> PA s ->
    Vout s (fst (api_run okf feats cs handler s calls)).
  Proof.
    induction calls as [|c calls IH]; intros s Hc Hi HP; cbn [api_run]; [apply Vout_refl|].
    inversion Hc as [|? ? Hc1 Hcr]; subst. destruct (api_step okf feats cs handler c s) as [x s1] eqn:E.
    assert (Hs : CliInv s1 /\ PA s1 /\ Vout s s1).
    { destruct c as [b|hs|p]; cbn [api_step vcall_valid] in *.
      - destruct (process_byte_safe okf feats cs handler Hcs b s x s1 Hc1 Hi E) as [_ I1]. destruct (process_byte_valid b s x s1 Hc1 HP Hi E). auto.
      - destruct (write_safe okf hs s x s1 Hi E) as [_ I1]. destruct (write_valid hs s x s1 Hc1 HP Hi E). auto.
      - destruct (set_prompt_safe okf p s x s1 Hi E) as [_ I1]. destruct (set_prompt_valid p s x s1 Hc1 HP Hi E). auto. }
    destruct Hs as (I1 & P1 & V1). specialize (IH s1 Hcr I1 P1). destruct (api_run okf feats cs handler s1 calls) as [s2 xs]. cbn [fst] in *.
    eapply Vout_trans; eauto.
  Qed.

  Theorem output_valid cp hcp pr calls : valid_tok pr -> Forall vcall_valid calls ->
    Forall wvalid (out (sk (fst (api_run okf feats cs handler (snd (api_build okf (cli_init cp hcp pr))) calls)))).
  Proof.
    intros Hpr Hc.
    destruct (api_build okf (cli_init cp hcp pr)) as [r0 s0] eqn:E0. cbn [snd].
    assert (HP0 : PA (cli_init cp hcp pr)) by (unfold PA, cli_init; cbn; auto).
    assert (V0 : VS PA (api_build okf)).
    { unfold api_build. apply VS_bind_get. intros s1 H1. apply VS_bind; [apply VS_wr; [apply (io_sk _ HA)|exact (proj1 H1)]|intros; apply VS_fl, (io_sk _ HA)]. }
    destruct (V0 _ _ _ HP0 E0) as [P0 Vb].
    assert (Hi0 : CliInv s0).
    { destruct (ClassProofs.Same_bind _ _ ClassProofs.Same_get (fun s1 => ClassProofs.Same_bind _ _ (ClassProofs.Same_wr okf (prompt s1)) (fun _ => ClassProofs.Same_fl okf)) _ _ _ E0) as (a & b & c).
      eapply CliInv_same; eauto. apply CliInv_init. }
    pose proof (run_valid calls s0 Hc Hi0 P0) as Vr.
    destruct (Vout_trans _ _ _ Vb Vr) as (O & EO & HO). rewrite EO. cbn [cli_init sk out sink0 app]. exact HO.
  Qed.
End LevelB.
