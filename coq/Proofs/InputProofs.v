From EC Require Import Base Generated.Codes Model.Utf8 Model.Input Spec.Utf8Spec Spec.KeyUnits Proofs.Utf8Proofs.

Ltac ucodes := unfold BACKSPACE, TABULATION, LINE_FEED, CARRIAGE_RETURN, ESCAPE, CSI_INTRO, CSI_FINAL_LO, CSI_FINAL_HI,
  KEY_UP, KEY_DOWN, KEY_FORWARD, KEY_BACK, MIN_PRINTABLE in *.

Lemma runa_app g xs ys : runa g (xs ++ ys) =
  let '(g1, l1) := runa g xs in let '(g2, l2) := runa g1 ys in (g2, l1 ++ l2).
Proof. revert g; induction xs as [|x xs IH]; intros g; cbn [runa app].
  - destruct (runa g ys); reflexivity.
  - destruct (accept g x) as [g1 o]. rewrite IH. destruct (runa g1 xs) as [g2 l]. destruct (runa g2 ys) as [g3 l2].
    destruct o; reflexivity. Qed.

(* characters: all bytes >= 0x20 go to the accumulator *)
Lemma runa_plain : forall bs g, csi g = false ->
  Forall (fun b => 0x20 <= b) bs -> (forall x, hd_error bs = Some x -> ~ (last g = 27 /\ x = 91)) ->
  bs <> [] ->
  runa g bs = ({| csi := false; last := List.last bs 0; acc := fst (run (acc g) bs) |}, map Chr (snd (run (acc g) bs))).
Proof.
  induction bs as [|b r IH]; intros g Hc Hb Hh Hne; [congruence|].
  inversion Hb as [|? ? Hb1 Hr]; subst.
  cbn [runa run]. unfold accept. rewrite Hc.
  assert (E : (last g =? ESCAPE) && (b =? CSI_INTRO) = false).
  { ucodes. specialize (Hh b eq_refl). destruct (last g =? 27) eqn:?, (b =? 91) eqn:?; cbn; try reflexivity. exfalso; apply Hh; lia. }
  rewrite E. unfold process_single. ucodes.
  destruct (b =? 8) eqn:?; [lia|]. destruct (b =? 13) eqn:?; [lia|].
  destruct (b =? 10) eqn:?; [lia|]. destruct (b =? 9) eqn:?; [lia|].
  destruct (0x20 <=? b) eqn:?; [|lia].
  destruct (push (acc g) b) as [a' o] eqn:Hp.
  destruct r as [|b2 r'].
  - cbn. destruct o; reflexivity.
  - rewrite IH; cbn [csi last acc]; try reflexivity; try exact Hr; try congruence.
    2:{ intros x _ [H27 _]. lia. }
    destruct (run a' (b2 :: r')) as [a2 l]. cbn [fst snd map].
    destruct o; cbn [option_map map]; reflexivity.
Qed.

Lemma wf_char_ge20_all c : wf_char c -> (forall x, hd_error c = Some x -> 0x20 <= x) -> Forall (fun b => 0x20 <= b) c.
Proof. intros H Hh. destruct c as [|x [|y [|z [|w [|v r]]]]]; cbn in H; try contradiction; unfold cont in *;
  specialize (Hh x eq_refl); repeat constructor; lia. Qed.

Lemma csi_params : forall ps g, csi g = true -> Forall (fun p => p < 256 /\ (p < 0x40 \/ 0x7E < p)) ps ->
  exists l, runa g ps = ({| csi := true; last := l; acc := acc g |}, []) .
Proof.
  induction ps as [|p r IH]; intros g Hc Hp; [exists (last g); destruct g; cbn in *; subst; reflexivity|].
  inversion Hp as [|? ? Hp1 Hr]; subst. cbn [runa]. unfold accept. rewrite Hc. unfold process_csi. ucodes.
  destruct ((0x40 <=? p) && (p <=? 0x7E)) eqn:E; [lia|].
  destruct (IH {| csi := true; last := p; acc := acc g |} eq_refl Hr) as [l Hl]. rewrite Hl. exists l. reflexivity.
Qed.

Lemma run_unit u g : csi g = false -> wf_unit u -> compat (last g) u ->
  exists a', runa g (bytes_of u) = ({| csi := false; last := last_after u; acc := a' |}, events_of u).
Proof.
  intros Hc Hw (C1 & C2 & C3). destruct u as [c| | |t|ps f|b]; cbn [wf_unit] in Hw.
  - destruct Hw as (Hwf & Hh & Hdel).
    assert (Hne : c <> []) by (destruct c; cbn in Hwf; [contradiction|congruence]).
    cbn [bytes_of events_of]. rewrite runa_plain; try assumption.
    + rewrite resync by exact Hwf. cbn. eexists. unfold last_after. cbn [bytes_of]. reflexivity.
    + apply wf_char_ge20_all; assumption.
    + intros x Hx [H27 H91]. apply C3. split; [exact H27|]. unfold first_of. cbn [bytes_of]. destruct c; cbn in *; congruence.
  - cbn. unfold accept. rewrite Hc. ucodes. cbn. rewrite andb_false_r. cbn. eexists; reflexivity.
  - cbn. unfold accept. rewrite Hc. ucodes. cbn. rewrite andb_false_r. cbn. eexists; reflexivity.
  - assert (PS : forall g' b, csi g' = false -> (b = 13 \/ b = 10) -> accept g' b = process_single g' b (last g')).
    { intros g' b Hc' Hb. unfold accept. rewrite Hc'. ucodes. assert (E : (last g' =? 27) && (b =? 91) = false) by lia. rewrite E. reflexivity. }
    assert (CR : forall g' l, process_single g' 13 l = if l =? 10 then ({| csi := false; last := 0; acc := acc g' |}, None)
                 else ({| csi := false; last := 13; acc := acc g' |}, Some (Ctl Enter))) by reflexivity.
    assert (LF : forall g' l, process_single g' 10 l = if l =? 13 then ({| csi := false; last := 0; acc := acc g' |}, None)
                 else ({| csi := false; last := 10; acc := acc g' |}, Some (Ctl Enter))) by reflexivity.
    unfold first_of in *. destruct t; cbn [bytes_of hd] in *; cbn [runa].
    + rewrite PS, CR by auto. destruct (last g =? 10) eqn:?; [lia|]. eexists; reflexivity.
    + rewrite PS, LF by auto. destruct (last g =? 13) eqn:?; [lia|]. eexists; reflexivity.
    + rewrite PS, CR by auto. destruct (last g =? 10) eqn:?; [lia|].
      rewrite PS, LF by auto. cbn [last acc]. change (13 =? 13) with true. cbn iota. eexists; reflexivity.
    + rewrite PS, LF by auto. destruct (last g =? 13) eqn:?; [lia|].
      rewrite PS, CR by auto. cbn [last acc]. change (10 =? 10) with true. cbn iota. eexists; reflexivity.
  - destruct Hw as (Hps & Hf).
    assert (A1 : accept g 27 = ({| csi := false; last := 27; acc := acc g |}, None)).
    { unfold accept. rewrite Hc. ucodes. rewrite andb_false_r. reflexivity. }
    assert (A2 : forall a, accept {| csi := false; last := 27; acc := a |} 91 = ({| csi := true; last := 91; acc := a |}, None)) by reflexivity.
    cbn [bytes_of]. change (27 :: 91 :: ps ++ [f]) with ([27; 91] ++ (ps ++ [f])).
    rewrite runa_app. cbn [runa]. rewrite A1, A2. rewrite runa_app.
    destruct (csi_params ps {| csi := true; last := 91; acc := acc g |} eq_refl Hps) as [l Hl]. rewrite Hl.
    cbn [runa]. unfold accept. cbn [csi acc]. unfold process_csi. ucodes.
    assert (E2 : (0x40 <=? f) && (f <=? 0x7E) = true) by lia. rewrite E2.
    cbn [acc]. exists (acc g). unfold last_after. cbn [bytes_of events_of].
    replace (List.last (27 :: 91 :: ps ++ [f]) 0) with f.
    2:{ change (27 :: 91 :: ps ++ [f]) with ((27 :: 91 :: ps) ++ [f]). rewrite last_last. reflexivity. }
    brk; reflexivity.
  - destruct Hw as (H1 & H2 & H3 & H4 & H5). cbn [bytes_of runa]. unfold accept. rewrite Hc. ucodes.
    assert (E : (last g =? 27) && (b =? 91) = false) by lia. rewrite E.
    unfold process_single. ucodes. brk; try lia. cbn. eexists; reflexivity.
Qed.

Theorem decode_units : forall us g, csi g = false -> Forall wf_unit us -> greedy (last g) us ->
  snd (runa g (flat_map bytes_of us)) = flat_map events_of us.
Proof.
  induction us as [|u r IH]; intros g Hc Hw Hg; [reflexivity|].
  inversion Hw as [|? ? Hw1 Hwr]; subst. destruct Hg as [Hcp Hgr].
  cbn [flat_map]. rewrite runa_app.
  destruct (run_unit u g Hc Hw1 Hcp) as [a' Hu]. rewrite Hu.
  specialize (IH {| csi := false; last := last_after u; acc := a' |} eq_refl Hwr Hgr).
  destruct (runa _ (flat_map bytes_of r)) as [g2 l2]. cbn [snd] in *. rewrite IH. reflexivity.
Qed.

(* N terminators (in any mix, segmented greedily) give N Enters *)
Lemma events_terms : forall us, forallb is_term us = true -> flat_map events_of us = repeat (Ctl Enter) (length us).
Proof.
  induction us as [|u r IH]; intros H; [reflexivity|]. cbn in H. apply andb_true_iff in H as [H1 H2].
  destruct u; try discriminate. cbn. f_equal. apply IH, H2.
Qed.
Lemma terms_wf : forall us, forallb is_term us = true -> Forall wf_unit us.
Proof. induction us as [|u r IH]; intros H; constructor; cbn in H; apply andb_true_iff in H as [H1 H2];
  [destruct u; try discriminate; exact I|apply IH, H2]. Qed.

Theorem n_terminators : forall us g, csi g = false -> forallb is_term us = true -> greedy (last g) us ->
  snd (runa g (flat_map bytes_of us)) = repeat (Ctl Enter) (length us).
Proof. intros us g Hc Ht Hg. rewrite decode_units by (auto using terms_wf). apply events_terms, Ht. Qed.

(* decoding depends only on the byte sequence: the decoder is a fold of a function over the bytes;
   every byte leaves it in a well-defined state (totality) - stated as: no byte ever leaks into a later
   decoding except through (csi, last, acc). *)
Theorem decode_deterministic : forall bs g, exists g' evs, runa g bs = (g', evs).
Proof. intros. destruct (runa g bs); eauto. Qed.

(* reflection of the executable side conditions *)
Lemma wf_unitb_spec u : wf_unitb u = true -> wf_unit u.
Proof.
  destruct u as [c| | |t|ps f|b]; cbn; try (intros; exact I).
  - intros H. apply andb_true_iff in H as [H H3]. apply andb_true_iff in H as [H1 H2].
    apply wf_charb_spec in H1. split; [exact H1|]. split.
    + destruct c; [discriminate|]. intros x [= <-]. lia.
    + intros ->. cbn in H3. discriminate.
  - intros H. apply andb_true_iff in H as [H H3]. apply andb_true_iff in H as [H1 H2].
    split; [|lia]. rewrite forallb_forall in H1. apply Forall_forall. intros p Hp. specialize (H1 p Hp). lia.
  - intros H. lia.
Qed.
Lemma greedyb_spec : forall us l, greedyb l us = true -> greedy l us.
Proof.
  induction us as [|u r IH]; intros l H; [exact I|]. cbn in H. apply andb_true_iff in H as [H1 H2].
  split; [|apply IH, H2]. unfold compatb in H1. unfold compat. lia.
Qed.
Lemma wf_unitsb_spec us : forallb wf_unitb us = true -> Forall wf_unit us.
Proof. intros H. rewrite forallb_forall in H. apply Forall_forall. intros u Hu. apply wf_unitb_spec, H, Hu. Qed.

(* the form used by the oracle: accepted unit lists decode to their events *)
Corollary decode_units_b us : forallb wf_unitb us = true -> greedyb 0 us = true ->
  snd (runa ig0 (flat_map bytes_of us)) = flat_map events_of us.
Proof. intros H1 H2. apply decode_units; [reflexivity|apply wf_unitsb_spec, H1|apply greedyb_spec, H2]. Qed.

(* ---------- C02 at the decoder: every character event carries one well-formed scalar, for ANY bytes *)
Definition ev_wf (i : input) : Prop := match i with Chr s => wf_char s | Ctl _ => True end.

Lemma accept_inv g b : byte b -> ainv (acc g) ->
  ainv (acc (fst (accept g b))) /\ (forall i, snd (accept g b) = Some i -> ev_wf i).
Proof.
  intros Hb Ha. unfold accept.
  destruct (csi g).
  { unfold process_csi. destruct ((CSI_FINAL_LO <=? b) && (b <=? CSI_FINAL_HI)); cbn [fst snd acc].
    - split; [exact Ha|]. intros i. brk; intros [= <-]; exact I.
    - split; [exact Ha|discriminate]. }
  destruct ((last g =? ESCAPE) && (b =? CSI_INTRO)); [cbn; split; [exact Ha|discriminate]|].
  unfold process_single.
  destruct (b =? BACKSPACE); [cbn; split; [exact Ha|intros i [= <-]; exact I]|].
  destruct (b =? CARRIAGE_RETURN).
  { destruct (last g =? LINE_FEED); cbn; (split; [exact Ha|]); [discriminate|intros i [= <-]; exact I]. }
  destruct (b =? LINE_FEED).
  { destruct (last g =? CARRIAGE_RETURN); cbn; (split; [exact Ha|]); [discriminate|intros i [= <-]; exact I]. }
  destruct (b =? TABULATION); [cbn; split; [exact Ha|intros i [= <-]; exact I]|].
  destruct (MIN_PRINTABLE <=? b); [|cbn; split; [exact Ha|discriminate]].
  destruct (push_inv (acc g) b Hb Ha) as [H1 H2].
  destruct (push (acc g) b) as [a' o]. cbn [fst snd acc] in *. split; [exact H1|].
  intros i Hi. destruct o as [s|]; cbn in Hi; [|discriminate]. injection Hi as <-. cbn. apply H2. reflexivity.
Qed.

Theorem runa_chars_wf : forall bs g, bytes bs -> ainv (acc g) ->
  ainv (acc (fst (runa g bs))) /\ Forall ev_wf (snd (runa g bs)).
Proof.
  induction bs as [|b r IH]; intros g Hb Ha; cbn [runa]; [split; [exact Ha|constructor]|].
  inversion Hb as [|? ? Hb1 Hr]; subst.
  destruct (accept_inv g b Hb1 Ha) as [Hi Ho].
  destruct (accept g b) as [g1 o]. cbn [fst snd] in *.
  destruct (IH g1 Hr Hi) as [Hi2 Hl]. destruct (runa g1 r) as [g2 l]. cbn [fst snd] in *.
  split; [exact Hi2|]. destruct o; [constructor; [apply Ho; reflexivity|exact Hl]|exact Hl].
Qed.
