(* C15: whenever an API call returns Ok, its sink output is empty or ends with a flush - for every sink behaviour okf,
   every handler, every command set, every feature set. Compositional output specifications over the monad. *)
From EC Require Import Base Generated.Codes Model.Utf8 Model.Utils Model.Input Model.Editor Model.Token Model.Args Model.History
  Model.Sink Model.Writer Model.Cli.

Definition isOk {A} (r : res A) : Prop := match r with Ok _ => True | _ => False end.
Definition ends_flush (O : list sinkop) : Prop := exists O', O = O' ++ [SF].

(* f appends O to the sink log and (r, O) satisfies Phi *)
Definition Spec {A} (f : M cli A) (Phi : res A -> list sinkop -> Prop) : Prop :=
  forall s r s', f s = (r, s') -> exists O, out (sk s') = out (sk s) ++ O /\ Phi r O.

Definition Qp {A} (r : res A) (O : list sinkop) : Prop := True.                            (* anything *)
Definition Sp {A} (r : res A) (O : list sinkop) : Prop := O = [].                           (* silent *)
Definition Fp {A} (r : res A) (O : list sinkop) : Prop := isOk r -> ends_flush O.            (* ends with a flush *)
Definition Pp {A} (r : res A) (O : list sinkop) : Prop := isOk r -> O = [] \/ ends_flush O.  (* silent or ends with a flush *)

Lemma Spec_weaken {A} (f : M cli A) (P1 P2 : res A -> list sinkop -> Prop) : (forall r O, P1 r O -> P2 r O) -> Spec f P1 -> Spec f P2.
Proof. intros H S s r s' E. destruct (S s r s' E) as (O & H1 & H2). eauto. Qed.
Lemma S_Q {A} (f : M cli A) : Spec f Sp -> Spec f Qp. Proof. apply Spec_weaken. intros; exact I. Qed.
Lemma S_P {A} (f : M cli A) : Spec f Sp -> Spec f Pp. Proof. apply Spec_weaken. unfold Sp, Pp. auto. Qed.
Lemma F_P {A} (f : M cli A) : Spec f Fp -> Spec f Pp. Proof. apply Spec_weaken. unfold Fp, Pp. auto. Qed.
Lemma F_Q {A} (f : M cli A) : Spec f Fp -> Spec f Qp. Proof. apply Spec_weaken. intros; exact I. Qed.
Lemma P_Q {A} (f : M cli A) : Spec f Pp -> Spec f Qp. Proof. apply Spec_weaken. intros; exact I. Qed.

Lemma ends_flush_app O1 O2 : ends_flush O2 -> ends_flush (O1 ++ O2).
Proof. intros [O' ->]. exists (O1 ++ O'). rewrite app_assoc. reflexivity. Qed.

(* generic bind rule *)
Lemma Spec_bind {A B} (m : M cli A) (f : A -> M cli B) P1 P2 (P : res B -> list sinkop -> Prop) :
  Spec m P1 -> (forall a, Spec (f a) P2) ->
  (forall a O1 r O2, P1 (Ok a) O1 -> P2 r O2 -> P r (O1 ++ O2)) ->
  (forall O1, P1 Err O1 -> P Err O1) -> (forall O1, P1 Panic O1 -> P Panic O1) ->
  Spec (bind m f) P.
Proof.
  intros Sm Sf Hc He Hp s r s' E. unfold bind in E. destruct (m s) as [r1 s1] eqn:Em.
  destruct (Sm s r1 s1 Em) as (O1 & H1 & H1').
  destruct r1 as [a| |].
  - destruct (Sf a s1 r s' E) as (O2 & H2 & H2'). exists (O1 ++ O2). split; [rewrite H2, H1, app_assoc; reflexivity|eauto].
  - injection E as <- <-. exists O1. auto.
  - injection E as <- <-. exists O1. auto.
Qed.

Lemma bind_QQ {A B} (m : M cli A) (f : A -> M cli B) : Spec m Qp -> (forall a, Spec (f a) Qp) -> Spec (bind m f) Qp.
Proof. intros. eapply Spec_bind; eauto; intros; exact I. Qed.
Lemma bind_SS {A B} (m : M cli A) (f : A -> M cli B) : Spec m Sp -> (forall a, Spec (f a) Sp) -> Spec (bind m f) Sp.
Proof. intros. eapply Spec_bind; eauto; unfold Sp; intros; subst; auto. Qed.
Lemma bind_SX {A B} (m : M cli A) (f : A -> M cli B) (P : res B -> list sinkop -> Prop) :
  (P Err [] ) -> (P Panic []) -> Spec m Sp -> (forall a, Spec (f a) P) -> Spec (bind m f) P.
Proof. intros Pe Pp_ Sm Sf. eapply Spec_bind; eauto; unfold Sp; intros; subst; auto. Qed.
Lemma bind_QF {A B} (m : M cli A) (f : A -> M cli B) : Spec m Qp -> (forall a, Spec (f a) Fp) -> Spec (bind m f) Fp.
Proof. intros. eapply Spec_bind; eauto; unfold Fp, isOk; intros; try contradiction. apply ends_flush_app. auto. Qed.
Lemma bind_PP {A B} (m : M cli A) (f : A -> M cli B) : Spec m Pp -> (forall a, Spec (f a) Pp) -> Spec (bind m f) Pp.
Proof.
  intros. eapply Spec_bind; eauto; unfold Pp, isOk; intros; try contradiction.
  destruct (H2 H3) as [->|Hf]; [|right; apply ends_flush_app; exact Hf].
  rewrite app_nil_r. apply H1. exact I.
Qed.
Lemma bind_FS {A B} (m : M cli A) (f : A -> M cli B) : Spec m Fp -> (forall a, Spec (f a) Sp) -> Spec (bind m f) Fp.
Proof. intros. eapply Spec_bind; eauto; unfold Fp, Sp, isOk; intros; try contradiction. subst. rewrite app_nil_r. apply H1. exact I. Qed.
Lemma bind_FP {A B} (m : M cli A) (f : A -> M cli B) : Spec m Fp -> (forall a, Spec (f a) Pp) -> Spec (bind m f) Fp.
Proof.
  intros. eapply Spec_bind; eauto; unfold Fp, Pp, isOk; intros; try contradiction.
  destruct (H2 H3) as [->|Hf]; [rewrite app_nil_r; apply H1; exact I|apply ends_flush_app; exact Hf].
Qed.
Lemma bind_PS {A B} (m : M cli A) (f : A -> M cli B) : Spec m Pp -> (forall a, Spec (f a) Sp) -> Spec (bind m f) Pp.
Proof. intros. eapply Spec_bind; eauto; unfold Pp, Sp, isOk; intros; try contradiction. subst. rewrite app_nil_r. apply H1. exact I. Qed.

(* primitives *)
Lemma S_ret {A} (a : A) : Spec (ret a) Sp.
Proof. intros s r s' E. injection E as <- <-. exists []. rewrite app_nil_r. split; reflexivity. Qed.
Lemma S_get : Spec get Sp.
Proof. intros s r s' E. injection E as <- <-. exists []. rewrite app_nil_r. split; reflexivity. Qed.
Lemma S_panic {A} : Spec (@panic cli A) Sp.
Proof. intros s r s' E. injection E as <- <-. exists []. rewrite app_nil_r. split; reflexivity. Qed.
Lemma S_lift_opt {A} (o : option A) : Spec (lift_opt o) Sp.
Proof. destruct o; [apply S_ret|apply S_panic]. Qed.
Lemma S_reraise {A} (x : res A) : Spec (reraise x) Sp.
Proof. intros s r s' E. injection E as <- <-. exists []. rewrite app_nil_r. split; reflexivity. Qed.
Lemma S_modify (f : cli -> cli) : (forall s, sk (f s) = sk s) -> Spec (modify f) Sp.
Proof. intros H s r s' E. injection E as <- <-. exists []. rewrite H, app_nil_r. split; reflexivity. Qed.

Section WithSink.
  Variable okf : nat -> bool.

  Lemma Q_wr bs : Spec (wr okf bs) Qp.
  Proof.
    intros s r s' E. unfold wr, sk_write in E. destruct bs as [|b bs].
    - injection E as <- <-. exists []. destruct s; cbn. rewrite app_nil_r. split; [reflexivity|exact I].
    - destruct (okf (calls (sk s))); injection E as <- <-; eexists; (split; [unfold set_sk; cbn; reflexivity|exact I]).
  Qed.
  Lemma F_fl : Spec (fl okf) Fp.
  Proof.
    intros s r s' E. unfold fl, sk_flush in E. destruct (okf (calls (sk s))); injection E as <- <-; eexists; (split; [unfold set_sk; cbn; reflexivity|]).
    - intros _. exists []. reflexivity.
    - intros [].
  Qed.
  Lemma F_flush_bytes bs : Spec (flush_bytes okf bs) Fp.
  Proof. unfold flush_bytes. apply bind_QF; [apply Q_wr|intros; apply F_fl]. Qed.

  (* catch turns the result into a value: output unchanged, result Ok *)
  Lemma Q_catch {A} (m : M cli A) : Spec m Qp -> Spec (catch m) Qp.
  Proof. intros Sm s r s' E. unfold catch in E. destruct (m s) as [r1 s1] eqn:Em. injection E as <- <-. destruct (Sm s r1 s1 Em) as (O & H & _). exists O. split; [exact H|exact I]. Qed.
End WithSink.

Section CliFlush.
  Variable okf : nat -> bool.
  Variable feats : features.
  Variable cs : cmdset.
  Variable handler : nat -> list N -> list (list N) -> list hop.

  Ltac smod := apply S_modify; intros; reflexivity.
  Hint Resolve S_ret S_get S_panic S_lift_opt S_reraise : spec.

  Lemma Q_w_lines ls : Spec (w_lines (wr okf) set_wst ls) Qp.
  Proof. induction ls as [|l ls IH]; cbn [w_lines]; [apply S_Q, S_ret|].
    apply bind_QQ; [apply Q_wr|intros]. apply bind_QQ; [apply Q_wr|intros]. apply bind_QQ; [apply S_Q; unfold w_set; smod|intros; exact IH]. Qed.
  Lemma Q_w_write_str t : Spec (w_write_str (wr okf) wst set_wst t) Qp.
  Proof. unfold w_write_str. destruct (split_lf [] t) as [ls rest]. apply bind_QQ; [apply Q_w_lines|intros].
    destruct rest; [apply S_Q, S_ret|]. apply bind_QQ; [apply Q_wr|intros]. apply bind_QQ; [apply S_Q, S_get|intros]. apply S_Q. unfold w_set. smod. Qed.
  Lemma Q_w_writeln_str t : Spec (w_writeln_str (wr okf) wst set_wst t) Qp.
  Proof. unfold w_writeln_str. apply bind_QQ; [apply Q_w_write_str|intros]. apply bind_QQ; [apply Q_wr|intros].
    apply bind_QQ; [apply S_Q, S_get|intros]. apply S_Q. unfold w_set. smod. Qed.
  Lemma Q_run_hops hs : Spec (run_hops okf hs) Qp.
  Proof. induction hs as [|h hs IH]; cbn [run_hops]; [apply S_Q, S_ret|]. destruct h.
    - apply bind_QQ; [apply Q_w_write_str|intros; exact IH].
    - apply bind_QQ; [apply Q_w_writeln_str|intros; exact IH].
    - apply bind_QQ; [apply S_Q; smod|intros; exact IH]. Qed.

  Lemma Q_mrepeat n (m : M cli unit) : Spec m Qp -> Spec (mrepeat n m) Qp.
  Proof. intros H. induction n as [|n IH]; cbn [mrepeat]; [apply S_Q, S_ret|]. apply bind_QQ; [exact H|intros; exact IH]. Qed.

  Lemma F_clear_line b : Spec (clear_line okf b) Fp.
  Proof. unfold clear_line. apply bind_QF; [apply Q_wr|intros]. apply bind_QF; [apply Q_wr|intros].
    apply bind_QF; [|intros; apply F_fl]. destruct b; [apply S_Q, S_ret|]. apply bind_QQ; [apply S_Q, S_get|intros; apply Q_wr]. Qed.
  Lemma F_redraw_line : Spec (redraw_line okf) Fp.
  Proof. unfold redraw_line. apply bind_QF; [apply S_Q, S_get|intros]. apply bind_QF; [apply Q_wr|intros].
    apply bind_QF; [apply Q_mrepeat, Q_wr|intros; apply F_fl]. Qed.

  Theorem F_api_build : Spec (api_build okf) Fp.
  Proof. unfold api_build. apply bind_QF; [apply S_Q, S_get|intros]. apply bind_QF; [apply Q_wr|intros; apply F_fl]. Qed.
  Theorem F_api_set_prompt p : Spec (api_set_prompt okf p) Fp.
  Proof. unfold api_set_prompt. apply bind_QF; [apply S_Q; smod|intros]. apply bind_QF; [apply F_Q, F_clear_line|intros; apply F_redraw_line]. Qed.
  Theorem F_api_write hs : Spec (api_write okf hs) Fp.
  Proof. unfold api_write. apply bind_QF; [apply F_Q, F_clear_line|intros]. apply bind_QF; [unfold new_writer; apply S_Q; smod|intros].
    apply bind_QF; [apply Q_run_hops|intros]. apply bind_QF; [apply S_Q, S_get|intros].
    apply bind_QF; [destruct (is_dirty (wst a2)); [apply Q_wr|apply S_Q, S_ret]|intros]. apply bind_QF; [apply Q_wr|intros; apply F_redraw_line]. Qed.

  Lemma P_on_text t : Spec (on_text okf t) Pp.
  Proof. unfold on_text. apply bind_SX; [unfold Pp, isOk; tauto|unfold Pp, isOk; tauto|apply S_get|intros s0].
    apply bind_SX; [unfold Pp, isOk; tauto|unfold Pp, isOk; tauto|apply S_lift_opt|intros [e' [|]]]; [|apply S_P, S_ret].
    apply F_P. apply bind_QF; [apply S_Q; smod|intros]. apply bind_QF; [destruct (Nat.ltb _ _); [apply Q_wr|apply S_Q, S_ret]|intros].
    apply bind_QF; [apply Q_wr|intros; apply F_fl]. Qed.

  Lemma Q_process_error e : Spec (process_error okf e) Qp.
  Proof. unfold process_error. apply bind_QQ; [apply Q_wr|intros]. apply bind_QQ; [|intros; apply bind_QQ; [apply Q_wr|intros; apply F_Q, F_fl]].
    destruct e; repeat (apply bind_QQ; [apply Q_wr|intros]); apply Q_wr. Qed.
  Lemma F_process_error e : Spec (process_error okf e) Fp.
  Proof. unfold process_error. apply bind_QF; [apply Q_wr|intros]. apply bind_QF; [|intros; apply bind_QF; [apply Q_wr|intros; apply F_fl]].
    destruct e; repeat (apply bind_QQ; [apply Q_wr|intros]); apply Q_wr. Qed.

  Lemma F_process_command name args : Spec (process_command okf cs handler name args) Fp.
  Proof. unfold process_command. destruct (cs_parse cs name args).
    - apply bind_QF; [apply F_Q, F_fl|intros; apply F_process_error].
    - apply bind_QF; [apply S_Q, S_get|intros s0]. apply bind_QF; [apply S_Q; smod|intros]. apply bind_QF; [unfold new_writer; apply S_Q; smod|intros].
      apply bind_QF; [apply Q_catch, Q_run_hops|intros r]. apply bind_QF; [apply S_Q, S_get|intros s1].
      apply bind_QF; [destruct (newp s1); [apply S_Q; smod|apply S_Q, S_ret]|intros].
      apply bind_QF; [destruct (is_dirty (wst s1)); [apply Q_wr|apply S_Q, S_ret]|intros].
      apply bind_FP; [apply F_fl|intros].
      apply bind_SX; [unfold Pp, isOk; tauto|unfold Pp, isOk; tauto|apply S_reraise|intros].
      destruct (cs_fail cs (length (hcalls s0)) name args); [apply F_P, F_process_error|apply S_P, S_ret]. Qed.
  Lemma F_process_help req : Spec (process_help okf cs req) Fp.
  Proof. unfold process_help. apply bind_QF; [unfold new_writer; apply S_Q; smod|intros]. apply bind_QF; [apply Q_run_hops|intros].
    apply bind_QF; [apply S_Q, S_get|intros s1]. apply bind_QF; [destruct (is_dirty (wst s1)); [apply Q_wr|apply S_Q, S_ret]|intros; apply F_fl]. Qed.
  Lemma P_process_input raw empty : Spec (process_input okf feats cs handler raw empty) Pp.
  Proof. unfold process_input. destruct (from_tokens (tokens_iter raw empty)) as [[name args]|]; [|apply S_P, S_ret].
    destruct (f_help feats); [|apply F_P, F_process_command].
    apply bind_SX; [unfold Pp, isOk; tauto|unfold Pp, isOk; tauto|apply S_lift_opt|intros [req|]]; [apply F_P, F_process_help|apply F_P, F_process_command]. Qed.

  Lemma F_on_enter : Spec (on_enter okf feats cs handler) Fp.
  Proof. unfold on_enter. apply bind_QF; [apply Q_wr|intros]. apply bind_QF; [apply S_Q, S_get|intros s0].
    apply bind_QF; [destruct (f_hist feats); [apply S_Q; apply bind_SS; [apply S_lift_opt|intros; smod]|apply S_Q, S_ret]|intros].
    apply bind_QF; [apply S_Q, S_lift_opt|intros [[buf' raw] empty]].
    apply bind_QF; [apply S_Q; smod|intros]. apply bind_QF; [apply Q_catch, P_Q, P_process_input|intros r].
    apply bind_QF; [apply S_Q; smod|intros]. apply bind_QF; [apply S_Q, S_reraise|intros].
    apply bind_QF; [apply S_Q, S_get|intros]. apply bind_QF; [apply Q_wr|intros; apply F_fl]. Qed.

  Lemma P_on_tab : Spec (on_tab okf feats cs) Pp.
  Proof. unfold on_tab. destruct (f_ac feats); [|apply S_P, S_ret].
    apply bind_SX; [unfold Pp, isOk; tauto|unfold Pp, isOk; tauto|apply S_get|intros s0].
    apply bind_SX; [unfold Pp, isOk; tauto|unfold Pp, isOk; tauto|apply S_lift_opt|intros e'].
    apply bind_SX; [unfold Pp, isOk; tauto|unfold Pp, isOk; tauto|smod|intros].
    destruct (Nat.ltb _ _); [apply F_P; apply bind_QF; [apply Q_wr|intros; apply F_fl]|apply S_P, S_ret]. Qed.
  Lemma P_on_backspace : Spec (on_backspace okf) Pp.
  Proof. unfold on_backspace. apply bind_SX; [unfold Pp, isOk; tauto|unfold Pp, isOk; tauto|apply S_get|intros s0].
    destruct (ed_move_left (ed s0)) as [e1 [|]]; [|apply S_P, S_ret].
    apply bind_SX; [unfold Pp, isOk; tauto|unfold Pp, isOk; tauto|apply S_lift_opt|intros e2].
    apply bind_SX; [unfold Pp, isOk; tauto|unfold Pp, isOk; tauto|smod|intros]. apply F_P.
    apply bind_QF; [apply F_Q, F_flush_bytes|intros; apply F_flush_bytes]. Qed.
  Lemma P_navigate_history older : Spec (navigate_history okf feats older) Pp.
  Proof. unfold navigate_history. destruct (f_hist feats); [|apply S_P, S_ret].
    apply bind_SX; [unfold Pp, isOk; tauto|unfold Pp, isOk; tauto|apply S_get|intros s0].
    apply bind_SX; [unfold Pp, isOk; tauto|unfold Pp, isOk; tauto|apply S_lift_opt|intros [h' el]].
    apply bind_SX; [unfold Pp, isOk; tauto|unfold Pp, isOk; tauto|smod|intros].
    destruct (if older then el else Some match el with Some x => x | None => [] end) as [x|]; [|apply S_P, S_ret].
    apply bind_SX; [unfold Pp, isOk; tauto|unfold Pp, isOk; tauto|apply S_lift_opt|intros r2].
    apply bind_SX; [unfold Pp, isOk; tauto|unfold Pp, isOk; tauto|smod|intros]. apply F_P.
    apply bind_QF; [apply F_Q, F_clear_line|intros]. apply bind_QF; [apply S_Q, S_get|intros]. apply bind_QF; [apply Q_wr|intros; apply F_fl]. Qed.
  Lemma P_navigate_input fwd : Spec (navigate_input okf fwd) Pp.
  Proof. unfold navigate_input. apply bind_SX; [unfold Pp, isOk; tauto|unfold Pp, isOk; tauto|apply S_get|intros s0].
    destruct (if fwd then ed_move_right (ed s0) else ed_move_left (ed s0)) as [e' [|]]; [|apply S_P, S_ret].
    apply bind_SX; [unfold Pp, isOk; tauto|unfold Pp, isOk; tauto|smod|intros]. apply F_P, F_flush_bytes. Qed.

  Lemma P_on_control c : Spec (on_control okf feats cs handler c) Pp.
  Proof. destruct c; cbn [on_control]; [apply P_on_backspace|apply P_navigate_history|apply F_P, F_on_enter|apply P_navigate_input|apply P_navigate_input|apply P_on_tab|apply P_navigate_history]. Qed.

  Theorem P_api_process_byte b : Spec (api_process_byte okf feats cs handler b) Pp.
  Proof. unfold api_process_byte. apply bind_SX; [unfold Pp, isOk; tauto|unfold Pp, isOk; tauto|apply S_get|intros s0].
    destruct (accept (ig s0) b) as [g' oi].
    apply bind_SX; [unfold Pp, isOk; tauto|unfold Pp, isOk; tauto|smod|intros].
    destruct oi as [[c|t]|]; [apply P_on_control|apply P_on_text|apply S_P, S_ret]. Qed.
End CliFlush.
