From EC Require Import Base Model.Utf8 Spec.Utf8Spec.

(* invariant of every reachable accumulator: the collected bytes are a proper prefix of some well-formed char *)
Definition ainv (a : accum) : Prop :=
  match expd a, buf a with
  | O, _ => True
  | 1%nat, [l] => 0xC2 <= l /\ l <= 0xDF
  | 2%nat, [l] => 0xE0 <= l /\ l <= 0xEF
  | 3%nat, [l] => 0xF0 <= l /\ l <= 0xF4
  | 1%nat, [l; b] => ((l = 0xE0 /\ 0xA0 <= b /\ b <= 0xBF) \/ (0xE1 <= l /\ l <= 0xEC /\ cont b)
                  \/ (l = 0xED /\ 0x80 <= b /\ b <= 0x9F) \/ (0xEE <= l /\ l <= 0xEF /\ cont b))
  | 2%nat, [l; b] => ((l = 0xF0 /\ 0x90 <= b /\ b <= 0xBF) \/ (0xF1 <= l /\ l <= 0xF3 /\ cont b)
                  \/ (l = 0xF4 /\ 0x80 <= b /\ b <= 0x8F))
  | 1%nat, [l; b; c] => ((l = 0xF0 /\ 0x90 <= b /\ b <= 0xBF) \/ (0xF1 <= l /\ l <= 0xF3 /\ cont b)
                  \/ (l = 0xF4 /\ 0x80 <= b /\ b <= 0x8F)) /\ cont c
  | _, _ => False
  end.

Lemma ainv_acc0 : ainv acc0. Proof. exact I. Qed.

Lemma push_inv a b : byte b -> ainv a -> ainv (fst (push a b)) /\
   forall s, snd (push a b) = Some s -> wf_char s.
Proof.
  unfold byte. intros Hb Ha. unfold push.
  destruct (0xF8 <=? b) eqn:?; [cbn; split; [exact Ha|discriminate]|].
  destruct (0xF5 <=? b) eqn:?; [cbn; split; [exact I|discriminate]|].
  destruct (0xF0 <=? b) eqn:?; [cbn; split; [lia|discriminate]|].
  destruct (0xE0 <=? b) eqn:?; [cbn; split; [lia|discriminate]|].
  destruct (0xC2 <=? b) eqn:?; [cbn; split; [lia|discriminate]|].
  destruct (0xC0 <=? b) eqn:?; [cbn; split; [exact I|discriminate]|].
  destruct (0x80 <=? b) eqn:?.
  2:{ cbn. split; [exact I|]. intros s [= <-]. cbn. lia. }
  destruct a as [e bf]. unfold ainv in Ha. cbn [expd buf] in *.
  destruct e as [|n]; [cbn; split; [exact I|discriminate]|].
  destruct n as [|[|[|n]]]; destruct bf as [|l [|b1 [|b2 [|b3 r]]]]; cbn [expd buf] in *; try contradiction;
  unfold second_ok;
  try (destruct (l =? 0xE0) eqn:?; destruct (l =? 0xED) eqn:?; destruct (l =? 0xF0) eqn:?; destruct (l =? 0xF4) eqn:?; try lia);
  repeat match goal with |- context [if ?c then _ else _] => destruct c eqn:? end;
  cbn; (split; [unfold cont in *; try exact I; try lia | intros s Hs; try discriminate; injection Hs as <-; cbn; unfold cont in *; lia]).
Qed.

Theorem every_output_wf : forall bs a, bytes bs -> ainv a ->
  ainv (fst (run a bs)) /\ Forall wf_char (snd (run a bs)).
Proof.
  induction bs as [|b r IH]; intros a Hb Ha; cbn [run]; [split; [exact Ha|constructor]|].
  inversion Hb as [|? ? Hb1 Hr]; subst.
  destruct (push_inv a b Hb1 Ha) as [Hi Ho].
  destruct (push a b) as [a1 o] eqn:Hp. cbn [fst snd] in *.
  destruct (IH a1 Hr Hi) as [Hi2 Hl]. destruct (run a1 r) as [a2 l]. cbn [fst snd] in *.
  split; [exact Hi2|]. destruct o; [constructor; [apply Ho; reflexivity|exact Hl]|exact Hl].
Qed.

Ltac pushc := unfold push, second_ok, cont in *; cbn [expd buf app];
  repeat match goal with |- context [if ?c then _ else _] => destruct c eqn:? end; try lia; try reflexivity.
Lemma push_ascii a x : x < 0x80 -> push a x = (acc0, Some [x]). Proof. intros; pushc. Qed.
Lemma push_l2 a x : 0xC2 <= x <= 0xDF -> push a x = ({|expd:=1;buf:=[x]|}, None). Proof. intros; pushc. Qed.
Lemma push_l3 a x : 0xE0 <= x <= 0xEF -> push a x = ({|expd:=2;buf:=[x]|}, None). Proof. intros; pushc. Qed.
Lemma push_l4 a x : 0xF0 <= x <= 0xF4 -> push a x = ({|expd:=3;buf:=[x]|}, None). Proof. intros; pushc. Qed.
Lemma push_c_last1 l y : cont y -> second_ok l y = true ->
  push {|expd:=1;buf:=[l]|} y = (acc0, Some [l;y]).
Proof. intros Hc Hs. unfold push. cbn [expd buf]. rewrite Hs. unfold cont in Hc.
  repeat match goal with |- context [if ?c then _ else _] => destruct c eqn:? end; try lia; reflexivity. Qed.
Lemma push_c_mid1 l y n : cont y -> second_ok l y = true ->
  push {|expd:=S (S n);buf:=[l]|} y = ({|expd:=S n;buf:=[l;y]|}, None).
Proof. intros Hc Hs. unfold push. cbn [expd buf]. rewrite Hs. unfold cont in Hc.
  repeat match goal with |- context [if ?c then _ else _] => destruct c eqn:? end; try lia; reflexivity. Qed.
Lemma push_c_last l1 l2 r y : cont y ->
  push {|expd:=1;buf:=l1::l2::r|} y = (acc0, Some ((l1::l2::r) ++ [y])).
Proof. intros Hc. unfold push. cbn [expd buf]. unfold cont in Hc.
  repeat match goal with |- context [if ?c then _ else _] => destruct c eqn:? end; try lia; reflexivity. Qed.
Lemma push_c_mid l1 l2 r y n : cont y ->
  push {|expd:=S (S n);buf:=l1::l2::r|} y = ({|expd:=S n;buf:=(l1::l2::r) ++ [y]|}, None).
Proof. intros Hc. unfold push. cbn [expd buf]. unfold cont in Hc.
  repeat match goal with |- context [if ?c then _ else _] => destruct c eqn:? end; try lia; reflexivity. Qed.

(* a well-formed character is emitted - exactly it, nothing else - from EVERY accumulator state *)
Theorem resync : forall a c, wf_char c -> run a c = (acc0, [c]).
Proof.
  intros a c H. destruct c as [|x [|y [|z [|w [|v r]]]]]; cbn in H; try contradiction.
  - cbn [run]. rewrite push_ascii by lia. reflexivity.
  - destruct H as (H1 & H2 & H3). cbn [run]. rewrite push_l2 by lia.
    rewrite push_c_last1; [reflexivity|exact H3|]. unfold second_ok; pushc.
  - destruct H as (H1 & H3). cbn [run]. rewrite push_l3 by (unfold cont in *; lia).
    assert (Hy : cont y) by (unfold cont in *; lia).
    rewrite push_c_mid1; [|exact Hy|unfold second_ok; pushc].
    rewrite push_c_last by exact H3. reflexivity.
  - destruct H as (H1 & H3 & H4). cbn [run]. rewrite push_l4 by (unfold cont in *; lia).
    assert (Hy : cont y) by (unfold cont in *; lia).
    rewrite push_c_mid1; [|exact Hy|unfold second_ok; pushc].
    rewrite push_c_mid by exact H3. cbn [app].
    rewrite push_c_last by exact H4. reflexivity.
Qed.

Lemma run_app a xs ys : run a (xs ++ ys) =
  let '(a1, l1) := run a xs in let '(a2, l2) := run a1 ys in (a2, l1 ++ l2).
Proof.
  revert a; induction xs as [|x xs IH]; intros a; cbn [run app].
  - destruct (run a ys); reflexivity.
  - destruct (push a x) as [a1 o]. rewrite IH. destruct (run a1 xs) as [a2 l]. destruct (run a2 ys) as [a3 l2].
    destruct o; reflexivity.
Qed.

(* running over a concatenation of well-formed characters emits exactly them *)
Lemma run_concat : forall cs a, Forall wf_char cs -> cs <> [] -> run a (concat cs) = (acc0, cs).
Proof.
  induction cs as [|c cs IH]; intros a H Hne; [congruence|].
  inversion H as [|? ? Hc Hcs]; subst. cbn [concat]. rewrite run_app, resync by exact Hc.
  destruct cs as [|c2 cs']; [cbn; reflexivity|].
  rewrite IH by (auto; congruence). reflexivity.
Qed.
Lemma run_concat0 : forall cs, Forall wf_char cs -> run acc0 (concat cs) = (acc0, cs).
Proof. intros [|c cs] H; [reflexivity|apply run_concat; [exact H|congruence]]. Qed.

(* boolean reflection *)
Lemma contb_spec b : contb b = true <-> cont b.
Proof. unfold contb, cont. lia. Qed.
Lemma wf_charb_spec s : wf_charb s = true <-> wf_char s.
Proof.
  destruct s as [|x [|y [|z [|w [|v r]]]]]; cbn; unfold contb, cont; try lia; split; try discriminate; try contradiction.
Qed.

Lemma wf_char_bytes c : wf_char c -> bytes c.
Proof.
  destruct c as [|x [|y [|z [|w [|v r]]]]]; cbn; unfold cont, bytes, byte; intros H; try contradiction;
  repeat constructor; lia.
Qed.
Lemma wf_char_nonempty c : wf_char c -> c <> [].
Proof. destruct c; cbn; [contradiction|congruence]. Qed.
Lemma wf_char_len c : wf_char c -> (1 <= length c <= 4)%nat.
Proof. destruct c as [|x [|y [|z [|w [|v r]]]]]; cbn; intros; try contradiction; lia. Qed.
