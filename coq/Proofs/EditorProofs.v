From EC Require Import Base Model.Utf8 Model.Utils Model.Editor Spec.Utf8Spec Spec.IdealEditor Proofs.ListFacts Proofs.Utf8Proofs Proofs.UtilsProofs.

(* representation relation between the byte-level editor and the ideal editor over characters *)
Definition Rep (cp : nat) (e : editor) (i : ideal) : Prop :=
  cap e = cp /\ text e = concat (chars i) /\ cursor e = icur i /\ Forall wf_char (chars i)
  /\ (icur i <= length (chars i))%nat /\ (length (concat (chars i)) <= cp)%nat.

Lemma Rep_init cp : Rep cp (ed_new cp) ideal0.
Proof. unfold Rep, ed_new, ideal0; cbn. repeat split; try constructor; lia. Qed.

Lemma ed_len_rep cp e i : Rep cp e i -> ed_len e = length (chars i).
Proof. intros (_ & Ht & _ & Hw & _). unfold ed_len. rewrite Ht. apply char_count_concat, Hw. Qed.

(* insert *)
Theorem insert_refines cp e i cs : Rep cp e i -> Forall wf_char cs ->
  exists e', ed_insert e (concat cs) = Some (e', snd (ideal_step cp i (IInsert cs))) /\ Rep cp e' (fst (ideal_step cp i (IInsert cs))).
Proof.
  intros (Hc & Ht & Hcu & Hw & Hle & Hfit) Hcs. unfold ed_insert, ideal_step, ibytes.
  rewrite Hc, Ht. destruct (Nat.ltb_spec cp (length (concat (chars i)))) as [|_]; [lia|].
  destruct (Nat.leb_spec (length (concat (chars i)) + length (concat cs)) cp) as [Hok|Hno].
  2:{ destruct (Nat.ltb_spec (cp - length (concat (chars i))) (length (concat cs))); [|lia].
      exists e. split; [reflexivity|]. cbn [fst]. unfold Rep. auto 10. }
  destruct (Nat.ltb_spec (cp - length (concat (chars i))) (length (concat cs))); [lia|].
  rewrite Hcu, cbi_spec by exact Hw.
  destruct (Nat.ltb_spec (icur i) (length (chars i))) as [Hin|Hend].
  - pose proof (length_concat_firstn_le (chars i) (icur i)).
    destruct (Nat.ltb_spec (length (concat (chars i))) (length (concat (firstn (icur i) (chars i))))); [lia|].
    eexists. split; [reflexivity|]. cbn [fst]. unfold Rep. cbn [cap text cursor chars IdealEditor.icur].
    rewrite firstn_concat_len, skipn_concat_len, !concat_app, char_count_concat by exact Hcs.
    repeat split; auto.
    + repeat apply Forall_app_intro; auto using Forall_firstn, Forall_skipn.
    + rewrite !app_length, firstn_length, skipn_length. lia.
    + pose proof (concat_firstn_skipn (chars i) (icur i)) as Hsp. apply (f_equal (@length N)) in Hsp.
      rewrite !app_length in *. lia.
  - assert (icur i = length (chars i)) by lia.
    destruct (Nat.ltb_spec (length (concat (chars i))) (length (concat (chars i)))); [lia|].
    eexists. split; [reflexivity|]. cbn [fst]. unfold Rep. cbn [cap text cursor chars IdealEditor.icur].
    rewrite firstn_all, skipn_all, app_nil_r, char_count_concat by exact Hcs.
    replace (firstn (icur i) (chars i)) with (chars i) by (symmetry; apply firstn_all2; lia).
    replace (skipn (icur i) (chars i)) with (@nil (list N)) by (symmetry; apply skipn_all2; lia).
    rewrite app_nil_r, concat_app. repeat split; auto.
    + apply Forall_app_intro; auto.
    + rewrite app_length. lia.
    + rewrite app_length. lia.
Qed.

(* a rejected insert changes nothing *)
Corollary insert_rejected cp e i cs : Rep cp e i -> Forall wf_char cs -> snd (ideal_step cp i (IInsert cs)) = false ->
  ed_insert e (concat cs) = Some (e, false).
Proof.
  intros (Hc & Ht & Hcu & Hw & Hle & Hfit) Hcs. unfold ed_insert, ideal_step, ibytes.
  rewrite Hc, Ht. destruct (Nat.ltb_spec cp (length (concat (chars i)))) as [|_]; [lia|].
  destruct (Nat.leb_spec (length (concat (chars i)) + length (concat cs)) cp) as [Hok|Hno]; [discriminate|]. intros _.
  destruct (Nat.ltb_spec (cp - length (concat (chars i))) (length (concat cs))); [reflexivity|lia].
Qed.

Theorem move_left_refines cp e i : Rep cp e i ->
  Rep cp (fst (ed_move_left e)) (fst (ideal_step cp i ILeft)) /\ snd (ed_move_left e) = snd (ideal_step cp i ILeft).
Proof.
  intros (Hc & Ht & Hcu & Hw & Hle & Hfit). unfold ed_move_left, ideal_step. rewrite Hcu.
  destruct (icur i) as [|c] eqn:E; cbn [fst snd].
  - split; [|reflexivity]. unfold Rep. rewrite E. auto 10.
  - split; [|reflexivity]. unfold Rep. cbn. repeat split; auto; lia.
Qed.

Theorem move_right_refines cp e i : Rep cp e i ->
  Rep cp (fst (ed_move_right e)) (fst (ideal_step cp i IRight)) /\ snd (ed_move_right e) = snd (ideal_step cp i IRight).
Proof.
  intros R. pose proof (ed_len_rep cp e i R) as L. destruct R as (Hc & Ht & Hcu & Hw & Hle & Hfit).
  unfold ed_move_right, ideal_step. rewrite L, Hcu.
  destruct (Nat.ltb_spec (icur i) (length (chars i))); cbn [fst snd]; (split; [|reflexivity]); unfold Rep; cbn; repeat split; auto; lia.
Qed.

Lemma skipn_S_concat (cs : list (list N)) k c : nth_error cs k = Some c -> concat (skipn k cs) = c ++ concat (skipn (S k) cs).
Proof.
  revert k. induction cs as [|x cs IH]; intros [|k] H; cbn in H; try discriminate.
  - injection H as ->. reflexivity.
  - cbn [skipn]. apply IH, H.
Qed.

Theorem remove_refines cp e i : Rep cp e i ->
  exists e', ed_remove e = Some e' /\ Rep cp e' (fst (ideal_step cp i IRemove)).
Proof.
  intros (Hc & Ht & Hcu & Hw & Hle & Hfit). unfold ed_remove, ideal_step. rewrite Ht, Hcu, cbi_spec by exact Hw.
  destruct (Nat.ltb_spec (icur i) (length (chars i))) as [Hin|Hend].
  2:{ exists e. split; [reflexivity|]. cbn [fst]. unfold Rep. cbn [chars IdealEditor.icur].
      rewrite firstn_all2, skipn_all2, app_nil_r by lia. auto 10. }
  pose proof (length_concat_firstn_le (chars i) (icur i)) as Hl.
  destruct (Nat.ltb_spec (length (concat (chars i))) (length (concat (firstn (icur i) (chars i))))); [lia|].
  rewrite skipn_concat_len.
  destruct (nth_error (chars i) (icur i)) as [c|] eqn:En; [|apply nth_error_None in En; lia].
  assert (Hwc : wf_char c) by (eapply Forall_forall; [exact Hw|eapply nth_error_In; exact En]).
  rewrite cbi_spec by (apply Forall_skipn, Hw).
  rewrite skipn_length.
  assert (Hsk : firstn 1 (skipn (icur i) (chars i)) = [c]).
  { clear -En. revert En. generalize (icur i). induction (chars i) as [|x l IH]; intros [|k] H; cbn in H; try discriminate.
    - injection H as ->. reflexivity.
    - cbn [skipn]. apply IH, H. }
  destruct (Nat.ltb_spec 1 (length (chars i) - icur i)) as [Hmore|Hlast].
  - rewrite Hsk. cbn [concat]. rewrite app_nil_r.
    pose proof (skipn_S_concat _ _ _ En) as Hs.
    assert (Hlen : (length c + length (concat (firstn (icur i) (chars i))) <= length (concat (chars i)))%nat).
    { pose proof (concat_firstn_skipn (chars i) (icur i)) as Hsp. apply (f_equal (@length N)) in Hsp.
      rewrite Hs, !app_length in Hsp. lia. }
    destruct (Nat.ltb_spec (length (concat (chars i))) (length c + length (concat (firstn (icur i) (chars i))))); [lia|].
    eexists. split; [reflexivity|]. cbn [fst]. unfold Rep. cbn [cap text cursor chars IdealEditor.icur].
    rewrite firstn_concat_len.
    assert (Esk : skipn (length c + length (concat (firstn (icur i) (chars i)))) (concat (chars i)) = concat (skipn (S (icur i)) (chars i))).
    { rewrite Nat.add_comm, <- skipn_skipn. rewrite skipn_concat_len, Hs.
      rewrite skipn_app, Nat.sub_diag, skipn_all. reflexivity. }
    rewrite Esk, concat_app. repeat split; auto.
    + apply Forall_app_intro; auto using Forall_firstn, Forall_skipn.
    + rewrite app_length, firstn_length, skipn_length. lia.
    + pose proof (concat_firstn_skipn (chars i) (icur i)) as Hsp. apply (f_equal (@length N)) in Hsp.
      rewrite Hs, !app_length in Hsp. rewrite app_length. lia.
  - eexists. split; [reflexivity|]. cbn [fst]. unfold Rep. cbn [cap text cursor chars IdealEditor.icur].
    rewrite firstn_concat_len. rewrite (skipn_all2 (chars i)) by lia. rewrite app_nil_r.
    repeat split; auto using Forall_firstn.
    + rewrite firstn_length. lia.
    + lia.
Qed.

Theorem clear_refines cp e i : Rep cp e i -> Rep cp (ed_clear e) (fst (ideal_step cp i IClear)).
Proof. intros (Hc & _). unfold Rep, ed_clear, ideal_step, ideal0. cbn. repeat split; auto; try constructor; lia. Qed.

(* ---- all operation sequences *)
Inductive eop := EInsert (cs : list (list N)) | ELeft | ERight | ERemove | EClear.
Definition eop_wf (o : eop) : Prop := match o with EInsert cs => Forall wf_char cs | _ => True end.
Definition to_iop (o : eop) : iop :=
  match o with EInsert cs => IInsert cs | ELeft => ILeft | ERight => IRight | ERemove => IRemove | EClear => IClear end.
Definition ed_step (e : editor) (o : eop) : option (editor * bool) :=
  match o with
  | EInsert cs => ed_insert e (concat cs)
  | ELeft => Some (ed_move_left e)
  | ERight => Some (ed_move_right e)
  | ERemove => option_map (fun e' => (e', true)) (ed_remove e)
  | EClear => Some (ed_clear e, true)
  end.

Theorem step_refines cp e i o : Rep cp e i -> eop_wf o ->
  exists e', ed_step e o = Some (e', snd (ideal_step cp i (to_iop o))) /\ Rep cp e' (fst (ideal_step cp i (to_iop o))).
Proof.
  intros R Hw. destruct o as [cs| | | |]; cbn [ed_step to_iop].
  - apply insert_refines; assumption.
  - destruct (move_left_refines cp e i R) as [H1 H2]. exists (fst (ed_move_left e)). rewrite <- H2, <- surjective_pairing. auto.
  - destruct (move_right_refines cp e i R) as [H1 H2]. exists (fst (ed_move_right e)). rewrite <- H2, <- surjective_pairing. auto.
  - destruct (remove_refines cp e i R) as (e' & H1 & H2). exists e'. rewrite H1. cbn. auto.
  - exists (ed_clear e). split; [reflexivity|apply clear_refines, R].
Qed.

Fixpoint ed_run (e : editor) (os : list eop) : option (editor * list bool) :=
  match os with
  | [] => Some (e, [])
  | o :: r => do x <- ed_step e o; do y <- ed_run (fst x) r; Some (fst y, snd x :: snd y)
  end.
Fixpoint ideal_run (cp : nat) (i : ideal) (os : list iop) : ideal * list bool :=
  match os with
  | [] => (i, [])
  | o :: r => let '(i1, b) := ideal_step cp i o in let '(i2, bs) := ideal_run cp i1 r in (i2, b :: bs)
  end.

Theorem run_refines cp : forall os e i, Rep cp e i -> Forall eop_wf os ->
  exists e', ed_run e os = Some (e', snd (ideal_run cp i (map to_iop os))) /\ Rep cp e' (fst (ideal_run cp i (map to_iop os))).
Proof.
  induction os as [|o r IH]; intros e i R Hw; cbn [ed_run ideal_run map].
  - exists e. auto.
  - inversion Hw as [|? ? Ho Hr]; subst.
    destruct (step_refines cp e i o R Ho) as (e1 & H1 & R1). rewrite H1. cbn [obind fst snd].
    destruct (ideal_step cp i (to_iop o)) as [i1 b] eqn:Ei. cbn [fst snd] in *.
    destruct (IH e1 i1 R1 Hr) as (e2 & H2 & R2). rewrite H2. cbn [obind fst snd].
    destruct (ideal_run cp i1 (map to_iop r)) as [i2 bs]. cbn [fst snd] in *. exists e2. auto.
Qed.
