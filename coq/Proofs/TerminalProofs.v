(* C06, terminal side: what the byte-level ECMA-48 terminal of Spec/Terminal.v does with the sequences the library emits. *)
From Coq Require Import ZArith.
From EC Require Import Base Generated.Codes Spec.Utf8Spec Spec.ArgSpec Spec.Terminal Proofs.ListFacts Proofs.Utf8Proofs Proofs.ArgsProofs Proofs.TokenValid.
Ltac Zify.zify_post_hook ::= Z.div_mod_to_equations.

Definition ge32 (b : N) : Prop := 32 <= b.
(* a printable character: one well-formed UTF-8 scalar, no byte below 0x20 *)
Definition pchar (c : list N) : Prop := wf_char c /\ Forall ge32 c.

Lemma tfeed_app T a b : tfeed T (a ++ b) = tfeed (tfeed T a) b.
Proof. apply fold_left_app. Qed.
Lemma tfeed_nil T : tfeed T [] = T. Proof. reflexivity. Qed.

(* ---------- the lexer on one printable character *)
Lemma tfeed_pchar t c : pchar c -> tfeed (t, LG) c = (feed1 t (TChar c), LG).
Proof.
  intros [Hw Hg]. destruct c as [|a [|b [|c3 [|d [|e r]]]]]; cbn in Hw; try contradiction.
  - inversion Hg as [|? ? Ha _]; subst. unfold ge32 in Ha. cbn [tfeed fold_left tstep].
    assert (E13 : (a =? 13) = false) by lia. assert (E10 : (a =? 10) = false) by lia. assert (E8 : (a =? 8) = false) by lia. assert (E27 : (a =? 27) = false) by lia. assert (E32 : (a <? 32) = false) by lia.
    rewrite E13, E10, E8, E27, E32. unfold lead_len. assert (E80 : (a <? 128) = true) by lia. rewrite E80. reflexivity.
  - destruct Hw as (H1 & H2 & H3). cbn [tfeed fold_left tstep].
    assert (E13 : (a =? 13) = false) by lia. assert (E10 : (a =? 10) = false) by lia. assert (E8 : (a =? 8) = false) by lia. assert (E27 : (a =? 27) = false) by lia. assert (E32 : (a <? 32) = false) by lia.
    rewrite E13, E10, E8, E27, E32. unfold lead_len. assert (E80 : (a <? 128) = false) by lia. assert (EE0 : (a <? 224) = true) by lia. rewrite E80, EE0. reflexivity.
  - destruct Hw as (H1 & H3). cbn [tfeed fold_left tstep].
    assert (E13 : (a =? 13) = false) by lia. assert (E10 : (a =? 10) = false) by lia. assert (E8 : (a =? 8) = false) by lia. assert (E27 : (a =? 27) = false) by lia. assert (E32 : (a <? 32) = false) by lia.
    rewrite E13, E10, E8, E27, E32. unfold lead_len. assert (E80 : (a <? 128) = false) by lia. assert (EE0 : (a <? 224) = false) by lia. assert (EF0 : (a <? 240) = true) by lia.
    rewrite E80, EE0, EF0. reflexivity.
  - destruct Hw as (H1 & H3 & H4). cbn [tfeed fold_left tstep].
    assert (E13 : (a =? 13) = false) by lia. assert (E10 : (a =? 10) = false) by lia. assert (E8 : (a =? 8) = false) by lia. assert (E27 : (a =? 27) = false) by lia. assert (E32 : (a <? 32) = false) by lia.
    rewrite E13, E10, E8, E27, E32. unfold lead_len. assert (E80 : (a <? 128) = false) by lia. assert (EE0 : (a <? 224) = false) by lia. assert (EF0 : (a <? 240) = false) by lia.
    rewrite E80, EE0, EF0. reflexivity.
Qed.

Definition put_chars (t : vterm) (cs : list cell) : vterm := fold_left (fun t c => feed1 t (TChar c)) cs t.
Lemma tfeed_pchars : forall cs t, Forall pchar cs -> tfeed (t, LG) (concat cs) = (put_chars t cs, LG).
Proof.
  induction cs as [|c cs IH]; intros t H; [reflexivity|]. inversion H as [|? ? Hc Hcs]; subst.
  cbn [concat]. rewrite tfeed_app, tfeed_pchar by exact Hc. rewrite IH by exact Hcs. reflexivity.
Qed.

(* ---------- rows *)
Lemma overwrite_in : forall r c x, (c <= length r)%nat -> overwrite r c x = firstn c r ++ x :: skipn (S c) r.
Proof.
  induction r as [|y r IH]; intros c x Hc.
  - cbn in Hc. assert (c = O) by lia. subst. reflexivity.
  - destruct c as [|c]; [reflexivity|]. cbn [overwrite firstn skipn app]. cbn in Hc. rewrite IH by lia. reflexivity.
Qed.
Lemma delete_in : forall r c, (c < length r)%nat -> delete_at r c = firstn c r ++ skipn (S c) r.
Proof.
  induction r as [|y r IH]; intros c Hc; [cbn in Hc; lia|].
  destruct c as [|c]; [reflexivity|]. cbn [delete_at firstn skipn app]. cbn in Hc. rewrite IH by lia. reflexivity.
Qed.
Lemma insert_in : forall r c, (c < length r)%nat -> insert_at r c = firstn c r ++ blank :: skipn c r.
Proof.
  induction r as [|y r IH]; intros c Hc; [cbn in Hc; lia|].
  destruct c as [|c]; [reflexivity|]. cbn [insert_at firstn skipn app]. cbn in Hc. rewrite IH by lia. reflexivity.
Qed.

Lemma put_chars_rows : forall cs t, rows (put_chars t cs) = rows t.
Proof. induction cs as [|c cs IH]; intros t; [reflexivity|]. cbn [put_chars fold_left]. fold (put_chars (feed1 t (TChar c)) cs). rewrite IH. reflexivity. Qed.
Lemma put_chars_col : forall cs t, col (put_chars t cs) = (col t + length cs)%nat.
Proof. induction cs as [|c cs IH]; intros t; [cbn; lia|]. cbn [put_chars fold_left]. fold (put_chars (feed1 t (TChar c)) cs). rewrite IH. cbn. lia. Qed.
(* printing over a row: the cells from the column on are replaced, the row grows if needed *)
Lemma overwrite_app : forall (A B : list cell) x, overwrite (A ++ B) (length A) x = A ++ x :: tl B.
Proof. induction A as [|a A IH]; intros B x; [destruct B; reflexivity|]. cbn [app length overwrite]. rewrite IH. reflexivity. Qed.
Lemma skipn_S_tl {X} : forall n (l : list X), skipn (S n) l = skipn n (tl l).
Proof. intros n [|x l]; [rewrite !skipn_nil; reflexivity|reflexivity]. Qed.
Lemma put_chars_split : forall cs t A B, row t = A ++ B -> col t = length A ->
  row (put_chars t cs) = A ++ cs ++ skipn (length cs) B.
Proof.
  induction cs as [|c cs IH]; intros t A B Hr Hc; [exact Hr|].
  cbn [put_chars fold_left]. fold (put_chars (feed1 t (TChar c)) cs).
  rewrite (IH _ (A ++ [c]) (tl B)).
  - rewrite <- app_assoc. cbn [app length]. rewrite skipn_S_tl. reflexivity.
  - cbn [feed1 row]. rewrite Hr, Hc, overwrite_app, <- app_assoc. reflexivity.
  - cbn [feed1 col]. rewrite Hc, app_length. cbn. lia.
Qed.

(* ---------- the sequences of codes.rs (closed computations over a symbolic screen) *)
Lemma tfeed_cr t : tfeed (t, LG) [CARRIAGE_RETURN] = (feed1 t TCR, LG). Proof. reflexivity. Qed.
Lemma tfeed_crlf t : tfeed (t, LG) CRLF = (feed1 (feed1 t TCR) TLF, LG). Proof. reflexivity. Qed.
Lemma tfeed_cuf t : tfeed (t, LG) CURSOR_FORWARD = (feed1 t TCUF, LG). Proof. reflexivity. Qed.
Lemma tfeed_cub t : tfeed (t, LG) CURSOR_BACKWARD = (feed1 t TCUB, LG). Proof. reflexivity. Qed.
Lemma tfeed_dch t : tfeed (t, LG) DELETE_CHAR = (feed1 t TDCH, LG). Proof. reflexivity. Qed.
Lemma tfeed_ich t : tfeed (t, LG) INSERT_CHAR = (feed1 t TICH, LG). Proof. reflexivity. Qed.
Lemma tfeed_el2 t : tfeed (t, LG) CLEAR_LINE = (feed1 t TEL2, LG). Proof. reflexivity. Qed.

Lemma tfeed_cubs : forall n t, tfeed (t, LG) (concat (repeat CURSOR_BACKWARD n)) = ({| rows := rows t; row := row t; col := col t - n |}, LG).
Proof.
  induction n as [|n IH]; intros t.
  - cbn [repeat concat tfeed fold_left]. rewrite Nat.sub_0_r. destruct t; reflexivity.
  - cbn [repeat concat]. rewrite tfeed_app, tfeed_cub, IH. cbn [feed1 rows row col]. f_equal. f_equal. lia.
Qed.

(* ---------- output that leaves the lexer in the ground state / the cursor on a fresh row *)
Definition Plain (B : list N) : Prop := forall t, snd (tfeed (t, LG) B) = LG.
Definition Fresh (B : list N) : Prop := forall t, exists rs, tfeed (t, LG) B = ({| rows := rs; row := []; col := 0 |}, LG).

Lemma Plain_nil : Plain []. Proof. intros t. reflexivity. Qed.
Lemma Plain_app a b : Plain a -> Plain b -> Plain (a ++ b).
Proof. intros Ha Hb t. rewrite tfeed_app. specialize (Ha t). destruct (tfeed (t, LG) a) as [t1 l1]. cbn in Ha. subst l1. apply Hb. Qed.
Lemma Plain_pchar c : pchar c -> Plain c. Proof. intros H t. rewrite tfeed_pchar by exact H. reflexivity. Qed.
Lemma Plain_crlf : Plain [13; 10]. Proof. intros t. reflexivity. Qed.
Lemma Plain_concat cs : Forall Plain cs -> Plain (concat cs).
Proof. induction 1 as [|c cs Hc _ IH]; [apply Plain_nil|]. cbn [concat]. apply Plain_app; assumption. Qed.
Lemma Fresh_crlf : Fresh [13; 10]. Proof. intros t. eexists. reflexivity. Qed.
Lemma Fresh_app a b : Plain a -> Fresh b -> Fresh (a ++ b).
Proof. intros Ha Hb t. rewrite tfeed_app. specialize (Ha t). destruct (tfeed (t, LG) a) as [t1 l1]. cbn in Ha. subst l1. apply Hb. Qed.
Lemma Fresh_Plain a : Fresh a -> Plain a.
Proof. intros H t. destruct (H t) as [rs ->]. reflexivity. Qed.

(* ASCII text without control characters *)
Lemma pchar_ascii b : 32 <= b -> b < 128 -> pchar [b].
Proof. intros H1 H2. split; [exact H2|]. constructor; [exact H1|constructor]. Qed.
Lemma Plain_ascii bs : Forall (fun b => 32 <= b /\ b < 128) bs -> Plain bs.
Proof.
  induction 1 as [|b bs [H1 H2] _ IH]; [apply Plain_nil|]. change (b :: bs) with ([b] ++ bs). apply Plain_app; [|exact IH].
  apply Plain_pchar, pchar_ascii; assumption.
Qed.

(* printable text: valid UTF-8 without bytes below 0x20 *)
Definition ptext (bs : list N) : Prop := valid_tok bs /\ Forall ge32 bs.
Lemma Forall_concat_inv {A} (P : A -> Prop) (ls : list (list A)) : Forall P (concat ls) -> Forall (Forall P) ls.
Proof.
  induction ls as [|l ls IH]; intros H; [constructor|]. cbn [concat] in H. apply Forall_app in H. destruct H as [H1 H2]. constructor; auto.
Qed.
Lemma ptext_chars bs : ptext bs -> exists cs, bs = concat cs /\ Forall pchar cs.
Proof.
  intros [(cs & Hw & ->) Hg]. exists cs. split; [reflexivity|]. apply Forall_concat_inv in Hg.
  rewrite Forall_forall in *. intros c Hc. split; auto.
Qed.
Lemma ptext_chars_of bs : ptext bs -> bs = concat (chars_of bs) /\ Forall pchar (chars_of bs).
Proof.
  intros H. destruct (ptext_chars bs H) as (cs & -> & Hp).
  assert (Hw : Forall wf_char cs) by (rewrite Forall_forall in *; intros c Hc; exact (proj1 (Hp c Hc))).
  rewrite chars_of_concat by exact Hw. auto.
Qed.
Lemma Plain_ptext bs : ptext bs -> Plain bs.
Proof. intros H. destruct (ptext_chars bs H) as (cs & -> & Hp). apply Plain_concat. rewrite Forall_forall in *. intros c Hc. apply Plain_pchar. auto. Qed.
Lemma ptext_app a b : ptext a -> ptext b -> ptext (a ++ b).
Proof.
  intros [(ca & Ha & ->) Ga] [(cb & Hb & ->) Gb]. split; [|apply Forall_app_intro; assumption].
  exists (ca ++ cb). split; [apply Forall_app_intro; assumption|]. rewrite concat_app. reflexivity.
Qed.
Lemma ptext_nil : ptext []. Proof. split; [exists []; split; [constructor|reflexivity]|constructor]. Qed.
Lemma ptext_of_pchars cs : Forall pchar cs -> ptext (concat cs).
Proof.
  intros H. split.
  - exists cs. split; [|reflexivity]. rewrite Forall_forall in *. intros c Hc. exact (proj1 (H c Hc)).
  - induction H as [|c cs [_ Hc] _ IH]; [constructor|]. cbn [concat]. apply Forall_app_intro; assumption.
Qed.

(* printing printable text at the cursor *)
Lemma tfeed_ptext t bs : ptext bs -> tfeed (t, LG) bs = (put_chars t (chars_of bs), LG).
Proof. intros H. destruct (ptext_chars_of bs H) as [E Hp]. rewrite E at 1. apply tfeed_pchars. exact Hp. Qed.

(* ---------- the view: prompt cells, line cells, trailing blanks; cursor column *)
Definition View (T : tstate) (P C : list cell) (k : nat) : Prop :=
  snd T = LG /\ (exists j, row (fst T) = P ++ C ++ repeat blank j) /\ col (fst T) = (length P + k)%nat /\ (k <= length C)%nat.

Lemma repeat_app_blank a b : repeat blank a ++ repeat blank b = repeat blank (a + b).
Proof. symmetry. apply repeat_app. Qed.

Lemma View_right T P C k : View T P C k -> (k < length C)%nat -> View (tfeed T CURSOR_FORWARD) P C (S k).
Proof.
  destruct T as [t l]. intros (Hl & Hr & Hc & Hk) Hlt. cbn [snd fst] in *. subst l. rewrite tfeed_cuf.
  repeat split; cbn [fst snd feed1 row col]; [exact Hr|lia|lia].
Qed.
Lemma View_left T P C k : View T P C (S k) -> View (tfeed T CURSOR_BACKWARD) P C k.
Proof.
  destruct T as [t l]. intros (Hl & Hr & Hc & Hk). cbn [snd fst] in *. subst l. rewrite tfeed_cub.
  repeat split; cbn [fst snd feed1 row col]; [exact Hr|lia|lia].
Qed.

Lemma firstn_app_exact {X} (a b : list X) : firstn (length a) (a ++ b) = a.
Proof. rewrite firstn_app, Nat.sub_diag, firstn_all, firstn_O, app_nil_r. reflexivity. Qed.
Lemma skipn_app_exact {X} (a b : list X) : skipn (length a) (a ++ b) = b.
Proof. rewrite skipn_app, Nat.sub_diag, skipn_all. reflexivity. Qed.

(* a typed character: ICH first when inside the line *)
Lemma View_insert T P C k c : View T P C k -> pchar c ->
  View (tfeed T ((if Nat.ltb k (length C) then INSERT_CHAR else []) ++ c)) P (firstn k C ++ [c] ++ skipn k C) (k + 1).
Proof.
  destruct T as [t l]. intros (Hl & (j & Hr) & Hc & Hk) Hp. cbn [snd fst] in *. subst l.
  assert (Hsplit : C = firstn k C ++ skipn k C) by (symmetry; apply firstn_skipn).
  assert (Hlen : length (P ++ firstn k C) = col t) by (rewrite app_length, firstn_length_le by exact Hk; lia).
  destruct (Nat.ltb_spec k (length C)) as [Hlt|Hge].
  - rewrite tfeed_app, tfeed_ich, tfeed_pchar by exact Hp.
    assert (Hrow : row t = (P ++ firstn k C) ++ skipn k C ++ repeat blank j) by (rewrite <- !app_assoc, (app_assoc (firstn k C)), <- Hsplit; exact Hr).
    assert (Hins : insert_at (row t) (col t) = (P ++ firstn k C) ++ blank :: skipn k C ++ repeat blank j).
    { rewrite insert_in.
      - rewrite Hrow, <- Hlen, firstn_app_exact, skipn_app_exact. reflexivity.
      - rewrite Hr, !app_length. lia. }
    repeat split; cbn [fst snd feed1 row col].
    + exists j. rewrite Hins, <- Hlen, overwrite_app. cbn [tl]. rewrite <- !app_assoc. reflexivity.
    + lia.
    + rewrite !app_length, firstn_length_le, skipn_length by exact Hk. cbn. lia.
  - assert (k = length C) by lia. subst k. rewrite firstn_all, skipn_all. cbn [app]. rewrite tfeed_pchar by exact Hp.
    repeat split; cbn [fst snd feed1 row col].
    + assert (Hlen' : col t = length (P ++ C)) by (rewrite app_length; lia).
      rewrite Hr, app_assoc, Hlen', overwrite_app. destruct j as [|j]; [exists O|exists j]; cbn [repeat tl]; rewrite <- !app_assoc; reflexivity.
    + lia.
    + rewrite !app_length. cbn. lia.
Qed.

(* Backspace: CUB then DCH *)
Lemma View_backspace T P C k : View T P C (S k) ->
  View (tfeed T (CURSOR_BACKWARD ++ DELETE_CHAR)) P (firstn k C ++ skipn (S k) C) k.
Proof.
  destruct T as [t l]. intros (Hl & (j & Hr) & Hc & Hk). cbn [snd fst] in *. subst l.
  rewrite tfeed_app, tfeed_cub, tfeed_dch.
  assert (Hlen : length (P ++ firstn k C) = pred (col t)) by (rewrite app_length, firstn_length_le by lia; lia).
  assert (Hrow : row t = (P ++ firstn k C) ++ skipn k C ++ repeat blank j) by (rewrite <- !app_assoc, (app_assoc (firstn k C)), firstn_skipn; exact Hr).
  repeat split; cbn [fst snd feed1 row col].
  - exists j. rewrite delete_in by (rewrite Hr, !app_length; lia).
    rewrite Hrow, <- Hlen, firstn_app_exact.
    replace (S (length (P ++ firstn k C))) with (length (P ++ firstn k C) + 1)%nat by lia. rewrite <- skipn_skipn, skipn_app_exact.
    destruct (skipn k C) as [|x rest] eqn:Es; [exfalso; assert (length (skipn k C) = O) by (rewrite Es; reflexivity); rewrite skipn_length in *; lia|].
    assert (Es1 : skipn (S k) C = rest) by (replace (S k) with (k + 1)%nat by lia; rewrite <- skipn_skipn, Es; reflexivity).
    rewrite Es1. cbn [app skipn]. rewrite <- !app_assoc. reflexivity.
  - lia.
  - rewrite app_length, firstn_length_le, skipn_length by lia. lia.
Qed.

(* CR, EL 2, prompt, text: the line redrawn from scratch with the cursor at its end *)
Definition fresh (t : vterm) : Prop := row t = [] /\ col t = O.
Lemma View_print t p x : fresh t -> ptext p -> ptext x -> View (tfeed (t, LG) (p ++ x)) (chars_of p) (chars_of x) (length (chars_of x)).
Proof.
  intros [Hr Hc] Hp Hx. rewrite tfeed_app, tfeed_ptext, tfeed_ptext by assumption.
  repeat split; cbn [fst snd].
  - exists O. cbn [repeat]. rewrite app_nil_r.
    rewrite (put_chars_split (chars_of x) _ (chars_of p) []).
    + rewrite skipn_nil, app_nil_r. reflexivity.
    + rewrite (put_chars_split (chars_of p) t [] []); [rewrite skipn_nil, app_nil_r; reflexivity|exact Hr|exact Hc].
    + rewrite put_chars_col, Hc. reflexivity.
  - rewrite !put_chars_col, Hc. unfold cell in *. lia.
  - unfold cell in *. lia.
Qed.
Lemma fresh_cr_el2 t : fresh (feed1 (feed1 t TCR) TEL2). Proof. split; reflexivity. Qed.
Lemma View_redraw T p x : snd T = LG -> ptext p -> ptext x ->
  View (tfeed T ([CARRIAGE_RETURN] ++ CLEAR_LINE ++ p ++ x)) (chars_of p) (chars_of x) (length (chars_of x)).
Proof.
  destruct T as [t l]. cbn [snd]. intros -> Hp Hx. rewrite tfeed_app, tfeed_cr, tfeed_app, tfeed_el2.
  apply View_print; [apply fresh_cr_el2|exact Hp|exact Hx].
Qed.
(* walking back from the end of the line to the editor cursor *)
Lemma View_back T P C k : View T P C (length C) -> (k <= length C)%nat ->
  View (tfeed T (concat (repeat CURSOR_BACKWARD (length C - k)))) P C k.
Proof.
  destruct T as [t l]. intros (Hl & Hr & Hc & _) Hk. cbn [snd fst] in *. subst l. rewrite tfeed_cubs.
  repeat split; cbn [fst snd row col]; [exact Hr|lia|exact Hk].
Qed.

(* Tab: the line is rewritten from the old cursor; trailing spaces the editor dropped stay on screen as blanks *)
Lemma View_drop_spaces T P Ct r k : View T P (Ct ++ repeat [32] r) k -> (k <= length Ct)%nat -> View T P Ct k.
Proof.
  intros (Hl & (j & Hr) & Hc & _) Hk. repeat split; [exact Hl| |exact Hc|exact Hk].
  exists (r + j)%nat. rewrite Hr, <- !app_assoc. f_equal. f_equal. apply repeat_app_blank.
Qed.
Lemma View_overwrite_tail T P Ct A k : View T P Ct k -> Forall pchar (skipn k (Ct ++ A)) ->
  View (tfeed T (concat (skipn k (Ct ++ A)))) P (Ct ++ A) (length (Ct ++ A)).
Proof.
  destruct T as [t l]. intros (Hl & (j & Hr) & Hc & Hk) Hp. cbn [snd fst] in *. subst l.
  rewrite tfeed_pchars by exact Hp.
  assert (Hsk : skipn k (Ct ++ A) = skipn k Ct ++ A) by (rewrite skipn_app; replace (k - length Ct)%nat with O by lia; reflexivity).
  repeat split; cbn [fst snd].
  - assert (Hrow : row t = (P ++ firstn k Ct) ++ skipn k Ct ++ repeat blank j) by (rewrite <- !app_assoc, (app_assoc (firstn k Ct)), firstn_skipn; exact Hr).
    assert (Hlen : col t = length (P ++ firstn k Ct)) by (rewrite app_length, firstn_length_le by exact Hk; lia).
    rewrite (put_chars_split _ t _ _ Hrow Hlen).
    exists (j - length A)%nat. rewrite Hsk, app_length.
    rewrite <- (skipn_skipn (length (skipn k Ct)) (length A)), skipn_app_exact.
    assert (Hb : skipn (length A) (repeat blank j) = repeat blank (j - length A)).
    { clear. revert j. induction (length A) as [|n IH]; intros j; [rewrite Nat.sub_0_r; reflexivity|]. destruct j as [|j]; [reflexivity|]. cbn [repeat skipn]. rewrite IH. reflexivity. }
    rewrite Hb, <- !app_assoc. f_equal. rewrite (app_assoc (firstn k Ct)), firstn_skipn. reflexivity.
  - rewrite put_chars_col, Hc, Hsk, !app_length, skipn_length. lia.
  - lia.
Qed.

(* ---------- the view implies the executable oracle of the correspondence check *)
Lemma list_eqb_refl : forall l, list_eqb l l = true.
Proof. induction l as [|x l IH]; [reflexivity|]. cbn [list_eqb]. rewrite N.eqb_refl, IH. reflexivity. Qed.
Lemma cells_eqb_refl : forall l, cells_eqb l l = true.
Proof. induction l as [|x l IH]; [reflexivity|]. cbn [cells_eqb]. rewrite list_eqb_refl, IH. reflexivity. Qed.
Lemma strip_blanks_repeat : forall j r, strip_blanks_rev (repeat blank j ++ r) = strip_blanks_rev r.
Proof. induction j as [|j IH]; intros r; [reflexivity|]. cbn [repeat app strip_blanks_rev]. rewrite list_eqb_refl. apply IH. Qed.
Lemma rev_repeat {X} (x : X) : forall n, rev (repeat x n) = repeat x n.
Proof.
  induction n as [|n IH]; [reflexivity|]. cbn [repeat rev]. rewrite IH. clear IH.
  induction n as [|n IH]; [reflexivity|]. cbn [repeat app]. rewrite IH. reflexivity.
Qed.
Lemma visible_blanks r j : visible (r ++ repeat blank j) = visible r.
Proof. unfold visible. rewrite rev_app_distr, rev_repeat, strip_blanks_repeat. reflexivity. Qed.
Lemma chars_of_app a b : ptext a -> ptext b -> chars_of (a ++ b) = chars_of a ++ chars_of b.
Proof.
  intros Ha Hb. destruct (ptext_chars a Ha) as (ca & -> & Pa). destruct (ptext_chars b Hb) as (cb & -> & Pb).
  assert (Wa : Forall wf_char ca) by (rewrite Forall_forall in *; intros c Hc; exact (proj1 (Pa c Hc))).
  assert (Wb : Forall wf_char cb) by (rewrite Forall_forall in *; intros c Hc; exact (proj1 (Pb c Hc))).
  rewrite <- concat_app, !chars_of_concat; auto using Forall_app_intro.
Qed.
Theorem View_view_ok T p x k : View T (chars_of p) (chars_of x) k -> ptext p -> ptext x -> view_ok T p x k = true.
Proof.
  intros (Hl & (j & Hr) & Hc & _) Hp Hx. unfold view_ok. rewrite Hl, Hr, Hc, Nat.eqb_refl, andb_true_r. cbn [andb].
  rewrite app_assoc, visible_blanks, chars_of_app by assumption. apply cells_eqb_refl.
Qed.
