(* C01 (and the Cli-level clauses of C05, C10): with a working sink, the concrete Cli refines the abstract session of Spec/Session.v:
   every key event leaves the line / history / prompt representing the abstract ones and calls the handler exactly as `dispatch` says. *)
From EC Require Import Base Generated.Codes Model.Utf8 Model.Utils Model.Input Model.Editor Model.Token Model.Args Model.History
  Model.Sink Model.Writer Model.Cli Spec.Utf8Spec Spec.QuoteSpec Spec.ArgSpec Spec.IdealEditor Spec.HistSpec Spec.CompletionSpec Spec.Session
  Proofs.ListFacts Proofs.Utf8Proofs Proofs.UtilsProofs Proofs.InputProofs Proofs.EditorProofs Proofs.TokenProofs Proofs.TokenValid
  Proofs.ArgsProofs Proofs.HistoryProofs Proofs.CompletionProofs Proofs.SinkOk Proofs.FlushProofs Proofs.FaultProofs Proofs.ClassProofs Proofs.SafetyProofs.

(* ---------- nothing fails under okT *)
Definition NFp {A} (r : res A) (O : list sinkop) : Prop := failed O = false.
Lemma bind_NF {A B} (m : M cli A) (f : A -> M cli B) : Spec m NFp -> (forall a, Spec (f a) NFp) -> Spec (bind m f) NFp.
Proof. intros. eapply Spec_bind; eauto; unfold NFp; intros; auto. rewrite failed_app, H1, H2. reflexivity. Qed.
Lemma NF_of_S {A} (f : M cli A) : Spec f Sp -> Spec f NFp.
Proof. apply Spec_weaken. unfold Sp, NFp. intros r O ->. reflexivity. Qed.
Lemma NF_catch {A} (m : M cli A) : Spec m NFp -> Spec (catch m) NFp.
Proof. intros Sm s r s' E. unfold catch in E. destruct (m s) as [r1 s1] eqn:Em. injection E as <- <-. exact (Sm s r1 s1 Em). Qed.

Section OkT.
  Variable feats : features.
  Variable cs : cmdset.
  Variable handler : nat -> list N -> list (list N) -> list hop.
  Ltac nfs := apply NF_of_S; first [apply S_ret | apply S_get | apply S_lift_opt | apply S_reraise | (apply S_modify; intros; reflexivity)].

  Lemma NF_wr bs : Spec (wr okT bs) NFp.
  Proof. intros s r s' E. unfold wr, sk_write, okT in E. destruct bs; injection E as <- <-.
    - exists []. destruct s; cbn. rewrite app_nil_r. split; reflexivity.
    - eexists. split; [unfold set_sk; cbn; reflexivity|reflexivity]. Qed.
  Lemma NF_fl : Spec (fl okT) NFp.
  Proof. intros s r s' E. unfold fl, sk_flush, okT in E. injection E as <- <-. eexists. split; [unfold set_sk; cbn; reflexivity|reflexivity]. Qed.
  Lemma NF_w_lines ls : Spec (w_lines (wr okT) set_wst ls) NFp.
  Proof. induction ls; cbn [w_lines]; [nfs|]. apply bind_NF; [apply NF_wr|intros]. apply bind_NF; [apply NF_wr|intros]. apply bind_NF; [unfold w_set; nfs|intros; assumption]. Qed.
  Lemma NF_w_write_str t : Spec (w_write_str (wr okT) wst set_wst t) NFp.
  Proof. unfold w_write_str. destruct (split_lf [] t) as [ls rest]. apply bind_NF; [apply NF_w_lines|intros]. destruct rest; [nfs|].
    apply bind_NF; [apply NF_wr|intros]. apply bind_NF; [nfs|intros]. unfold w_set; nfs. Qed.
  Lemma NF_w_writeln_str t : Spec (w_writeln_str (wr okT) wst set_wst t) NFp.
  Proof. unfold w_writeln_str. apply bind_NF; [apply NF_w_write_str|intros]. apply bind_NF; [apply NF_wr|intros]. apply bind_NF; [nfs|intros]. unfold w_set; nfs. Qed.
  Lemma NF_run_hops hs : Spec (run_hops okT hs) NFp.
  Proof. induction hs as [|h hs IH]; cbn [run_hops]; [nfs|]. destruct h.
    - apply bind_NF; [apply NF_w_write_str|intros; exact IH].
    - apply bind_NF; [apply NF_w_writeln_str|intros; exact IH].
    - apply bind_NF; [nfs|intros; exact IH]. Qed.
  Lemma NF_clear_line b : Spec (clear_line okT b) NFp.
  Proof. unfold clear_line. apply bind_NF; [apply NF_wr|intros]. apply bind_NF; [apply NF_wr|intros]. apply bind_NF; [|intros; apply NF_fl].
    destruct b; [nfs|]. apply bind_NF; [nfs|intros; apply NF_wr]. Qed.
  Lemma NF_flush_bytes bs : Spec (flush_bytes okT bs) NFp.
  Proof. apply bind_NF; [apply NF_wr|intros; apply NF_fl]. Qed.
  Lemma NF_process_error e : Spec (process_error okT e) NFp.
  Proof. unfold process_error. apply bind_NF; [apply NF_wr|intros]. apply bind_NF; [|intros; apply bind_NF; [apply NF_wr|intros; apply NF_fl]].
    destruct e; repeat (apply bind_NF; [apply NF_wr|intros]); apply NF_wr. Qed.
  Lemma NF_process_command name args : Spec (process_command okT cs handler name args) NFp.
  Proof. unfold process_command. destruct (cs_parse cs name args).
    - apply bind_NF; [apply NF_fl|intros; apply NF_process_error].
    - apply bind_NF; [nfs|intros]. apply bind_NF; [nfs|intros]. apply bind_NF; [unfold new_writer; nfs|intros].
      apply bind_NF; [apply NF_catch, NF_run_hops|intros]. apply bind_NF; [nfs|intros s1].
      apply bind_NF; [destruct (newp s1); nfs|intros]. apply bind_NF; [destruct (is_dirty (wst s1)); [apply NF_wr|nfs]|intros].
      apply bind_NF; [apply NF_fl|intros]. apply bind_NF; [nfs|intros].
      destruct (cs_fail cs _ name args); [apply NF_process_error|nfs]. Qed.
  Lemma NF_process_help req : Spec (process_help okT cs req) NFp.
  Proof. unfold process_help. apply bind_NF; [unfold new_writer; nfs|intros]. apply bind_NF; [apply NF_run_hops|intros].
    apply bind_NF; [nfs|intros s1]. apply bind_NF; [destruct (is_dirty (wst s1)); [apply NF_wr|nfs]|intros; apply NF_fl]. Qed.
  Lemma NF_process_input raw empty : Spec (process_input okT feats cs handler raw empty) NFp.
  Proof. unfold process_input. destruct (from_tokens (tokens_iter raw empty)) as [[name args]|]; [|nfs].
    destruct (f_help feats); [|apply NF_process_command]. apply bind_NF; [nfs|intros [req|]]; [apply NF_process_help|apply NF_process_command]. Qed.

  (* a computation that neither panics nor logs a failure and reports failures faithfully returns Ok *)
  Lemma ok_of_specs {A} (f : M cli A) s r s' : Spec f NFp -> Spec f Ep -> f s = (r, s') -> r <> Panic -> exists a, r = Ok a.
  Proof.
    intros Sn Se E Hp. destruct (Sn s r s' E) as (O1 & H1 & N1). destruct (Se s r s' E) as (O2 & H2 & E2).
    assert (O1 = O2) by (rewrite H1 in H2; apply app_inv_head in H2; exact H2). subst O2. unfold NFp in N1.
    destruct r as [a| |]; [eauto|cbn in E2; congruence|congruence].
  Qed.
End OkT.

(* ---------- computations that keep editor, decoder, history, prompt and call log *)
Definition Frame5 {A} (f : M cli A) : Prop := forall s r s', f s = (r, s') ->
  ed s' = ed s /\ ig s' = ig s /\ hist s' = hist s /\ prompt s' = prompt s /\ hcalls s' = hcalls s.
Lemma F5_bind {A B} (m : M cli A) (f : A -> M cli B) : Frame5 m -> (forall a, Frame5 (f a)) -> Frame5 (bind m f).
Proof.
  intros Sm Sf s r s' E. unfold bind in E. destruct (m s) as [r1 s1] eqn:Em. destruct (Sm s r1 s1 Em) as (a1&a2&a3&a4&a5).
  destruct r1 as [a| |]; [|injection E as <- <-; auto|injection E as <- <-; auto].
  destruct (Sf a s1 r s' E) as (b1&b2&b3&b4&b5). repeat split; congruence.
Qed.
Lemma F5_ret {A} (a : A) : Frame5 (ret a). Proof. intros s r s' E. injection E as <- <-. auto. Qed.
Lemma F5_get : Frame5 get. Proof. intros s r s' E. injection E as <- <-. auto. Qed.
Lemma F5_reraise {A} (x : res A) : Frame5 (reraise x). Proof. intros s r s' E. injection E as <- <-. auto. Qed.
Lemma F5_lift_opt {A} (o : option A) : Frame5 (lift_opt o). Proof. destruct o; intros s r s' E; injection E as <- <-; auto. Qed.
Lemma F5_modify (g : cli -> cli) : (forall s, ed (g s) = ed s /\ ig (g s) = ig s /\ hist (g s) = hist s /\ prompt (g s) = prompt s /\ hcalls (g s) = hcalls s) -> Frame5 (modify g).
Proof. intros H s r s' E. injection E as <- <-. apply H. Qed.
Lemma F5_wr o bs : Frame5 (wr o bs).
Proof. intros s r s' E. unfold wr in E. destruct (sk_write o (sk s) bs). injection E as <- <-. auto. Qed.
Lemma F5_fl o : Frame5 (fl o).
Proof. intros s r s' E. unfold fl in E. destruct (sk_flush o (sk s)). injection E as <- <-. auto. Qed.
Lemma F5_flush_bytes o bs : Frame5 (flush_bytes o bs).
Proof. apply F5_bind; [apply F5_wr|intros; apply F5_fl]. Qed.
Lemma F5_clear_line o b : Frame5 (clear_line o b).
Proof. unfold clear_line. apply F5_bind; [apply F5_wr|intros]. apply F5_bind; [apply F5_wr|intros]. apply F5_bind; [|intros; apply F5_fl].
  destruct b; [apply F5_ret|]. apply F5_bind; [apply F5_get|intros; apply F5_wr]. Qed.
Ltac f5mod := apply F5_modify; intros; auto 10.
Lemma F5_w_lines o ls : Frame5 (w_lines (wr o) set_wst ls).
Proof. induction ls; cbn [w_lines]; [apply F5_ret|]. apply F5_bind; [apply F5_wr|intros]. apply F5_bind; [apply F5_wr|intros]. apply F5_bind; [unfold w_set; f5mod|intros; assumption]. Qed.
Lemma F5_w_write_str o t : Frame5 (w_write_str (wr o) wst set_wst t).
Proof. unfold w_write_str. destruct (split_lf [] t) as [ls rest]. apply F5_bind; [apply F5_w_lines|intros]. destruct rest; [apply F5_ret|].
  apply F5_bind; [apply F5_wr|intros]. apply F5_bind; [apply F5_get|intros]. unfold w_set; f5mod. Qed.
Lemma F5_w_writeln_str o t : Frame5 (w_writeln_str (wr o) wst set_wst t).
Proof. unfold w_writeln_str. apply F5_bind; [apply F5_w_write_str|intros]. apply F5_bind; [apply F5_wr|intros]. apply F5_bind; [apply F5_get|intros]. unfold w_set; f5mod. Qed.
Lemma F5_run_hops o hs : Frame5 (run_hops o hs).
Proof. induction hs as [|h hs IH]; cbn [run_hops]; [apply F5_ret|]. destruct h.
  - apply F5_bind; [apply F5_w_write_str|intros; exact IH].
  - apply F5_bind; [apply F5_w_writeln_str|intros; exact IH].
  - apply F5_bind; [f5mod|intros; exact IH]. Qed.
Lemma F5_process_error o e : Frame5 (process_error o e).
Proof. unfold process_error. apply F5_bind; [apply F5_wr|intros]. apply F5_bind; [|intros; apply F5_bind; [apply F5_wr|intros; apply F5_fl]].
  destruct e; repeat (apply F5_bind; [apply F5_wr|intros]); apply F5_wr. Qed.
Lemma F5_process_help o c req : Frame5 (process_help o c req).
Proof. unfold process_help. apply F5_bind; [unfold new_writer; f5mod|intros]. apply F5_bind; [apply F5_run_hops|intros].
  apply F5_bind; [apply F5_get|intros s1]. apply F5_bind; [destruct (is_dirty (wst s1)); [apply F5_wr|apply F5_ret]|intros; apply F5_fl]. Qed.

(* write-only tails under okT: all four specifications at once *)
Definition Tail {A} (f : M cli A) : Prop := Frame5 f /\ Spec f NPp /\ Spec f NFp /\ Spec f Ep.
Lemma Tail_bind {A B} (m : M cli A) (f : A -> M cli B) : Tail m -> (forall a, Tail (f a)) -> Tail (bind m f).
Proof. intros (a1&a2&a3&a4) Hf. split; [apply F5_bind; [exact a1|intros x; apply Hf]|]. split; [apply bind_NP; [exact a2|intros x; apply Hf]|].
  split; [apply bind_NF; [exact a3|intros x; apply Hf]|apply bind_EE; [exact a4|intros x; apply Hf]]. Qed.
Lemma Tail_ret {A} (a : A) : Tail (ret a).
Proof. split; [apply F5_ret|]. split; [apply NP_ret|]. split; [apply NF_of_S, S_ret|apply N_E, N_ret]. Qed.
Lemma Tail_get : Tail get.
Proof. split; [apply F5_get|]. split; [apply NP_get|]. split; [apply NF_of_S, S_get|apply N_E, N_get]. Qed.
Lemma Tail_wr bs : Tail (wr okT bs).
Proof. split; [apply F5_wr|]. split; [apply NP_wr|]. split; [apply NF_wr|apply E_wr]. Qed.
Lemma Tail_fl : Tail (fl okT).
Proof. split; [apply F5_fl|]. split; [apply NP_fl|]. split; [apply NF_fl|apply E_fl]. Qed.
Lemma Tail_flush_bytes bs : Tail (flush_bytes okT bs).
Proof. apply Tail_bind; [apply Tail_wr|intros; apply Tail_fl]. Qed.
Lemma Tail_clear_line b : Tail (clear_line okT b).
Proof. unfold clear_line. apply Tail_bind; [apply Tail_wr|intros]. apply Tail_bind; [apply Tail_wr|intros]. apply Tail_bind; [|intros; apply Tail_fl].
  destruct b; [apply Tail_ret|]. apply Tail_bind; [apply Tail_get|intros; apply Tail_wr]. Qed.
Lemma Tail_ok (tail : M cli unit) s r s' : Tail tail -> tail s = (r, s') ->
  r = Ok tt /\ ed s' = ed s /\ ig s' = ig s /\ hist s' = hist s /\ prompt s' = prompt s /\ hcalls s' = hcalls s.
Proof.
  intros (F & Sp_ & Sn & Se) E. destruct (Sp_ _ _ _ E) as (O & _ & Hp). destruct (ok_of_specs tail s r s' Sn Se E Hp) as [[] ->].
  split; [reflexivity|exact (F _ _ _ E)].
Qed.

Section Refine.
  Variable feats : features.
  Variable cs : cmdset.
  Variable handler : nat -> list N -> list (list N) -> list hop.
  Hypothesis Hcs : cmdset_ok cs.
  Variables cp hc : nat.

  Definition SRel (s : cli) (a : astate) : Prop :=
    Rep cp (ed s) (aline a) /\ HRep hc (hist s) (ahist a) /\ prompt s = aprompt a /\ length (hcalls s) = acalls a
    /\ TokenProofs.nul_free (text (ed s)) /\ Forall valid_tok (ents (ahist a)) /\ ainv (acc (ig s)).

  Lemma SRel_CliInv s a : SRel s a -> CliInv s.
  Proof. intros (R & H & _ & _ & Hn & Hv & Ha). unfold CliInv. rewrite (Rep_cap _ _ _ R), (HRep_hcap _ _ _ H). eauto 10. Qed.

  (* a tail that only writes: under okT it returns Ok and changes nothing but the sink *)
  Lemma tail_ok (tail : M cli unit) s r s' : Frame5 tail -> Spec tail NPp -> Spec tail NFp -> Spec tail Ep -> tail s = (r, s') ->
    r = Ok tt /\ ed s' = ed s /\ ig s' = ig s /\ hist s' = hist s /\ prompt s' = prompt s /\ hcalls s' = hcalls s.
  Proof.
    intros F Sp_ Sn Se E. destruct (Sp_ _ _ _ E) as (O & _ & Hp). destruct (ok_of_specs tail s r s' Sn Se E Hp) as [[] ->].
    split; [reflexivity|exact (F _ _ _ E)].
  Qed.

  Lemma SRel_frame s s' a : SRel s a -> ed s' = ed s -> ig s' = ig s -> hist s' = hist s -> prompt s' = prompt s -> hcalls s' = hcalls s -> SRel s' a.
  Proof. unfold SRel. intros H -> -> -> -> ->. exact H. Qed.

  (* ---- characters *)
  Lemma on_text_refines t s a r s' : wf_char t -> TokenProofs.nul_free t -> SRel s a -> on_text okT t s = (r, s') ->
    r = Ok tt /\ SRel s' (fst (astep feats cs handler cp hc a (Chr t))) /\ hcalls s' = hcalls s /\ ig s' = ig s.
  Proof.
    intros Hw Hn HS E. pose proof HS as (R & H & Hp & Hc & Hnf & Hv & Ha). unfold on_text in E. rewrite bind_get in E.
    assert (Hcs1 : Forall wf_char [t]) by (constructor; [exact Hw|constructor]).
    destruct (insert_refines _ _ _ [t] R Hcs1) as (e' & Ei & R'). cbn [concat] in Ei. rewrite app_nil_r in Ei.
    rewrite Ei, bind_lift_some in E. cbn [astep fst].
    destruct (snd (ideal_step cp (aline a) (IInsert [t]))) eqn:Eok.
    - rewrite bind_modify in E.
      assert (T : forall o, Frame5 ((if Nat.ltb (cursor (ed s)) (ed_len (ed s)) then wr o INSERT_CHAR else ret tt);; wr o t;; fl o)).
      { intros o. apply F5_bind; [destruct (Nat.ltb _ _); [apply F5_wr|apply F5_ret]|intros]. apply F5_bind; [apply F5_wr|intros; apply F5_fl]. }
      destruct (tail_ok _ _ _ _ (T okT)
                  ltac:(apply bind_NP; [destruct (Nat.ltb _ _); [apply NP_wr|apply NP_ret]|intros; apply bind_NP; [apply NP_wr|intros; apply NP_fl]])
                  ltac:(apply bind_NF; [destruct (Nat.ltb _ _); [apply NF_wr|apply NF_of_S, S_ret]|intros; apply bind_NF; [apply NF_wr|intros; apply NF_fl]])
                  ltac:(apply bind_EE; [destruct (Nat.ltb _ _); [apply E_wr|apply N_E, N_ret]|intros; apply bind_EE; [apply E_wr|intros; apply E_fl]]) E)
        as (-> & e1 & e2 & e3 & e4 & e5).
      split; [reflexivity|]. split; [|split; [exact e5|exact e2]].
      unfold SRel. cbn [aline ahist aprompt acalls set_line]. rewrite e1, e2, e3, e4, e5. cbn [ed ig hist prompt hcalls set_ed].
      split; [exact R'|]. split; [exact H|]. split; [exact Hp|]. split; [exact Hc|]. split; [eapply ed_insert_nul; eauto|]. split; [exact Hv|exact Ha].
    - injection E as <- <-. split; [reflexivity|]. split; [|auto].
      assert (Eid : fst (ideal_step cp (aline a) (IInsert [t])) = aline a).
      { unfold ideal_step in *. destruct (Nat.leb _ _); [discriminate|reflexivity]. }
      rewrite Eid. destruct a; exact HS.
  Qed.
End Refine.

Section Refine2.
  Variable feats : features.
  Variable cs : cmdset.
  Variable handler : nat -> list N -> list (list N) -> list hop.
  Hypothesis Hcs : cmdset_ok cs.
  Variables cp hc : nat.
  Notation SRel := (SRel cp hc).
  Notation astep := (astep feats cs handler cp hc).

  Lemma SRel_set_ed s a e' l' : SRel s a -> Rep cp e' l' -> TokenProofs.nul_free (text e') -> SRel (set_ed e' s) (set_line l' a).
  Proof. intros (R & H & Hp & Hc & Hnf & Hv & Ha) R' N'. unfold SessionProofs.SRel. cbn. auto 10. Qed.

  Lemma SRel_tail (tail : M cli unit) s0 a0 r s' : Tail tail -> SRel s0 a0 -> tail s0 = (r, s') ->
    r = Ok tt /\ SRel s' a0 /\ hcalls s' = hcalls s0 /\ ig s' = ig s0.
  Proof.
    intros T HS E. destruct (Tail_ok _ _ _ _ T E) as (-> & e1 & e2 & e3 & e4 & e5). split; [reflexivity|]. split; [|auto].
    eapply SRel_frame; eauto.
  Qed.

  Lemma on_backspace_refines s a r s' : SRel s a -> on_backspace okT s = (r, s') ->
    r = Ok tt /\ SRel s' (fst (astep a (Ctl Backspace))) /\ hcalls s' = hcalls s /\ ig s' = ig s.
  Proof.
    intros HS E. pose proof HS as (R & H & Hp & Hc & Hnf & Hv & Ha). unfold on_backspace in E. rewrite bind_get in E. cbn [Session.astep fst].
    destruct (move_left_refines _ _ _ R) as [R1 Em]. destruct (ed_move_left (ed s)) as [e1 moved] eqn:Eml. cbn [fst snd] in *.
    destruct (ideal_step cp (aline a) ILeft) as [l1 mv] eqn:Eil. cbn [fst snd] in *. subst mv.
    destruct moved.
    - destruct (remove_refines _ _ _ R1) as (e2 & Er & R2). rewrite Er, bind_lift_some, bind_modify in E.
      assert (Ht1 : text e1 = text (ed s)) by (unfold ed_move_left in Eml; destruct (cursor (ed s)); inversion Eml; reflexivity).
      assert (HS2 : SRel (set_ed e2 s) (set_line (fst (ideal_step cp l1 IRemove)) a)).
      { apply SRel_set_ed; [exact HS|exact R2|eapply ed_remove_nul; [exact Er|rewrite Ht1; exact Hnf]]. }
      destruct (SRel_tail _ _ _ _ _ (Tail_bind _ _ (Tail_flush_bytes _) (fun _ => Tail_flush_bytes _)) HS2 E) as (-> & S' & c' & g'). auto.
    - injection E as <- <-. auto.
  Qed.

  Lemma navigate_input_refines fwd s a r s' : SRel s a -> navigate_input okT fwd s = (r, s') ->
    r = Ok tt /\ SRel s' (fst (astep a (Ctl (if fwd then Forward else Back)))) /\ hcalls s' = hcalls s /\ ig s' = ig s.
  Proof.
    intros HS E. pose proof HS as (R & H & Hp & Hc & Hnf & Hv & Ha). unfold navigate_input in E. rewrite bind_get in E.
    assert (Hm : exists e' moved, (if fwd then ed_move_right (ed s) else ed_move_left (ed s)) = (e', moved) /\
                 Rep cp e' (fst (ideal_step cp (aline a) (if fwd then IRight else ILeft))) /\ text e' = text (ed s) /\ (moved = false -> e' = ed s /\ fst (ideal_step cp (aline a) (if fwd then IRight else ILeft)) = aline a)).
    { destruct fwd.
      - destruct (move_right_refines _ _ _ R) as [R1 Eb]. destruct (ed_move_right (ed s)) as [e' m] eqn:Em. exists e', m. split; [reflexivity|]. split; [exact R1|].
        unfold ed_move_right in Em. cbn [snd] in Eb. unfold ideal_step in *. destruct (Nat.ltb (cursor (ed s)) (ed_len (ed s))); inversion Em; subst; (split; [reflexivity|]); intros X; try discriminate.
        destruct (Nat.ltb (icur (aline a)) (length (chars (aline a)))); [discriminate|auto].
      - destruct (move_left_refines _ _ _ R) as [R1 Eb]. destruct (ed_move_left (ed s)) as [e' m] eqn:Em. exists e', m. split; [reflexivity|]. split; [exact R1|].
        unfold ed_move_left in Em. cbn [snd] in Eb. unfold ideal_step in *. destruct (cursor (ed s)); inversion Em; subst; (split; [reflexivity|]); intros X; try discriminate.
        destruct (icur (aline a)); [auto|discriminate]. }
    destruct Hm as (e' & moved & Em & R' & Ht & Hnm). rewrite Em in E.
    assert (Eas : fst (astep a (Ctl (if fwd then Forward else Back))) = set_line (fst (ideal_step cp (aline a) (if fwd then IRight else ILeft))) a) by (destruct fwd; reflexivity).
    rewrite Eas. destruct moved.
    - rewrite bind_modify in E.
      assert (HS2 : SRel (set_ed e' s) (set_line (fst (ideal_step cp (aline a) (if fwd then IRight else ILeft))) a)) by (apply SRel_set_ed; [exact HS|exact R'|rewrite Ht; exact Hnf]).
      destruct (SRel_tail _ _ _ _ _ (Tail_flush_bytes _) HS2 E) as (-> & S' & c' & g'). auto.
    - injection E as <- <-. destruct (Hnm eq_refl) as [_ ->]. split; [reflexivity|]. split; [destruct a; exact HS|auto].
  Qed.
End Refine2.

Lemma Tail_run_hops hs : Tail (run_hops okT hs).
Proof. split; [apply F5_run_hops|]. split; [apply NP_run_hops|]. split; [apply NF_run_hops|apply E_run_hops]. Qed.
Lemma Tail_process_error e : Tail (process_error okT e).
Proof. split; [apply F5_process_error|]. split; [apply NP_process_error|]. split; [apply NF_process_error|apply E_process_error]. Qed.
Lemma Tail_process_help c req : Tail (process_help okT c req).
Proof. split; [apply F5_process_help|]. split; [apply NP_process_help|]. split; [apply NF_process_help|apply E_process_help]. Qed.

Lemma last_prompt_newp : forall hs p np, (match fold_left newp_hop hs np with Some q => q | None => p end) = last_prompt (match np with Some q => q | None => p end) hs.
Proof. induction hs as [|h hs IH]; intros p np; [reflexivity|]. cbn [fold_left last_prompt]. unfold last_prompt in *. cbn [fold_left]. rewrite IH. destruct h; reflexivity. Qed.

Section Refine3.
  Variable feats : features.
  Variable cs : cmdset.
  Variable handler : nat -> list N -> list (list N) -> list hop.
  Hypothesis Hcs : cmdset_ok cs.
  Variables cp hc : nat.
  Notation SRel := (SRel cp hc).
  Notation astep := (astep feats cs handler cp hc).

  (* the handler runs: logged once, prompt updated to the last one it set, nothing else touched *)
  Lemma process_command_run name args s : cs_parse cs name args = None ->
    exists s', process_command okT cs handler name args s = (Ok tt, s') /\ ed s' = ed s /\ ig s' = ig s /\ hist s' = hist s
      /\ hcalls s' = hcalls s ++ [(name, args)] /\ prompt s' = last_prompt (prompt s) (handler (length (hcalls s)) name args).
  Proof.
    intros Hp. unfold process_command. rewrite Hp, bind_get, bind_modify. unfold new_writer. rewrite bind_modify.
    set (s2 := set_newp None (set_wst w0 (log_call (name, args) s))).
    set (hs := handler (length (hcalls s)) name args).
    destruct (run_hops_ok hs s2) as (s3 & O3 & E3 & F3 & Out3 & B3 & W3 & N3).
    unfold bind at 1. unfold catch. rewrite E3. rewrite bind_get.
    destruct F3 as (f1 & f2 & f3 & f4 & f5).
    set (s4 := match newp s3 with Some p => set_prompt_f p s3 | None => s3 end).
    assert (E4 : (match newp s3 with Some p => modify (set_prompt_f p) | None => ret tt end) s3 = (Ok tt, s4)) by (subst s4; destruct (newp s3); reflexivity).
    unfold bind at 1. rewrite E4.
    assert (E5 : exists s5, (if is_dirty (wst s3) then wr okT CRLF else ret tt) s4 = (Ok tt, s5) /\ ed s5 = ed s4 /\ ig s5 = ig s4 /\ hist s5 = hist s4 /\ hcalls s5 = hcalls s4 /\ prompt s5 = prompt s4).
    { destruct (is_dirty (wst s3)).
      - destruct (wr_ok CRLF s4) as (s5 & E & (a1&a2&a3&a4&a5&_)). exists s5. auto 10.
      - exists s4. auto 10. }
    destruct E5 as (s5 & E5 & g1 & g2 & g3 & g4 & g5). unfold bind at 1. rewrite E5.
    destruct (fl_ok s5) as (s6 & E6 & (h1&h2&h3&h4&h5&_)). unfold bind at 1. rewrite E6.
    unfold bind at 1. unfold reraise.
    assert (E7 : exists s7, (match cs_fail cs (length (hcalls s)) name args with Some e => process_error okT e | None => ret tt end) s6 = (Ok tt, s7)
              /\ ed s7 = ed s6 /\ ig s7 = ig s6 /\ hist s7 = hist s6 /\ prompt s7 = prompt s6 /\ hcalls s7 = hcalls s6).
    { destruct (cs_fail cs (length (hcalls s)) name args) as [e|].
      - destruct (Tail_ok _ s6 _ _ (Tail_process_error e) (surjective_pairing _)) as (Er & e1 & e2 & e3 & e4 & e5).
        destruct (process_error okT e s6) as [r s7] eqn:E. cbn [fst snd] in *. subst r. exists s7. auto 10.
      - exists s6. auto 10. }
    destruct E7 as (s7 & E7 & i1 & i2 & i3 & i4 & i5). rewrite E7.
    exists s7. split; [reflexivity|].
    assert (Es4 : ed s4 = ed s3 /\ ig s4 = ig s3 /\ hist s4 = hist s3 /\ hcalls s4 = hcalls s3) by (subst s4; destruct (newp s3); auto).
    destruct Es4 as (k1 & k2 & k3 & k4).
    assert (z1 : ed s2 = ed s) by reflexivity. assert (z2 : ig s2 = ig s) by reflexivity. assert (z3 : hist s2 = hist s) by reflexivity.
    split; [congruence|]. split; [congruence|]. split; [congruence|]. split.
    - rewrite i5, h5, g4, k4, f5. reflexivity.
    - rewrite i4, h4, g5. subst s4. rewrite N3. unfold s2, set_newp, set_wst, log_call; cbn [newp].
      pose proof (last_prompt_newp hs (prompt s) None) as L. cbn in L. fold hs. rewrite <- L.
      destruct (fold_left newp_hop hs None); cbn [prompt set_prompt_f]; [reflexivity|]. rewrite f4. reflexivity.
  Qed.

  (* process_input under okT: Ok, and exactly the abstract dispatch *)
  Lemma process_input_run raw empty s l : tokens_iter raw empty = tokens_fun (ibytes l) -> Forall valid_tok (tokens_fun (ibytes l)) ->
    forall a, aline a = l -> prompt s = aprompt a -> length (hcalls s) = acalls a ->
    exists s', process_input okT feats cs handler raw empty s = (Ok tt, s') /\ ed s' = ed s /\ ig s' = ig s /\ hist s' = hist s
      /\ hcalls s' = hcalls s ++ dispatch feats cs a
      /\ prompt s' = (match dispatch feats cs a with [(n, ar)] => last_prompt (aprompt a) (handler (acalls a) n ar) | _ => aprompt a end).
  Proof.
    intros Et Hv a Hl Hp Hc. unfold process_input, dispatch. rewrite Et, Hl.
    destruct (tokens_fun (ibytes l)) as [|name args]; cbn [from_tokens].
    { exists s. rewrite app_nil_r. auto 10. }
    inversion Hv as [|? ? _ Hargs]; subst.
    assert (CMD : exists s', process_command okT cs handler name args s = (Ok tt, s') /\ ed s' = ed s /\ ig s' = ig s /\ hist s' = hist s
             /\ hcalls s' = hcalls s ++ (match cs_parse cs name args with Some _ => [] | None => [(name, args)] end)
             /\ prompt s' = (match (match cs_parse cs name args with Some _ => [] | None => [(name, args)] end) with
                              | [(n, ar)] => last_prompt (aprompt a) (handler (acalls a) n ar) | _ => aprompt a end)).
    { destruct (cs_parse cs name args) as [e|] eqn:Ep.
      - unfold process_command. rewrite Ep.
        destruct (Tail_ok _ s _ _ (Tail_bind _ _ Tail_fl (fun _ => Tail_process_error e)) (surjective_pairing _)) as (Er & e1 & e2 & e3 & e4 & e5).
        destruct ((fl okT;; process_error okT e) s) as [r s'] eqn:E. cbn [fst snd] in *. subst r. exists s'. rewrite app_nil_r. repeat split; congruence.
      - destruct (process_command_run name args s Ep) as (s' & E & e1 & e2 & e3 & e4 & e5). exists s'. rewrite Hc, Hp in e5. auto 10. }
    destruct (f_help feats); cbn [andb]; [|exact CMD].
    destruct (help_request_some name args Hargs) as [hr Hr]. rewrite Hr, bind_lift_some. destruct hr as [req|]; [|exact CMD].
    destruct (Tail_ok _ s _ _ (Tail_process_help cs req) (surjective_pairing _)) as (Er & e1 & e2 & e3 & e4 & e5).
    destruct (process_help okT cs req s) as [r s'] eqn:E. cbn [fst snd] in *. subst r. exists s'. rewrite app_nil_r. repeat split; congruence.
  Qed.
End Refine3.

Section Refine4.
  Variable feats : features.
  Variable cs : cmdset.
  Variable handler : nat -> list N -> list (list N) -> list hop.
  Hypothesis Hcs : cmdset_ok cs.
  Variables cp hc : nat.
  Notation SRel := (SRel cp hc).
  Notation astep := (astep feats cs handler cp hc).

  Lemma Rep_ideal_eq e i : Rep cp e i -> i = {| chars := chars_of (text e); icur := cursor e |}.
  Proof. intros (_ & Ht & Hc & Hw & _). destruct i as [ch cu]. cbn in *. rewrite Ht, chars_of_concat by exact Hw. subst. reflexivity. Qed.
  Lemma Rep_ibytes e i : Rep cp e i -> ibytes i = text e.
  Proof. intros (_ & Ht & _). symmetry. exact Ht. Qed.

  Lemma on_tab_refines s a r s' : SRel s a -> on_tab okT feats cs s = (r, s') ->
    r = Ok tt /\ SRel s' (fst (astep a (Ctl Tab))) /\ hcalls s' = hcalls s /\ ig s' = ig s.
  Proof.
    intros HS E. pose proof HS as (R & H & Hp & Hc & Hnf & Hv & Ha). unfold on_tab in E. cbn [Session.astep].
    destruct (f_ac feats); [|injection E as <- <-; auto].
    rewrite bind_get in E. destruct Hcs as [Hvn Hnn].
    destruct (autocompletion_spec _ _ _ cs R Hvn) as (e' & i' & Ea & R' & Esp).
    rewrite Ea, bind_lift_some, bind_modify in E.
    rewrite (Rep_ibytes _ _ R). destruct R as (q1 & q2 & q3 & q4). rewrite <- q3, <- Esp. cbn [fst].
    assert (R0 : Rep cp (ed s) (aline a)) by (unfold Rep; auto).
    rewrite <- (Rep_ideal_eq _ _ R').
    assert (HS2 : SRel (set_ed e' s) (set_line i' a)).
    { apply SRel_set_ed; [exact HS|exact R'|eapply ed_autocompletion_nul; [split; eauto|exact Ea|exact Hnf]]. }
    assert (T : Tail (if Nat.ltb (cursor (ed s)) (cursor e') then wr okT (ed_text_from e' (cursor (ed s)));; fl okT else ret tt)).
    { destruct (Nat.ltb _ _); [apply Tail_bind; [apply Tail_wr|intros; apply Tail_fl]|apply Tail_ret]. }
    destruct (SRel_tail _ _ _ _ _ _ _ T HS2 E) as (-> & S' & c' & g'). auto.
  Qed.

  Lemma replace_refines s x : Rep cp (ed s) (aline (astate0 [])) \/ True -> forall e0, cap e0 = cp -> valid_tok x ->
    exists e2, ed_insert (ed_clear e0) x = Some (e2, snd (ideal_step cp ideal0 (IInsert (chars_of x)))) /\ Rep cp e2 (replace_line cp x).
  Proof.
    intros _ e0 Hc (xcs & Hxw & ->). rewrite chars_of_concat by exact Hxw.
    assert (R0 : Rep cp (ed_clear e0) ideal0) by (unfold Rep, ed_clear, ideal0; cbn; repeat split; auto; try constructor; lia).
    destruct (insert_refines _ _ _ xcs R0 Hxw) as (e2 & Ei & R2). exists e2. split; [exact Ei|]. unfold replace_line. rewrite chars_of_concat by exact Hxw. exact R2.
  Qed.

  Lemma navigate_history_refines older s a r s' : SRel s a -> navigate_history okT feats older s = (r, s') ->
    r = Ok tt /\ SRel s' (fst (astep a (Ctl (if older then Up else Down)))) /\ hcalls s' = hcalls s /\ ig s' = ig s.
  Proof.
    intros HS E. pose proof HS as (R & H & Hp & Hc & Hnf & Hv & Ha). unfold navigate_history in E.
    assert (Eas : fst (astep a (Ctl (if older then Up else Down))) =
      if f_hist feats then
        (let '(h', el) := (if older then hs_older (ahist a) else hs_newer (ahist a)) in
         let a1 := {| aline := aline a; ahist := h'; aprompt := aprompt a; acalls := acalls a |} in
         match (if older then el else Some (match el with Some x => x | None => [] end)) with Some x => set_line (replace_line cp x) a1 | None => a1 end)
      else a).
    { destruct older; cbn [Session.astep]; destruct (f_hist feats); try reflexivity.
      - destruct (hs_older (ahist a)) as [h' [x|]]; reflexivity.
      - destruct (hs_newer (ahist a)) as [h' el]; reflexivity. }
    rewrite Eas. clear Eas.
    destruct (f_hist feats); [|injection E as <- <-; auto].
    rewrite bind_get in E.
    assert (Hgn : Forall (fun e => valid_tok e /\ TokenProofs.nul_free e) (ents (ahist a))).
    { destruct H as (_&_&Hgood&_). apply Forall_forall. intros x Hx. split; [rewrite Forall_forall in Hv; apply Hv, Hx|]. rewrite Forall_forall in Hgood. apply (Hgood x Hx). }
    assert (Hop : exists h', (if older then hist_older (hist s) else hist_newer (hist s)) = Some (h', snd (if older then hs_older (ahist a) else hs_newer (ahist a)))
                  /\ HRep hc h' (fst (if older then hs_older (ahist a) else hs_newer (ahist a)))
                  /\ ents (fst (if older then hs_older (ahist a) else hs_newer (ahist a))) = ents (ahist a)
                  /\ (forall x, snd (if older then hs_older (ahist a) else hs_newer (ahist a)) = Some x -> valid_tok x /\ TokenProofs.nul_free x)).
    { destruct older.
      - destruct (older_refines _ _ _ H) as (h' & E1 & R1). exists h'. split; [exact E1|]. split; [exact R1|]. split; [apply hs_older_ents|].
        intros x Hx. eapply (hs_older_valid (ahist a) (fun e => valid_tok e /\ TokenProofs.nul_free e)); eauto.
      - destruct (newer_refines _ _ _ H) as (h' & E1 & R1). exists h'. split; [exact E1|]. split; [exact R1|]. split; [apply hs_newer_ents|].
        intros x Hx. eapply (hs_newer_valid (ahist a) (fun e => valid_tok e /\ TokenProofs.nul_free e)); eauto. }
    destruct Hop as (h' & Eo & R' & Eents & Hel). rewrite Eo, bind_lift_some, bind_modify in E.
    destruct (if older then hs_older (ahist a) else hs_newer (ahist a)) as [sp' el] eqn:Esp. cbn [fst snd] in *.
    set (a1 := {| aline := aline a; ahist := sp'; aprompt := aprompt a; acalls := acalls a |}).
    assert (HS1 : SRel (set_hist h' s) a1).
    { unfold SessionProofs.SRel, a1. cbn. rewrite Eents. auto 10. }
    destruct (if older then el else Some match el with Some x => x | None => [] end) as [x|] eqn:Ex.
    2:{ injection E as <- <-. auto. }
    assert (Hx : valid_tok x /\ TokenProofs.nul_free x).
    { destruct older; [apply Hel, Ex|]. injection Ex as <-. destruct el as [y|]; [apply Hel; reflexivity|]. split; [exists []; split; [constructor|reflexivity]|constructor]. }
    destruct Hx as [Hxv Hxn]. change (ed (set_hist h' s)) with (ed s) in E.
    destruct (replace_refines s x (or_intror I) (ed s) (Rep_cap _ _ _ R) Hxv) as (e2 & Ei & R2).
    rewrite Ei, bind_lift_some, bind_modify in E. cbn [fst] in E.
    assert (HS2 : SRel (set_ed e2 (set_hist h' s)) (set_line (replace_line cp x) a1)).
    { apply SRel_set_ed; [exact HS1|exact R2|eapply ed_insert_nul; [exact Ei|constructor|exact Hxn]]. }
    assert (T : Tail (clear_line okT false;; (mdo s2 <- get; wr okT (text (ed s2));; fl okT))).
    { apply Tail_bind; [apply Tail_clear_line|intros]. apply Tail_bind; [apply Tail_get|intros]. apply Tail_bind; [apply Tail_wr|intros; apply Tail_fl]. }
    destruct (SRel_tail _ _ _ _ _ _ _ T HS2 E) as (-> & S' & c' & g'). auto.
  Qed.

  Lemma on_enter_refines s a r s' : SRel s a -> on_enter okT feats cs handler s = (r, s') ->
    r = Ok tt /\ SRel s' (fst (astep a (Ctl Enter))) /\ hcalls s' = hcalls s ++ snd (astep a (Ctl Enter)) /\ ig s' = ig s.
  Proof.
    intros HS E. unfold on_enter in E. unfold bind at 1 in E. destruct (wr okT CRLF s) as [r1 s1] eqn:E1.
    destruct (SRel_tail _ _ _ _ _ _ _ (Tail_wr CRLF) HS E1) as (-> & HS1 & c1 & g1).
    rewrite bind_get in E. pose proof HS1 as (R & H & Hp & Hc & Hnf & Hv & Ha).
    pose proof (Rep_valid _ _ _ R) as Hvt. pose proof (Rep_ibytes _ _ R) as Hib.
    set (h2spec := if f_hist feats then hs_push hc (ahist a) (ibytes (aline a)) else ahist a).
    assert (Hpsh : exists s2, (if f_hist feats then mdo h <- lift_opt (hist_push (hist s1) (text (ed s1))); modify (set_hist h) else ret tt) s1 = (Ok tt, s2)
                 /\ ed s2 = ed s1 /\ ig s2 = ig s1 /\ prompt s2 = prompt s1 /\ hcalls s2 = hcalls s1 /\ HRep hc (hist s2) h2spec /\ Forall valid_tok (ents h2spec)).
    { subst h2spec. destruct (f_hist feats); [|exists s1; auto 10].
      destruct (push_refines _ _ _ (text (ed s1)) H) as (h' & Ep & R'). rewrite Ep, bind_lift_some. exists (set_hist h' s1). rewrite Hib. cbn.
      split; [reflexivity|]. split; [reflexivity|]. split; [reflexivity|]. split; [reflexivity|]. split; [reflexivity|]. split; [exact R'|apply hs_push_valid; assumption]. }
    destruct Hpsh as (s2 & Ep & ee2 & eg2 & ep2 & ec2 & HH2 & Hv2). unfold bind at 1 in E. rewrite Ep in E.
    destruct (tokens_inplace_fun (text (ed s1)) Hnf) as (buf' & raw & empty & Et & Etok). rewrite Et, bind_lift_some, bind_modify in E.
    set (s3 := set_ed {| cap := cap (ed s1); text := buf'; cursor := cursor (ed s1) |} s2) in *.
    assert (Hvtok : Forall valid_tok (tokens_fun (ibytes (aline a)))) by (rewrite Hib; apply tokens_fun_valid, Hvt).
    destruct (process_input_run feats cs handler raw empty s3 (aline a) ltac:(rewrite Hib; exact Etok) Hvtok a eq_refl
                ltac:(unfold s3; cbn; congruence) ltac:(unfold s3; cbn; congruence)) as (s4 & E4 & d1 & d2 & d3 & d4 & d5).
    unfold bind at 1 in E. unfold catch in E. rewrite E4 in E. rewrite bind_modify in E.
    set (s5 := set_ed (ed_clear (ed s4)) s4) in *.
    cbn [Session.astep fst snd]. fold h2spec.
    set (d := dispatch feats cs a) in *.
    set (afin := {| aline := ideal0; ahist := h2spec; aprompt := match d with [(name, args)] => last_prompt (aprompt a) (handler (acalls a) name args) | _ => aprompt a end; acalls := acalls a + length d |}).
    assert (HS5 : SRel s5 afin).
    { unfold SessionProofs.SRel, s5, afin. cbn [ed ig hist prompt hcalls set_ed aline ahist aprompt acalls].
      split; [rewrite d1; unfold s3; cbn; unfold Rep, ed_clear, ideal0; cbn; repeat split; auto; try constructor; try lia; exact (Rep_cap _ _ _ R)|].
      split; [rewrite d3; unfold s3; cbn; exact HH2|]. split; [exact d5|]. split; [rewrite d4, app_length; unfold s3; cbn; congruence|].
      split; [constructor|]. split; [exact Hv2|]. rewrite d2. unfold s3. cbn. rewrite eg2. exact Ha. }
    assert (T : Tail (reraise (Ok tt);; (mdo s6 <- get; wr okT (prompt s6);; fl okT))).
    { apply Tail_bind; [split; [apply F5_reraise|]; split; [apply NP_reraise; discriminate|]; split; [apply NF_of_S, S_reraise|];
        intros s0 r0 s0' E0; injection E0 as <- <-; exists []; rewrite app_nil_r; split; reflexivity|intros].
      apply Tail_bind; [apply Tail_get|intros]. apply Tail_bind; [apply Tail_wr|intros; apply Tail_fl]. }
    destruct (SRel_tail _ _ _ _ _ _ _ T HS5 E) as (-> & S' & c' & g'). split; [reflexivity|]. split; [exact S'|].
    split; [rewrite c'; unfold s5; cbn; rewrite d4; unfold s3; cbn; congruence|].
    rewrite g'. unfold s5. cbn. rewrite d2. unfold s3. cbn. congruence.
  Qed.
End Refine4.

Section Refine5.
  Variable feats : features.
  Variable cs : cmdset.
  Variable handler : nat -> list N -> list (list N) -> list hop.
  Hypothesis Hcs : cmdset_ok cs.
  Variables cp hc : nat.
  Notation SRel := (SRel cp hc).
  Notation astep := (astep feats cs handler cp hc).

  Lemma on_control_refines c s a r s' : SRel s a -> on_control okT feats cs handler c s = (r, s') ->
    r = Ok tt /\ SRel s' (fst (astep a (Ctl c))) /\ hcalls s' = hcalls s ++ snd (astep a (Ctl c)) /\ ig s' = ig s.
  Proof.
    intros HS E. destruct c; cbn [on_control] in E.
    - destruct (on_backspace_refines feats cs handler cp hc s a r s' HS E) as (e1 & e2 & e3 & e4). split; [exact e1|]. split; [exact e2|]. split; [|exact e4].
      cbn [Session.astep]. destruct (ideal_step cp (aline a) ILeft) as [l1 mv]. cbn [snd]. rewrite app_nil_r. exact e3.
    - destruct (navigate_history_refines feats cs handler cp hc false s a r s' HS E) as (e1 & e2 & e3 & e4). split; [exact e1|]. split; [exact e2|]. split; [|exact e4].
      cbn [Session.astep]. destruct (f_hist feats); [destruct (hs_newer (ahist a))|]; cbn [snd]; rewrite app_nil_r; exact e3.
    - apply on_enter_refines; assumption.
    - destruct (navigate_input_refines feats cs handler cp hc false s a r s' HS E) as (e1 & e2 & e3 & e4). split; [exact e1|]. split; [exact e2|]. split; [|exact e4]. cbn [Session.astep snd]. rewrite app_nil_r. exact e3.
    - destruct (navigate_input_refines feats cs handler cp hc true s a r s' HS E) as (e1 & e2 & e3 & e4). split; [exact e1|]. split; [exact e2|]. split; [|exact e4]. cbn [Session.astep snd]. rewrite app_nil_r. exact e3.
    - destruct (on_tab_refines feats cs handler Hcs cp hc s a r s' HS E) as (e1 & e2 & e3 & e4). split; [exact e1|]. split; [exact e2|]. split; [|exact e4].
      cbn [Session.astep]. destruct (f_ac feats); [destruct (complete_spec _ _ _ _)|]; cbn [snd]; rewrite app_nil_r; exact e3.
    - destruct (navigate_history_refines feats cs handler cp hc true s a r s' HS E) as (e1 & e2 & e3 & e4). split; [exact e1|]. split; [exact e2|]. split; [|exact e4].
      cbn [Session.astep]. destruct (f_hist feats); [destruct (hs_older (ahist a))|]; cbn [snd]; rewrite app_nil_r; exact e3.
  Qed.

  (* one byte: the decoder turns it into at most one event, which the abstract session then takes *)
  Definition astep_opt (a : astate) (oi : option input) : astate * list (list N * list (list N)) :=
    match oi with Some ev => astep a ev | None => (a, []) end.

  Theorem process_byte_refines b s a r s' : byte b -> SRel s a -> api_process_byte okT feats cs handler b s = (r, s') ->
    r = Ok tt /\ SRel s' (fst (astep_opt a (snd (accept (ig s) b)))) /\ hcalls s' = hcalls s ++ snd (astep_opt a (snd (accept (ig s) b)))
    /\ ig s' = fst (accept (ig s) b).
  Proof.
    intros Hb HS E. unfold api_process_byte in E. rewrite bind_get in E. destruct (accept (ig s) b) as [g' oi] eqn:Ea. rewrite bind_modify in E. cbn [fst snd].
    pose proof HS as (R & H & Hp & Hc & Hnf & Hv & Ha).
    destruct (accept_inv (ig s) b Hb Ha) as [Hg' _]. rewrite Ea in Hg'. cbn [fst] in Hg'.
    assert (HS' : SRel (set_ig g' s) a) by (unfold SessionProofs.SRel; cbn; auto 10).
    destruct oi as [[c|t]|]; cbn [astep_opt].
    - destruct (on_control_refines c (set_ig g' s) a r s' HS' E) as (e1 & e2 & e3 & e4). auto.
    - destruct (accept_typed (ig s) b t Hb Ha) as [Hw Hn]; [rewrite Ea; reflexivity|].
      destruct (on_text_refines feats cs handler cp hc t (set_ig g' s) a r s' Hw Hn HS' E) as (e1 & e2 & e3 & e4). split; [exact e1|]. split; [exact e2|]. split; [|exact e4]. cbn [Session.astep snd]. rewrite app_nil_r. exact e3.
    - injection E as <- <-. rewrite app_nil_r. auto.
  Qed.

  (* every byte stream: the handler-call log is what the abstract session produces on the decoder's events *)
  Fixpoint arun (a : astate) (evs : list input) : astate * list (list N * list (list N)) :=
    match evs with
    | [] => (a, [])
    | ev :: r => let '(a1, c1) := astep a ev in let '(a2, c2) := arun a1 r in (a2, c1 ++ c2)
    end.
  Fixpoint crun (s : cli) (bs : list N) : cli * list (res unit) :=
    match bs with
    | [] => (s, [])
    | b :: r => let '(x, s1) := api_process_byte okT feats cs handler b s in let '(s2, xs) := crun s1 r in (s2, x :: xs)
    end.

  Theorem run_refines : forall bs s a, bytes bs -> SRel s a ->
    let '(s', rs) := crun s bs in
    let '(a', calls) := arun a (snd (runa (ig s) bs)) in
    Forall (fun x => x = Ok tt) rs /\ SRel s' a' /\ hcalls s' = hcalls s ++ calls.
  Proof.
    induction bs as [|b bs IH]; intros s a Hb HS; cbn [crun runa arun snd].
    - rewrite app_nil_r. auto.
    - inversion Hb as [|? ? Hb1 Hbr]; subst.
      destruct (api_process_byte okT feats cs handler b s) as [x s1] eqn:E.
      destruct (process_byte_refines b s a x s1 Hb1 HS E) as (-> & HS1 & Hc1 & Hg1).
      destruct (accept (ig s) b) as [g1 oi] eqn:Ea. cbn [fst snd] in *.
      specialize (IH s1 (fst (astep_opt a oi)) Hbr HS1). rewrite Hg1 in IH.
      destruct (crun s1 bs) as [s2 xs]. destruct (runa g1 bs) as [g2 evs]. cbn [snd] in *.
      destruct oi as [ev|]; cbn [astep_opt fst snd] in *.
      + cbn [arun]. destruct (astep a ev) as [a1 c1]. cbn [fst snd] in *. destruct (arun a1 evs) as [a2 c2].
        destruct IH as (I1 & I2 & I3). split; [constructor; auto|]. split; [exact I2|]. rewrite I3, Hc1, app_assoc. reflexivity.
      + destruct (arun a evs) as [a2 c2]. destruct IH as (I1 & I2 & I3). split; [constructor; auto|]. split; [exact I2|]. rewrite I3, Hc1, app_nil_r. reflexivity.
  Qed.
End Refine5.

(* ---------- C13 (W2): the bytes of an Enter that dispatches a command *)
Definition cmd_bytes (hs : list hop) : list N :=
  let h := Framing.hops_bytes hs in h ++ (if Framing.needs_break h then [13; 10] else []).

Section EnterBytes.
  Variable feats : features.
  Variable cs : cmdset.
  Variable handler : nat -> list N -> list (list N) -> list hop.
  Hypothesis Hcs : cmdset_ok cs.
  Variables cp hc : nat.
  Notation SRel := (SRel cp hc).

  (* the handler part of process_command: everything up to the flush; what follows is the error line of a processor that rejects the
     command after its output (cs_fail), or nothing *)
  Lemma process_command_prefix name args s : cs_parse cs name args = None ->
    exists s6 O, process_command okT cs handler name args s =
                   (match cs_fail cs (length (hcalls s)) name args with Some e => process_error okT e | None => ret tt end) s6
      /\ out (sk s6) = out (sk s) ++ O /\ ops_bytes O = cmd_bytes (handler (length (hcalls s)) name args).
  Proof.
    intros Hp. unfold process_command. rewrite Hp, bind_get, bind_modify. unfold new_writer. rewrite bind_modify.
    set (s2 := set_newp None (set_wst w0 (log_call (name, args) s))).
    set (hs := handler (length (hcalls s)) name args).
    destruct (run_hops_ok hs s2) as (s3 & O3 & E3 & F3 & Out3 & B3 & W3 & N3).
    unfold bind at 1. unfold catch. rewrite E3. rewrite bind_get.
    set (s4 := match newp s3 with Some p => set_prompt_f p s3 | None => s3 end).
    assert (E4 : (match newp s3 with Some p => modify (set_prompt_f p) | None => ret tt end) s3 = (Ok tt, s4)) by (subst s4; destruct (newp s3); reflexivity).
    unfold bind at 1. rewrite E4.
    assert (Hd : is_dirty (wst s3) = Framing.needs_break (Framing.hops_bytes hs)) by (rewrite W3; unfold s2, set_newp, set_wst; cbn [wst]; apply is_dirty_hops).
    assert (Hs4 : sk s4 = sk s3) by (subst s4; destruct (newp s3); reflexivity).
    assert (E5 : exists s5, (if is_dirty (wst s3) then wr okT CRLF else ret tt) s4 = (Ok tt, s5)
                 /\ out (sk s5) = out (sk s4) ++ (if Framing.needs_break (Framing.hops_bytes hs) then wop CRLF else [])).
    { rewrite Hd. destruct (Framing.needs_break (Framing.hops_bytes hs)).
      - destruct (wr_ok CRLF s4) as (s5 & E & (_&_&_&_&_&_&_&a8)). exists s5. auto.
      - exists s4. rewrite app_nil_r. auto. }
    destruct E5 as (s5 & E5 & O5). unfold bind at 1. rewrite E5.
    destruct (fl_ok s5) as (s6 & E6 & (_&_&_&_&_&_&_&h8)). unfold bind at 1. rewrite E6.
    unfold bind at 1. unfold reraise.
    exists s6. eexists. split; [reflexivity|]. split.
    - rewrite h8, O5, Hs4, Out3. unfold s2, set_newp, set_wst, log_call; cbn [sk]. rewrite <- !app_assoc. reflexivity.
    - rewrite !ops_bytes_app, B3. unfold cmd_bytes. fold hs. f_equal.
      destruct (Framing.needs_break (Framing.hops_bytes hs)); [rewrite ops_bytes_wop; reflexivity|reflexivity].
  Qed.
  Lemma process_command_bytes name args s : cs_parse cs name args = None -> cs_fail cs (length (hcalls s)) name args = None ->
    exists s' O, process_command okT cs handler name args s = (Ok tt, s') /\ out (sk s') = out (sk s) ++ O
      /\ ops_bytes O = cmd_bytes (handler (length (hcalls s)) name args).
  Proof.
    intros Hp Hfail. destruct (process_command_prefix name args s Hp) as (s6 & O & E & Out & B). rewrite Hfail in E. exists s6, O. auto.
  Qed.

  Theorem on_enter_bytes s a n args : SRel s a -> dispatch feats cs a = [(n, args)] -> cs_fail cs (acalls a) n args = None ->
    exists s' O, on_enter okT feats cs handler s = (Ok tt, s') /\ out (sk s') = out (sk s) ++ O /\
      ops_bytes O = Framing.frame_enter (handler (acalls a) n args) (last_prompt (aprompt a) (handler (acalls a) n args)) /\ last_is_flush O.
  Proof.
    intros HS Hd Hfail.
    destruct (on_enter okT feats cs handler s) as [r s'] eqn:E.
    destruct (on_enter_refines feats cs handler cp hc s a r s' HS E) as (-> & HS' & _ & _).
    exists s'. unfold on_enter in E. unfold bind at 1 in E.
    destruct (wr_ok CRLF s) as (s1 & E1 & A1). rewrite E1 in E.
    destruct (SRel_tail cp hc _ _ _ _ _ (Tail_wr CRLF) HS E1) as (_ & HS1 & c1 & g1).
    rewrite bind_get in E. pose proof HS1 as (R & H & Hp & Hc & Hnf & Hv & Ha).
    pose proof (Rep_ibytes cp _ _ R) as Hib. pose proof (Rep_valid _ _ _ R) as Hvt.
    assert (Hpsh : exists s2, (if f_hist feats then mdo h <- lift_opt (hist_push (hist s1) (text (ed s1))); modify (set_hist h) else ret tt) s1 = (Ok tt, s2)
                 /\ sk s2 = sk s1 /\ prompt s2 = prompt s1 /\ hcalls s2 = hcalls s1).
    { destruct (f_hist feats); [|exists s1; auto]. destruct (push_refines _ _ _ (text (ed s1)) H) as (h' & Ep & _). rewrite Ep, bind_lift_some. exists (set_hist h' s1). auto. }
    destruct Hpsh as (s2 & Ep & k2 & p2 & c2). unfold bind at 1 in E. rewrite Ep in E.
    destruct (tokens_inplace_fun (text (ed s1)) Hnf) as (buf' & raw & empty & Et & Etok). rewrite Et, bind_lift_some, bind_modify in E.
    set (s3 := set_ed {| cap := cap (ed s1); text := buf'; cursor := cursor (ed s1) |} s2) in *.
    (* process_input = process_command on the dispatched tokens *)
    unfold dispatch in Hd. rewrite Hib in Hd.
    assert (Ets : tokens_iter raw empty = n :: args /\ cs_parse cs n args = None /\
                  (f_help feats = false \/ exists hr, help_request n args = Some hr /\ hr = None)).
    { rewrite Etok. destruct (tokens_fun (text (ed s1))) as [|nm rest] eqn:Etf; [discriminate|].
      assert (Hargs : Forall valid_tok rest). { pose proof (tokens_fun_valid _ Hvt) as V. rewrite Etf in V. inversion V; assumption. }
      destruct (help_request_some nm rest Hargs) as [hr Hr]. rewrite Hr in Hd.
      destruct (f_help feats) eqn:Ef; cbn [andb] in Hd.
      - destruct hr as [req|]; [discriminate|]. destruct (cs_parse cs nm rest) eqn:Epp; [discriminate|]. injection Hd as <- <-. eauto 10.
      - destruct (cs_parse cs nm rest) eqn:Epp; [discriminate|]. injection Hd as <- <-. auto. }
    destruct Ets as (Ets & Epar & Ehelp).
    assert (Epi : process_input okT feats cs handler raw empty s3 = process_command okT cs handler n args s3).
    { unfold process_input. rewrite Ets. cbn [from_tokens]. destruct Ehelp as [-> | (hr & Hr & ->)]; [reflexivity|].
      destruct (f_help feats); [rewrite Hr, bind_lift_some|]; reflexivity. }
    assert (Hfail3 : cs_fail cs (length (hcalls s3)) n args = None) by (replace (length (hcalls s3)) with (acalls a) by (unfold s3; cbn; congruence); exact Hfail).
    destruct (process_command_bytes n args s3 Epar Hfail3) as (s4 & O4 & E4 & Out4 & B4).
    unfold bind at 1 in E. unfold catch in E. rewrite Epi, E4 in E. rewrite bind_modify in E.
    set (s5 := set_ed (ed_clear (ed s4)) s4) in *.
    unfold bind at 1 in E. unfold reraise at 1 in E. rewrite bind_get in E.
    destruct (wr_ok (prompt s5) s5) as (s6 & E6 & A6). unfold bind at 1 in E. rewrite E6 in E.
    destruct (fl_ok s6) as (s7 & E7 & A7). rewrite E7 in E. injection E as <-.
    destruct (process_command_run cs handler n args s3 Epar) as (s4' & E4' & _ & _ & _ & _ & Hpr). rewrite E4 in E4'. injection E4' as <-.
    eexists. split; [reflexivity|].
    destruct A1 as (_&_&_&_&_&_&_&a8). destruct A6 as (_&_&_&_&_&_&_&b8). destruct A7 as (_&_&_&_&_&_&_&d8).
    split; [|split].
    - rewrite d8, b8. unfold s5; cbn [sk set_ed]. rewrite Out4. unfold s3; cbn [sk set_ed]. rewrite k2, a8, <- !app_assoc. reflexivity.
    - rewrite !ops_bytes_app, !ops_bytes_wop, B4. cbn [ops_bytes flat_map op_bytes]. rewrite app_nil_r.
      unfold Framing.frame_enter, cmd_bytes.
      assert (Ecall : length (hcalls s3) = acalls a) by (unfold s3; cbn; congruence).
      assert (Eprm : prompt s5 = last_prompt (aprompt a) (handler (acalls a) n args)).
      { unfold s5; cbn [prompt set_ed]. rewrite Hpr. unfold s3; cbn [prompt hcalls set_ed]. rewrite p2, c2, Hp, Hc. reflexivity. }
      fold s5. rewrite Ecall, Eprm. unfold CRLF. rewrite <- !app_assoc. reflexivity.
    - exists (wop CRLF ++ O4 ++ wop (prompt s5)). rewrite <- !app_assoc. reflexivity.
  Qed.
End EnterBytes.
