(* C06: with a working sink the bytes emitted so far, read by the terminal of Spec/Terminal.v, always show prompt + edited line with the
   cursor at the editor's position. Invariant over every API call; printable text (no byte below 0x20 except LF in application output). *)
From Coq Require Import ZArith.
From EC Require Import Base Generated.Codes Model.Utf8 Model.Utils Model.Input Model.Editor Model.Token Model.Args Model.History Model.Sink Model.Writer Model.Cli
  Spec.Utf8Spec Spec.QuoteSpec Spec.Framing Spec.Terminal Spec.IdealEditor Spec.HistSpec Spec.ArgSpec Spec.CompletionSpec Spec.Session
  Proofs.ListFacts Proofs.Utf8Proofs Proofs.UtilsProofs Proofs.InputProofs Proofs.EditorProofs Proofs.TokenProofs Proofs.ArgsProofs Proofs.HistoryProofs
  Proofs.SinkOk Proofs.FlushProofs Proofs.FaultProofs Proofs.ClassProofs Proofs.TokenValid Proofs.CompletionProofs Proofs.SafetyProofs
  Proofs.SessionProofs Proofs.TerminalProofs.
Ltac Zify.zify_post_hook ::= Z.div_mod_to_equations.

(* ---------- the terminal state of a Cli: everything written so far *)
Definition obytes (s : cli) : list N := ops_bytes (out (sk s)).
Definition term (s : cli) : tstate := tfeed tinit (obytes s).
Definition Outs (s s' : cli) (B : list N) : Prop := obytes s' = obytes s ++ B.
Lemma Outs_refl s : Outs s s []. Proof. unfold Outs. rewrite app_nil_r. reflexivity. Qed.
Lemma Outs_trans a b c B1 B2 : Outs a b B1 -> Outs b c B2 -> Outs a c (B1 ++ B2).
Proof. unfold Outs. intros -> ->. rewrite app_assoc. reflexivity. Qed.
Lemma Outs_appended s s' O : appended s s' O -> Outs s s' (ops_bytes O).
Proof. intros (_&_&_&_&_&_&_&H). unfold Outs, obytes. rewrite H, ops_bytes_app. reflexivity. Qed.
Lemma Outs_same_sk s s' : sk s' = sk s -> Outs s s' [].
Proof. intros H. unfold Outs, obytes. rewrite H, app_nil_r. reflexivity. Qed.
Lemma term_Outs s s' B : Outs s s' B -> term s' = tfeed (term s) B.
Proof. unfold Outs, term. intros ->. apply tfeed_app. Qed.

(* ---------- what the environment must provide: printable names, prompts and outputs *)
Definition text_ok (t : list N) : Prop := exists cs, t = concat cs /\ Forall (fun c => pchar c \/ c = [10] \/ c = [13]) cs.
Definition hop_ok (h : hop) : Prop := match h with HWrite t => text_ok t | HWriteln t => text_ok t | HSetPrompt p => ptext p end.
Definition hops_ok (hs : list hop) : Prop := Forall hop_ok hs.
Definition perr_ok (e : perr) : Prop :=
  match e with
  | EMissing n => ptext n
  | EParseValue v ex => ptext v /\ ptext ex
  | EUnexpArg v => ptext v
  | EUnexpLong n => ptext n
  | EUnexpShort c => ptext (encode_utf8 c)
  | EUnknown => True
  end.
Record env_ok (cs : cmdset) (handler : nat -> list N -> list (list N) -> list hop) : Prop := {
  eo_names : Forall (Forall ge32) (cs_names cs);
  eo_handler : forall n name args, hops_ok (handler n name args);
  eo_list : hops_ok (cs_list_help cs);
  eo_help : forall n a hs, cs_cmd_help cs n a = Some hs -> hops_ok hs;
  eo_parse : forall n a e, Forall ptext (n :: a) -> cs_parse cs n a = Some e -> perr_ok e;
  eo_fail : forall k n a e, Forall ptext (n :: a) -> cs_fail cs k n a = Some e -> perr_ok e }.

(* application output: LF -> CR LF keeps the lexer in the ground state *)
Lemma lf_to_crlf_ge32 c : Forall ge32 c -> lf_to_crlf c = c.
Proof. intros H. apply lf_to_crlf_free. unfold lf_free. rewrite Forall_forall in *. intros b Hb E. specialize (H b Hb). unfold ge32 in H. lia. Qed.
Lemma Plain_text_ok t : text_ok t -> Plain (lf_to_crlf t).
Proof.
  intros (cs & -> & H). induction H as [|c cs Hc _ IH]; [apply Plain_nil|]. cbn [concat]. rewrite lf_to_crlf_app. apply Plain_app; [|exact IH].
  destruct Hc as [Hc | [-> | ->]]; [|apply Plain_crlf|intros t; reflexivity]. rewrite lf_to_crlf_ge32 by exact (proj2 Hc). apply Plain_pchar, Hc.
Qed.
Lemma Plain_hops hs : hops_ok hs -> Plain (hops_bytes hs).
Proof.
  induction 1 as [|h hs Hh _ IH]; [apply Plain_nil|]. cbn [hops_bytes flat_map]. apply Plain_app; [|exact IH].
  destruct h as [t|t|p]; cbn [hop_bytes hop_ok] in *; [apply Plain_text_ok, Hh|apply Plain_app; [apply Plain_text_ok, Hh|apply Plain_crlf]|apply Plain_nil].
Qed.

(* output that is empty or ends with a line break *)
Definition EndsOK (X : list N) : Prop := X = [] \/ exists X', X = X' ++ [13; 10] /\ Plain X'.
Lemma EndsOK_Plain X : EndsOK X -> Plain X.
Proof. intros [-> | (X' & -> & H)]; [apply Plain_nil|apply Plain_app; [exact H|apply Plain_crlf]]. Qed.

(* hops_bytes is the LF->CRLF image of one text; if it ends with LF it ends with CR LF *)
Definition hop_text (h : hop) : list N := match h with HWrite t => t | HWriteln t => t ++ [10] | HSetPrompt _ => [] end.
Lemma hops_bytes_text hs : hops_bytes hs = lf_to_crlf (flat_map hop_text hs).
Proof.
  induction hs as [|h hs IH]; [reflexivity|]. cbn [hops_bytes flat_map]. rewrite lf_to_crlf_app. fold (hops_bytes hs). rewrite IH. f_equal.
  destruct h; cbn [hop_bytes hop_text]; [reflexivity| |reflexivity]. rewrite lf_to_crlf_app. reflexivity.
Qed.
Lemma lf_to_crlf_snoc x b : lf_to_crlf (x ++ [b]) = lf_to_crlf x ++ (if b =? 10 then [13; 10] else [b]).
Proof. rewrite lf_to_crlf_app. cbn [lf_to_crlf]. destruct (b =? 10); reflexivity. Qed.
Lemma text_ok_app a b : text_ok a -> text_ok b -> text_ok (a ++ b).
Proof. intros (ca & -> & Ha) (cb & -> & Hb). exists (ca ++ cb). rewrite concat_app. split; [reflexivity|apply Forall_app_intro; assumption]. Qed.
Lemma text_ok_hops hs : hops_ok hs -> text_ok (flat_map hop_text hs).
Proof.
  induction 1 as [|h hs Hh _ IH]; [exists []; split; [reflexivity|constructor]|]. cbn [flat_map]. apply text_ok_app; [|exact IH].
  destruct h as [t|t|p]; cbn [hop_text hop_ok] in *; [exact Hh| |exists []; split; [reflexivity|constructor]].
  apply text_ok_app; [exact Hh|]. exists [[10]]. split; [reflexivity|]. constructor; [right; left; reflexivity|constructor].
Qed.
Lemma text_ok_snoc_inv x b : text_ok (x ++ [b]) -> b = 10 -> text_ok x.
Proof.
  intros (cs & E & H) ->. destruct (exists_last (l := cs)) as (cs' & c & ->).
  { intros ->. cbn in E. destruct x; discriminate. }
  apply Forall_app in H. destruct H as [H1 H2]. inversion H2 as [|? ? Hc _]; subst. rewrite concat_app in E. cbn [concat] in E. rewrite app_nil_r in E.
  destruct Hc as [[Hw Hg] | [-> | ->]].
  - (* the last char is printable, yet the text ends with LF *)
    exfalso. destruct (exists_last (l := c)) as (c' & z & ->). { intros ->. cbn in Hw. exact Hw. }
    rewrite app_assoc in E. apply app_inj_tail in E. destruct E as [_ <-]. apply Forall_app in Hg. destruct Hg as [_ Hz]. inversion Hz as [|? ? Hz' _]; subst. unfold ge32 in Hz'. lia.
  - apply app_inj_tail in E. destruct E as [-> _]. exists cs'. auto.
  - apply app_inj_tail in E. destruct E as [_ E]. discriminate.
Qed.
Lemma ends_with_lf_snoc x b : ends_with_lf (x ++ [b]) = (b =? 10).
Proof.
  unfold ends_with_lf. rewrite rev_app_distr. cbn [rev app]. destruct b as [|p]; [reflexivity|].
  destruct p as [p|p|]; reflexivity.
Qed.
Lemma EndsOK_cmd_bytes hs : hops_ok hs -> EndsOK (cmd_bytes hs).
Proof.
  intros H. unfold cmd_bytes. pose proof (Plain_hops hs H) as Hp.
  destruct (needs_break (hops_bytes hs)) eqn:En.
  - right. exists (hops_bytes hs). auto.
  - rewrite app_nil_r. unfold needs_break in En. destruct (hops_bytes hs) as [|b0 r0] eqn:Eb; [left; reflexivity|]. right.
    rewrite <- Eb in *. apply negb_false_iff in En.
    pose proof (text_ok_hops hs H) as Ht. rewrite hops_bytes_text in *.
    destruct (exists_last (l := flat_map hop_text hs)) as (x & b & Ex). { intros E0. rewrite E0 in Eb. discriminate. }
    rewrite Ex in *. rewrite lf_to_crlf_snoc in *.
    destruct (b =? 10) eqn:E10.
    + exists (lf_to_crlf x). split; [reflexivity|]. apply Plain_text_ok. eapply text_ok_snoc_inv; [exact Ht|lia].
    + exfalso. rewrite ends_with_lf_snoc in En. congruence.
Qed.

(* ---------- outputs of the small tails *)
Lemma ops_bytes_SF : ops_bytes [SF] = []. Proof. reflexivity. Qed.
Lemma flush_bytes_out bs s : exists s', flush_bytes okT bs s = (Ok tt, s') /\ appended s s' (wop bs ++ [SF]).
Proof.
  destruct (wr_ok bs s) as (s1 & E1 & A1). destruct (fl_ok s1) as (s2 & E2 & A2). exists s2.
  split; [eapply bind_ok; [exact E1|exact E2]|eapply appended_trans; eauto].
Qed.
Lemma text_tail_out (inside : bool) t s : exists s', ((if inside then wr okT INSERT_CHAR else ret tt);; wr okT t;; fl okT) s = (Ok tt, s')
  /\ appended s s' ((if inside then wop INSERT_CHAR else []) ++ wop t ++ [SF]).
Proof.
  assert (H0 : exists s0, (if inside then wr okT INSERT_CHAR else ret tt) s = (Ok tt, s0) /\ appended s s0 (if inside then wop INSERT_CHAR else [])).
  { destruct inside; [apply wr_ok|exists s; split; [reflexivity|apply appended_refl]]. }
  destruct H0 as (s0 & E0 & A0). destruct (wr_ok t s0) as (s1 & E1 & A1). destruct (fl_ok s1) as (s2 & E2 & A2). exists s2.
  split; [eapply bind_ok; [exact E0|]; eapply bind_ok; [exact E1|exact E2]|]. eapply appended_trans; [exact A0|]. eapply appended_trans; eauto.
Qed.

(* every byte of every token is a byte of the line *)
Lemma tokens_go_bytes (P : N -> Prop) : forall bs m cur, Forall P cur -> Forall P bs -> Forall (Forall P) (tokens_go m cur bs).
Proof.
  induction bs as [|b r IH]; intros m cur Hc Hb.
  - cbn [tokens_go]. destruct m; repeat constructor; apply Forall_rev; exact Hc.
  - inversion Hb as [|? ? Hb1 Hr]; subst. destruct m; cbn [tokens_go].
    + destruct (b =? 34); [apply IH; auto|]. destruct ((b =? 32) || (b =? 0)); apply IH; auto.
    + destruct ((b =? 32) || (b =? 0)); [constructor; [apply Forall_rev; exact Hc|apply IH; auto]|apply IH; auto].
    + destruct ((b =? 34) || (b =? 0)); [constructor; [apply Forall_rev; exact Hc|apply IH; auto]|]. destruct (b =? 92); apply IH; auto.
    + apply IH; auto.
Qed.
Lemma tokens_fun_ptext line : ptext line -> Forall ptext (tokens_fun line).
Proof.
  intros [Hv Hg]. pose proof (tokens_fun_valid line Hv) as V. pose proof (tokens_go_bytes ge32 line QSpace [] (Forall_nil _) Hg) as G. fold (tokens_fun line) in G.
  rewrite Forall_forall in *. intros t Ht. split; auto.
Qed.

(* ---------- outputs of the Enter paths *)
Lemma ascii_consts : Forall (fun b => 32 <= b /\ b < 128) (ERR_PREFIX ++ ERR_MISSING ++ ERR_PARSE_1 ++ ERR_PARSE_2 ++ ERR_UNEXP_ARG ++ ERR_UNEXP_LONG_1 ++ ERR_UNEXP_LONG_2
  ++ ERR_UNEXP_SHORT ++ ERR_UNKNOWN ++ HELP_ERR_1 ++ HELP_ERR_2).
Proof. vm_compute. repeat constructor; discriminate. Qed.
Ltac ascii_in := let H := fresh in pose proof ascii_consts as H; rewrite !Forall_app in H; intuition.
Lemma text_ok_ascii bs : Forall (fun b => 32 <= b /\ b < 128) bs -> text_ok bs.
Proof.
  intros H. exists (map (fun b => [b]) bs). split.
  - clear H. induction bs as [|b bs IH]; [reflexivity|]. cbn [map concat app]. rewrite <- IH. reflexivity.
  - induction H as [|b bs [H1 H2] _ IH]; [constructor|]. cbn [map]. constructor; [left; apply pchar_ascii; assumption|exact IH].
Qed.

Lemma wr_out bs s : exists s', wr okT bs s = (Ok tt, s') /\ wframe s s' /\ Outs s s' bs.
Proof. destruct (wr_ok bs s) as (s' & E & A). exists s'. split; [exact E|]. split; [eapply appended_wframe; eauto|]. pose proof (Outs_appended _ _ _ A) as H. rewrite ops_bytes_wop in H. exact H. Qed.
Lemma fl_out s : exists s', fl okT s = (Ok tt, s') /\ wframe s s' /\ Outs s s' [].
Proof. destruct (fl_ok s) as (s' & E & A). exists s'. split; [exact E|]. split; [eapply appended_wframe; eauto|]. exact (Outs_appended _ _ _ A). Qed.

(* a chain of writes: Ok, frame, and the bytes in order *)
Fixpoint wr_all (l : list (list N)) : M cli unit := match l with [] => ret tt | b :: r => wr okT b ;; wr_all r end.
Lemma wr_all_out : forall l s, exists s', wr_all l s = (Ok tt, s') /\ wframe s s' /\ Outs s s' (concat l).
Proof.
  induction l as [|b l IH]; intros s; [exists s; split; [reflexivity|split; [apply wframe_refl|apply Outs_refl]]|].
  destruct (wr_out b s) as (s1 & E1 & F1 & O1). destruct (IH s1) as (s2 & E2 & F2 & O2). exists s2.
  split; [eapply bind_ok; eauto|]. split; [eapply wframe_trans; eauto|]. cbn [concat]. eapply Outs_trans; eauto.
Qed.

Definition err_text (e : perr) : list N :=
  match e with
  | EMissing n => ERR_MISSING ++ n
  | EParseValue v ex => ERR_PARSE_1 ++ v ++ ERR_PARSE_2 ++ ex
  | EUnexpArg v => ERR_UNEXP_ARG ++ v
  | EUnexpLong n => ERR_UNEXP_LONG_1 ++ ERR_UNEXP_LONG_2 ++ n
  | EUnexpShort c => ERR_UNEXP_SHORT ++ encode_utf8 c
  | EUnknown => ERR_UNKNOWN
  end.
Lemma process_error_out e s : exists s', process_error okT e s = (Ok tt, s') /\ wframe s s' /\ Outs s s' ((ERR_PREFIX ++ err_text e) ++ [13; 10]).
Proof.
  assert (H : exists s', wr_all ([ERR_PREFIX] ++ match e with
     | EMissing n => [ERR_MISSING; n] | EParseValue v ex => [ERR_PARSE_1; v; ERR_PARSE_2; ex] | EUnexpArg v => [ERR_UNEXP_ARG; v]
     | EUnexpLong n => [ERR_UNEXP_LONG_1; ERR_UNEXP_LONG_2; n] | EUnexpShort c => [ERR_UNEXP_SHORT; encode_utf8 c] | EUnknown => [ERR_UNKNOWN] end ++ [CRLF]) s = (Ok tt, s')
     /\ wframe s s' /\ Outs s s' ((ERR_PREFIX ++ err_text e) ++ [13; 10])).
  { destruct (wr_all_out ([ERR_PREFIX] ++ match e with
     | EMissing n => [ERR_MISSING; n] | EParseValue v ex => [ERR_PARSE_1; v; ERR_PARSE_2; ex] | EUnexpArg v => [ERR_UNEXP_ARG; v]
     | EUnexpLong n => [ERR_UNEXP_LONG_1; ERR_UNEXP_LONG_2; n] | EUnexpShort c => [ERR_UNEXP_SHORT; encode_utf8 c] | EUnknown => [ERR_UNKNOWN] end ++ [CRLF]) s) as (s' & E & F & O).
    exists s'. split; [exact E|]. split; [exact F|]. destruct e; cbn [concat app err_text] in *; rewrite ?app_nil_r, <- ?app_assoc in *; exact O. }
  destruct H as (s1 & E1 & F1 & O1). destruct (fl_out s1) as (s2 & E2 & F2 & O2). exists s2.
  split; [|split; [eapply wframe_trans; eauto|rewrite <- (app_nil_r ((ERR_PREFIX ++ err_text e) ++ [13; 10])); eapply Outs_trans; eauto]].
  unfold process_error. destruct e; cbn [wr_all app] in E1; unfold bind in *; repeat match goal with
    | H : context [wr okT ?b ?s] |- context [wr okT ?b ?s] => destruct (wr okT b s) as [[[]| |] ?]; try discriminate end; try (injection E1 as <-); try exact E2.
Qed.
Lemma Plain_err e : perr_ok e -> Plain (ERR_PREFIX ++ err_text e).
Proof.
  intros H. apply Plain_app; [solve [apply Plain_ascii; ascii_in]|].
  destruct e; cbn [err_text perr_ok] in *; repeat apply Plain_app; try solve [apply Plain_ascii; ascii_in]; try solve [apply Plain_ptext; tauto].
Qed.

(* what the decoder hands out as text has no byte below 0x20 *)
Lemma accept_typed_ge32 g b t : byte b -> ainv (acc g) -> snd (accept g b) = Some (Chr t) -> Forall ge32 t.
Proof.
  intros Hb Ha E. destruct (accept_typed g b t Hb Ha E) as [Hw _]. destruct t as [|x [|y r]].
  - constructor.
  - constructor; [|constructor].
    unfold accept in E. destruct (csi g).
    { unfold process_csi in E. destruct ((CSI_FINAL_LO <=? b) && (b <=? CSI_FINAL_HI)); cbn in E; [|discriminate]. revert E. brk; discriminate. }
    destruct ((last g =? ESCAPE) && (b =? CSI_INTRO)); [cbn in E; discriminate|].
    unfold process_single in E. revert E. brk; cbn; try discriminate.
    destruct (push (acc g) b) as [a' o] eqn:Ep. cbn. destruct o as [c|]; cbn; [|discriminate]. intros [= ->].
    assert (X : snd (push (acc g) b) = Some [x]) by (rewrite Ep; reflexivity). apply push_single_is_byte in X. subst x.
    unfold MIN_PRINTABLE, ge32 in *. lia.
  - assert (Hh : Forall high (x :: y :: r)) by (apply wf_multibyte_high; [exact Hw|cbn; lia]).
    rewrite Forall_forall in *. intros z Hz. specialize (Hh z Hz). unfold high, ge32 in *. lia.
Qed.

Section ViewKeys.
  Variable feats : features.
  Variable cs : cmdset.
  Variable handler : nat -> list N -> list (list N) -> list hop.
  Hypothesis Hcs : cmdset_ok cs.
  Hypothesis Henv : env_ok cs handler.
  Variables cp hc : nat.
  Notation SRel := (SRel cp hc).
  Notation astep := (astep feats cs handler cp hc).

  Definition VInv (s : cli) (a : astate) : Prop :=
    SRel s a /\ Forall pchar (chars (aline a)) /\ Forall (Forall ge32) (ents (ahist a)) /\ ptext (prompt s)
    /\ View (term s) (chars_of (prompt s)) (chars (aline a)) (icur (aline a)).

  Lemma SRel_rep s a : SRel s a -> Rep cp (ed s) (aline a). Proof. intros (R & _). exact R. Qed.
  Lemma rep_cursor s a : SRel s a -> cursor (ed s) = icur (aline a). Proof. intros ((_ & _ & H & _) & _). exact H. Qed.
  Lemma rep_len s a : SRel s a -> ed_len (ed s) = length (chars (aline a)). Proof. intros (R & _). eapply ed_len_rep; eauto. Qed.

  (* --- a typed character *)
  Lemma on_text_view t s a : pchar t -> TokenProofs.nul_free t -> VInv s a ->
    exists s', on_text okT t s = (Ok tt, s') /\ VInv s' (fst (astep a (Chr t))) /\ hcalls s' = hcalls s /\ ig s' = ig s.
  Proof.
    intros Hp Hn (HS & Hpc & Hh & Hpr & HV). destruct (on_text okT t s) as [r s'] eqn:E.
    destruct (on_text_refines feats cs handler cp hc t s a r s' (proj1 Hp) Hn HS E) as (-> & HS' & Hc' & Hg'). exists s'. split; [reflexivity|]. split; [|auto].
    pose proof (SRel_rep _ _ HS) as R.
    unfold on_text in E. rewrite bind_get in E.
    assert (Hcs1 : Forall wf_char [t]) by (constructor; [exact (proj1 Hp)|constructor]).
    destruct (insert_refines _ _ _ [t] R Hcs1) as (e' & Ei & R'). cbn [concat] in Ei. rewrite app_nil_r in Ei. rewrite Ei, bind_lift_some in E.
    cbn [Session.astep fst] in *.
    destruct (snd (ideal_step cp (aline a) (IInsert [t]))) eqn:Eok.
    - rewrite bind_modify in E. destruct (text_tail_out (Nat.ltb (cursor (ed s)) (ed_len (ed s))) t (set_ed e' s)) as (s2 & E2 & A2).
      rewrite E2 in E. injection E as <-.
      assert (Estep : fst (ideal_step cp (aline a) (IInsert [t])) =
                      {| chars := firstn (icur (aline a)) (chars (aline a)) ++ [t] ++ skipn (icur (aline a)) (chars (aline a)); icur := icur (aline a) + 1 |}).
      { unfold ideal_step in *. destruct (Nat.leb _ _); [reflexivity|discriminate]. }
      pose proof (Outs_appended _ _ _ A2) as Ho. rewrite !ops_bytes_app, ops_bytes_wop, ops_bytes_SF, app_nil_r in Ho.
      assert (Hob : ops_bytes (if Nat.ltb (cursor (ed s)) (ed_len (ed s)) then wop INSERT_CHAR else []) = (if Nat.ltb (icur (aline a)) (length (chars (aline a))) then INSERT_CHAR else [])).
      { rewrite (rep_cursor _ _ HS), (rep_len _ _ HS). destruct (Nat.ltb (icur (aline a)) (length (chars (aline a)))); reflexivity. }
      rewrite Hob in Ho.
      assert (Ht0 : term (set_ed e' s) = term s) by reflexivity.
      assert (Hpr2 : prompt s2 = prompt s) by (destruct A2 as (_&_&_&H&_); exact H).
      split; [exact HS'|]. rewrite Estep. unfold set_line. cbn [Session.aline Session.ahist chars icur].
      split; [apply Forall_app_intro; [apply Forall_firstn; exact Hpc|apply Forall_app_intro; [constructor; [exact Hp|constructor]|apply Forall_skipn; exact Hpc]]|].
      split; [exact Hh|]. rewrite Hpr2. split; [exact Hpr|].
      rewrite (term_Outs _ _ _ Ho), Ht0. apply View_insert; assumption.
    - injection E as <-.
      assert (Eid : fst (ideal_step cp (aline a) (IInsert [t])) = aline a) by (unfold ideal_step in *; destruct (Nat.leb _ _); [discriminate|reflexivity]).
      rewrite Eid in *. split; [exact HS'|]. destruct a; unfold set_line in *; cbn [Session.aline Session.ahist Session.aprompt Session.acalls] in *. auto.
  Qed.

  (* --- Backspace *)
  Lemma on_backspace_view s a : VInv s a ->
    exists s', on_backspace okT s = (Ok tt, s') /\ VInv s' (fst (astep a (Ctl Backspace))) /\ hcalls s' = hcalls s /\ ig s' = ig s.
  Proof.
    intros (HS & Hpc & Hh & Hpr & HV). destruct (on_backspace okT s) as [r s'] eqn:E.
    destruct (on_backspace_refines feats cs handler cp hc s a r s' HS E) as (-> & HS' & Hc' & Hg'). exists s'. split; [reflexivity|]. split; [|auto].
    pose proof (SRel_rep _ _ HS) as R. unfold on_backspace in E. rewrite bind_get in E. cbn [Session.astep fst] in *.
    destruct (move_left_refines _ _ _ R) as [R1 Em]. destruct (ed_move_left (ed s)) as [e1 moved] eqn:Eml. cbn [fst snd] in *.
    unfold ideal_step in HS', Em, R1 |- *. destruct (icur (aline a)) as [|k] eqn:Ek; cbn [fst snd] in *; subst moved.
    - injection E as <-. split; [exact HS'|]. rewrite Ek. auto.
    - destruct (remove_refines _ _ _ R1) as (e2 & Er & R2). rewrite Er, bind_lift_some, bind_modify in E.
      destruct (flush_bytes_out CURSOR_BACKWARD (set_ed e2 s)) as (s1 & E1 & A1). destruct (flush_bytes_out DELETE_CHAR s1) as (s2 & E2 & A2).
      assert (E12 : (flush_bytes okT CURSOR_BACKWARD;; flush_bytes okT DELETE_CHAR) (set_ed e2 s) = (Ok tt, s2)) by (eapply bind_ok; eauto).
      rewrite E12 in E. injection E as <-.
      pose proof (Outs_appended _ _ _ (appended_trans _ _ _ _ _ A1 A2)) as Ho.
      assert (Hpr2 : prompt s2 = prompt s) by (destruct (appended_trans _ _ _ _ _ A1 A2) as (_&_&_&H&_); exact H).
      unfold ideal_step. cbn [fst chars icur]. unfold set_line in *. cbn [Session.aline Session.ahist chars icur] in *.
      split; [exact HS'|].
      split; [apply Forall_app_intro; [apply Forall_firstn; exact Hpc|apply Forall_skipn; exact Hpc]|].
      split; [exact Hh|]. rewrite Hpr2. split; [exact Hpr|].
      rewrite (term_Outs _ _ _ Ho). change (term (set_ed e2 s)) with (term s).
      change (ops_bytes ((wop CURSOR_BACKWARD ++ [SF]) ++ wop DELETE_CHAR ++ [SF])) with (CURSOR_BACKWARD ++ DELETE_CHAR).
      apply View_backspace. first [exact HV | rewrite <- Ek; exact HV].
  Qed.

  (* --- Left / Right *)
  Lemma navigate_input_view fwd s a : VInv s a ->
    exists s', navigate_input okT fwd s = (Ok tt, s') /\ VInv s' (fst (astep a (Ctl (if fwd then Forward else Back)))) /\ hcalls s' = hcalls s /\ ig s' = ig s.
  Proof.
    intros (HS & Hpc & Hh & Hpr & HV). destruct (navigate_input okT fwd s) as [r s'] eqn:E.
    destruct (navigate_input_refines feats cs handler cp hc fwd s a r s' HS E) as (-> & HS' & Hc' & Hg'). exists s'. split; [reflexivity|]. split; [|auto].
    pose proof (SRel_rep _ _ HS) as R. unfold navigate_input in E. rewrite bind_get in E.
    destruct fwd; cbn [Session.astep fst] in *.
    - destruct (move_right_refines _ _ _ R) as [R1 Em]. destruct (ed_move_right (ed s)) as [e1 moved] eqn:Emr. cbn [fst snd] in *.
      unfold ideal_step in HS', Em |- *. destruct (Nat.ltb (icur (aline a)) (length (chars (aline a)))) eqn:El; cbn [fst snd] in *; subst moved.
      + rewrite bind_modify in E. destruct (flush_bytes_out CURSOR_FORWARD (set_ed e1 s)) as (s1 & E1 & A1). rewrite E1 in E. injection E as <-.
        pose proof (Outs_appended _ _ _ A1) as Ho. assert (Hpr2 : prompt s1 = prompt s) by (destruct A1 as (_&_&_&H&_); exact H).
        unfold set_line in *. cbn [Session.aline Session.ahist chars icur] in *.
        split; [exact HS'|]. split; [exact Hpc|]. split; [exact Hh|]. rewrite Hpr2. split; [exact Hpr|].
        rewrite (term_Outs _ _ _ Ho). change (term (set_ed e1 s)) with (term s). change (ops_bytes (wop CURSOR_FORWARD ++ [SF])) with CURSOR_FORWARD.
        apply View_right; [exact HV|]. apply Nat.ltb_lt, El.
      + injection E as <-. split; [exact HS'|]. unfold set_line. cbn [Session.aline Session.ahist]. auto.
    - destruct (move_left_refines _ _ _ R) as [R1 Em]. destruct (ed_move_left (ed s)) as [e1 moved] eqn:Eml. cbn [fst snd] in *.
      unfold ideal_step in HS', Em |- *. destruct (icur (aline a)) as [|k] eqn:Ek; cbn [fst snd] in *; subst moved.
      + injection E as <-. split; [exact HS'|]. unfold set_line. cbn [Session.aline Session.ahist]. rewrite Ek. auto.
      + rewrite bind_modify in E. destruct (flush_bytes_out CURSOR_BACKWARD (set_ed e1 s)) as (s1 & E1 & A1). rewrite E1 in E. injection E as <-.
        pose proof (Outs_appended _ _ _ A1) as Ho. assert (Hpr2 : prompt s1 = prompt s) by (destruct A1 as (_&_&_&H&_); exact H).
        unfold set_line in *. cbn [Session.aline Session.ahist chars icur] in *.
        split; [exact HS'|]. split; [exact Hpc|]. split; [exact Hh|]. rewrite Hpr2. split; [exact Hpr|].
        rewrite (term_Outs _ _ _ Ho). change (term (set_ed e1 s)) with (term s). change (ops_bytes (wop CURSOR_BACKWARD ++ [SF])) with CURSOR_BACKWARD.
        apply View_left. first [exact HV | rewrite <- Ek; exact HV].
  Qed.

  (* --- Up / Down: CR, EL 2, prompt, recalled line *)
  Lemma replace_line_shape x : icur (replace_line cp x) = length (chars (replace_line cp x))
    /\ (chars (replace_line cp x) = [] \/ chars (replace_line cp x) = chars_of x).
  Proof.
    unfold replace_line, ideal_step. destruct (Nat.leb _ _); cbn [fst chars icur ideal0 firstn skipn app]; [|auto].
    rewrite app_nil_r. auto.
  Qed.
  Lemma redraw_tail_out s : exists s', (clear_line okT false;; (mdo s2 <- get; wr okT (text (ed s2));; fl okT)) s = (Ok tt, s')
    /\ ed s' = ed s /\ hist s' = hist s /\ ig s' = ig s /\ prompt s' = prompt s /\ hcalls s' = hcalls s
    /\ Outs s s' ([CARRIAGE_RETURN] ++ CLEAR_LINE ++ prompt s ++ text (ed s)).
  Proof.
    destruct (clear_line_ok false s) as (s1 & E1 & A1). destruct (wr_ok (text (ed s1)) s1) as (s2 & E2 & A2). destruct (fl_ok s2) as (s3 & E3 & A3).
    exists s3. split; [eapply bind_ok; [exact E1|]; rewrite bind_get; eapply bind_ok; [exact E2|exact E3]|].
    pose proof (appended_trans _ _ _ _ _ (appended_trans _ _ _ _ _ A1 A2) A3) as A. pose proof (Outs_appended _ _ _ A) as Ho.
    destruct A as (a1&a2&a3&a4&a5&_). repeat (split; [assumption|]).
    assert (He : ed s1 = ed s) by (destruct A1 as (H&_); exact H). rewrite He in Ho.
    rewrite !ops_bytes_app, !ops_bytes_wop in Ho. cbn [ops_bytes flat_map op_bytes] in Ho. rewrite !app_nil_r, <- !app_assoc in Ho. exact Ho.
  Qed.

  Lemma navigate_history_view older s a : VInv s a ->
    exists s', navigate_history okT feats older s = (Ok tt, s') /\ VInv s' (fst (astep a (Ctl (if older then Up else Down)))) /\ hcalls s' = hcalls s /\ ig s' = ig s.
  Proof.
    intros (HS & Hpc & Hh & Hpr & HV). destruct (navigate_history okT feats older s) as [r s'] eqn:E.
    destruct (navigate_history_refines feats cs handler cp hc older s a r s' HS E) as (-> & HS' & Hc' & Hg'). exists s'. split; [reflexivity|]. split; [|auto].
    pose proof HS as (R & H & Hp & Hc & Hnf & Hv & Ha). unfold navigate_history in E.
    assert (Eas : fst (astep a (Ctl (if older then Up else Down))) =
      if f_hist feats then
        (let '(h', el) := (if older then hs_older (ahist a) else hs_newer (ahist a)) in
         let a1 := {| aline := aline a; ahist := h'; aprompt := aprompt a; acalls := acalls a |} in
         match (if older then el else Some (match el with Some x => x | None => [] end)) with Some x => set_line (replace_line cp x) a1 | None => a1 end)
      else a).
    { destruct older; cbn [Session.astep]; destruct (f_hist feats); try reflexivity.
      - destruct (hs_older (ahist a)) as [h' [x|]]; reflexivity.
      - destruct (hs_newer (ahist a)) as [h' el]; reflexivity. }
    rewrite Eas in *. clear Eas.
    destruct (f_hist feats); [|injection E as <-; unfold VInv; auto].
    rewrite bind_get in E.
    assert (Hop : exists h', (if older then hist_older (hist s) else hist_newer (hist s)) = Some (h', snd (if older then hs_older (ahist a) else hs_newer (ahist a)))
                  /\ ents (fst (if older then hs_older (ahist a) else hs_newer (ahist a))) = ents (ahist a)
                  /\ (forall x, snd (if older then hs_older (ahist a) else hs_newer (ahist a)) = Some x -> valid_tok x /\ Forall ge32 x)).
    { destruct older.
      - destruct (older_refines _ _ _ H) as (h' & E1 & R1). exists h'. split; [exact E1|]. split; [apply hs_older_ents|].
        intros x Hx. split; [eapply (hs_older_valid (ahist a) valid_tok); eauto|eapply (hs_older_valid (ahist a) (Forall ge32)); eauto].
      - destruct (newer_refines _ _ _ H) as (h' & E1 & R1). exists h'. split; [exact E1|]. split; [apply hs_newer_ents|].
        intros x Hx. split; [eapply (hs_newer_valid (ahist a) valid_tok); eauto|eapply (hs_newer_valid (ahist a) (Forall ge32)); eauto]. }
    destruct Hop as (h' & Eo & Eents & Hel). rewrite Eo, bind_lift_some, bind_modify in E.
    destruct (if older then hs_older (ahist a) else hs_newer (ahist a)) as [sp' el] eqn:Esp. cbn [fst snd] in *.
    destruct (if older then el else Some match el with Some x => x | None => [] end) as [x|] eqn:Ex.
    2:{ injection E as <-. split; [exact HS'|]. cbn [Session.aline Session.ahist]. rewrite Eents. auto. }
    assert (Hx : ptext x).
    { destruct older; [apply Hel, Ex|]. injection Ex as <-. destruct el as [y|]; [apply Hel; reflexivity|apply ptext_nil]. }
    change (ed (set_hist h' s)) with (ed s) in E.
    destruct (replace_refines handler cp hc s x (or_intror I) (ed s) (Rep_cap _ _ _ R) (proj1 Hx)) as (e2 & Ei & R2).
    rewrite Ei, bind_lift_some, bind_modify in E. cbn [fst] in E.
    destruct (redraw_tail_out (set_ed e2 (set_hist h' s))) as (s3 & E3 & q1 & q2 & q3 & q4 & q5 & Ho). rewrite E3 in E. injection E as <-.
    cbn [ed prompt set_ed set_hist] in Ho, q4.
    destruct (replace_line_shape x) as [Hcur Hch].
    assert (Hpc2 : Forall pchar (chars (replace_line cp x))) by (destruct Hch as [-> | ->]; [constructor|apply ptext_chars_of, Hx]).
    assert (Ht2 : text e2 = concat (chars (replace_line cp x))) by (destruct R2 as (_ & Ht & _); exact Ht).
    assert (Hpt2 : ptext (text e2)) by (rewrite Ht2; apply ptext_of_pchars, Hpc2).
    assert (Hco : chars_of (text e2) = chars (replace_line cp x)).
    { rewrite Ht2. apply chars_of_concat. rewrite Forall_forall in *. intros c Hc0. exact (proj1 (Hpc2 c Hc0)). }
    unfold VInv, set_line. cbn [Session.aline Session.ahist].
    split; [exact HS'|]. split; [exact Hpc2|]. split; [rewrite Eents; exact Hh|]. rewrite q4. split; [exact Hpr|].
    rewrite (term_Outs _ _ _ Ho). change (term (set_ed e2 (set_hist h' s))) with (term s).
    rewrite Hcur, <- Hco. apply View_redraw; [exact (proj1 HV)|exact Hpr|exact Hpt2].
  Qed.

  (* --- Cli::set_prompt and Cli::write: redraw, then walk back to the editor cursor *)
  Definition set_aprompt (p : list N) (a : astate) : astate := {| aline := aline a; ahist := ahist a; aprompt := p; acalls := acalls a |}.

  Lemma line_ptext s a : SRel s a -> Forall pchar (chars (aline a)) -> ptext (text (ed s)) /\ chars_of (text (ed s)) = chars (aline a).
  Proof.
    intros ((_ & Ht & _ & Hw & _) & _) Hp. rewrite Ht. split; [apply ptext_of_pchars, Hp|apply chars_of_concat, Hw].
  Qed.

  Lemma set_prompt_view p s a : ptext p -> VInv s a ->
    exists s', api_set_prompt okT p s = (Ok tt, s') /\ VInv s' (set_aprompt p a) /\ hcalls s' = hcalls s /\ ig s' = ig s.
  Proof.
    intros Hp (HS & Hpc & Hh & Hpr & HV). unfold api_set_prompt.
    destruct (clear_line_ok false (set_prompt_f p s)) as (s1 & E1 & A1). destruct (redraw_line_ok s1) as (s2 & E2 & A2).
    exists s2. split; [rewrite bind_modify; eapply bind_ok; [exact E1|exact E2]|].
    pose proof (appended_trans _ _ _ _ _ A1 A2) as A. pose proof (Outs_appended _ _ _ A) as Ho. destruct A as (a1&a2&a3&a4&a5&_).
    cbn [ed hist ig prompt hcalls set_prompt_f] in *.
    assert (He1 : ed s1 = ed s) by (destruct A1 as (H&_); exact H). rewrite He1 in Ho.
    rewrite !ops_bytes_app, !ops_bytes_wop, ops_bytes_concat_repeat in Ho. cbn [ops_bytes flat_map op_bytes] in Ho. rewrite !app_nil_r, <- !app_assoc in Ho.
    destruct (line_ptext _ _ HS Hpc) as [Hpt Hco].
    split; [|auto]. unfold VInv, set_aprompt. cbn [Session.aline Session.ahist].
    split. { pose proof HS as (R & H & Hp0 & Hc & Hnf & Hv & Ha). unfold SessionProofs.SRel. cbn [Session.aline Session.ahist Session.aprompt Session.acalls]. rewrite a1, a2, a3, a4, a5. auto 10. }
    split; [exact Hpc|]. split; [exact Hh|]. rewrite a4. split; [exact Hp|].
    rewrite (term_Outs _ _ _ Ho). change (term (set_prompt_f p s)) with (term s).
    rewrite (app_assoc [CARRIAGE_RETURN]), (app_assoc ([CARRIAGE_RETURN] ++ CLEAR_LINE)), (app_assoc (([CARRIAGE_RETURN] ++ CLEAR_LINE) ++ p)), tfeed_app.
    rewrite <- !app_assoc. rewrite (rep_len _ _ HS), (rep_cursor _ _ HS), <- Hco.
    apply View_back; [|rewrite Hco; exact (proj2 (proj2 (proj2 HV)))].
    apply View_redraw; [exact (proj1 HV)|exact Hp|exact Hpt].
  Qed.

  Lemma EndsOK_fresh X t : EndsOK X -> fresh t -> exists t', tfeed (t, LG) X = (t', LG) /\ fresh t'.
  Proof.
    intros [-> | (X' & -> & HP)] Hf; [exists t; auto|]. rewrite tfeed_app. specialize (HP t). destruct (tfeed (t, LG) X') as [t1 l1]. cbn in HP. subst l1.
    eexists. split; [reflexivity|]. split; reflexivity.
  Qed.

  Lemma write_view hs s a : hops_ok hs -> VInv s a ->
    exists s', api_write okT hs s = (Ok tt, s') /\ VInv s' a /\ hcalls s' = hcalls s /\ ig s' = ig s.
  Proof.
    intros Hhs (HS & Hpc & Hh & Hpr & HV). destruct (api_write_ok hs s) as (s' & O & E & (f1&f2&f3&f4&f5) & Hout & Hb & _).
    exists s'. split; [exact E|]. split; [|auto].
    assert (Ho : Outs s s' (frame_write hs (prompt s) (text (ed s)) (ed_len (ed s) - cursor (ed s)))) by (unfold Outs, obytes; rewrite Hout, ops_bytes_app, Hb; reflexivity).
    destruct (line_ptext _ _ HS Hpc) as [Hpt Hco].
    unfold VInv. split. { pose proof HS as (R & H & Hp0 & Hc & Hnf & Hv & Ha). unfold SessionProofs.SRel. rewrite f1, f2, f3, f4, f5. auto 10. }
    split; [exact Hpc|]. split; [exact Hh|]. rewrite f4. split; [exact Hpr|].
    rewrite (term_Outs _ _ _ Ho). unfold frame_write. fold (cmd_bytes hs).
    destruct (term s) as [t l] eqn:Et. destruct HV as (Hl & _ & _ & Hk). cbn [snd] in Hl. subst l.
    change [13] with [CARRIAGE_RETURN]. change [27; 91; 50; 75] with CLEAR_LINE. change [27; 91; 68] with CURSOR_BACKWARD.
    rewrite tfeed_app, tfeed_cr, tfeed_app, tfeed_el2.
    replace (hops_bytes hs ++ (if needs_break (hops_bytes hs) then [13; 10] else []) ++ prompt s ++ text (ed s) ++ concat (repeat CURSOR_BACKWARD (ed_len (ed s) - cursor (ed s))))
      with (cmd_bytes hs ++ (prompt s ++ text (ed s)) ++ concat (repeat CURSOR_BACKWARD (ed_len (ed s) - cursor (ed s)))) by (unfold cmd_bytes; rewrite <- !app_assoc; reflexivity).
    rewrite tfeed_app. destruct (EndsOK_fresh _ _ (EndsOK_cmd_bytes hs Hhs) (fresh_cr_el2 t)) as (t' & -> & Hf').
    rewrite tfeed_app, (rep_len _ _ HS), (rep_cursor _ _ HS), <- Hco.
    apply View_back; [|rewrite Hco; exact Hk]. apply View_print; assumption.
  Qed.

  Lemma build_view p : ptext p ->
    exists s', api_build okT (cli_init cp hc p) = (Ok tt, s') /\ VInv s' (astate0 p) /\ hcalls s' = [] /\ ig s' = ig0.
  Proof.
    intros Hp. unfold api_build. rewrite bind_get. destruct (wr_ok p (cli_init cp hc p)) as (s1 & E1 & A1). destruct (fl_ok s1) as (s2 & E2 & A2).
    exists s2. split; [eapply bind_ok; [exact E1|exact E2]|].
    pose proof (appended_trans _ _ _ _ _ A1 A2) as A. pose proof (Outs_appended _ _ _ A) as Ho. destruct A as (a1&a2&a3&a4&a5&_).
    rewrite ops_bytes_app, ops_bytes_wop in Ho. cbn [ops_bytes flat_map op_bytes] in Ho. rewrite app_nil_r in Ho.
    split; [|split; [rewrite a5; reflexivity|rewrite a3; reflexivity]].
    unfold VInv, astate0. cbn [Session.aline Session.ahist ideal0 chars icur hspec0 ents].
    split. { unfold SessionProofs.SRel. rewrite a1, a2, a3, a4, a5. cbn. split; [apply EditorProofs.Rep_init|]. split; [apply HistoryProofs.HRep_init|]. repeat split; auto; constructor. }
    split; [constructor|]. split; [constructor|]. rewrite a4. cbn [prompt cli_init]. split; [exact Hp|].
    rewrite (term_Outs _ _ _ Ho). change (term (cli_init cp hc p)) with (vterm0, LG).
    pose proof (View_print vterm0 p [] (conj eq_refl eq_refl) Hp ptext_nil) as V. rewrite app_nil_r in V. exact V.
  Qed.

  (* --- Enter *)
  Definition help_hops (req : helpreq) : list hop :=
    match req with
    | HAll => cs_list_help cs
    | HCommand n a => match cs_cmd_help cs n a with None => [HWrite HELP_ERR_1; HWrite HELP_ERR_2] | Some hs => hs end
    end.
  Lemma help_hops_ok req : hops_ok (help_hops req).
  Proof.
    destruct req as [|n a]; cbn [help_hops]; [exact (eo_list _ _ Henv)|]. destruct (cs_cmd_help cs n a) as [hs|] eqn:E; [exact (eo_help _ _ Henv n a hs E)|].
    repeat constructor; cbn [hop_ok]; apply text_ok_ascii; ascii_in.
  Qed.
  Lemma process_help_out req s : exists s', process_help okT cs req s = (Ok tt, s') /\ Outs s s' (cmd_bytes (help_hops req)).
  Proof.
    unfold process_help. fold (help_hops req). unfold new_writer. rewrite bind_modify.
    set (s2 := set_newp None (set_wst w0 s)). set (hs := help_hops req).
    destruct (run_hops_ok hs s2) as (s3 & O3 & E3 & F3 & Out3 & B3 & W3 & N3).
    assert (Hd : is_dirty (wst s3) = needs_break (hops_bytes hs)) by (rewrite W3; unfold s2, set_newp, set_wst; cbn [wst]; apply is_dirty_hops).
    assert (E5 : exists s5, (if is_dirty (wst s3) then wr okT CRLF else ret tt) s3 = (Ok tt, s5) /\ Outs s3 s5 (if needs_break (hops_bytes hs) then [13; 10] else [])).
    { rewrite Hd. destruct (needs_break (hops_bytes hs)); [destruct (wr_out CRLF s3) as (s5 & E & _ & O); exists s5; auto|exists s3; split; [reflexivity|apply Outs_refl]]. }
    destruct E5 as (s5 & E5 & O5). destruct (fl_out s5) as (s6 & E6 & _ & O6).
    exists s6. split; [eapply bind_ok; [exact E3|]; rewrite bind_get; eapply bind_ok; [exact E5|exact E6]|].
    assert (O23 : Outs s2 s3 (hops_bytes hs)) by (unfold Outs, obytes; rewrite Out3, ops_bytes_app, B3; reflexivity).
    pose proof (Outs_trans _ _ _ _ _ (Outs_trans _ _ _ _ _ O23 O5) O6) as O. rewrite app_nil_r in O. exact O.
  Qed.

  Lemma last_prompt_ptext hs : hops_ok hs -> forall p, ptext p -> ptext (last_prompt p hs).
  Proof.
    unfold last_prompt. induction 1 as [|h hs Hh _ IH]; intros p Hp; [exact Hp|]. cbn [fold_left]. apply IH. destruct h; cbn [hop_ok] in Hh; assumption.
  Qed.

  Lemma process_input_out raw empty s line : tokens_iter raw empty = tokens_fun line -> ptext line ->
    exists s' X, process_input okT feats cs handler raw empty s = (Ok tt, s') /\ Outs s s' X /\ EndsOK X.
  Proof.
    intros Et Hl. pose proof (tokens_fun_ptext line Hl) as Hpt. unfold process_input. rewrite Et.
    destruct (tokens_fun line) as [|name args]; cbn [from_tokens].
    { exists s, []. split; [reflexivity|]. split; [apply Outs_refl|left; reflexivity]. }
    assert (Hargs : Forall valid_tok args) by (inversion Hpt as [|? ? _ Ha]; subst; rewrite Forall_forall in *; intros x Hx; exact (proj1 (Ha x Hx))).
    assert (CMD : exists s' X, process_command okT cs handler name args s = (Ok tt, s') /\ Outs s s' X /\ EndsOK X).
    { destruct (cs_parse cs name args) as [e|] eqn:Ep.
      - unfold process_command. rewrite Ep. destruct (fl_out s) as (s1 & E1 & _ & O1). destruct (process_error_out e s1) as (s2 & E2 & _ & O2).
        exists s2. eexists. split; [eapply bind_ok; eauto|]. split; [exact (Outs_trans _ _ _ _ _ O1 O2)|].
        right. exists (ERR_PREFIX ++ err_text e). split; [reflexivity|]. apply Plain_err. exact (eo_parse _ _ Henv name args e Hpt Ep).
      - destruct (process_command_prefix cs handler name args s Ep) as (s6 & O & E & Out & B).
        assert (O6 : Outs s s6 (cmd_bytes (handler (length (hcalls s)) name args))) by (unfold Outs, obytes; rewrite Out, ops_bytes_app, B; reflexivity).
        destruct (cs_fail cs (length (hcalls s)) name args) as [e|] eqn:Ef.
        + (* the processor rejects the command after its output: the error line follows the closed output *)
          destruct (process_error_out e s6) as (s7 & E7 & _ & O7). exists s7. eexists. split; [rewrite E; exact E7|].
          split; [exact (Outs_trans _ _ _ _ _ O6 O7)|]. right. exists (cmd_bytes (handler (length (hcalls s)) name args) ++ ERR_PREFIX ++ err_text e).
          split; [rewrite <- !app_assoc; reflexivity|]. apply Plain_app; [apply EndsOK_Plain, EndsOK_cmd_bytes, (eo_handler _ _ Henv)|].
          apply Plain_err. exact (eo_fail _ _ Henv _ name args e Hpt Ef).
        + exists s6. eexists. split; [exact E|]. split; [exact O6|]. apply EndsOK_cmd_bytes, (eo_handler _ _ Henv). }
    destruct (f_help feats); cbn [andb]; [|exact CMD].
    destruct (help_request_some name args Hargs) as [hr Hr]. rewrite Hr, bind_lift_some. destruct hr as [req|]; [|exact CMD].
    destruct (process_help_out req s) as (s' & E & O). exists s'. eexists. split; [exact E|]. split; [exact O|]. apply EndsOK_cmd_bytes, help_hops_ok.
  Qed.

  (* every Enter, whatever the line: CR LF, then output that is empty or ends with a line break, then exactly one prompt (the one now in force) *)
  Lemma on_enter_out s a : SRel s a -> Forall pchar (chars (aline a)) ->
    exists s' X, on_enter okT feats cs handler s = (Ok tt, s') /\ Outs s s' ([13; 10] ++ X ++ prompt s') /\ EndsOK X.
  Proof.
    intros HS Hpc. destruct (on_enter okT feats cs handler s) as [r s'] eqn:E.
    destruct (on_enter_refines feats cs handler cp hc s a r s' HS E) as (-> & HS' & Hc' & Hg'). exists s'.
    destruct (line_ptext _ _ HS Hpc) as [Hpt Hco].
    unfold on_enter in E. destruct (wr_out CRLF s) as (s1 & E1 & (f1&f2&f3&f4&f5) & O1). unfold bind at 1 in E. rewrite E1 in E. rewrite bind_get in E.
    pose proof HS as (R & H & Hp & Hc & Hnf & Hv & Ha).
    assert (Hpsh : exists s2, (if f_hist feats then mdo h <- lift_opt (hist_push (hist s1) (text (ed s1))); modify (set_hist h) else ret tt) s1 = (Ok tt, s2)
                 /\ sk s2 = sk s1 /\ ed s2 = ed s1).
    { destruct (f_hist feats); [|exists s1; auto]. rewrite f2 in *. destruct (push_refines _ _ _ (text (ed s1)) H) as (h' & Ep & _). rewrite Ep, bind_lift_some. exists (set_hist h' s1). auto. }
    destruct Hpsh as (s2 & Ep & k2 & e2). unfold bind at 1 in E. rewrite Ep in E. rewrite f1 in *.
    destruct (tokens_inplace_fun (text (ed s)) Hnf) as (buf' & raw & empty & Et & Etok). rewrite Et, bind_lift_some, bind_modify in E.
    set (s3 := set_ed {| cap := cap (ed s); text := buf'; cursor := cursor (ed s) |} s2) in *.
    destruct (process_input_out raw empty s3 (text (ed s)) Etok Hpt) as (s4 & X & E4 & O4 & HX).
    unfold bind at 1 in E. unfold catch in E. rewrite E4 in E. rewrite bind_modify in E.
    set (s5 := set_ed (ed_clear (ed s4)) s4) in *.
    unfold bind at 1 in E. unfold reraise at 1 in E. rewrite bind_get in E.
    destruct (wr_out (prompt s5) s5) as (s6 & E6 & (g1&g2&g3&g4&g5) & O6). unfold bind at 1 in E. rewrite E6 in E.
    destruct (fl_out s6) as (s7 & E7 & (h1&h2&h3&h4&h5) & O7). rewrite E7 in E. injection E as <-.
    assert (Hprompt : prompt s7 = prompt s5) by congruence.
    assert (O13 : Outs s s3 [13; 10]). { unfold Outs, obytes in *. unfold s3; cbn [sk set_ed]. rewrite k2. exact O1. }
    assert (O35 : Outs s3 s5 X) by exact O4.
    pose proof (Outs_trans _ _ _ _ _ (Outs_trans _ _ _ _ _ (Outs_trans _ _ _ _ _ O13 O35) O6) O7) as Ho. rewrite app_nil_r, <- app_assoc in Ho.
    exists X. split; [reflexivity|]. split; [rewrite Hprompt; exact Ho|exact HX].
  Qed.

  Lemma on_enter_view s a : VInv s a ->
    exists s', on_enter okT feats cs handler s = (Ok tt, s') /\ VInv s' (fst (astep a (Ctl Enter)))
      /\ hcalls s' = hcalls s ++ snd (astep a (Ctl Enter)) /\ ig s' = ig s.
  Proof.
    intros (HS & Hpc & Hh & Hpr & HV). destruct (on_enter_out s a HS Hpc) as (s' & X & E & Ho & HX).
    destruct (on_enter_refines feats cs handler cp hc s a (Ok tt) s' HS E) as (_ & HS' & Hc' & Hg'). exists s'. split; [exact E|]. split; [|auto].
    destruct (line_ptext _ _ HS Hpc) as [Hpt Hco]. pose proof HS as (R & H & Hp & Hc & Hnf & Hv & Ha).
    (* the prompt now in force is printable *)
    pose proof HS' as (R' & H' & Hp' & _). cbn [Session.astep fst] in *. cbn [Session.aprompt Session.aline Session.ahist] in *.
    assert (Hpr' : ptext (prompt s')).
    { rewrite Hp'. destruct (dispatch feats cs a) as [|[n ar] [|? ?]]; try (rewrite <- Hp; exact Hpr).
      apply last_prompt_ptext; [apply (eo_handler _ _ Henv)|rewrite <- Hp; exact Hpr]. }
    unfold VInv. cbn [Session.aline Session.ahist ideal0 chars icur].
    split; [exact HS'|]. split; [constructor|].
    split. { destruct (f_hist feats); [|exact Hh]. apply hs_push_valid; [exact Hh|]. destruct R as (_ & Ht & _). unfold ibytes. rewrite <- Ht. exact (proj2 Hpt). }
    split; [exact Hpr'|].
    rewrite (term_Outs _ _ _ Ho). destruct (term s) as [t l] eqn:Et0. destruct HV as (Hl & _). cbn [snd] in Hl. subst l.
    rewrite tfeed_app. change [13; 10] with CRLF. rewrite tfeed_crlf, tfeed_app.
    destruct (EndsOK_fresh X (feed1 (feed1 t TCR) TLF) HX (conj eq_refl eq_refl)) as (t' & -> & Hf').
    pose proof (View_print t' (prompt s') [] Hf' Hpr' ptext_nil) as V. rewrite app_nil_r in V. exact V.
  Qed.

  (* --- Tab *)
  Lemma help_candidate_ge32 : Forall ge32 HELP_CANDIDATE.
  Proof. vm_compute. repeat constructor; discriminate. Qed.
  Lemma names_ge32 n : In n (cs_names cs ++ [HELP_CANDIDATE]) -> Forall ge32 n.
  Proof.
    intros H. apply in_app_or in H. destruct H as [H | [<- | []]]; [|exact help_candidate_ge32].
    pose proof (eo_names _ _ Henv) as G. rewrite Forall_forall in G. exact (G n H).
  Qed.

  Lemma on_tab_view s a : VInv s a ->
    exists s', on_tab okT feats cs s = (Ok tt, s') /\ VInv s' (fst (astep a (Ctl Tab))) /\ hcalls s' = hcalls s /\ ig s' = ig s.
  Proof.
    intros (HS & Hpc & Hh & Hpr & HV). destruct (on_tab okT feats cs s) as [r s'] eqn:E.
    destruct (on_tab_refines feats cs handler Hcs cp hc s a r s' HS E) as (-> & HS' & Hc' & Hg'). exists s'. split; [reflexivity|]. split; [|auto].
    pose proof HS as (R & H & Hp & Hc & Hnf & Hv & Ha). unfold on_tab in E. cbn [Session.astep] in *.
    destruct (f_ac feats); [|injection E as <-; unfold VInv; auto].
    rewrite bind_get in E. destruct Hcs as [Hvn Hnn].
    destruct (autocompletion_spec_shape _ _ _ cs R Hvn) as (e' & i' & Ea & R' & Esp & Shape).
    rewrite Ea, bind_lift_some, bind_modify in E.
    rewrite (Rep_ibytes _ _ _ R) in *. assert (q3 : cursor (ed s) = icur (aline a)) by (destruct R as (_ & _ & q & _); exact q).
    rewrite <- q3, <- Esp in HS' |- *. cbn [fst] in *. rewrite <- (Rep_ideal_eq _ _ _ R') in *.
    assert (Hk' : cursor e' = icur i') by (destruct R' as (_ & _ & q & _); exact q).
    assert (Ht' : text e' = concat (chars i')) by (destruct R' as (_ & q & _); exact q).
    assert (Hw' : Forall wf_char (chars i')) by (destruct R' as (_ & _ & _ & q & _); exact q).
    unfold VInv, set_line. cbn [Session.aline Session.ahist].
    destruct Shape as [-> | (tcs & Rn & A & EC & EC' & Ek' & Hkt & HA)].
    - (* nothing changed *)
      rewrite Hk', <- q3, Nat.ltb_irrefl in E. injection E as <-. cbn [prompt set_ed]. change (term (set_ed e' s)) with (term s).
      split; [exact HS'|]. split; [exact Hpc|]. split; [exact Hh|]. split; [exact Hpr|]. exact HV.
    - assert (HpA : Forall pchar (chars i')).
      { rewrite EC' in *. apply Forall_app in Hw'. destruct Hw' as [Hw1 Hw2]. apply Forall_app_intro.
        - rewrite EC in Hpc. apply Forall_app in Hpc. tauto.
        - rewrite Forall_forall in *. intros c Hc0. split; [exact (Hw2 c Hc0)|]. destruct (HA c Hc0) as [-> | (n & Hn & Hi)]; [repeat constructor; unfold ge32; lia|].
          pose proof (names_ge32 n Hn) as G. rewrite Forall_forall in *. intros b Hb. apply G, Hi, Hb. }
      assert (HV1 : View (term s) (chars_of (prompt s)) tcs (icur (aline a))) by (eapply View_drop_spaces; [rewrite <- EC; exact HV|exact Hkt]).
      destruct (Nat.ltb_spec (cursor (ed s)) (cursor e')) as [Hlt|Hge].
      + destruct (wr_out (ed_text_from e' (cursor (ed s))) (set_ed e' s)) as (s1 & E1 & (f1&f2&f3&f4&f5) & O1). destruct (fl_out s1) as (s2 & E2 & (g1&g2&g3&g4&g5) & O2).
        assert (E12 : (wr okT (ed_text_from e' (cursor (ed s)));; fl okT) (set_ed e' s) = (Ok tt, s2)) by (eapply bind_ok; eauto).
        rewrite E12 in E. injection E as <-.
        pose proof (Outs_trans _ _ _ _ _ O1 O2) as Ho. rewrite app_nil_r in Ho.
        assert (Etf : ed_text_from e' (cursor (ed s)) = concat (skipn (icur (aline a)) (chars i'))).
        { unfold ed_text_from. rewrite Ht', cbi_spec by exact Hw'. rewrite q3 in *. rewrite Hk', Ek' in Hlt.
          destruct (Nat.ltb_spec (icur (aline a)) (length (chars i'))); [|lia]. apply skipn_concat_len. }
        rewrite Etf in Ho. split; [exact HS'|]. split; [exact HpA|]. split; [exact Hh|].
        assert (Hpr2 : prompt s2 = prompt s) by (rewrite g4, f4; reflexivity). rewrite Hpr2. split; [exact Hpr|].
        rewrite (term_Outs _ _ _ Ho). change (term (set_ed e' s)) with (term s). rewrite Ek', EC'.
        apply View_overwrite_tail; [exact HV1|]. apply Forall_skipn. rewrite EC' in HpA. exact HpA.
      + injection E as <-. cbn [prompt set_ed]. change (term (set_ed e' s)) with (term s).
        split; [exact HS'|]. split; [exact HpA|]. split; [exact Hh|]. split; [exact Hpr|].
        rewrite q3, Hk', Ek', EC', app_length in Hge.
        assert (EA : A = []) by (destruct A; [reflexivity|cbn [length] in Hge; lia]). subst A. rewrite app_nil_r in *.
        rewrite Ek', EC'. replace (length tcs) with (icur (aline a)) by lia. exact HV1.
  Qed.

  (* --- every key, every byte *)
  Lemma on_control_view c s a : VInv s a ->
    exists s', on_control okT feats cs handler c s = (Ok tt, s') /\ VInv s' (fst (astep a (Ctl c))) /\ ig s' = ig s.
  Proof.
    intros HI. destruct c; cbn [on_control].
    - destruct (on_backspace_view s a HI) as (s' & E & V & _ & G). eauto.
    - destruct (navigate_history_view false s a HI) as (s' & E & V & _ & G). eauto.
    - destruct (on_enter_view s a HI) as (s' & E & V & _ & G). eauto.
    - destruct (navigate_input_view false s a HI) as (s' & E & V & _ & G). eauto.
    - destruct (navigate_input_view true s a HI) as (s' & E & V & _ & G). eauto.
    - destruct (on_tab_view s a HI) as (s' & E & V & _ & G). eauto.
    - destruct (navigate_history_view true s a HI) as (s' & E & V & _ & G). eauto.
  Qed.

  Lemma VInv_set_ig g s a : VInv s a -> ainv (acc g) -> VInv (set_ig g s) a.
  Proof.
    intros (HS & Hpc & Hh & Hpr & HV) Hg. unfold VInv. split; [|auto].
    destruct HS as (R & H & Hp & Hc & Hnf & Hv & Ha). unfold SessionProofs.SRel. cbn. auto 10.
  Qed.

  Theorem process_byte_view b s a : byte b -> VInv s a ->
    exists s', api_process_byte okT feats cs handler b s = (Ok tt, s') /\ VInv s' (fst (astep_opt feats cs handler cp hc a (snd (accept (ig s) b)))).
  Proof.
    intros Hb HI. unfold api_process_byte. rewrite bind_get. destruct (accept (ig s) b) as [g' oi] eqn:Ea. rewrite bind_modify. cbn [fst snd].
    pose proof HI as ((R & H & Hp & Hc & Hnf & Hv & Ha) & _).
    destruct (accept_inv (ig s) b Hb Ha) as [Hg' _]. rewrite Ea in Hg'. cbn [fst] in Hg'.
    pose proof (VInv_set_ig g' s a HI Hg') as HI'.
    destruct oi as [[c|t]|]; cbn [astep_opt].
    - destruct (on_control_view c (set_ig g' s) a HI') as (s' & E & V & _). eauto.
    - destruct (accept_typed (ig s) b t Hb Ha) as [Hw Hn]; [rewrite Ea; reflexivity|].
      assert (Hge : Forall ge32 t) by (apply (accept_typed_ge32 (ig s) b t Hb Ha); rewrite Ea; reflexivity).
      destruct (on_text_view t (set_ig g' s) a (conj Hw Hge) Hn HI') as (s' & E & V & _). eauto.
    - exists (set_ig g' s). split; [reflexivity|exact HI'].
  Qed.

  (* --- every API call sequence *)
  Inductive vcall := VByte (b : N) | VWrite (hs : list hop) | VSetPrompt (p : list N).
  Definition vcall_ok (c : vcall) : Prop := match c with VByte b => byte b | VWrite hs => hops_ok hs | VSetPrompt p => ptext p end.
  Definition vstep (c : vcall) : M cli unit :=
    match c with
    | VByte b => api_process_byte okT feats cs handler b
    | VWrite hs => api_write okT hs
    | VSetPrompt p => api_set_prompt okT p
    end.
  Fixpoint vrun (s : cli) (calls : list vcall) : cli * list (res unit) :=
    match calls with
    | [] => (s, [])
    | c :: r => let '(x, s1) := vstep c s in let '(s2, xs) := vrun s1 r in (s2, x :: xs)
    end.

  Lemma vstep_view c s a : vcall_ok c -> VInv s a -> exists s' a', vstep c s = (Ok tt, s') /\ VInv s' a'.
  Proof.
    intros Hc HI. destruct c as [b|hs|p]; cbn [vstep vcall_ok] in *.
    - destruct (process_byte_view b s a Hc HI) as (s' & E & V). eauto.
    - destruct (write_view hs s a Hc HI) as (s' & E & V & _). eauto.
    - destruct (set_prompt_view p s a Hc HI) as (s' & E & V & _). eauto.
  Qed.

  Theorem vrun_view : forall calls s a, Forall vcall_ok calls -> VInv s a ->
    Forall (fun x => x = Ok tt) (snd (vrun s calls)) /\ exists a', VInv (fst (vrun s calls)) a'.
  Proof.
    induction calls as [|c calls IH]; intros s a Hc HI; cbn [vrun].
    - split; [constructor|eauto].
    - inversion Hc as [|? ? Hc1 Hcr]; subst. destruct (vstep_view c s a Hc1 HI) as (s1 & a1 & E & V1). rewrite E.
      destruct (IH s1 a1 Hcr V1) as (F & a' & V'). destruct (vrun s1 calls) as [s2 xs]. cbn [fst snd] in *. split; [constructor; auto|eauto].
  Qed.

  (* the invariant gives the executable oracle of the correspondence check *)
  Lemma VInv_view_ok s a : VInv s a -> view_ok (term s) (prompt s) (text (ed s)) (cursor (ed s)) = true.
  Proof.
    intros (HS & Hpc & Hh & Hpr & HV). destruct (line_ptext _ _ HS Hpc) as [Hpt Hco]. rewrite (rep_cursor _ _ HS).
    apply View_view_ok; [rewrite Hco; exact HV|exact Hpr|exact Hpt].
  Qed.
End ViewKeys.

(* ---------- C06 *)
Theorem view_always feats cs handler cp hc p calls : cmdset_ok cs -> env_ok cs handler -> ptext p -> Forall (vcall_ok) calls ->
  let s0 := snd (api_build okT (cli_init cp hc p)) in
  let '(s', rs) := vrun feats cs handler s0 calls in
  fst (api_build okT (cli_init cp hc p)) = Ok tt /\ Forall (fun x => x = Ok tt) rs /\
  view_ok (term s') (prompt s') (text (ed s')) (cursor (ed s')) = true.
Proof.
  intros Hcs Henv Hp Hc. cbn zeta. destruct (build_view cp hc p Hp) as (s0 & E0 & V0 & _). rewrite E0. cbn [fst snd].
  destruct (vrun_view feats cs handler Hcs Henv cp hc calls s0 (astate0 p) Hc V0) as (F & a' & V').
  destruct (vrun feats cs handler s0 calls) as [s' rs]. cbn [fst snd] in *. split; [reflexivity|]. split; [exact F|].
  eapply VInv_view_ok; eauto.
Qed.
