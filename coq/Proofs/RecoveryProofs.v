(* C14 (4): whatever failed before, the state still represents an abstract session state whose line is the text in the editor;
   from there, with a working sink, the Cli refines the abstract session again (C01), so a later Enter dispatches the tokens of
   exactly that text. *)
From EC Require Import Base Model.Input Model.Editor Model.History Model.Sink Model.Writer Model.Cli
  Spec.IdealEditor Spec.HistSpec Spec.Session Proofs.EditorProofs Proofs.HistoryProofs Proofs.ArgsProofs Proofs.SinkOk Proofs.SafetyProofs Proofs.SessionProofs.

Lemma CliInv_SRel s : CliInv s ->
  exists a, SRel (cap (ed s)) (hcap (hist s)) s a /\ ibytes (aline a) = text (ed s) /\ aprompt a = prompt s /\ acalls a = length (hcalls s).
Proof.
  intros ((i & R) & Hn & (sp & HR & Hv) & Ha).
  exists {| aline := i; ahist := sp; aprompt := prompt s; acalls := length (hcalls s) |}.
  split; [unfold SRel; cbn; auto 10|]. cbn. split; [|auto]. destruct R as (_ & Ht & _). symmetry. exact Ht.
Qed.

Section Recovery.
  Variable okf : nat -> bool.
  Variable feats : features.
  Variable cs : cmdset.
  Variable handler : nat -> list N -> list (list N) -> list hop.
  Hypothesis Hcs : cmdset_ok cs.

  (* after ANY sequence of API calls under ANY sink behaviour the state represents an abstract state with the editor's text as its line *)
  Theorem recovers cp hcp pr calls : Forall call_ok calls ->
    let s := fst (api_run okf feats cs handler (snd (api_build okf (cli_init cp hcp pr))) calls) in
    exists a, SRel (cap (ed s)) (hcap (hist s)) s a /\ ibytes (aline a) = text (ed s) /\ aprompt a = prompt s.
  Proof.
    intros Hc. cbn zeta.
    assert (Hi : CliInv (snd (api_build okf (cli_init cp hcp pr)))).
    { destruct (api_build okf (cli_init cp hcp pr)) as [r s1] eqn:E. cbn [snd].
      destruct (ClassProofs.Same_bind _ _ ClassProofs.Same_get (fun s0 => ClassProofs.Same_bind _ _ (ClassProofs.Same_wr okf (prompt s0)) (fun _ => ClassProofs.Same_fl okf)) _ _ _ E) as (a & b & c).
      eapply CliInv_same; eauto. apply CliInv_init. }
    destruct (api_run_safe okf feats cs handler Hcs calls _ Hc Hi) as [_ Hi'].
    destruct (CliInv_SRel _ Hi') as (a & H1 & H2 & H3 & _). eauto.
  Qed.

  (* and from any such state, once the sink works again: every further byte stream is taken exactly as the abstract session takes it *)
  Theorem usable_again s : CliInv s -> exists a, ibytes (aline a) = text (ed s) /\ forall bs, bytes bs ->
    let '(s', rs) := crun feats cs handler s bs in
    let '(a', calls) := arun feats cs handler (cap (ed s)) (hcap (hist s)) a (snd (runa (ig s) bs)) in
    Forall (fun x => x = Ok tt) rs /\ SRel (cap (ed s)) (hcap (hist s)) s' a' /\ hcalls s' = hcalls s ++ calls.
  Proof.
    intros Hi. destruct (CliInv_SRel _ Hi) as (a & HS & Hl & _). exists a. split; [exact Hl|]. intros bs Hb.
    exact (run_refines feats cs handler Hcs (cap (ed s)) (hcap (hist s)) bs s a Hb HS).
  Qed.
End Recovery.
