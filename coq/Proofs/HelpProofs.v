(* C12: what the generated help prints. Walk along a nested sub-command path, and completeness of a command's own help
   (description, usage line with the full path, every positional argument, every option with its names and value name, sub-commands). *)
From EC Require Import Base Generated.Codes Model.Utils Model.Args Model.Writer Model.Cli Model.Derive Spec.ArgSpec Spec.Framing
  Proofs.ArgsProofs Proofs.DeriveProofs.

(* ---------- contiguous occurrence *)
Definition Infix {A} (x l : list A) : Prop := exists pre post, l = pre ++ x ++ post.
Lemma Infix_refl {A} (x : list A) : Infix x x.
Proof. exists [], []. rewrite app_nil_r. reflexivity. Qed.
Lemma Infix_app_l {A} (x a b : list A) : Infix x a -> Infix x (a ++ b).
Proof. intros (p & q & ->). exists p, (q ++ b). rewrite <- !app_assoc. reflexivity. Qed.
Lemma Infix_app_r {A} (x a b : list A) : Infix x b -> Infix x (a ++ b).
Proof. intros (p & q & ->). exists (a ++ p), q. rewrite <- !app_assoc. reflexivity. Qed.
Lemma Infix_trans {A} (x y z : list A) : Infix x y -> Infix y z -> Infix x z.
Proof. intros (p & q & ->) (p' & q' & ->). exists (p' ++ p), (q ++ q'). rewrite <- !app_assoc. reflexivity. Qed.
Lemma Infix_flat_map {A B} (f : A -> list B) l a : In a l -> Infix (f a) (flat_map f l).
Proof.
  induction l as [|b l IH]; intros H; [destruct H|]. cbn [flat_map]. destruct H as [->|H]; [apply Infix_app_l, Infix_refl|apply Infix_app_r, IH, H].
Qed.
Lemma Infix_prefix {A} (x r : list A) : Infix x (x ++ r).
Proof. apply Infix_app_l, Infix_refl. Qed.
Lemma Infix_prefix_eq {A} (x r l : list A) : l = x ++ r -> Infix x l.
Proof. intros ->. apply Infix_prefix. Qed.

Lemma join_blocks_infix b bs : In b bs -> Infix (hops_bytes b) (hops_bytes (join_blocks bs)).
Proof.
  induction bs as [|c bs IH]; intros H; [destruct H|]. destruct bs as [|c2 bs].
  - destruct H as [->|[]]. apply Infix_refl.
  - change (join_blocks (c :: c2 :: bs)) with (c ++ [HWriteln []] ++ join_blocks (c2 :: bs)). rewrite !hops_bytes_app.
    destruct H as [->|H]; [apply Infix_prefix|]. apply Infix_app_r, Infix_app_r, IH, H.
Qed.
Lemma hops_flat_map_infix {A} (g : A -> list hop) l a : In a l -> Infix (hops_bytes (g a)) (hops_bytes (flat_map g l)).
Proof.
  induction l as [|b l IH]; intros H; [destruct H|]. cbn [flat_map]. rewrite hops_bytes_app.
  destruct H as [->|H]; [apply Infix_prefix|apply Infix_app_r, IH, H].
Qed.
(* the first block starts the text *)
Lemma join_blocks_head b bs : exists r, hops_bytes (join_blocks (b :: bs)) = hops_bytes b ++ r.
Proof.
  destruct bs as [|c bs]; [exists []; cbn [join_blocks]; rewrite app_nil_r; reflexivity|].
  change (join_blocks (b :: c :: bs)) with (b ++ [HWriteln []] ++ join_blocks (c :: bs)). rewrite !hops_bytes_app. eauto.
Qed.

(* ---------- the walk along a sub-command path *)
Lemma ai_next_value v rest : classify_tok false v = ([Value v], false) ->
  ai_next (ai_new (v :: rest)) = Some (Some (Value v, {| vonly := false; leftover := []; toks := rest |})).
Proof.
  intros Hc. unfold ai_next, ai_new. cbn [leftover toks vonly]. change (char_pop_front []) with (Some (@None (N * list N))). cbn [obind].
  unfold classify_tok in Hc. destruct v as [|b0 [|b1 r]]; try reflexivity.
  destruct (b0 =? 45); [|reflexivity]. destruct (b1 =? 45); [destruct r; discriminate|]. injection Hc as Hc _. exfalso.
  destruct (chars_of (b1 :: r)) eqn:E; [discriminate|]. cbn in Hc. discriminate.
Qed.
Lemma find_named_value ds v : find_named ds (Value v) = None.
Proof. induction ds as [|d ds IH]; [reflexivity|]. cbn [find_named]. destruct (a_kind d) as [|l s|l s]; cbn [name_matches]; exact IH. Qed.

(* `help <cmd> <sub> rest...` (and `<cmd> <sub> ... --help`): when the first token after a command that has sub-commands is a plain
   value, help continues in the sub-command enum with that value as the command name, the rest as its arguments, and the command's
   name appended to the path shown in the usage line *)
Theorem help_enum_descend f parent cmds name v rest c o t subs :
  find_cmd cmds name = Some c -> c_sub c = Some (o, t, subs) -> classify_tok false v = ([Value v], false) ->
  cmd_help_enum (S f) parent cmds name (v :: rest) = cmd_help_enum f (parent ++ [HWrite (c_name c); HWrite [32]]) subs v rest.
Proof.
  intros Hf Hs Hv. cbn [cmd_help_enum]. rewrite Hf, Hs. unfold args_fuel. cbn [help_loop]. rewrite (ai_next_value v rest Hv), find_named_value.
  reflexivity.
Qed.
(* `help <cmd>` alone for a command with sub-commands: its own help (which lists the sub-commands, own_help_subcommands) *)
Theorem help_enum_self f parent cmds name c o t subs :
  find_cmd cmds name = Some c -> c_sub c = Some (o, t, subs) ->
  cmd_help_enum (S f) parent cmds name [] = Some (Some (own_help_hops parent c)).
Proof. intros Hf Hs. cbn [cmd_help_enum]. rewrite Hf, Hs. reflexivity. Qed.

(* ---------- completeness of a command's own help *)
Definition own_blocks (parent : list hop) (c : cmddecl) : list (list hop) :=
  opt_block (c_long c) (fun l => [HWriteln l]) ++ [usage_hops parent c] ++ opt_block (args_help_hops c) (fun h => h)
  ++ [options_help_hops c] ++ opt_block (c_sub c) (fun s => list_commands_hops {| e_title := snd (fst s); e_cmds := snd s |}).
Lemma own_help_blocks parent c : own_help_hops parent c = join_blocks (own_blocks parent c).
Proof. reflexivity. Qed.

Lemma element_in {A} (f : A -> list N * list N) m (l : list A) a : In a l ->
  Infix (element_bytes (fst (f a)) (snd (f a)) m) (hops_bytes (flat_map (fun x => list_element_hops (fst (f x)) (snd (f x)) m) l)).
Proof.
  induction l as [|b l IH]; intros H; [destruct H|]. cbn [flat_map]. rewrite hops_bytes_app, list_element_bytes.
  destruct H as [->|H]; [apply Infix_prefix|apply Infix_app_r, IH, H].
Qed.

(* the description comes first *)
Theorem own_help_description parent c l : c_long c = Some l ->
  exists r, hops_bytes (own_help_hops parent c) = lf_to_crlf l ++ [13; 10] ++ r.
Proof.
  intros H. rewrite own_help_blocks. unfold own_blocks. rewrite H. cbn [opt_block app].
  destruct (join_blocks_head [HWriteln l] ([usage_hops parent c] ++ opt_block (args_help_hops c) (fun h => h) ++ [options_help_hops c] ++
             opt_block (c_sub c) (fun s => list_commands_hops {| e_title := snd (fst s); e_cmds := snd s |}))) as [r Hr].
  cbn [app] in Hr. rewrite Hr. exists r. cbn [hops_bytes flat_map hop_bytes]. rewrite app_nil_r, <- app_assoc. reflexivity.
Qed.

(* the usage line: "Usage: ", the path of parent commands, the command's name *)
Theorem own_help_usage parent c :
  Infix (lf_to_crlf H_USAGE ++ [32] ++ hops_bytes parent ++ lf_to_crlf (c_name c)) (hops_bytes (own_help_hops parent c)).
Proof.
  rewrite own_help_blocks. eapply Infix_trans; [|apply (join_blocks_infix (usage_hops parent c))].
  - unfold usage_hops, title_hops. rewrite !hops_bytes_app. cbn [hops_bytes flat_map hop_bytes]. rewrite !app_nil_r.
    change (lf_to_crlf [32]) with [32]. eapply Infix_prefix_eq. rewrite <- !app_assoc. reflexivity.
  - unfold own_blocks. rewrite !in_app_iff. cbn [In]. auto 10.
Qed.
(* ... which names every positional argument by its usage name when the command has no sub-command *)
Theorem own_help_usage_positional parent c d : c_sub c = None -> In d (positionals (c_args c)) ->
  Infix ([32] ++ lf_to_crlf (full_name d)) (hops_bytes (own_help_hops parent c)).
Proof.
  intros Hs Hd. rewrite own_help_blocks. eapply Infix_trans; [|apply (join_blocks_infix (usage_hops parent c))].
  - unfold usage_hops. rewrite Hs, !hops_bytes_app. apply Infix_app_r, Infix_app_r, Infix_app_r, Infix_app_r, Infix_app_r, Infix_app_l.
    eapply Infix_trans; [|apply (hops_flat_map_infix (fun d => [HWrite [32]; HWrite (full_name d)]) _ d Hd)].
    unfold hops_bytes. cbn [flat_map hop_bytes]. rewrite app_nil_r. apply Infix_refl.
  - unfold own_blocks. rewrite !in_app_iff. cbn [In]. auto 10.
Qed.

(* every positional argument has its line under "Arguments:": usage name, help text *)
Theorem own_help_positional parent c d : In d (positionals (c_args c)) ->
  Infix (element_bytes (full_name d) (odefault (a_help d)) (max_len (map full_name (positionals (c_args c))))) (hops_bytes (own_help_hops parent c)).
Proof.
  intros Hd. rewrite own_help_blocks.
  assert (Ea : exists h, args_help_hops c = Some h /\
            Infix (element_bytes (full_name d) (odefault (a_help d)) (max_len (map full_name (positionals (c_args c))))) (hops_bytes h)).
  { unfold args_help_hops. destruct (positionals (c_args c)) as [|p ps] eqn:E; [destruct Hd|]. eexists. split; [reflexivity|].
    rewrite hops_bytes_app. apply Infix_app_r.
    exact (element_in (fun d => (full_name d, odefault (a_help d))) _ (p :: ps) d Hd). }
  destruct Ea as (h & Eh & Hin). eapply Infix_trans; [exact Hin|]. apply join_blocks_infix. unfold own_blocks. rewrite Eh. cbn [opt_block].
  rewrite !in_app_iff. cbn [In]. auto 10.
Qed.

(* every option and flag has its line under "Options:": short and long name, value name in <> or [], help text; and -h, --help *)
Definition option_line (d : argdecl) : option (list N * list N) :=
  match a_kind d with
  | KFlag l s => Some (options_names l s, odefault (a_help d))
  | KOpt l s => Some (options_names l s ++ [32] ++ bracket (a_optional d) (a_valname d), odefault (a_help d))
  | KPos => None
  end.
Lemma option_line_in ds d p : In d ds -> option_line d = Some p -> In p (option_lines ds).
Proof.
  intros Hd Hp. unfold option_lines. apply in_or_app. left. apply in_flat_map. exists d. split; [exact Hd|].
  unfold option_line in Hp. destruct (a_kind d); [discriminate| |]; injection Hp as <-; left; reflexivity.
Qed.
Lemma options_block_in c p : In p (option_lines (c_args c)) ->
  Infix (element_bytes (fst p) (snd p) (max_len (map fst (option_lines (c_args c))))) (hops_bytes (options_help_hops c)).
Proof.
  intros Hp. unfold options_help_hops. rewrite !hops_bytes_app. apply Infix_app_r, Infix_app_r.
  exact (element_in (fun p => p) _ _ p Hp).
Qed.
Theorem own_help_option parent c d p : In d (c_args c) -> option_line d = Some p ->
  Infix (element_bytes (fst p) (snd p) (max_len (map fst (option_lines (c_args c))))) (hops_bytes (own_help_hops parent c)).
Proof.
  intros Hd Hp. rewrite own_help_blocks. eapply Infix_trans; [apply options_block_in, (option_line_in _ d p Hd Hp)|].
  apply join_blocks_infix. unfold own_blocks. rewrite !in_app_iff. cbn [In]. auto 10.
Qed.
Theorem own_help_help_option parent c :
  Infix (element_bytes H_HELP_OPT_NAMES H_HELP_OPT_TEXT (max_len (map fst (option_lines (c_args c)))))
        (hops_bytes (own_help_hops parent c)).
Proof.
  rewrite own_help_blocks. eapply Infix_trans; [apply (options_block_in c (H_HELP_OPT_NAMES, H_HELP_OPT_TEXT))|].
  - unfold option_lines. apply in_or_app. right. left. reflexivity.
  - apply join_blocks_infix. unfold own_blocks. rewrite !in_app_iff. cbn [In]. auto 10.
Qed.

(* every sub-command is listed with its name and summary *)
Theorem own_help_subcommands parent c o t subs sc : c_sub c = Some (o, t, subs) -> In sc subs ->
  Infix (element_bytes (c_name sc) (odefault (c_short sc)) (max_len (map c_name subs))) (hops_bytes (own_help_hops parent c)).
Proof.
  intros Hs Hsc. rewrite own_help_blocks. eapply Infix_trans; [|apply (join_blocks_infix (list_commands_hops {| e_title := t; e_cmds := subs |}))].
  - rewrite help_list_enum. cbn [e_cmds e_title]. apply Infix_app_r, Infix_app_r.
    exact (Infix_flat_map (fun c => element_bytes (c_name c) (odefault (c_short c)) (max_len (map c_name subs))) subs sc Hsc).
  - unfold own_blocks. rewrite Hs. cbn [opt_block fst snd]. rewrite !in_app_iff. cbn [In]. auto 10.
Qed.

(* ---------- `help` on a group: the listings of the visible, non-empty members in declaration order, nothing of a hidden one *)
Definition listed (m : bool * enumdecl) : bool := negb (fst m) && negb (match e_cmds (snd m) with [] => true | _ => false end).
Theorem help_list_group_member ms m : In m ms -> listed m = true ->
  Infix (hops_bytes (list_commands_hops (snd m))) (hops_bytes (list_commands_set (SGroup ms))).
Proof.
  intros Hm Hl. cbn [list_commands_set]. apply join_blocks_infix. apply in_map_iff. exists m. split; [reflexivity|]. apply filter_In. split; [exact Hm|exact Hl].
Qed.
Theorem help_list_group_blocks ms :
  list_commands_set (SGroup ms) = join_blocks (map (fun m : bool * enumdecl => list_commands_hops (snd m)) (filter listed ms)).
Proof. reflexivity. Qed.
