(* All sink calls succeed: the Cli as a producer of appended sink operations. *)
From EC Require Import Base Generated.Codes Model.Utils Model.Editor Model.Sink Model.Writer Model.Cli Spec.Framing Proofs.ListFacts.

Definition okT (n : nat) : bool := true.

(* a write of bs as sink operations: nothing for an empty slice *)
Definition wop (bs : list N) : list sinkop := match bs with [] => [] | _ => [SW bs] end.
Definition op_bytes (o : sinkop) : list N := match o with SW b => b | _ => [] end.
Definition ops_bytes (os : list sinkop) : list N := flat_map op_bytes os.
Lemma ops_bytes_app a b : ops_bytes (a ++ b) = ops_bytes a ++ ops_bytes b.
Proof. apply flat_map_app. Qed.
Lemma ops_bytes_wop bs : ops_bytes (wop bs) = bs.
Proof. destruct bs; cbn; [reflexivity|]. rewrite app_nil_r. reflexivity. Qed.

(* s' differs from s only by appended sink operations O (and the call counter) *)
Definition appended (s s' : cli) (O : list sinkop) : Prop :=
  ed s' = ed s /\ hist s' = hist s /\ ig s' = ig s /\ prompt s' = prompt s /\ hcalls s' = hcalls s /\ wst s' = wst s /\ newp s' = newp s
  /\ out (sk s') = out (sk s) ++ O.

Lemma appended_refl s : appended s s [].
Proof. unfold appended. rewrite app_nil_r. auto 10. Qed.
Lemma appended_trans s1 s2 s3 O1 O2 : appended s1 s2 O1 -> appended s2 s3 O2 -> appended s1 s3 (O1 ++ O2).
Proof. unfold appended. intros (A1&A2&A3&A4&A5&A6&A7&A8) (B1&B2&B3&B4&B5&B6&B7&B8). rewrite B8, A8, app_assoc. repeat split; congruence. Qed.

Lemma wr_ok bs s : exists s', wr okT bs s = (Ok tt, s') /\ appended s s' (wop bs).
Proof.
  unfold wr, sk_write, okT. destruct bs as [|b bs].
  - exists s. destruct s; cbn. split; [reflexivity|]. unfold appended; cbn. rewrite app_nil_r. auto 10.
  - eexists. split; [reflexivity|]. unfold appended, set_sk; cbn. auto 10.
Qed.
Lemma fl_ok s : exists s', fl okT s = (Ok tt, s') /\ appended s s' [SF].
Proof. unfold fl, sk_flush, okT. eexists. split; [reflexivity|]. unfold appended, set_sk; cbn. auto 10. Qed.

(* sequencing rule *)
Lemma bind_ok {A B} (m : M cli A) (f : A -> M cli B) s a s1 r s2 : m s = (Ok a, s1) -> f a s1 = (r, s2) -> bind m f s = (r, s2).
Proof. intros H1 H2. unfold bind. rewrite H1. exact H2. Qed.

(* ---------- the Writer under an always-succeeding sink *)
Definition wframe (s s' : cli) : Prop :=
  ed s' = ed s /\ hist s' = hist s /\ ig s' = ig s /\ prompt s' = prompt s /\ hcalls s' = hcalls s.
Lemma wframe_refl s : wframe s s. Proof. unfold wframe; auto. Qed.
Lemma wframe_trans a b c : wframe a b -> wframe b c -> wframe a c.
Proof. unfold wframe. intros (A1&A2&A3&A4&A5) (B1&B2&B3&B4&B5). repeat split; congruence. Qed.
Lemma appended_wframe s s' O : appended s s' O -> wframe s s'.
Proof. unfold appended, wframe. intuition. Qed.

Definition clean : wstate := {| dirty := false; lastb := (0, 0) |}.
Definition wnext (w : wstate) (t : list N) : wstate :=
  let '(ls, rest) := split_lf [] t in
  let w1 := match ls with [] => w | _ => clean end in
  match rest with [] => w1 | _ => {| dirty := true; lastb := last2 w1 rest |} end.

Definition join_lines (ls : list (list N)) (rest : list N) : list N := flat_map (fun l => l ++ CRLF) ls ++ rest.

Lemma w_lines_ok : forall ls s, exists s' O, w_lines (wr okT) set_wst ls s = (Ok tt, s') /\ wframe s s' /\ newp s' = newp s
  /\ out (sk s') = out (sk s) ++ O /\ ops_bytes O = flat_map (fun l => l ++ CRLF) ls
  /\ wst s' = match ls with [] => wst s | _ => clean end.
Proof.
  induction ls as [|l ls IH]; intros s.
  - exists s, []. cbn. rewrite app_nil_r. repeat split; auto.
  - cbn [w_lines].
    destruct (wr_ok l s) as (s1 & E1 & A1). destruct (wr_ok CRLF s1) as (s2 & E2 & A2).
    set (s3 := set_wst clean s2).
    destruct (IH s3) as (s4 & O4 & E4 & F4 & N4 & Out4 & B4 & W4).
    exists s4, (wop l ++ wop CRLF ++ O4). split.
    { eapply bind_ok; [exact E1|]. eapply bind_ok; [exact E2|]. eapply bind_ok; [unfold w_set, modify; reflexivity|]. exact E4. }
    pose proof (appended_trans _ _ _ _ _ A1 A2) as A12. destruct A12 as (a1&a2&a3&a4&a5&a6&a7&a8).
    split; [|split; [|split; [|split]]].
    + eapply wframe_trans; [|exact F4]. unfold wframe, s3, set_wst; cbn. auto.
    + rewrite N4. unfold s3, set_wst; cbn. exact a7.
    + rewrite Out4. unfold s3, set_wst; cbn. rewrite a8, <- !app_assoc. reflexivity.
    + rewrite !ops_bytes_app, !ops_bytes_wop, B4. cbn [flat_map]. rewrite <- app_assoc. reflexivity.
    + rewrite W4. destruct ls; [unfold s3, set_wst; reflexivity|reflexivity].
Qed.

Lemma w_write_str_ok t s : exists s' O, w_write_str (wr okT) wst set_wst t s = (Ok tt, s') /\ wframe s s' /\ newp s' = newp s
  /\ out (sk s') = out (sk s) ++ O /\ ops_bytes O = (let '(ls, rest) := split_lf [] t in join_lines ls rest) /\ wst s' = wnext (wst s) t.
Proof.
  unfold w_write_str, wnext. destruct (split_lf [] t) as [ls rest].
  destruct (w_lines_ok ls s) as (s1 & O1 & E1 & F1 & N1 & Out1 & B1 & W1).
  destruct rest as [|b rest'].
  - exists s1, O1. split; [eapply bind_ok; [exact E1|reflexivity]|]. unfold join_lines. rewrite app_nil_r. auto 10.
  - destruct (wr_ok (b :: rest') s1) as (s2 & E2 & A2).
    exists (set_wst {| dirty := true; lastb := last2 (wst s2) (b :: rest') |} s2), (O1 ++ wop (b :: rest')).
    split. { eapply bind_ok; [exact E1|]. eapply bind_ok; [exact E2|]. reflexivity. }
    destruct A2 as (a1&a2&a3&a4&a5&a6&a7&a8).
    split; [|split; [|split; [|split]]].
    + eapply wframe_trans; [exact F1|]. unfold wframe, set_wst; cbn. auto.
    + unfold set_wst; cbn. congruence.
    + unfold set_wst; cbn. rewrite a8, Out1, app_assoc. reflexivity.
    + rewrite ops_bytes_app, ops_bytes_wop, B1. reflexivity.
    + unfold set_wst; cbn [wst]. rewrite a6, W1. reflexivity.
Qed.

(* ---------- LF -> CRLF *)
Definition lf_free (l : list N) : Prop := Forall (fun b => b <> 10) l.
Lemma lf_to_crlf_app a b : lf_to_crlf (a ++ b) = lf_to_crlf a ++ lf_to_crlf b.
Proof. induction a as [|x a IH]; [reflexivity|]. cbn. destruct (x =? 10); cbn; rewrite IH; reflexivity. Qed.
Lemma lf_to_crlf_free l : lf_free l -> lf_to_crlf l = l.
Proof. induction 1 as [|x l Hx Hl IH]; [reflexivity|]. cbn. destruct (x =? 10) eqn:E; [apply N.eqb_eq in E; congruence|]. rewrite IH. reflexivity. Qed.

Lemma split_join : forall t cur, lf_free cur ->
  let '(ls, rest) := split_lf cur t in
  rev cur ++ lf_to_crlf t = join_lines ls rest /\ lf_free rest /\ (ls = [] -> rest = rev cur ++ t).
Proof.
  induction t as [|b t IH]; intros cur Hc.
  - cbn. unfold join_lines. cbn. rewrite app_nil_r. split; [reflexivity|]. split; [apply Forall_rev, Hc|auto].
  - cbn [split_lf lf_to_crlf]. unfold LINE_FEED. destruct (b =? 10) eqn:E.
    + assert (Hn : lf_free []) by constructor. specialize (IH [] Hn). destruct (split_lf [] t) as [ls rest]. destruct IH as (I1 & I2 & I3).
      unfold join_lines in *. cbn [flat_map rev app] in *. rewrite I1. unfold CRLF. rewrite <- !app_assoc. cbn [app]. split; [reflexivity|]. split; [exact I2|discriminate].
    + assert (Hb : b <> 10) by (apply N.eqb_neq; exact E).
      assert (Hc' : lf_free (b :: cur)) by (constructor; assumption).
      specialize (IH (b :: cur) Hc'). destruct (split_lf (b :: cur) t) as [ls rest]. destruct IH as (I1 & I2 & I3).
      cbn [rev] in I1, I3. rewrite <- app_assoc in I1, I3. cbn [app] in I1, I3. auto.
Qed.

Lemma ends_with_lf_app a b : b <> [] -> ends_with_lf (a ++ b) = ends_with_lf b.
Proof. intros H. unfold ends_with_lf. rewrite rev_app_distr. destruct (rev b) eqn:E; [apply (f_equal (@rev N)) in E; rewrite rev_involutive in E; cbn in E; congruence|]. reflexivity. Qed.
Lemma ends_with_lf_free l : lf_free l -> ends_with_lf l = false.
Proof. intros H. unfold ends_with_lf. apply Forall_rev in H. destruct (rev l) as [|x r]; [reflexivity|]. inversion H; subst.
  destruct x as [|p]; [reflexivity|]. do 4 (destruct p; try reflexivity). congruence. Qed.
Lemma needs_break_app_free a b : b <> [] -> lf_free b -> needs_break (a ++ b) = true.
Proof. intros Hne Hf. unfold needs_break. rewrite ends_with_lf_app, ends_with_lf_free by assumption. destruct (a ++ b) eqn:E; [apply app_eq_nil in E as [_ E]; congruence|reflexivity]. Qed.
Lemma needs_break_crlf a : needs_break (a ++ [13; 10]) = false.
Proof. unfold needs_break. rewrite ends_with_lf_app by discriminate. destruct (a ++ [13;10]); reflexivity. Qed.

(* the dirty flag is exactly "output so far is non-empty and does not end with a line feed" *)
Lemma wnext_dirty w bytes t : dirty w = needs_break bytes -> dirty (wnext w t) = needs_break (bytes ++ lf_to_crlf t).
Proof.
  intros Hw. unfold wnext. assert (Hn : lf_free []) by constructor. pose proof (split_join t [] Hn) as H. destruct (split_lf [] t) as [ls rest]. cbn [rev app] in H. destruct H as (H1 & H2 & H3).
  rewrite H1. unfold join_lines. destruct rest as [|b r].
  - rewrite app_nil_r. destruct ls as [|l ls].
    + cbn. rewrite app_nil_r. exact Hw.
    + cbn [dirty clean]. assert (E : exists pre, flat_map (fun l0 => l0 ++ CRLF) (l :: ls) = pre ++ [13; 10]).
      { clear. revert l. induction ls as [|l2 ls IH]; intros l.
        - exists l. cbn [flat_map]. rewrite app_nil_r. reflexivity.
        - destruct (IH l2) as [pre Hp]. exists ((l ++ CRLF) ++ pre). change (flat_map (fun l0 => l0 ++ CRLF) (l :: l2 :: ls)) with ((l ++ CRLF) ++ flat_map (fun l0 => l0 ++ CRLF) (l2 :: ls)).
          rewrite Hp, <- !app_assoc. reflexivity. }
      destruct E as [pre ->]. rewrite app_assoc, needs_break_crlf. reflexivity.
  - cbn [dirty]. rewrite app_assoc. symmetry. apply needs_break_app_free; [discriminate|exact H2].
Qed.
Lemma wnext_lastb_not_lf w t : (dirty w = true -> snd (lastb w) <> 10) -> dirty (wnext w t) = true -> snd (lastb (wnext w t)) <> 10.
Proof.
  intros Hw. unfold wnext. assert (Hn : lf_free []) by constructor. pose proof (split_join t [] Hn) as H. destruct (split_lf [] t) as [ls rest]. destruct H as (_ & H2 & _).
  destruct rest as [|b r].
  - destruct ls; [exact Hw|cbn; discriminate].
  - intros _. cbn [lastb]. unfold last2. apply Forall_rev in H2. destruct (rev (b :: r)) as [|x [|y q]] eqn:E.
    + apply (f_equal (@rev N)) in E. rewrite rev_involutive in E. discriminate.
    + cbn. inversion H2; assumption.
    + cbn. inversion H2; assumption.
Qed.

(* ---------- application operations *)
Definition wnext_hop (w : wstate) (h : hop) : wstate :=
  match h with
  | HWrite t => wnext w t
  | HWriteln t => {| dirty := false; lastb := lastb (wnext w t) |}
  | HSetPrompt _ => w
  end.
Definition newp_hop (np : option (list N)) (h : hop) : option (list N) :=
  match h with HSetPrompt p => Some p | _ => np end.

Lemma run_hops_ok : forall hs s, exists s' O, run_hops okT hs s = (Ok tt, s') /\ wframe s s'
  /\ out (sk s') = out (sk s) ++ O /\ ops_bytes O = hops_bytes hs
  /\ wst s' = fold_left wnext_hop hs (wst s) /\ newp s' = fold_left newp_hop hs (newp s).
Proof.
  induction hs as [|h hs IH]; intros s.
  - exists s, []. cbn. rewrite app_nil_r. repeat split; auto using wframe_refl.
  - destruct h as [t|t|p]; cbn [run_hops hops_bytes flat_map hop_bytes fold_left wnext_hop newp_hop].
    + destruct (w_write_str_ok t s) as (s1 & O1 & E1 & F1 & N1 & Out1 & B1 & W1).
      destruct (IH s1) as (s2 & O2 & E2 & F2 & Out2 & B2 & W2 & N2).
      exists s2, (O1 ++ O2). split; [eapply bind_ok; [exact E1|exact E2]|].
      split; [eapply wframe_trans; eauto|]. split; [rewrite Out2, Out1, app_assoc; reflexivity|].
      split; [|split; [rewrite W2, W1; reflexivity|rewrite N2, N1; reflexivity]].
      rewrite ops_bytes_app, B1, B2. f_equal.
      assert (Hn : lf_free []) by constructor. pose proof (split_join t [] Hn) as H. destruct (split_lf [] t) as [ls rest]. cbn [rev app] in H. symmetry. apply H.
    + unfold w_writeln_str.
      destruct (w_write_str_ok t s) as (s1 & O1 & E1 & F1 & N1 & Out1 & B1 & W1).
      destruct (wr_ok CRLF s1) as (s2 & E2 & A2).
      set (s3 := set_wst {| dirty := false; lastb := lastb (wst s2) |} s2).
      destruct (IH s3) as (s4 & O4 & E4 & F4 & Out4 & B4 & W4 & N4).
      exists s4, (O1 ++ wop CRLF ++ O4). split.
      { eapply bind_ok; [|exact E4]. eapply bind_ok; [exact E1|]. eapply bind_ok; [exact E2|]. reflexivity. }
      destruct A2 as (a1&a2&a3&a4&a5&a6&a7&a8).
      split; [|split; [|split; [|split]]].
      * eapply wframe_trans; [exact F1|]. eapply wframe_trans; [|exact F4]. unfold wframe, s3, set_wst; cbn. auto.
      * rewrite Out4. unfold s3, set_wst; cbn. rewrite a8, Out1, <- !app_assoc. reflexivity.
      * rewrite !ops_bytes_app, ops_bytes_wop, B1, B4. rewrite <- app_assoc. f_equal.
        assert (Hn : lf_free []) by constructor. pose proof (split_join t [] Hn) as H. destruct (split_lf [] t) as [ls rest]. cbn [rev app] in H. symmetry. apply H.
      * rewrite W4. unfold s3, set_wst; cbn [wst]. rewrite a6, W1. reflexivity.
      * rewrite N4. unfold s3, set_wst; cbn [newp]. congruence.
    + destruct (IH (set_newp (Some p) s)) as (s2 & O2 & E2 & F2 & Out2 & B2 & W2 & N2).
      exists s2, O2. split; [eapply bind_ok; [reflexivity|exact E2]|].
      split; [eapply wframe_trans; [|exact F2]; unfold wframe, set_newp; cbn; auto|]. auto.
Qed.

Lemma hops_dirty : forall hs w bytes, dirty w = needs_break bytes ->
  dirty (fold_left wnext_hop hs w) = needs_break (bytes ++ hops_bytes hs).
Proof.
  induction hs as [|h hs IH]; intros w bytes Hw; cbn [fold_left hops_bytes flat_map].
  - rewrite app_nil_r. exact Hw.
  - fold (hops_bytes hs). rewrite app_assoc. apply IH. destruct h as [t|t|p]; cbn [wnext_hop hop_bytes dirty].
    + apply wnext_dirty, Hw.
    + rewrite app_assoc, needs_break_crlf. reflexivity.
    + rewrite app_nil_r. exact Hw.
Qed.
Lemma hops_lastb : forall hs w, (dirty w = true -> snd (lastb w) <> 10) ->
  dirty (fold_left wnext_hop hs w) = true -> snd (lastb (fold_left wnext_hop hs w)) <> 10.
Proof.
  induction hs as [|h hs IH]; intros w Hw; cbn [fold_left]; [exact Hw|]. apply IH.
  destruct h as [t|t|p]; cbn [wnext_hop dirty]; [apply wnext_lastb_not_lf, Hw|discriminate|exact Hw].
Qed.
(* is_dirty of a writer that started fresh = the framing rule *)
Theorem is_dirty_hops hs : is_dirty (fold_left wnext_hop hs w0) = needs_break (hops_bytes hs).
Proof.
  unfold is_dirty. pose proof (hops_dirty hs w0 [] eq_refl) as H. cbn [app] in H. rewrite H.
  destruct (needs_break (hops_bytes hs)) eqn:E; [|reflexivity]. cbn [andb].
  pose proof (hops_lastb hs w0 ltac:(discriminate)) as H2. rewrite H in H2. specialize (H2 eq_refl).
  unfold LINE_FEED. destruct (snd (lastb (fold_left wnext_hop hs w0)) =? 10) eqn:E2; [apply N.eqb_eq in E2; congruence|].
  rewrite andb_false_r. reflexivity.
Qed.

(* ---------- pieces of the Cli *)
Lemma mrepeat_wr_ok : forall n bs s, exists s', mrepeat n (wr okT bs) s = (Ok tt, s') /\ appended s s' (concat (repeat (wop bs) n)).
Proof.
  induction n as [|n IH]; intros bs s.
  - exists s. split; [reflexivity|apply appended_refl].
  - destruct (wr_ok bs s) as (s1 & E1 & A1). destruct (IH bs s1) as (s2 & E2 & A2).
    exists s2. split; [cbn [mrepeat]; eapply bind_ok; [exact E1|exact E2]|]. cbn [repeat concat]. eapply appended_trans; eauto.
Qed.
Lemma ops_bytes_concat_repeat bs n : ops_bytes (concat (repeat (wop bs) n)) = concat (repeat bs n).
Proof. induction n as [|n IH]; [reflexivity|]. cbn [repeat concat]. rewrite ops_bytes_app, ops_bytes_wop, IH. reflexivity. Qed.

Lemma clear_line_ok cp s : exists s', clear_line okT cp s = (Ok tt, s') /\
  appended s s' (wop [CARRIAGE_RETURN] ++ wop CLEAR_LINE ++ (if cp then [] else wop (prompt s)) ++ [SF]).
Proof.
  unfold clear_line.
  destruct (wr_ok [CARRIAGE_RETURN] s) as (s1 & E1 & A1). destruct (wr_ok CLEAR_LINE s1) as (s2 & E2 & A2).
  pose proof (appended_trans _ _ _ _ _ A1 A2) as A12.
  destruct cp.
  - destruct (fl_ok s2) as (s3 & E3 & A3). exists s3. split.
    { eapply bind_ok; [exact E1|]. eapply bind_ok; [exact E2|]. eapply bind_ok; [reflexivity|exact E3]. }
    pose proof (appended_trans _ _ _ _ _ A12 A3) as A. rewrite <- app_assoc in A. exact A.
  - destruct (wr_ok (prompt s2) s2) as (s3 & E3 & A3). destruct (fl_ok s3) as (s4 & E4 & A4). exists s4. split.
    { eapply bind_ok; [exact E1|]. eapply bind_ok; [exact E2|]. eapply bind_ok; [eapply bind_ok; [reflexivity|exact E3]|exact E4]. }
    assert (Hp : prompt s2 = prompt s) by (destruct A12 as (_&_&_&Hp&_); exact Hp). rewrite Hp in A3.
    pose proof (appended_trans _ _ _ _ _ (appended_trans _ _ _ _ _ A12 A3) A4) as A. rewrite <- !app_assoc in A. exact A.
Qed.

Lemma redraw_line_ok s : exists s', redraw_line okT s = (Ok tt, s') /\
  appended s s' (wop (text (ed s)) ++ concat (repeat (wop CURSOR_BACKWARD) (ed_len (ed s) - cursor (ed s))) ++ [SF]).
Proof.
  unfold redraw_line.
  destruct (wr_ok (text (ed s)) s) as (s1 & E1 & A1).
  destruct (mrepeat_wr_ok (ed_len (ed s) - cursor (ed s)) CURSOR_BACKWARD s1) as (s2 & E2 & A2).
  destruct (fl_ok s2) as (s3 & E3 & A3). exists s3. split.
  { eapply bind_ok; [reflexivity|]. eapply bind_ok; [exact E1|]. eapply bind_ok; [exact E2|exact E3]. }
  pose proof (appended_trans _ _ _ _ _ (appended_trans _ _ _ _ _ A1 A2) A3) as A. rewrite <- !app_assoc in A. exact A.
Qed.

Definition last_is_flush (O : list sinkop) : Prop := exists O', O = O' ++ [SF].

(* Cli::write, all sink calls succeeding: Ok, everything but the sink (and the scratch writer fields) unchanged, the bytes on the
   sink are exactly the frame, and the last sink call is a flush *)
Theorem api_write_ok hs s : exists s' O, api_write okT hs s = (Ok tt, s') /\ wframe s s' /\ out (sk s') = out (sk s) ++ O
  /\ ops_bytes O = frame_write hs (prompt s) (text (ed s)) (ed_len (ed s) - cursor (ed s)) /\ last_is_flush O.
Proof.
  unfold api_write.
  destruct (clear_line_ok true s) as (s1 & E1 & A1).
  set (s2 := set_newp None (set_wst w0 s1)).
  destruct (run_hops_ok hs s2) as (s3 & O3 & E3 & F3 & Out3 & B3 & W3 & N3).
  assert (Hd : is_dirty (wst s3) = needs_break (hops_bytes hs)) by (rewrite W3; unfold s2, set_newp, set_wst; cbn [wst]; apply is_dirty_hops).
  assert (F13 : wframe s s3).
  { eapply wframe_trans; [exact (appended_wframe _ _ _ A1)|]. eapply wframe_trans; [|exact F3]. unfold wframe, s2, set_newp, set_wst; cbn; auto. }
  destruct F13 as (f1&f2&f3&f4&f5).
  set (brk := if needs_break (hops_bytes hs) then wop CRLF else []).
  assert (Hbrk : exists s4, (if is_dirty (wst s3) then wr okT CRLF else ret tt) s3 = (Ok tt, s4) /\ appended s3 s4 brk).
  { rewrite Hd. subst brk. destruct (needs_break (hops_bytes hs)); [apply wr_ok|exists s3; split; [reflexivity|apply appended_refl]]. }
  destruct Hbrk as (s4 & E4 & A4).
  destruct (wr_ok (prompt s3) s4) as (s5 & E5 & A5).
  destruct (redraw_line_ok s5) as (s6 & E6 & A6).
  pose proof (appended_trans _ _ _ _ _ (appended_trans _ _ _ _ _ A4 A5) A6) as A46.
  exists s6. eexists. split.
  { eapply bind_ok; [exact E1|]. eapply bind_ok; [reflexivity|]. eapply bind_ok; [exact E3|]. eapply bind_ok; [reflexivity|].
    eapply bind_ok; [exact E4|]. eapply bind_ok; [exact E5|exact E6]. }
  destruct A46 as (b1&b2&b3&b4&b5&b6&b7&b8). destruct A1 as (a1&a2&a3&a4&a5&a6&a7&a8).
  assert (He5 : ed s5 = ed s) by (destruct (appended_trans _ _ _ _ _ A4 A5) as (c1&_); congruence).
  split; [unfold wframe; repeat split; congruence|].
  split.
  { rewrite b8, Out3. unfold s2, set_newp, set_wst; cbn [sk]. rewrite a8, <- !app_assoc. reflexivity. }
  split.
  - rewrite !ops_bytes_app, !ops_bytes_wop, B3, ops_bytes_concat_repeat. cbn [ops_bytes flat_map op_bytes]. rewrite !app_nil_r.
    unfold frame_write. rewrite f4, He5. subst brk. destruct (needs_break (hops_bytes hs)); rewrite ?ops_bytes_wop; cbn [ops_bytes flat_map]; rewrite <- ?app_assoc; reflexivity.
  - rewrite !app_assoc. eexists. reflexivity.
Qed.
