(* C03: no panic / UB-precondition violation for any API call sequence, any bytes, any buffer sizes, any sink behaviour.
   CliInv: the line is well-formed UTF-8 within its buffer (Rep), the history buffer represents distinct well-formed entries (HRep),
   the decoder's accumulator holds a proper prefix of a well-formed char (ainv). *)
From EC Require Import Base Generated.Codes Model.Utf8 Model.Utils Model.Input Model.Editor Model.Token Model.Args Model.History
  Model.Sink Model.Writer Model.Cli Spec.Utf8Spec Spec.QuoteSpec Spec.ArgSpec Spec.IdealEditor Spec.HistSpec
  Proofs.ListFacts Proofs.Utf8Proofs Proofs.UtilsProofs Proofs.InputProofs Proofs.EditorProofs Proofs.TokenProofs Proofs.TokenValid
  Proofs.ArgsProofs Proofs.HistoryProofs Proofs.CompletionProofs Proofs.FlushProofs Proofs.ClassProofs.

Definition CliInv (s : cli) : Prop :=
  (exists i, Rep (cap (ed s)) (ed s) i) /\ TokenProofs.nul_free (text (ed s)) /\
  (exists sp, HRep (hcap (hist s)) (hist s) sp /\ Forall valid_tok (ents sp)) /\
  ainv (acc (ig s)).

Lemma CliInv_init cp hc p : CliInv (cli_init cp hc p).
Proof.
  unfold CliInv, cli_init. cbn. split; [exists ideal0; apply Rep_init|]. split; [constructor|]. split; [|exact I].
  exists hspec0. split; [apply HRep_init|constructor].
Qed.

(* ---- never-panicking computations (state independent) *)
Definition NPp {A} (r : res A) (O : list sinkop) : Prop := r <> Panic.
Lemma bind_NP {A B} (m : M cli A) (f : A -> M cli B) : Spec m NPp -> (forall a, Spec (f a) NPp) -> Spec (bind m f) NPp.
Proof. intros. eapply Spec_bind; eauto; unfold NPp; intros; auto; discriminate. Qed.
Lemma NP_of_S {A} (f : M cli A) : Spec f Sp -> (forall s, fst (f s) <> Panic) -> Spec f NPp.
Proof. intros Sf H s r s' E. destruct (Sf s r s' E) as (O & H1 & _). exists O. split; [exact H1|]. specialize (H s). rewrite E in H. exact H. Qed.
Lemma NP_ret {A} (a : A) : Spec (ret a) NPp.
Proof. intros s r s' E. injection E as <- <-. exists []. rewrite app_nil_r. split; [reflexivity|discriminate]. Qed.
Lemma NP_get : Spec get NPp.
Proof. intros s r s' E. injection E as <- <-. exists []. rewrite app_nil_r. split; [reflexivity|discriminate]. Qed.
Lemma NP_modify (g : cli -> cli) : (forall s, sk (g s) = sk s) -> Spec (modify g) NPp.
Proof. intros H s r s' E. injection E as <- <-. exists []. rewrite H, app_nil_r. split; [reflexivity|discriminate]. Qed.
Lemma NP_reraise {A} (x : res A) : x <> Panic -> Spec (reraise x) NPp.
Proof. intros Hx s r s' E. injection E as <- <-. exists []. rewrite app_nil_r. split; [reflexivity|exact Hx]. Qed.

Section Safety.
  Variable okf : nat -> bool.
  Variable feats : features.
  Variable cs : cmdset.
  Variable handler : nat -> list N -> list (list N) -> list hop.
  Ltac npmod := apply NP_modify; intros; reflexivity.

  Lemma NP_wr bs : Spec (wr okf bs) NPp.
  Proof. intros s r s' E. destruct (Q_wr okf bs s r s' E) as (O & H & _). exists O. split; [exact H|].
    unfold wr, sk_write in E. destruct bs; [injection E as <- <-; discriminate|]. destruct (okf _); injection E as <- <-; discriminate. Qed.
  Lemma NP_fl : Spec (fl okf) NPp.
  Proof. intros s r s' E. destruct (F_fl okf s r s' E) as (O & H & _). exists O. split; [exact H|].
    unfold fl, sk_flush in E. destruct (okf _); injection E as <- <-; discriminate. Qed.
  Lemma NP_flush_bytes bs : Spec (flush_bytes okf bs) NPp.
  Proof. apply bind_NP; [apply NP_wr|intros; apply NP_fl]. Qed.
  Lemma NP_w_lines ls : Spec (w_lines (wr okf) set_wst ls) NPp.
  Proof. induction ls; cbn [w_lines]; [apply NP_ret|]. apply bind_NP; [apply NP_wr|intros]. apply bind_NP; [apply NP_wr|intros]. apply bind_NP; [unfold w_set; npmod|intros; assumption]. Qed.
  Lemma NP_w_write_str t : Spec (w_write_str (wr okf) wst set_wst t) NPp.
  Proof. unfold w_write_str. destruct (split_lf [] t) as [ls rest]. apply bind_NP; [apply NP_w_lines|intros]. destruct rest; [apply NP_ret|].
    apply bind_NP; [apply NP_wr|intros]. apply bind_NP; [apply NP_get|intros]. unfold w_set; npmod. Qed.
  Lemma NP_w_writeln_str t : Spec (w_writeln_str (wr okf) wst set_wst t) NPp.
  Proof. unfold w_writeln_str. apply bind_NP; [apply NP_w_write_str|intros]. apply bind_NP; [apply NP_wr|intros]. apply bind_NP; [apply NP_get|intros]. unfold w_set; npmod. Qed.
  Lemma NP_run_hops hs : Spec (run_hops okf hs) NPp.
  Proof. induction hs as [|h hs IH]; cbn [run_hops]; [apply NP_ret|]. destruct h.
    - apply bind_NP; [apply NP_w_write_str|intros; exact IH].
    - apply bind_NP; [apply NP_w_writeln_str|intros; exact IH].
    - apply bind_NP; [npmod|intros; exact IH]. Qed.
  Lemma NP_mrepeat n (m : M cli unit) : Spec m NPp -> Spec (mrepeat n m) NPp.
  Proof. intros H. induction n; cbn [mrepeat]; [apply NP_ret|]. apply bind_NP; [exact H|intros; assumption]. Qed.
  Lemma NP_clear_line b : Spec (clear_line okf b) NPp.
  Proof. unfold clear_line. apply bind_NP; [apply NP_wr|intros]. apply bind_NP; [apply NP_wr|intros]. apply bind_NP; [|intros; apply NP_fl].
    destruct b; [apply NP_ret|]. apply bind_NP; [apply NP_get|intros; apply NP_wr]. Qed.
  Lemma NP_redraw_line : Spec (redraw_line okf) NPp.
  Proof. unfold redraw_line. apply bind_NP; [apply NP_get|intros]. apply bind_NP; [apply NP_wr|intros]. apply bind_NP; [apply NP_mrepeat, NP_wr|intros; apply NP_fl]. Qed.
  Lemma NP_process_error e : Spec (process_error okf e) NPp.
  Proof. unfold process_error. apply bind_NP; [apply NP_wr|intros]. apply bind_NP; [|intros; apply bind_NP; [apply NP_wr|intros; apply NP_fl]].
    destruct e; repeat (apply bind_NP; [apply NP_wr|intros]); apply NP_wr. Qed.
  Lemma NP_catch_then {A} (m : M cli A) (k : res A -> M cli unit) : Spec m NPp -> (forall r0, r0 <> Panic -> Spec (k r0) NPp) -> Spec (bind (catch m) k) NPp.
  Proof.
    intros Sm Sk s r s' E. unfold bind, catch in E. destruct (m s) as [r1 s1] eqn:Em. destruct (Sm s r1 s1 Em) as (O1 & H1 & N1).
    destruct (Sk r1 N1 s1 r s' E) as (O2 & H2 & N2). exists (O1 ++ O2). split; [rewrite H2, H1, app_assoc; reflexivity|exact N2].
  Qed.
  Lemma NP_process_command name args : Spec (process_command okf cs handler name args) NPp.
  Proof. unfold process_command. destruct (cs_parse cs name args).
    - apply bind_NP; [apply NP_fl|intros; apply NP_process_error].
    - apply bind_NP; [apply NP_get|intros]. apply bind_NP; [npmod|intros]. apply bind_NP; [unfold new_writer; npmod|intros].
      apply NP_catch_then; [apply NP_run_hops|intros r0 Hr0]. apply bind_NP; [apply NP_get|intros s1].
      apply bind_NP; [destruct (newp s1); [npmod|apply NP_ret]|intros]. apply bind_NP; [destruct (is_dirty (wst s1)); [apply NP_wr|apply NP_ret]|intros].
      apply bind_NP; [apply NP_fl|intros]. apply bind_NP; [apply NP_reraise, Hr0|intros].
      destruct (cs_fail cs _ name args); [apply NP_process_error|apply NP_ret]. Qed.
  Lemma NP_process_help req : Spec (process_help okf cs req) NPp.
  Proof. unfold process_help. apply bind_NP; [unfold new_writer; npmod|intros]. apply bind_NP; [apply NP_run_hops|intros].
    apply bind_NP; [apply NP_get|intros s1]. apply bind_NP; [destruct (is_dirty (wst s1)); [apply NP_wr|apply NP_ret]|intros; apply NP_fl]. Qed.

  (* the API calls without any checked operation *)
  Theorem NP_api_write hs : Spec (api_write okf hs) NPp.
  Proof. unfold api_write. apply bind_NP; [apply NP_clear_line|intros]. apply bind_NP; [unfold new_writer; npmod|intros]. apply bind_NP; [apply NP_run_hops|intros].
    apply bind_NP; [apply NP_get|intros s1]. apply bind_NP; [destruct (is_dirty (wst s1)); [apply NP_wr|apply NP_ret]|intros]. apply bind_NP; [apply NP_wr|intros; apply NP_redraw_line]. Qed.
  Theorem NP_api_set_prompt p : Spec (api_set_prompt okf p) NPp.
  Proof. unfold api_set_prompt. apply bind_NP; [npmod|intros]. apply bind_NP; [apply NP_clear_line|intros; apply NP_redraw_line]. Qed.
  Theorem NP_api_build : Spec (api_build okf) NPp.
  Proof. unfold api_build. apply bind_NP; [apply NP_get|intros]. apply bind_NP; [apply NP_wr|intros; apply NP_fl]. Qed.
End Safety.

(* ---------- the decoder only produces well-formed, NUL-free characters *)
Lemma push_single_is_byte a b x : snd (push a b) = Some [x] -> x = b.
Proof.
  unfold push. brk; cbn; try discriminate; try (intros [= <-]; reflexivity).
  destruct (expd a) as [|n]; [cbn; discriminate|]. destruct (buf a) as [|l [|l2 r]]; cbn.
  - destruct n; cbn; [intros [= <-]; reflexivity|discriminate].
  - destruct (second_ok l b); [destruct n; cbn; discriminate|cbn; discriminate].
  - destruct n; cbn; [|discriminate]. intros H. injection H as H. destruct r; discriminate.
Qed.

Lemma accept_typed g b t : byte b -> ainv (acc g) -> snd (accept g b) = Some (Chr t) -> wf_char t /\ TokenProofs.nul_free t.
Proof.
  intros Hb Ha E. destruct (accept_inv g b Hb Ha) as [_ Hw]. specialize (Hw _ E). cbn in Hw. split; [exact Hw|].
  (* NUL can only be a single-byte char equal to the byte just received, which was >= 0x20 *)
  unfold TokenProofs.nul_free. destruct t as [|x [|y r]].
  - constructor.
  - constructor; [|constructor]. intros ->.
    unfold accept in E. destruct (csi g).
    { unfold process_csi in E. destruct ((CSI_FINAL_LO <=? b) && (b <=? CSI_FINAL_HI)); cbn in E; [|discriminate]. revert E. brk; discriminate. }
    destruct ((last g =? ESCAPE) && (b =? CSI_INTRO)); [cbn in E; discriminate|].
    unfold process_single in E. revert E. brk; cbn; try discriminate.
    destruct (push (acc g) b) as [a' o] eqn:Ep. cbn. destruct o as [c|]; cbn; [|discriminate]. intros [= ->].
    assert (X : snd (push (acc g) b) = Some [0]) by (rewrite Ep; reflexivity). apply push_single_is_byte in X.
    unfold MIN_PRINTABLE in *. lia.
  - assert (Hh : Forall high (x :: y :: r)) by (apply wf_multibyte_high; [exact Hw|cbn; lia]).
    apply Forall_forall. intros z Hz Ez. subst z. rewrite Forall_forall in Hh. specialize (Hh 0 Hz). unfold high in Hh. lia.
Qed.

Lemma nul_free_app a b : TokenProofs.nul_free a -> TokenProofs.nul_free b -> TokenProofs.nul_free (a ++ b).
Proof. apply Forall_app_intro. Qed.
Lemma nul_free_firstn a k : TokenProofs.nul_free a -> TokenProofs.nul_free (firstn k a).
Proof. apply Forall_firstn. Qed.
Lemma nul_free_skipn a k : TokenProofs.nul_free a -> TokenProofs.nul_free (skipn k a).
Proof. apply Forall_skipn. Qed.

(* bytes of a completion come from the last candidate merged *)
Lemma ac_merge_done_sub ac s d : ac_done (ac_merge ac s) = Some d -> exists k, d = firstn k s.
Proof.
  unfold ac_merge. destruct s as [|b s']; [cbn; intros [= <-]; exists O; reflexivity|].
  destruct (ac_cap ac); cbn [ac_done]; [intros [= <-]; exists O; reflexivity|]. intros [= <-]. eexists. reflexivity.
Qed.
Lemma fold_merge_nul_free : forall cands ac, Forall TokenProofs.nul_free cands ->
  (forall d, ac_done ac = Some d -> TokenProofs.nul_free d) ->
  forall d, ac_done (fold_left ac_merge cands ac) = Some d -> TokenProofs.nul_free d.
Proof.
  induction cands as [|c cands IH]; intros ac Hc Ha d; cbn [fold_left]; [apply Ha|].
  inversion Hc as [|? ? H1 H2]; subst. apply IH; [exact H2|]. intros d' Hd'. destruct (ac_merge_done_sub _ _ _ Hd') as [k ->]. apply nul_free_firstn, H1.
Qed.

(* ---------- editor operations keep the text NUL-free *)
Lemma ed_insert_nul e t e' b : ed_insert e t = Some (e', b) -> TokenProofs.nul_free (text e) -> TokenProofs.nul_free t -> TokenProofs.nul_free (text e').
Proof.
  unfold ed_insert. intros E He Ht. destruct (Nat.ltb (cap e) (length (text e))); [discriminate|].
  destruct (Nat.ltb _ (length t)); [injection E as <- <-; exact He|].
  destruct (Nat.ltb (length (text e)) _); [discriminate|]. injection E as <- <-. cbn [text].
  apply nul_free_app; [apply nul_free_firstn, He|apply nul_free_app; [exact Ht|apply nul_free_skipn, He]].
Qed.
Lemma ed_remove_nul e e' : ed_remove e = Some e' -> TokenProofs.nul_free (text e) -> TokenProofs.nul_free (text e').
Proof.
  unfold ed_remove. intros E He. destruct (char_byte_index (text e) (cursor e)) as [c|]; [|injection E as <-; exact He].
  destruct (Nat.ltb (length (text e)) c); [discriminate|]. destruct (char_byte_index (skipn c (text e)) 1) as [d|].
  - destruct (Nat.ltb (length (text e)) (d + c)); [discriminate|]. injection E as <-. cbn [text]. apply nul_free_app; [apply nul_free_firstn|apply nul_free_skipn]; exact He.
  - injection E as <-. cbn [text]. apply nul_free_firstn, He.
Qed.

Definition cmdset_ok (c : cmdset) : Prop := Forall valid_tok (cs_names c) /\ Forall TokenProofs.nul_free (cs_names c).

Lemma help_candidate_nul_free : TokenProofs.nul_free HELP_CANDIDATE.
Proof. vm_compute. repeat constructor; discriminate. Qed.

Lemma ed_autocompletion_nul c e e' : cmdset_ok c -> ed_autocompletion e (complete_with c) = Some e' ->
  TokenProofs.nul_free (text e) -> TokenProofs.nul_free (text e').
Proof.
  intros [_ Hn] E He. unfold ed_autocompletion in E.
  destruct (Nat.ltb (length (text e)) _); [discriminate|]. destruct (Nat.ltb (cap e) _); [discriminate|].
  destruct (request_from_input _) as [name|]; [|injection E as <-; exact He].
  destruct (ac_done (complete_with c name (ac_new _))) as [a|] eqn:Ed; [|injection E as <-; exact He].
  destruct (Nat.ltb (cap e) _); [discriminate|]. injection E as <-. cbn [text].
  assert (Ha : TokenProofs.nul_free a).
  { rewrite complete_with_fold in Ed. eapply fold_merge_nul_free; [| |exact Ed].
    - apply Forall_forall. intros x Hx. apply in_map_iff in Hx as (n & <- & Hin). apply filter_In in Hin as [Hin _]. apply nul_free_skipn.
      apply in_app_or in Hin as [Hin|[<-|[]]]; [rewrite Forall_forall in Hn; apply Hn, Hin|exact help_candidate_nul_free].
    - cbn. discriminate. }
  destruct (negb _ && _); [apply nul_free_app; [apply nul_free_app; [apply nul_free_firstn, He|exact Ha]|repeat constructor; discriminate]|
                           apply nul_free_app; [apply nul_free_firstn, He|exact Ha]].
Qed.

(* ---------- history: pushed / recalled lines are valid *)
Lemma hs_push_valid cp sp t (P : list N -> Prop) : Forall P (ents sp) -> P t -> Forall P (ents (hs_push cp sp t)).
Proof.
  intros H Ht. unfold hs_push. destruct (acceptable cp t); [|exact H]. cbn [ents].
  destruct (evict_suffix (cp - esize t) (remove_entry t (ents sp))) as [m ->].
  apply Forall_app_intro; [|constructor; [exact Ht|constructor]]. apply Forall_skipn.
  apply Forall_forall. intros x Hx. rewrite Forall_forall in H. apply H. eapply remove_entry_sub. exact Hx.
Qed.
Lemma hs_older_valid sp (P : list N -> Prop) x : Forall P (ents sp) -> snd (hs_older sp) = Some x -> P x.
Proof.
  intros H. unfold hs_older. destruct (pos sp) as [[|i]|].
  - cbn. discriminate.
  - cbn [snd]. intros E. rewrite Forall_forall in H. apply H. eapply nth_error_In. exact E.
  - destruct (length (ents sp)) eqn:El; cbn [snd]; [discriminate|]. intros E. rewrite Forall_forall in H. apply H. eapply nth_error_In. exact E.
Qed.
Lemma hs_newer_valid sp (P : list N -> Prop) x : Forall P (ents sp) -> snd (hs_newer sp) = Some x -> P x.
Proof.
  intros H. unfold hs_newer. destruct (pos sp) as [i|]; [|cbn; discriminate].
  destruct (Nat.ltb (S i) (length (ents sp))); cbn [snd]; [|discriminate]. intros E. rewrite Forall_forall in H. apply H. eapply nth_error_In. exact E.
Qed.
Lemma hs_older_ents sp : ents (fst (hs_older sp)) = ents sp.
Proof. unfold hs_older. destruct (pos sp) as [[|i]|]; try reflexivity. destruct (length (ents sp)); reflexivity. Qed.
Lemma hs_newer_ents sp : ents (fst (hs_newer sp)) = ents sp.
Proof. unfold hs_newer. destruct (pos sp) as [i|]; [|reflexivity]. destruct (Nat.ltb (S i) (length (ents sp))); reflexivity. Qed.

Lemma HRep_hcap cp h sp : HRep cp h sp -> hcap h = cp. Proof. intros (H & _). exact H. Qed.
Lemma Rep_cap cp e i : Rep cp e i -> cap e = cp. Proof. intros (H & _). exact H. Qed.

(* ---------- help_request never hits an unchecked operation on valid tokens *)
Lemma help_request_some name args : Forall valid_tok args -> exists r, help_request name args = Some r.
Proof.
  intros Hv. unfold help_request. pose proof (args_classified args Hv) as Ha.
  destruct (list_eqb name HELP_NAME).
  - (* one step of the iterator *)
    unfold args_of, args_fuel in Ha. cbn [ai_collect] in Ha. destruct (ai_next (ai_new args)) as [r|]; [|discriminate].
    cbn [obind]. destruct r as [[[| | |v] it]|]; eexists; reflexivity.
  - rewrite Ha. cbn [obind]. destruct (existsb is_help_arg (classify_all false args)); eexists; reflexivity.
Qed.

Section SafetyKeys.
  Variable okf : nat -> bool.
  Variable feats : features.
  Variable cs : cmdset.
  Variable handler : nat -> list N -> list (list N) -> list hop.
  Hypothesis Hcs : cmdset_ok cs.

  Lemma NP_process_input raw empty : Forall valid_tok (tokens_iter raw empty) -> Spec (process_input okf feats cs handler raw empty) NPp.
  Proof.
    intros Hv. unfold process_input. destruct (tokens_iter raw empty) as [|name args] eqn:Et; cbn [from_tokens]; [apply NP_ret|].
    destruct (f_help feats); [|apply NP_process_command]. inversion Hv as [|? ? _ Hargs]; subst.
    destruct (help_request_some name args Hargs) as [r Hr]. rewrite Hr.
    intros s r0 s' E. rewrite bind_lift_some in E. destruct r as [req|]; [exact (NP_process_help okf cs req s r0 s' E)|exact (NP_process_command okf cs handler name args s r0 s' E)].
  Qed.

  (* invariant depends only on editor, decoder, history *)
  Lemma CliInv_same s s' : ed s' = ed s -> ig s' = ig s -> hist s' = hist s -> CliInv s -> CliInv s'.
  Proof. unfold CliInv. intros -> -> ->. auto. Qed.

  Lemma tail_safe (tail : M cli unit) s r s' : Same tail -> Spec tail NPp -> CliInv s -> tail s = (r, s') -> r <> Panic /\ CliInv s'.
  Proof. intros St Sn Hi E. destruct (St _ _ _ E) as (a&b&c). destruct (Sn _ _ _ E) as (O & HO & Hn). split; [exact Hn|eapply CliInv_same; eauto]. Qed.

  Definition set_ed_inv s e' : CliInv s -> (exists i, Rep (cap e') e' i) -> TokenProofs.nul_free (text e') -> CliInv (set_ed e' s).
  Proof. intros (_ & _ & H3 & H4) R N. unfold CliInv. cbn. auto. Defined.

  Lemma on_text_safe t s r s' : wf_char t -> TokenProofs.nul_free t -> CliInv s -> on_text okf t s = (r, s') -> r <> Panic /\ CliInv s'.
  Proof.
    intros Hw Hn Hi E. unfold on_text in E. rewrite bind_get in E.
    destruct Hi as ((i & HR) & Hnf & Hh & Ha).
    assert (Hcs1 : Forall wf_char [t]) by (constructor; [exact Hw|constructor]).
    destruct (insert_refines _ _ _ [t] HR Hcs1) as (e' & Ei & R'). cbn [concat] in Ei. rewrite app_nil_r in Ei.
    rewrite Ei in E. rewrite bind_lift_some in E.
    assert (Hi0 : CliInv s) by (unfold CliInv; eauto 10).
    destruct (snd (ideal_step (cap (ed s)) i (IInsert [t]))) eqn:Eok.
    - rewrite bind_modify in E.
      assert (Hc' : cap e' = cap (ed s)) by (eapply Rep_cap; eauto).
      assert (Hi1 : CliInv (set_ed e' s)).
      { apply set_ed_inv; [exact Hi0|rewrite Hc'; eauto|eapply ed_insert_nul; eauto]. }
      eapply tail_safe; [| |exact Hi1|exact E].
      + apply Same_bind; [destruct (Nat.ltb _ _); [apply Same_wr|apply Same_ret]|intros]. apply Same_bind; [apply Same_wr|intros; apply Same_fl].
      + apply bind_NP; [destruct (Nat.ltb _ _); [apply NP_wr|apply NP_ret]|intros]. apply bind_NP; [apply NP_wr|intros; apply NP_fl].
    - injection E as <- <-. split; [discriminate|exact Hi0].
  Qed.

  Lemma on_backspace_safe s r s' : CliInv s -> on_backspace okf s = (r, s') -> r <> Panic /\ CliInv s'.
  Proof.
    intros Hi E. unfold on_backspace in E. rewrite bind_get in E.
    pose proof Hi as ((i & HR) & Hnf & Hh & Ha).
    destruct (move_left_refines _ _ _ HR) as [R1 Em]. destruct (ed_move_left (ed s)) as [e1 moved] eqn:Eml. cbn [fst snd] in *.
    destruct moved.
    - destruct (remove_refines _ _ _ R1) as (e2 & Er & R2). rewrite Er, bind_lift_some, bind_modify in E.
      assert (Hc1 : cap e1 = cap (ed s)) by (eapply Rep_cap; eauto). assert (Hc2 : cap e2 = cap (ed s)) by (eapply Rep_cap; eauto).
      assert (Ht1 : text e1 = text (ed s)).
      { unfold ed_move_left in Eml. destruct (cursor (ed s)); inversion Eml; reflexivity. }
      assert (Hi1 : CliInv (set_ed e2 s)).
      { apply set_ed_inv; [exact Hi|rewrite Hc2; eauto|eapply ed_remove_nul; [exact Er|rewrite Ht1; exact Hnf]]. }
      eapply tail_safe; [| |exact Hi1|exact E].
      + apply Same_bind; [apply Same_flush_bytes|intros; apply Same_flush_bytes].
      + apply bind_NP; [apply NP_flush_bytes|intros; apply NP_flush_bytes].
    - injection E as <- <-. split; [discriminate|exact Hi].
  Qed.

  Lemma navigate_input_safe fwd s r s' : CliInv s -> navigate_input okf fwd s = (r, s') -> r <> Panic /\ CliInv s'.
  Proof.
    intros Hi E. unfold navigate_input in E. rewrite bind_get in E.
    pose proof Hi as ((i & HR) & Hnf & Hh & Ha).
    assert (Hm : exists e' moved i', (if fwd then ed_move_right (ed s) else ed_move_left (ed s)) = (e', moved) /\ Rep (cap (ed s)) e' i' /\ text e' = text (ed s)).
    { destruct fwd.
      - destruct (move_right_refines _ _ _ HR) as [R1 _]. destruct (ed_move_right (ed s)) as [e' m] eqn:Em. exists e', m. eexists. split; [reflexivity|]. split; [exact R1|].
        unfold ed_move_right in Em. destruct (Nat.ltb _ _); inversion Em; reflexivity.
      - destruct (move_left_refines _ _ _ HR) as [R1 _]. destruct (ed_move_left (ed s)) as [e' m] eqn:Em. exists e', m. eexists. split; [reflexivity|]. split; [exact R1|].
        unfold ed_move_left in Em. destruct (cursor (ed s)); inversion Em; reflexivity. }
    destruct Hm as (e' & moved & i' & Em & R' & Ht). rewrite Em in E. destruct moved.
    - rewrite bind_modify in E. assert (Hc' : cap e' = cap (ed s)) by (eapply Rep_cap; eauto).
      assert (Hi1 : CliInv (set_ed e' s)) by (apply set_ed_inv; [exact Hi|rewrite Hc'; eauto|rewrite Ht; exact Hnf]).
      eapply tail_safe; [apply Same_flush_bytes|apply NP_flush_bytes|exact Hi1|exact E].
    - injection E as <- <-. split; [discriminate|exact Hi].
  Qed.

  Lemma on_tab_safe s r s' : CliInv s -> on_tab okf feats cs s = (r, s') -> r <> Panic /\ CliInv s'.
  Proof.
    intros Hi E. unfold on_tab in E. destruct (f_ac feats); [|injection E as <- <-; split; [discriminate|exact Hi]].
    rewrite bind_get in E. pose proof Hi as ((i & HR) & Hnf & Hh & Ha). destruct Hcs as [Hv Hn].
    destruct (autocompletion_spec _ _ _ cs HR Hv) as (e' & i' & Ea & R' & _).
    rewrite Ea, bind_lift_some, bind_modify in E. assert (Hc' : cap e' = cap (ed s)) by (eapply Rep_cap; eauto).
    assert (Hi1 : CliInv (set_ed e' s)).
    { apply set_ed_inv; [exact Hi|rewrite Hc'; eauto|eapply ed_autocompletion_nul; [split; eauto|exact Ea|exact Hnf]]. }
    eapply tail_safe; [| |exact Hi1|exact E].
    - destruct (Nat.ltb _ _); [apply Same_bind; [apply Same_wr|intros; apply Same_fl]|apply Same_ret].
    - destruct (Nat.ltb _ _); [apply bind_NP; [apply NP_wr|intros; apply NP_fl]|apply NP_ret].
  Qed.

  Lemma navigate_history_safe older s r s' : CliInv s -> navigate_history okf feats older s = (r, s') -> r <> Panic /\ CliInv s'.
  Proof.
    intros Hi E. unfold navigate_history in E. destruct (f_hist feats); [|injection E as <- <-; split; [discriminate|exact Hi]].
    rewrite bind_get in E. pose proof Hi as ((i & HR) & Hnf & (sp & HH & Hvalid) & Ha).
    assert (Hop : exists h' el sp', (if older then hist_older (hist s) else hist_newer (hist s)) = Some (h', el) /\ HRep (hcap (hist s)) h' sp' /\ ents sp' = ents sp
                  /\ (forall x, el = Some x -> valid_tok x /\ TokenProofs.nul_free x)).
    { destruct HH as (q1&q2&Hgood&q4&q5&q6). assert (HH : HRep (hcap (hist s)) (hist s) sp) by (unfold HRep; auto 10).
      assert (Hgn : Forall (fun e => valid_tok e /\ TokenProofs.nul_free e) (ents sp)).
      { apply Forall_forall. intros x Hx. split; [rewrite Forall_forall in Hvalid; apply Hvalid, Hx|]. rewrite Forall_forall in Hgood. destruct (Hgood x Hx) as [_ G]. exact G. }
      destruct older.
      - destruct (older_refines _ _ _ HH) as (h' & E1 & R1). exists h', (snd (hs_older sp)), (fst (hs_older sp)).
        split; [exact E1|]. split; [exact R1|]. split; [apply hs_older_ents|]. intros x Hx. eapply (hs_older_valid sp (fun e => valid_tok e /\ TokenProofs.nul_free e)); eauto.
      - destruct (newer_refines _ _ _ HH) as (h' & E1 & R1). exists h', (snd (hs_newer sp)), (fst (hs_newer sp)).
        split; [exact E1|]. split; [exact R1|]. split; [apply hs_newer_ents|]. intros x Hx. eapply (hs_newer_valid sp (fun e => valid_tok e /\ TokenProofs.nul_free e)); eauto. }
    destruct Hop as (h' & el & sp' & Eo & R' & Eents & Hel). rewrite Eo, bind_lift_some, bind_modify in E.
    assert (Hh' : hcap h' = hcap (hist s)) by (eapply HRep_hcap; eauto).
    assert (Hi1 : CliInv (set_hist h' s)).
    { unfold CliInv. cbn. split; [eauto|]. split; [exact Hnf|]. split; [|exact Ha]. exists sp'. rewrite Hh', Eents. auto. }
    destruct (if older then el else Some match el with Some x => x | None => [] end) as [x|] eqn:Ex.
    2:{ injection E as <- <-. split; [discriminate|exact Hi1]. }
    assert (Hx : valid_tok x /\ TokenProofs.nul_free x).
    { destruct older; [apply Hel, Ex|]. injection Ex as <-. destruct el as [y|]; [apply Hel; reflexivity|]. split; [exists []; split; [constructor|reflexivity]|constructor]. }
    destruct Hx as [(xcs & Hxw & ->) Hxn].
    change (ed (set_hist h' s)) with (ed s) in E.
    assert (R0 : Rep (cap (ed s)) (ed_clear (ed s)) ideal0).
    { unfold Rep, ed_clear, ideal0. cbn. repeat split; auto; try constructor; lia. }
    destruct (insert_refines _ _ _ xcs R0 Hxw) as (e2 & Ei & R2). rewrite Ei, bind_lift_some, bind_modify in E. cbn [fst] in E.
    assert (Hc2 : cap e2 = cap (ed s)) by (eapply Rep_cap; eauto).
    assert (Hi2 : CliInv (set_ed e2 (set_hist h' s))).
    { apply set_ed_inv; [exact Hi1|rewrite Hc2; eauto|eapply ed_insert_nul; [exact Ei|constructor|exact Hxn]]. }
    eapply tail_safe; [| |exact Hi2|exact E].
    - apply Same_bind; [apply Same_clear_line|intros]. apply Same_bind; [apply Same_get|intros]. apply Same_bind; [apply Same_wr|intros; apply Same_fl].
    - apply bind_NP; [apply NP_clear_line|intros]. apply bind_NP; [apply NP_get|intros]. apply bind_NP; [apply NP_wr|intros; apply NP_fl].
  Qed.
End SafetyKeys.

Section SafetyTop.
  Variable okf : nat -> bool.
  Variable feats : features.
  Variable cs : cmdset.
  Variable handler : nat -> list N -> list (list N) -> list hop.
  Hypothesis Hcs : cmdset_ok cs.

  Lemma Rep_valid cp e i : Rep cp e i -> valid_tok (text e).
  Proof. intros (_ & Ht & _ & Hw & _). exists (chars i). auto. Qed.

  Lemma on_enter_safe s r s' : CliInv s -> on_enter okf feats cs handler s = (r, s') -> r <> Panic /\ CliInv s'.
  Proof.
    intros Hi E. unfold on_enter in E. unfold bind at 1 in E. destruct (wr okf CRLF s) as [r1 s1] eqn:E1.
    destruct (tail_safe (wr okf CRLF) s r1 s1 (Same_wr okf _) (NP_wr okf _) Hi E1) as [N1 Hi1].
    destruct r1 as [[]| |]; [|injection E as <- <-; split; [discriminate|exact Hi1]|congruence].
    rewrite bind_get in E.
    pose proof Hi1 as ((i & HR) & Hnf & (sp & HH & Hvalid) & Ha).
    pose proof (Rep_valid _ _ _ HR) as Hvt.
    (* history push *)
    assert (Hp : exists s2, (if f_hist feats then mdo h <- lift_opt (hist_push (hist s1) (text (ed s1))); modify (set_hist h) else ret tt) s1 = (Ok tt, s2)
                 /\ ed s2 = ed s1 /\ ig s2 = ig s1 /\ CliInv s2).
    { destruct (f_hist feats); [|exists s1; auto].
      destruct (push_refines _ _ _ (text (ed s1)) HH) as (h' & Ep & R'). rewrite Ep, bind_lift_some. exists (set_hist h' s1). split; [reflexivity|]. split; [reflexivity|]. split; [reflexivity|].
      unfold CliInv. cbn. split; [eauto|]. split; [exact Hnf|]. split; [|exact Ha]. exists (hs_push (hcap (hist s1)) sp (text (ed s1))).
      rewrite (HRep_hcap _ _ _ R'). split; [exact R'|apply hs_push_valid; assumption]. }
    destruct Hp as (s2 & Ep & Ee2 & Eg2 & Hi2). unfold bind at 1 in E. rewrite Ep in E.
    destruct (tokens_inplace_fun (text (ed s1)) Hnf) as (buf' & raw & empty & Et & Etok). rewrite Et, bind_lift_some, bind_modify in E.
    unfold bind at 1 in E. unfold catch in E.
    set (s3 := set_ed {| cap := cap (ed s1); text := buf'; cursor := cursor (ed s1) |} s2) in *.
    destruct (process_input okf feats cs handler raw empty s3) as [r4 s4] eqn:E4.
    assert (Hvtok : Forall valid_tok (tokens_iter raw empty)) by (rewrite Etok; apply tokens_fun_valid, Hvt).
    destruct (NP_process_input okf feats cs handler raw empty Hvtok s3 r4 s4 E4) as (O4 & _ & N4).
    destruct (Same_process_input okf feats cs handler raw empty _ _ _ E4) as (c1 & c2 & c3).
    rewrite bind_modify in E.
    set (s5 := set_ed (ed_clear (ed s4)) s4) in *.
    assert (Hi5 : CliInv s5).
    { pose proof Hi2 as (_ & _ & H3 & H4). unfold CliInv, s5. cbn [ed ig hist set_ed]. rewrite c2, c3. unfold s3. cbn [ig hist set_ed].
      split; [exists ideal0; unfold Rep, ed_clear, ideal0; cbn; repeat split; auto; try constructor; lia|]. split; [constructor|]. auto. }
    eapply tail_safe; [| |exact Hi5|exact E].
    - apply Same_bind; [apply Same_reraise|intros]. apply Same_bind; [apply Same_get|intros]. apply Same_bind; [apply Same_wr|intros; apply Same_fl].
    - apply bind_NP; [apply NP_reraise, N4|intros]. apply bind_NP; [apply NP_get|intros]. apply bind_NP; [apply NP_wr|intros; apply NP_fl].
  Qed.

  Lemma on_control_safe c s r s' : CliInv s -> on_control okf feats cs handler c s = (r, s') -> r <> Panic /\ CliInv s'.
  Proof.
    destruct c; cbn [on_control].
    - apply on_backspace_safe. - apply navigate_history_safe. - apply on_enter_safe. - apply navigate_input_safe.
    - apply navigate_input_safe. - apply on_tab_safe, Hcs. - apply navigate_history_safe.
  Qed.

  Theorem process_byte_safe b s r s' : byte b -> CliInv s -> api_process_byte okf feats cs handler b s = (r, s') -> r <> Panic /\ CliInv s'.
  Proof.
    intros Hb Hi E. unfold api_process_byte in E. rewrite bind_get in E. destruct (accept (ig s) b) as [g' oi] eqn:Ea.
    rewrite bind_modify in E. pose proof Hi as (H1 & H2 & H3 & H4).
    destruct (accept_inv (ig s) b Hb H4) as [Hg' _]. rewrite Ea in Hg'. cbn [fst] in Hg'.
    assert (Hi' : CliInv (set_ig g' s)) by (unfold CliInv; cbn; auto).
    destruct oi as [[c|t]|].
    - eapply on_control_safe; eauto.
    - destruct (accept_typed (ig s) b t Hb H4) as [Hw Hn]; [rewrite Ea; reflexivity|]. eapply on_text_safe; eauto.
    - injection E as <- <-. split; [discriminate|exact Hi'].
  Qed.

  Theorem write_safe hs s r s' : CliInv s -> api_write okf hs s = (r, s') -> r <> Panic /\ CliInv s'.
  Proof. intros Hi E. eapply tail_safe; [apply Same_api_write|apply NP_api_write|exact Hi|exact E]. Qed.
  Theorem set_prompt_safe p s r s' : CliInv s -> api_set_prompt okf p s = (r, s') -> r <> Panic /\ CliInv s'.
  Proof. intros Hi E. eapply tail_safe; [apply Same_api_set_prompt|apply NP_api_set_prompt|exact Hi|exact E]. Qed.

  (* ---------- every API call sequence *)
  Inductive apicall := AByte (b : N) | AWrite (hs : list hop) | ASetPrompt (p : list N).
  Definition call_ok (c : apicall) : Prop := match c with AByte b => byte b | _ => True end.
  Definition api_step (c : apicall) : M cli unit :=
    match c with
    | AByte b => api_process_byte okf feats cs handler b
    | AWrite hs => api_write okf hs
    | ASetPrompt p => api_set_prompt okf p
    end.
  (* the application keeps calling whatever the results were *)
  Fixpoint api_run (s : cli) (calls : list apicall) : cli * list (res unit) :=
    match calls with
    | [] => (s, [])
    | c :: r => let '(x, s1) := api_step c s in let '(s2, xs) := api_run s1 r in (s2, x :: xs)
    end.

  Theorem api_run_safe : forall calls s, Forall call_ok calls -> CliInv s ->
    Forall (fun x => x <> Panic) (snd (api_run s calls)) /\ CliInv (fst (api_run s calls)).
  Proof.
    induction calls as [|c calls IH]; intros s Hc Hi; cbn [api_run]; [split; [constructor|exact Hi]|].
    inversion Hc as [|? ? Hc1 Hcr]; subst. destruct (api_step c s) as [x s1] eqn:E.
    assert (Hs : x <> Panic /\ CliInv s1).
    { destruct c as [b|hs|p]; cbn [api_step call_ok] in *; [eapply process_byte_safe|eapply write_safe|eapply set_prompt_safe]; eauto. }
    destruct Hs as [Hx Hi1]. destruct (IH s1 Hcr Hi1) as [I1 I2]. destruct (api_run s1 calls) as [s2 xs]. cbn [fst snd] in *. split; [constructor; assumption|exact I2].
  Qed.
End SafetyTop.

(* ---------- C02 at the Cli level: what the invariant says about text handed out *)
Lemma CliInv_text_valid s : CliInv s -> valid_tok (text (ed s)).
Proof. intros ((i & HR) & _). eapply Rep_valid; eauto. Qed.
Lemma CliInv_history_valid s : CliInv s -> exists sp, hbuf (hist s) = enc (ents sp) /\ Forall valid_tok (ents sp).
Proof. intros (_ & _ & (sp & (_ & Hb & _) & Hv) & _). eauto. Qed.

(* classified arguments of valid tokens carry valid strings / scalar values *)
Definition arg_valid (a : arg) : Prop :=
  match a with
  | DoubleDash => True
  | LongOption n => valid_tok n
  | ShortOption c => scalar c
  | Value v => valid_tok v
  end.
Lemma valid_skip_ascii b r : b < 0x80 -> valid_tok (b :: r) -> valid_tok r.
Proof.
  intros Hb (cs & Hw & E). destruct cs as [|c cs]; [discriminate|]. inversion Hw as [|? ? Hc Hcs]; subst.
  destruct c as [|x [|y c']]; cbn [wf_char] in Hc; try contradiction.
  - cbn in E. injection E as <- ->. exists cs. auto.
  - cbn in E. injection E as <- _. exfalso. destruct c' as [|z [|w [|v t]]]; cbn in Hc; unfold cont in *; try contradiction; lia.
Qed.
Lemma classify_tok_valid vo t : valid_tok t -> Forall arg_valid (fst (classify_tok vo t)).
Proof.
  intros Hv. unfold classify_tok. destruct vo; [repeat constructor; exact Hv|].
  destruct t as [|b0 [|b1 r]]; try (repeat constructor; exact Hv).
  destruct (b0 =? 45) eqn:E0; [|repeat constructor; exact Hv]. apply N.eqb_eq in E0. subst.
  destruct (b1 =? 45) eqn:E1.
  - apply N.eqb_eq in E1. subst. destruct r; repeat constructor. cbn. apply (valid_skip_ascii 45); [lia|]. apply (valid_skip_ascii 45); [lia|exact Hv].
  - destruct (valid_dash_tail _ Hv) as (cs & Hcs & Ecs). rewrite Ecs, chars_of_concat by exact Hcs. cbn [fst].
    apply Forall_forall. intros a Ha. apply in_map_iff in Ha as (c & <- & Hc). cbn. apply decode_scalar. rewrite Forall_forall in Hcs. apply Hcs, Hc.
Qed.
Lemma classify_all_valid : forall ts vo, Forall valid_tok ts -> Forall arg_valid (classify_all vo ts).
Proof.
  induction ts as [|t ts IH]; intros vo H; [constructor|]. inversion H; subst. cbn [classify_all].
  pose proof (classify_tok_valid vo t H2) as H1. destruct (classify_tok vo t) as [items vo']. cbn [fst] in H1. apply Forall_app_intro; [exact H1|apply IH; assumption].
Qed.
