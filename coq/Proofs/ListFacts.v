From EC Require Import Base.

Lemma Forall_firstn {A} (P : A -> Prop) : forall k l, Forall P l -> Forall P (firstn k l).
Proof. induction k as [|k IH]; intros [|x l] H; cbn; try constructor; inversion H; subst; auto. Qed.
Lemma Forall_skipn {A} (P : A -> Prop) : forall k l, Forall P l -> Forall P (skipn k l).
Proof. induction k as [|k IH]; intros [|x l] H; cbn; try constructor; try assumption; inversion H; subst; auto. Qed.
Lemma Forall_app_intro {A} (P : A -> Prop) l1 l2 : Forall P l1 -> Forall P l2 -> Forall P (l1 ++ l2).
Proof. intros. apply Forall_app. split; assumption. Qed.

Lemma concat_firstn_skipn {A} (l : list (list A)) k : concat l = concat (firstn k l) ++ concat (skipn k l).
Proof. rewrite <- concat_app, firstn_skipn. reflexivity. Qed.
Lemma firstn_concat_len {A} (l : list (list A)) k : firstn (length (concat (firstn k l))) (concat l) = concat (firstn k l).
Proof. replace (concat l) with (concat (firstn k l) ++ concat (skipn k l)) by (symmetry; apply concat_firstn_skipn).
  rewrite firstn_app, Nat.sub_diag, firstn_all. cbn. apply app_nil_r. Qed.
Lemma skipn_concat_len {A} (l : list (list A)) k : skipn (length (concat (firstn k l))) (concat l) = concat (skipn k l).
Proof. replace (concat l) with (concat (firstn k l) ++ concat (skipn k l)) by (symmetry; apply concat_firstn_skipn).
  rewrite skipn_app, Nat.sub_diag, skipn_all. reflexivity. Qed.
Lemma length_concat_firstn_le {A} (l : list (list A)) k : (length (concat (firstn k l)) <= length (concat l))%nat.
Proof. replace (concat l) with (concat (firstn k l) ++ concat (skipn k l)) by (symmetry; apply concat_firstn_skipn).
  rewrite app_length. lia. Qed.
Lemma skipn_skipn {A} : forall (y x : nat) (l : list A), skipn x (skipn y l) = skipn (y + x) l.
Proof. induction y as [|y IH]; intros x [|a l]; cbn [skipn plus]; try reflexivity; [destruct x; reflexivity|apply IH]. Qed.
Lemma firstn_S_nth {A} : forall (l : list A) i x, nth_error l i = Some x -> firstn (S i) l = firstn i l ++ [x].
Proof.
  induction l as [|a l IH]; intros [|i] x H; cbn in H; try discriminate.
  - injection H as ->. reflexivity.
  - change (firstn (S (S i)) (a :: l)) with (a :: firstn (S i) l). rewrite (IH i x H). reflexivity.
Qed.
Lemma NoDup_skipn {A} : forall m (l : list A), NoDup l -> NoDup (skipn m l).
Proof. induction m as [|m IH]; intros [|a l] H; cbn; auto. inversion H; subst. apply IH. assumption. Qed.
Lemma In_skipn {A} (l : list A) m x : In x (skipn m l) -> In x l.
Proof. intros H. rewrite <- (firstn_skipn m l). apply in_or_app. right. exact H. Qed.
Lemma NoDup_app_intro_one {A} (l : list A) x : NoDup l -> ~ In x l -> NoDup (l ++ [x]).
Proof.
  induction 1 as [|a l Hni Hnd IH]; intros Hx; cbn; [constructor; [auto|constructor]|].
  constructor.
  - intros Hi. apply in_app_or in Hi as [Hi|[->|[]]]; [auto|]. apply Hx. left. reflexivity.
  - apply IH. intros Hi. apply Hx. right. exact Hi.
Qed.
