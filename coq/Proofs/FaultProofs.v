(* C14 (1): a call returns Err if and only if a sink call made during it failed - for every sink behaviour.
   The sink log records failed attempts as SXW / SXF. *)
From EC Require Import Base Generated.Codes Model.Utf8 Model.Utils Model.Input Model.Editor Model.Token Model.Args Model.History
  Model.Sink Model.Writer Model.Cli Proofs.FlushProofs.

Definition isX (o : sinkop) : bool := match o with SXW | SXF => true | _ => false end.
Definition failed (O : list sinkop) : bool := existsb isX O.
Lemma failed_app a b : failed (a ++ b) = failed a || failed b.
Proof. apply existsb_app. Qed.

(* result and log agree: Ok -> nothing failed, Err -> something failed *)
Definition Ep {A} (r : res A) (O : list sinkop) : Prop :=
  match r with Ok _ => failed O = false | Err => failed O = true | Panic => True end.
(* silent and never Err *)
Definition Np {A} (r : res A) (O : list sinkop) : Prop := O = [] /\ r <> Err.

Lemma N_E {A} (f : M cli A) : Spec f Np -> Spec f Ep.
Proof. apply Spec_weaken. intros r O [-> H]. destruct r; cbn; auto; congruence. Qed.

Lemma bind_EE {A B} (m : M cli A) (f : A -> M cli B) : Spec m Ep -> (forall a, Spec (f a) Ep) -> Spec (bind m f) Ep.
Proof.
  intros. eapply Spec_bind; eauto; unfold Ep; intros; auto.
  rewrite failed_app, H1. destruct r; cbn; auto.
Qed.
Lemma bind_NN {A B} (m : M cli A) (f : A -> M cli B) : Spec m Np -> (forall a, Spec (f a) Np) -> Spec (bind m f) Np.
Proof. intros. eapply Spec_bind; eauto; unfold Np; intros; try tauto.
  - destruct H1 as [-> _], H2 as [-> ?]. auto.
  - destruct H1 as [-> _]. split; [reflexivity|discriminate].
Qed.

Lemma N_ret {A} (a : A) : Spec (ret a) Np.
Proof. intros s r s' E. injection E as <- <-. exists []. rewrite app_nil_r. repeat split; congruence. Qed.
Lemma N_get : Spec get Np.
Proof. intros s r s' E. injection E as <- <-. exists []. rewrite app_nil_r. repeat split; congruence. Qed.
Lemma N_lift_opt {A} (o : option A) : Spec (lift_opt o) Np.
Proof. destruct o; [apply N_ret|]. intros s r s' E. injection E as <- <-. exists []. rewrite app_nil_r. repeat split; congruence. Qed.
Lemma N_modify (f : cli -> cli) : (forall s, sk (f s) = sk s) -> Spec (modify f) Np.
Proof. intros H s r s' E. injection E as <- <-. exists []. rewrite H, app_nil_r. repeat split; congruence. Qed.

Section CliFault.
  Variable okf : nat -> bool.
  Variable feats : features.
  Variable cs : cmdset.
  Variable handler : nat -> list N -> list (list N) -> list hop.
  Ltac nmod := apply N_modify; intros; reflexivity.

  Lemma E_wr bs : Spec (wr okf bs) Ep.
  Proof.
    intros s r s' E. unfold wr, sk_write in E. destruct bs as [|b bs].
    - injection E as <- <-. exists []. destruct s; cbn. rewrite app_nil_r. split; reflexivity.
    - destruct (okf (calls (sk s))); injection E as <- <-; eexists; (split; [unfold set_sk; cbn; reflexivity|reflexivity]).
  Qed.
  Lemma E_fl : Spec (fl okf) Ep.
  Proof. intros s r s' E. unfold fl, sk_flush in E. destruct (okf (calls (sk s))); injection E as <- <-; eexists; (split; [unfold set_sk; cbn; reflexivity|reflexivity]). Qed.
  Lemma E_flush_bytes bs : Spec (flush_bytes okf bs) Ep.
  Proof. unfold flush_bytes. apply bind_EE; [apply E_wr|intros; apply E_fl]. Qed.

  Lemma E_w_lines ls : Spec (w_lines (wr okf) set_wst ls) Ep.
  Proof. induction ls as [|l ls IH]; cbn [w_lines]; [apply N_E, N_ret|].
    apply bind_EE; [apply E_wr|intros]. apply bind_EE; [apply E_wr|intros]. apply bind_EE; [apply N_E; unfold w_set; nmod|intros; exact IH]. Qed.
  Lemma E_w_write_str t : Spec (w_write_str (wr okf) wst set_wst t) Ep.
  Proof. unfold w_write_str. destruct (split_lf [] t) as [ls rest]. apply bind_EE; [apply E_w_lines|intros].
    destruct rest; [apply N_E, N_ret|]. apply bind_EE; [apply E_wr|intros]. apply bind_EE; [apply N_E, N_get|intros]. apply N_E. unfold w_set. nmod. Qed.
  Lemma E_w_writeln_str t : Spec (w_writeln_str (wr okf) wst set_wst t) Ep.
  Proof. unfold w_writeln_str. apply bind_EE; [apply E_w_write_str|intros]. apply bind_EE; [apply E_wr|intros].
    apply bind_EE; [apply N_E, N_get|intros]. apply N_E. unfold w_set. nmod. Qed.
  Lemma E_run_hops hs : Spec (run_hops okf hs) Ep.
  Proof. induction hs as [|h hs IH]; cbn [run_hops]; [apply N_E, N_ret|]. destruct h.
    - apply bind_EE; [apply E_w_write_str|intros; exact IH].
    - apply bind_EE; [apply E_w_writeln_str|intros; exact IH].
    - apply bind_EE; [apply N_E; nmod|intros; exact IH]. Qed.
  Lemma E_mrepeat n (m : M cli unit) : Spec m Ep -> Spec (mrepeat n m) Ep.
  Proof. intros H. induction n as [|n IH]; cbn [mrepeat]; [apply N_E, N_ret|]. apply bind_EE; [exact H|intros; exact IH]. Qed.

  Lemma E_clear_line b : Spec (clear_line okf b) Ep.
  Proof. unfold clear_line. apply bind_EE; [apply E_wr|intros]. apply bind_EE; [apply E_wr|intros].
    apply bind_EE; [|intros; apply E_fl]. destruct b; [apply N_E, N_ret|]. apply bind_EE; [apply N_E, N_get|intros; apply E_wr]. Qed.
  Lemma E_redraw_line : Spec (redraw_line okf) Ep.
  Proof. unfold redraw_line. apply bind_EE; [apply N_E, N_get|intros]. apply bind_EE; [apply E_wr|intros].
    apply bind_EE; [apply E_mrepeat, E_wr|intros; apply E_fl]. Qed.

  Theorem E_api_build : Spec (api_build okf) Ep.
  Proof. unfold api_build. apply bind_EE; [apply N_E, N_get|intros]. apply bind_EE; [apply E_wr|intros; apply E_fl]. Qed.
  Theorem E_api_set_prompt p : Spec (api_set_prompt okf p) Ep.
  Proof. unfold api_set_prompt. apply bind_EE; [apply N_E; nmod|intros]. apply bind_EE; [apply E_clear_line|intros; apply E_redraw_line]. Qed.
  Theorem E_api_write hs : Spec (api_write okf hs) Ep.
  Proof. unfold api_write. apply bind_EE; [apply E_clear_line|intros]. apply bind_EE; [unfold new_writer; apply N_E; nmod|intros].
    apply bind_EE; [apply E_run_hops|intros]. apply bind_EE; [apply N_E, N_get|intros].
    apply bind_EE; [destruct (is_dirty (wst a2)); [apply E_wr|apply N_E, N_ret]|intros]. apply bind_EE; [apply E_wr|intros; apply E_redraw_line]. Qed.

  Lemma E_on_text t : Spec (on_text okf t) Ep.
  Proof. unfold on_text. apply bind_EE; [apply N_E, N_get|intros s0]. apply bind_EE; [apply N_E, N_lift_opt|intros [e' [|]]]; [|apply N_E, N_ret].
    apply bind_EE; [apply N_E; nmod|intros]. apply bind_EE; [destruct (Nat.ltb _ _); [apply E_wr|apply N_E, N_ret]|intros].
    apply bind_EE; [apply E_wr|intros; apply E_fl]. Qed.
  Lemma E_process_error e : Spec (process_error okf e) Ep.
  Proof. unfold process_error. apply bind_EE; [apply E_wr|intros]. apply bind_EE; [|intros; apply bind_EE; [apply E_wr|intros; apply E_fl]].
    destruct e; repeat (apply bind_EE; [apply E_wr|intros]); apply E_wr. Qed.

  (* catch m ; ... ; reraise : the places where the code goes on after an error.
     Kp r0: the continuation either fails itself (Err, something failed) or finishes without failure and re-raises r0 *)
  Definition Kp {A} (r0 : res A) (r : res A) (O : list sinkop) : Prop :=
    (failed O = false /\ r = r0) \/ (failed O = true /\ r = Err) \/ r = Panic.
  Lemma K_reraise {A} (r0 : res A) : Spec (reraise r0) (Kp r0).
  Proof. intros s r s' E. injection E as <- <-. exists []. rewrite app_nil_r. split; [reflexivity|]. left. split; reflexivity. Qed.
  (* ... and what may follow the re-raise when nothing failed: it runs only if r0 is Ok *)
  Lemma K_reraise_then (r0 : res unit) (tail : M cli unit) : Spec tail Ep -> Spec (reraise r0 ;; tail) (Kp r0).
  Proof.
    intros St s r s' E. unfold bind, reraise in E. destruct r0 as [[]| |].
    - destruct (St s r s' E) as (O & H & HE). exists O. split; [exact H|]. unfold Kp. destruct r as [[]| |]; cbn [Ep] in HE; auto.
    - injection E as <- <-. exists []. rewrite app_nil_r. split; [reflexivity|]. left. split; reflexivity.
    - injection E as <- <-. exists []. rewrite app_nil_r. split; [reflexivity|]. left. split; reflexivity.
  Qed.
  Lemma bind_EK {A B} (m : M cli A) (f : A -> M cli B) (r0 : res B) : Spec m Ep -> (forall a, Spec (f a) (Kp r0)) -> Spec (bind m f) (Kp r0).
  Proof.
    intros. eapply Spec_bind; eauto; unfold Ep, Kp; intros.
    - rewrite failed_app, H1. cbn. exact H2.
    - right. left. auto.
    - right. right. reflexivity.
  Qed.
  Lemma E_catch_K {A B} (m : M cli A) (k : res A -> M cli B) (conv : res A -> res B) :
    (forall a, exists b, conv (Ok a) = Ok b) -> conv Err = Err -> conv Panic = Panic ->
    Spec m Ep -> (forall r0, Spec (k r0) (Kp (conv r0))) -> Spec (bind (catch m) k) Ep.
  Proof.
    intros Hok Herr Hpan Sm Sk s r s' E. unfold bind, catch in E. destruct (m s) as [r1 s1] eqn:Em.
    destruct (Sm s r1 s1 Em) as (O1 & H1 & E1). destruct (Sk r1 s1 r s' E) as (O2 & H2 & K2).
    exists (O1 ++ O2). split; [rewrite H2, H1, app_assoc; reflexivity|].
    destruct K2 as [[F ->]|[[F ->]| ->]].
    - destruct r1 as [a| |]; cbn [Ep] in *.
      + destruct (Hok a) as [b ->]. cbn. rewrite failed_app, E1, F. reflexivity.
      + rewrite Herr. cbn. rewrite failed_app, E1. reflexivity.
      + rewrite Hpan. exact I.
    - cbn. rewrite failed_app, F, orb_true_r. reflexivity.
    - exact I.
  Qed.

  Lemma E_process_command name args : Spec (process_command okf cs handler name args) Ep.
  Proof. unfold process_command. destruct (cs_parse cs name args).
    - apply bind_EE; [apply E_fl|intros; apply E_process_error].
    - apply bind_EE; [apply N_E, N_get|intros s0]. apply bind_EE; [apply N_E; nmod|intros]. apply bind_EE; [unfold new_writer; apply N_E; nmod|intros].
      apply (E_catch_K _ _ (fun r => r)); [eauto|reflexivity|reflexivity|apply E_run_hops|intros r0].
      apply bind_EK; [apply N_E, N_get|intros s1]. apply bind_EK; [destruct (newp s1); [apply N_E; nmod|apply N_E, N_ret]|intros].
      apply bind_EK; [destruct (is_dirty (wst s1)); [apply E_wr|apply N_E, N_ret]|intros]. apply bind_EK; [apply E_fl|intros].
      apply K_reraise_then. destruct (cs_fail cs _ name args); [apply E_process_error|apply N_E, N_ret]. Qed.
  Lemma E_process_help req : Spec (process_help okf cs req) Ep.
  Proof. unfold process_help. apply bind_EE; [unfold new_writer; apply N_E; nmod|intros]. apply bind_EE; [apply E_run_hops|intros].
    apply bind_EE; [apply N_E, N_get|intros s1]. apply bind_EE; [destruct (is_dirty (wst s1)); [apply E_wr|apply N_E, N_ret]|intros; apply E_fl]. Qed.
  Lemma E_process_input raw empty : Spec (process_input okf feats cs handler raw empty) Ep.
  Proof. unfold process_input. destruct (from_tokens (tokens_iter raw empty)) as [[name args]|]; [|apply N_E, N_ret].
    destruct (f_help feats); [|apply E_process_command].
    apply bind_EE; [apply N_E, N_lift_opt|intros [req|]]; [apply E_process_help|apply E_process_command]. Qed.

  Lemma E_on_enter : Spec (on_enter okf feats cs handler) Ep.
  Proof. unfold on_enter. apply bind_EE; [apply E_wr|intros]. apply bind_EE; [apply N_E, N_get|intros s0].
    apply bind_EE; [destruct (f_hist feats); [apply N_E; apply bind_NN; [apply N_lift_opt|intros; nmod]|apply N_E, N_ret]|intros].
    apply bind_EE; [apply N_E, N_lift_opt|intros [[buf' raw] empty]].
    apply bind_EE; [apply N_E; nmod|intros].
    apply (E_catch_K _ _ (fun r => r)); [eauto|reflexivity|reflexivity|apply E_process_input|intros r0].
    apply bind_EK; [apply N_E; nmod|intros].
    (* reraise r0 ;; prompt ;; flush *)
    intros s r s' E. unfold bind, reraise in E. destruct r0 as [[]| |].
    + assert (Sp' : Spec (mdo s2 <- get; wr okf (prompt s2);; fl okf) Ep).
      { apply bind_EE; [apply N_E, N_get|intros]. apply bind_EE; [apply E_wr|intros; apply E_fl]. }
      destruct (Sp' s r s' E) as (O & H1 & H2). exists O. split; [exact H1|]. destruct r as [[]| |]; cbn [Ep] in H2; [left|right; left|right; right]; auto.
    + injection E as <- <-. exists []. rewrite app_nil_r. split; [reflexivity|]. left. auto.
    + injection E as <- <-. exists []. rewrite app_nil_r. split; [reflexivity|]. left. auto.
  Qed.

  Lemma E_on_tab : Spec (on_tab okf feats cs) Ep.
  Proof. unfold on_tab. destruct (f_ac feats); [|apply N_E, N_ret].
    apply bind_EE; [apply N_E, N_get|intros s0]. apply bind_EE; [apply N_E, N_lift_opt|intros e']. apply bind_EE; [apply N_E; nmod|intros].
    destruct (Nat.ltb _ _); [apply bind_EE; [apply E_wr|intros; apply E_fl]|apply N_E, N_ret]. Qed.
  Lemma E_on_backspace : Spec (on_backspace okf) Ep.
  Proof. unfold on_backspace. apply bind_EE; [apply N_E, N_get|intros s0].
    destruct (ed_move_left (ed s0)) as [e1 [|]]; [|apply N_E, N_ret].
    apply bind_EE; [apply N_E, N_lift_opt|intros e2]. apply bind_EE; [apply N_E; nmod|intros].
    apply bind_EE; [apply E_flush_bytes|intros; apply E_flush_bytes]. Qed.
  Lemma E_navigate_history older : Spec (navigate_history okf feats older) Ep.
  Proof. unfold navigate_history. destruct (f_hist feats); [|apply N_E, N_ret].
    apply bind_EE; [apply N_E, N_get|intros s0]. apply bind_EE; [apply N_E, N_lift_opt|intros [h' el]]. apply bind_EE; [apply N_E; nmod|intros].
    destruct (if older then el else Some match el with Some x => x | None => [] end) as [x|]; [|apply N_E, N_ret].
    apply bind_EE; [apply N_E, N_lift_opt|intros r2]. apply bind_EE; [apply N_E; nmod|intros].
    apply bind_EE; [apply E_clear_line|intros]. apply bind_EE; [apply N_E, N_get|intros]. apply bind_EE; [apply E_wr|intros; apply E_fl]. Qed.
  Lemma E_navigate_input fwd : Spec (navigate_input okf fwd) Ep.
  Proof. unfold navigate_input. apply bind_EE; [apply N_E, N_get|intros s0].
    destruct (if fwd then ed_move_right (ed s0) else ed_move_left (ed s0)) as [e' [|]]; [|apply N_E, N_ret].
    apply bind_EE; [apply N_E; nmod|intros]. apply E_flush_bytes. Qed.
  Lemma E_on_control c : Spec (on_control okf feats cs handler c) Ep.
  Proof. destruct c; cbn [on_control]; [apply E_on_backspace|apply E_navigate_history|apply E_on_enter|apply E_navigate_input|apply E_navigate_input|apply E_on_tab|apply E_navigate_history]. Qed.
  Theorem E_api_process_byte b : Spec (api_process_byte okf feats cs handler b) Ep.
  Proof. unfold api_process_byte. apply bind_EE; [apply N_E, N_get|intros s0]. destruct (accept (ig s0) b) as [g' oi].
    apply bind_EE; [apply N_E; nmod|intros]. destruct oi as [[c|t]|]; [apply E_on_control|apply E_on_text|apply N_E, N_ret]. Qed.
End CliFault.
