(* C16: what disabling a feature does - and does not do. *)
From EC Require Import Base Generated.Codes Model.Utf8 Model.Utils Model.Input Model.Editor Model.Token Model.Args Model.History
  Model.Sink Model.Writer Model.Cli Spec.IdealEditor Spec.HistSpec Spec.QuoteSpec Spec.Session Proofs.ClassProofs.

Section Features.
  Variable okf : nat -> bool.
  Variable cs : cmdset.
  Variable handler : nat -> list N -> list (list N) -> list hop.

  (* history off: Up and Down do nothing at all - no state change, no output, Ok *)
  Lemma hist_off_updown feats older s : f_hist feats = false -> navigate_history okf feats older s = (Ok tt, s).
  Proof. intros H. unfold navigate_history. rewrite H. reflexivity. Qed.
  (* autocomplete off: Tab does nothing at all *)
  Lemma ac_off_tab feats s : f_ac feats = false -> on_tab okf feats cs s = (Ok tt, s).
  Proof. intros H. unfold on_tab. rewrite H. reflexivity. Qed.
  (* help off: every non-empty line goes to the command processor, help-shaped or not *)
  Lemma help_off_input feats raw empty : f_help feats = false ->
    process_input okf feats cs handler raw empty =
    match from_tokens (tokens_iter raw empty) with None => ret tt | Some (name, args) => process_command okf cs handler name args end.
  Proof. intros H. unfold process_input. rewrite H. destruct (from_tokens _) as [[n a]|]; reflexivity. Qed.

  (* history off: Enter records nothing *)
  Lemma hist_off_enter feats s r s' : f_hist feats = false -> on_enter okf feats cs handler s = (r, s') -> hist s' = hist s.
  Proof.
    intros Hf E. unfold on_enter in E. rewrite Hf in E. unfold bind at 1 in E. destruct (wr okf CRLF s) as [r1 s1] eqn:E1.
    destruct (Same_wr okf _ _ _ _ E1) as (_ & _ & a3).
    destruct r1 as [[]| |]; [|injection E as <- <-; exact a3|injection E as <- <-; exact a3].
    rewrite bind_get, bind_ret in E.
    destruct (tokens_new (text (ed s1))) as [[[buf' raw] empty]|]; [|rewrite bind_lift_none in E; injection E as <- <-; exact a3].
    rewrite bind_lift_some, bind_modify in E. unfold bind at 1 in E. unfold catch in E.
    destruct (process_input okf feats cs handler raw empty _) as [r3 s3] eqn:E3.
    destruct (Same_process_input okf feats cs handler raw empty _ _ _ E3) as (_ & _ & c3).
    rewrite bind_modify in E.
    assert (T : Same (reraise r3;; (mdo s4 <- get; wr okf (prompt s4);; fl okf))).
    { apply Same_bind; [apply Same_reraise|intros]. apply Same_bind; [apply Same_get|intros]. apply Same_bind; [apply Same_wr|intros; apply Same_fl]. }
    destruct (T _ _ _ E) as (_ & _ & d3). cbn [hist set_ed] in *. congruence.
  Qed.
End Features.

(* ---------- equivalence off the facility, at the level of the abstract session (which the Cli refines for every feature set) *)
Definition uses_history (ev : input) : bool := match ev with Ctl Up | Ctl Down => true | _ => false end.
Definition uses_tab (ev : input) : bool := match ev with Ctl Tab => true | _ => false end.

(* same line, prompt and call count; histories may differ *)
Definition same_but_hist (a b : astate) : Prop := aline a = aline b /\ aprompt a = aprompt b /\ acalls a = acalls b.

Lemma dispatch_indep f1 f2 cs a b : f_help f1 = f_help f2 -> aline a = aline b -> dispatch f1 cs a = dispatch f2 cs b.
Proof. intros Hh Hl. unfold dispatch. rewrite Hh, Hl. reflexivity. Qed.

Lemma astep_equiv f1 f2 cs handler cap hc a b ev :
  f_help f1 = f_help f2 ->
  (f_hist f1 <> f_hist f2 -> uses_history ev = false) -> (f_ac f1 <> f_ac f2 -> uses_tab ev = false) ->
  (f_hist f1 = f_hist f2 -> ahist a = ahist b) ->
  same_but_hist a b ->
  same_but_hist (fst (astep f1 cs handler cap hc a ev)) (fst (astep f2 cs handler cap hc b ev)) /\
  snd (astep f1 cs handler cap hc a ev) = snd (astep f2 cs handler cap hc b ev) /\
  (f_hist f1 = f_hist f2 -> ahist (fst (astep f1 cs handler cap hc a ev)) = ahist (fst (astep f2 cs handler cap hc b ev))).
Proof.
  intros Hh Hhist Hac Heq (Hl & Hp & Hc). unfold same_but_hist.
  destruct ev as [c|t]; [destruct c|]; cbn [astep uses_history uses_tab] in *.
  - rewrite Hl. destruct (ideal_step cap (aline b) ILeft) as [l1 [|]]; cbn; auto.
  - destruct (Bool.bool_dec (f_hist f1) (f_hist f2)) as [E|E]; [|specialize (Hhist E); discriminate].
    rewrite <- E, (Heq E). destruct (f_hist f1); [|cbn; auto]. destruct (hs_newer (ahist b)) as [h' el]. cbn. auto.
  - rewrite (dispatch_indep f1 f2 cs a b Hh Hl), Hp, Hc. cbn [fst snd aline aprompt acalls ahist]. split; [auto|]. split; [reflexivity|].
    intros E. rewrite E, (Heq E), Hl. reflexivity.
  - rewrite Hl. cbn. auto.
  - rewrite Hl. cbn. auto.
  - destruct (Bool.bool_dec (f_ac f1) (f_ac f2)) as [E|E]; [|specialize (Hac E); discriminate].
    rewrite <- E, Hl. destruct (f_ac f1); [|cbn; auto]. destruct (CompletionSpec.complete_spec _ _ _ _). cbn. auto.
  - destruct (Bool.bool_dec (f_hist f1) (f_hist f2)) as [E|E]; [|specialize (Hhist E); discriminate].
    rewrite <- E, (Heq E). destruct (f_hist f1); [|cbn; auto]. destruct (hs_older (ahist b)) as [h' [x|]]; cbn; auto.
  - rewrite Hl. cbn. auto.
Qed.

Section ArunEquiv.
  Variable cs : cmdset.
  Variable handler : nat -> list N -> list (list N) -> list hop.
  Variables cap hc : nat.
  Fixpoint arun' (f : features) (a : astate) (evs : list input) : astate * list (list N * list (list N)) :=
    match evs with
    | [] => (a, [])
    | ev :: r => let '(a1, c1) := astep f cs handler cap hc a ev in let '(a2, c2) := arun' f a1 r in (a2, c1 ++ c2)
    end.

  Theorem arun_equiv f1 f2 : f_help f1 = f_help f2 -> forall evs a b,
    (f_hist f1 <> f_hist f2 -> forallb (fun ev => negb (uses_history ev)) evs = true) ->
    (f_ac f1 <> f_ac f2 -> forallb (fun ev => negb (uses_tab ev)) evs = true) ->
    (f_hist f1 = f_hist f2 -> ahist a = ahist b) -> same_but_hist a b ->
    same_but_hist (fst (arun' f1 a evs)) (fst (arun' f2 b evs)) /\ snd (arun' f1 a evs) = snd (arun' f2 b evs).
  Proof.
    intros Hh. induction evs as [|ev evs IH]; intros a b H1 H2 Heq Hs; cbn [arun']; [auto|].
    assert (U1 : f_hist f1 <> f_hist f2 -> uses_history ev = false /\ forallb (fun ev => negb (uses_history ev)) evs = true).
    { intros E. specialize (H1 E). cbn in H1. apply andb_true_iff in H1 as [X Y]. apply negb_true_iff in X. auto. }
    assert (U2 : f_ac f1 <> f_ac f2 -> uses_tab ev = false /\ forallb (fun ev => negb (uses_tab ev)) evs = true).
    { intros E. specialize (H2 E). cbn in H2. apply andb_true_iff in H2 as [X Y]. apply negb_true_iff in X. auto. }
    destruct (astep_equiv f1 f2 cs handler cap hc a b ev Hh (fun E => proj1 (U1 E)) (fun E => proj1 (U2 E)) Heq Hs) as (S1 & C1 & Q1).
    destruct (astep f1 cs handler cap hc a ev) as [a1 c1]. destruct (astep f2 cs handler cap hc b ev) as [b1 d1]. cbn [fst snd] in *.
    destruct (IH a1 b1 (fun E => proj2 (U1 E)) (fun E => proj2 (U2 E)) Q1 S1) as (S2 & C2).
    destruct (arun' f1 a1 evs) as [a2 c2]. destruct (arun' f2 b1 evs) as [b2 d2]. cbn [fst snd] in *. split; [exact S2|]. rewrite C1, C2. reflexivity.
  Qed.
End ArunEquiv.
