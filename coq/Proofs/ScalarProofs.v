(* C17, end to end: what holds for EVERY scalar value when it travels through the pipeline as a word of the command line
   (command name or argument), as a short-option character, and through the history. Corollaries of C07 / C08 / C10 / C17. *)
From EC Require Import Base Model.Utils Model.Args Spec.Utf8Spec Spec.QuoteSpec Spec.ArgSpec Spec.HistSpec
  Proofs.Utf8Proofs Proofs.UtilsProofs Proofs.TokenProofs Proofs.TokenValid Proofs.ArgsProofs Proofs.HistoryProofs.

(* the encoding of a scalar other than blank and NUL contains neither blank nor NUL; it starts with a quote only if it is the quote *)
Lemma encode_single c b : scalar c -> encode_utf8 c = [b] -> b = c.
Proof. intros Hs E. pose proof (decode_encode c Hs) as D. rewrite E in D. cbn in D. exact D. Qed.
Lemma encode_no_blank c : scalar c -> c <> 32 -> c <> 0 -> Forall (fun b => b <> 32 /\ b <> 0) (encode_utf8 c).
Proof.
  intros Hs H32 H0. pose proof (encode_wf c Hs) as Hw. destruct (Nat.le_gt_cases 2 (length (encode_utf8 c))) as [Hl|Hl].
  - eapply Forall_impl; [|exact (wf_multibyte_high _ Hw Hl)]. unfold high. intros b Hb. lia.
  - destruct (wf_single _ Hw Hl) as (b & E & _). rewrite E. pose proof (encode_single c b Hs E). subst b. repeat constructor; assumption.
Qed.
Lemma encode_hd c : scalar c -> hd 0 (encode_utf8 c) = c \/ 0x80 <= hd 0 (encode_utf8 c).
Proof.
  intros Hs. pose proof (encode_wf c Hs) as Hw. destruct (Nat.le_gt_cases 2 (length (encode_utf8 c))) as [Hl|Hl].
  - right. pose proof (wf_multibyte_high _ Hw Hl) as Hh. destruct (encode_utf8 c) as [|b r]; [cbn in Hl; lia|]. inversion Hh; subst. cbn. assumption.
  - left. destruct (wf_single _ Hw Hl) as (b & E & _). rewrite E. cbn. exact (encode_single c b Hs E).
Qed.
Theorem scalar_bare c : scalar c -> c <> 32 -> c <> 0 -> c <> 34 -> bare (encode_utf8 c).
Proof.
  intros Hs H32 H0 H34. split; [|split].
  - intros E. pose proof (encode_wf c Hs) as Hw. rewrite E in Hw. exact (wf_char_nonempty _ Hw eq_refl).
  - destruct (encode_hd c Hs) as [-> | H]; [exact H34|lia].
  - exact (encode_no_blank c Hs H32 H0).
Qed.

(* a bare word at the end of the line is a token too *)
Lemma go_normal_end : forall w cur, Forall (fun b => b <> 32 /\ b <> 0) w -> tokens_go QNormal cur w = [rev cur ++ w].
Proof.
  induction w as [|b w IH]; intros cur H; [cbn; rewrite app_nil_r; reflexivity|].
  inversion H as [|? ? [H1 H2] Hw]; subst. cbn [tokens_go]. assert (E : (b =? 32) || (b =? 0) = false) by lia. rewrite E.
  rewrite IH by exact Hw. cbn [rev]. rewrite <- app_assoc. reflexivity.
Qed.
Lemma bare_end w : bare w -> tokens_fun w = [w].
Proof.
  intros (Hne & Hq & Hw). destruct w as [|b w]; [congruence|]. inversion Hw as [|? ? [H1 H2] Hw']; subst.
  unfold tokens_fun. cbn [tokens_go hd] in *. assert (E1 : (b =? 34) = false) by lia. assert (E2 : (b =? 32) || (b =? 0) = false) by lia.
  rewrite E1, E2. rewrite go_normal_end by exact Hw'. reflexivity.
Qed.

(* as a command name on its own, and as an argument after any command word *)
Theorem scalar_as_name c : scalar c -> c <> 32 -> c <> 0 -> c <> 34 -> tokens_fun (encode_utf8 c) = [encode_utf8 c].
Proof. intros. apply bare_end, scalar_bare; assumption. Qed.
Theorem scalar_as_argument c w : scalar c -> c <> 32 -> c <> 0 -> c <> 34 -> bare w ->
  tokens_fun (w ++ 32 :: encode_utf8 c) = [w; encode_utf8 c].
Proof. intros Hs H1 H2 H3 Hw. rewrite (bare_then w _ Hw). rewrite scalar_as_name by assumption. reflexivity. Qed.

(* as a short-option character: `-c` is exactly the short option c (for c = `-` the token is `--`) *)
Theorem scalar_as_short_option c : scalar c -> c <> 45 -> classify_tok false (45 :: encode_utf8 c) = ([ShortOption c], false).
Proof.
  intros Hs H45. pose proof (encode_wf c Hs) as Hw.
  assert (Ec : chars_of (encode_utf8 c) = [encode_utf8 c]).
  { pose proof (chars_of_concat [encode_utf8 c]) as H. cbn [concat] in H. rewrite app_nil_r in H. apply H. constructor; [exact Hw|constructor]. }
  pose proof (encode_hd c Hs) as Hhd. pose proof (decode_encode c Hs) as Hde.
  destruct (encode_utf8 c) as [|b r]; [exfalso; exact (wf_char_nonempty _ Hw eq_refl)|].
  assert (Hb : b <> 45) by (destruct Hhd as [H|H]; cbn in H; [congruence|lia]).
  unfold classify_tok. change (45 =? 45) with true. cbn iota. rewrite (proj2 (N.eqb_neq b 45) Hb). rewrite Ec. cbn [map]. rewrite Hde. reflexivity.
Qed.

(* through the history: a line consisting of the character is recorded when it fits and recalled byte for byte *)
Theorem scalar_recalled c cap : scalar c -> c <> 0 -> (esize (encode_utf8 c) <= cap)%nat ->
  snd (hs_older (hs_push cap hspec0 (encode_utf8 c))) = Some (encode_utf8 c).
Proof.
  intros Hs H0 Hfit. pose proof (encode_wf c Hs) as Hw.
  assert (Ha : acceptable cap (encode_utf8 c) = true).
  { unfold acceptable. apply andb_true_iff. split; [apply andb_true_iff; split|].
    - apply negb_true_iff. apply not_true_is_false. intros H. apply existsb_exists in H as (b & Hb & Eb). apply N.eqb_eq in Eb. subst b.
      destruct (Nat.le_gt_cases 2 (length (encode_utf8 c))) as [Hl|Hl].
      + pose proof (wf_multibyte_high _ Hw Hl) as Hh. rewrite Forall_forall in Hh. specialize (Hh 0 Hb). unfold high in Hh. lia.
      + destruct (wf_single _ Hw Hl) as (b & E & _). rewrite E in Hb. destruct Hb as [Hb|[]]. subst b. pose proof (encode_single c 0 Hs E). congruence.
    - apply Nat.leb_le. exact Hfit.
    - destruct (encode_utf8 c) eqn:E; [exfalso; exact (wf_char_nonempty _ Hw eq_refl)|reflexivity]. }
  unfold hs_push. rewrite Ha. cbn [ents hspec0 remove_entry evict app]. unfold hs_older. cbn [pos ents length nth_error]. reflexivity.
Qed.
