(* C04 at the level of the Cli: the decoder kept inside the Cli is driven by the input bytes alone. Whatever the sink does (every call may
   fail or succeed), whatever the command set and the handler do, whatever Cli::write / set_prompt calls are interleaved and whatever the
   calls return - even a panic of the checked-style model -, the decoder state after a sequence of API calls is the decoder state after
   the bytes fed so far, and the key event each byte produces is the one the decoder alone produces. *)
From EC Require Import Base Model.Input Model.Editor Model.History Model.Sink Model.Writer Model.Cli
  Proofs.ClassProofs Proofs.SafetyProofs.

Definition KeepIg {A} (f : M cli A) : Prop := forall s r s', f s = (r, s') -> ig s' = ig s.

Lemma KeepIg_Same {A} (f : M cli A) : Same f -> KeepIg f.
Proof. intros Sf s r s' E. destruct (Sf _ _ _ E) as (_&H&_). exact H. Qed.
Lemma KeepIg_bind {A B} (m : M cli A) (k : A -> M cli B) : KeepIg m -> (forall a, KeepIg (k a)) -> KeepIg (bind m k).
Proof.
  intros Hm Hk s r s' E. unfold bind in E. destruct (m s) as [r1 s1] eqn:E1. pose proof (Hm _ _ _ E1) as H1.
  destruct r1 as [a| |]; [|injection E as <- <-; exact H1|injection E as <- <-; exact H1].
  rewrite (Hk a _ _ _ E). exact H1.
Qed.
Lemma KeepIg_ret {A} (a : A) : KeepIg (ret a). Proof. apply KeepIg_Same, Same_ret. Qed.
Lemma KeepIg_get : KeepIg get. Proof. apply KeepIg_Same, Same_get. Qed.
Lemma KeepIg_lift_opt {A} (o : option A) : KeepIg (lift_opt o). Proof. apply KeepIg_Same, Same_lift_opt. Qed.
Lemma KeepIg_reraise {A} (x : res A) : KeepIg (reraise x). Proof. apply KeepIg_Same, Same_reraise. Qed.
Lemma KeepIg_modify (g : cli -> cli) : (forall s, ig (g s) = ig s) -> KeepIg (modify g).
Proof. intros H s r s' E. injection E as <- <-. apply H. Qed.
Lemma KeepIg_catch {A} (m : M cli A) : KeepIg m -> KeepIg (catch m).
Proof. intros Hm s r s' E. unfold catch in E. destruct (m s) as [r1 s1] eqn:Em. injection E as <- <-. eapply Hm; eauto. Qed.

Section Keys.
  Variable okf : nat -> bool.
  Variable feats : features.
  Variable cs : cmdset.
  Variable handler : nat -> list N -> list (list N) -> list hop.

  Ltac kig :=
    repeat first
      [ apply KeepIg_ret | apply KeepIg_get | apply KeepIg_lift_opt | apply KeepIg_reraise
      | apply KeepIg_modify; intros; reflexivity
      | apply KeepIg_Same; first [apply Same_wr | apply Same_fl | apply Same_flush_bytes | apply Same_clear_line | apply Same_process_input]
      | apply KeepIg_catch
      | apply KeepIg_bind; [|intros] ].

  Lemma KeepIg_on_text t : KeepIg (on_text okf t).
  Proof.
    unfold on_text. apply KeepIg_bind; [kig|intros s]. apply KeepIg_bind; [kig|intros [e' [|]]]; [|kig].
    apply KeepIg_bind; [kig|intros]. apply KeepIg_bind; [destruct (Nat.ltb _ _); kig|intros]. kig.
  Qed.

  Lemma KeepIg_on_backspace : KeepIg (on_backspace okf).
  Proof.
    unfold on_backspace. apply KeepIg_bind; [kig|intros s]. destruct (ed_move_left (ed s)) as [e1 [|]]; [|kig]. kig.
  Qed.

  Lemma KeepIg_navigate_input fwd : KeepIg (navigate_input okf fwd).
  Proof.
    unfold navigate_input. apply KeepIg_bind; [kig|intros s].
    destruct (if fwd then ed_move_right (ed s) else ed_move_left (ed s)) as [e' [|]]; kig.
  Qed.

  Lemma KeepIg_navigate_history older : KeepIg (navigate_history okf feats older).
  Proof.
    unfold navigate_history. destruct (f_hist feats); [|kig]. apply KeepIg_bind; [kig|intros s].
    apply KeepIg_bind; [kig|intros [h' el]]. apply KeepIg_bind; [kig|intros].
    destruct (if older then el else Some match el with Some x => x | None => [] end); kig.
  Qed.

  Lemma KeepIg_on_tab : KeepIg (on_tab okf feats cs).
  Proof.
    unfold on_tab. destruct (f_ac feats); [|kig]. apply KeepIg_bind; [kig|intros s]. apply KeepIg_bind; [kig|intros e'].
    apply KeepIg_bind; [kig|intros]. destruct (Nat.ltb _ _); kig.
  Qed.

  Lemma KeepIg_on_enter : KeepIg (on_enter okf feats cs handler).
  Proof.
    unfold on_enter. apply KeepIg_bind; [kig|intros]. apply KeepIg_bind; [kig|intros s].
    apply KeepIg_bind; [destruct (f_hist feats); kig|intros]. apply KeepIg_bind; [kig|intros [[buf' raw] empty]]. kig.
  Qed.

  Lemma KeepIg_on_control c : KeepIg (on_control okf feats cs handler c).
  Proof.
    destruct c; cbn [on_control]; first [apply KeepIg_on_enter | apply KeepIg_on_tab | apply KeepIg_on_backspace
                                        | apply KeepIg_navigate_history | apply KeepIg_navigate_input].
  Qed.

  (* one byte: the decoder moves exactly as `accept` says, for every result of the call *)
  Theorem process_byte_decoder b s r s' : api_process_byte okf feats cs handler b s = (r, s') -> ig s' = fst (accept (ig s) b).
  Proof.
    unfold api_process_byte. rewrite !bind_get. destruct (accept (ig s) b) as [g' oi] eqn:Ea. rewrite !bind_modify. cbn [fst].
    destruct oi as [[c|t]|]; intros E.
    - rewrite (KeepIg_on_control c _ _ _ E). reflexivity.
    - rewrite (KeepIg_on_text t _ _ _ E). reflexivity.
    - injection E as <- <-. reflexivity.
  Qed.

  Definition decode_calls (g : igen) (calls : list apicall) : igen :=
    fold_left (fun g c => match c with AByte b => fst (accept g b) | _ => g end) calls g.

  Theorem api_run_decoder : forall calls s, ig (fst (api_run okf feats cs handler s calls)) = decode_calls (ig s) calls.
  Proof.
    induction calls as [|c calls IH]; intros s; cbn [api_run decode_calls fold_left]; [reflexivity|].
    destruct (api_step okf feats cs handler c s) as [x s1] eqn:E. specialize (IH s1).
    destruct (api_run okf feats cs handler s1 calls) as [s2 xs]. cbn [fst] in *. rewrite IH. unfold decode_calls. f_equal.
    destruct c as [b|hs|p]; cbn [api_step] in E.
    - eapply process_byte_decoder; eauto.
    - destruct (Same_api_write okf hs _ _ _ E) as (_&H&_). exact H.
    - destruct (Same_api_set_prompt okf p _ _ _ E) as (_&H&_). exact H.
  Qed.
End Keys.

(* the same in terms of the decoder's own run over the bytes fed so far *)
Definition fed_bytes (calls : list apicall) : list N := flat_map (fun c => match c with AByte b => [b] | _ => [] end) calls.

Lemma decode_calls_runa calls : forall g, decode_calls g calls = fst (runa g (fed_bytes calls)).
Proof.
  induction calls as [|c calls IH]; intros g; [reflexivity|]. unfold decode_calls in *. cbn [fold_left fed_bytes flat_map]. fold (fed_bytes calls).
  destruct c as [b|hs|p]; cbn [app]; [|apply IH|apply IH].
  cbn [runa]. destruct (accept g b) as [g1 o] eqn:Ea. cbn [fst]. rewrite IH. destruct (runa g1 (fed_bytes calls)) as [g2 l]. reflexivity.
Qed.

Theorem cli_decoder okf feats cs handler calls s :
  ig (fst (api_run okf feats cs handler s calls)) = fst (runa (ig s) (fed_bytes calls)).
Proof. rewrite api_run_decoder. apply decode_calls_runa. Qed.
