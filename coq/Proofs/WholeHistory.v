(* C10, closed form over the whole submission history: after ANY sequence of submitted lines the history holds exactly the longest
   suffix that fits of the acceptable lines, each kept at its last submission - whatever evictions happened on the way. *)
From EC Require Import Base Model.History Spec.HistSpec Proofs.ListFacts Proofs.HistoryProofs.

Definition retained (cap : nat) (L : list (list N)) : list (list N) :=
  evict cap (dedup_keep_last (filter (acceptable cap) L)).

Lemma NoDup_app_disjoint {A} (a b : list A) : NoDup (a ++ b) -> forall x, In x a -> In x b -> False.
Proof.
  induction a as [|y a IH]; intros H x Ha Hb; [destruct Ha|]. inversion H as [|? ? Hn Hd]; subst.
  destruct Ha as [->|Ha]; [apply Hn, in_or_app; right; exact Hb|exact (IH Hd x Ha Hb)].
Qed.
Lemma exists_last_or_nil {A} (l : list A) : l = [] \/ exists l0 x, l = l0 ++ [x].
Proof. destruct l as [|a l]; [left; reflexivity|right]. destruct (@exists_last A (a :: l)) as (l0 & x & E); [discriminate|]. eauto. Qed.

(* ---------- dedup_keep_last *)
Lemma existsb_eqb_in x l : existsb (list_eqb x) l = true <-> In x l.
Proof.
  rewrite existsb_exists. split.
  - intros (y & Hy & E). apply list_eqb_spec in E. subst y. exact Hy.
  - intros H. exists x. split; [exact H|apply list_eqb_refl].
Qed.
Lemma dedup_in x l : In x (dedup_keep_last l) <-> In x l.
Proof.
  induction l as [|y l IH]; [tauto|]. cbn [dedup_keep_last]. destruct (existsb (list_eqb y) l) eqn:E.
  - rewrite IH. apply (proj1 (existsb_eqb_in y l)) in E. split; [right; assumption|intros [->|H]; assumption].
  - cbn [In]. rewrite IH. tauto.
Qed.
Lemma dedup_nodup l : NoDup (dedup_keep_last l).
Proof.
  induction l as [|y l IH]; [constructor|]. cbn [dedup_keep_last]. destruct (existsb (list_eqb y) l) eqn:E; [exact IH|].
  constructor; [|exact IH]. intros H. apply (proj1 (dedup_in y l)) in H. apply (proj2 (existsb_eqb_in y l)) in H. congruence.
Qed.
Lemma list_eqb_neq a b : a <> b -> list_eqb a b = false.
Proof. intros H. destruct (list_eqb a b) eqn:E; [apply list_eqb_spec in E; contradiction|reflexivity]. Qed.

(* a line submitted again moves to the end; everything else keeps its place *)
Lemma dedup_snoc t : forall l, dedup_keep_last (l ++ [t]) = remove_entry t (dedup_keep_last l) ++ [t].
Proof.
  induction l as [|x l IH]; [reflexivity|]. cbn [app dedup_keep_last]. rewrite existsb_app. cbn [existsb]. rewrite orb_false_r.
  destruct (list_eq_dec N.eq_dec x t) as [->|Hne].
  - rewrite list_eqb_refl, orb_true_r. rewrite IH. destruct (existsb (list_eqb t) l) eqn:E; [reflexivity|].
    cbn [remove_entry]. rewrite list_eqb_refl. rewrite remove_entry_notin; [reflexivity|].
    intros H. apply (proj1 (dedup_in t l)) in H. apply (proj2 (existsb_eqb_in t l)) in H. congruence.
  - rewrite (list_eqb_neq x t Hne), orb_false_r. destruct (existsb (list_eqb x) l); [exact IH|].
    cbn [remove_entry]. rewrite (list_eqb_neq x t Hne). cbn [app]. rewrite IH. reflexivity.
Qed.

(* ---------- evict on concatenations *)
Lemma evict_snoc cap t : (esize t <= cap)%nat -> forall X, evict cap (X ++ [t]) = evict (cap - esize t) X ++ [t].
Proof.
  intros Ht. induction X as [|e r IH].
  - cbn [app evict]. rewrite total_cons. cbn [total fold_right]. destruct (Nat.leb_spec (esize t + 0) cap); [reflexivity|lia].
  - change ((e :: r) ++ [t]) with (e :: (r ++ [t])). cbn [evict]. rewrite !total_cons, total_app, total_cons. cbn [total fold_right].
    destruct (Nat.leb_spec (esize e + (total r + (esize t + 0))) cap); destruct (Nat.leb_spec (esize e + total r) (cap - esize t)); try lia.
    + reflexivity.
    + exact IH.
Qed.
(* when even the last element of A together with B does not fit, all of A goes *)
Lemma evict_app_drop c B : forall A, (A = [] \/ exists A0 p, A = A0 ++ [p] /\ (c < total (p :: B))%nat) -> evict c (A ++ B) = evict c B.
Proof.
  induction A as [|a A IH]; intros H; [reflexivity|].
  destruct H as [H|(A0 & p & E & Hp)]; [discriminate|].
  change ((a :: A) ++ B) with (a :: (A ++ B)). cbn [evict].
  assert (Hbig : (c < total (a :: A ++ B))%nat).
  { change (a :: A ++ B) with ((a :: A) ++ B). rewrite E, <- app_assoc, total_app. cbn [app]. lia. }
  destruct (Nat.leb_spec (total (a :: A ++ B)) c); [lia|]. apply IH.
  destruct A0 as [|a0 A0]; cbn [app] in E; injection E as -> ->; [left; reflexivity|right; eauto].
Qed.
(* evict keeps a suffix, and the element just before it (if any) does not fit any more *)
Lemma evict_split c : forall G, exists Pre, G = Pre ++ evict c G /\ (Pre = [] \/ exists P0 p, Pre = P0 ++ [p] /\ (c < total (p :: evict c G))%nat).
Proof.
  induction G as [|g G IH]; [exists []; split; [reflexivity|left; reflexivity]|].
  cbn [evict]. destruct (Nat.leb_spec (total (g :: G)) c) as [Hfit|Hbig].
  - exists []. split; [reflexivity|left; reflexivity].
  - destruct IH as (Pre & E & Hl). exists (g :: Pre). split; [cbn [app]; rewrite <- E; reflexivity|]. right.
    destruct Hl as [->|(P0 & p & -> & Hp)].
    + exists [], g. split; [reflexivity|]. cbn [app] in E. rewrite <- E. exact Hbig.
    + exists (g :: P0), p. split; [reflexivity|exact Hp].
Qed.

Lemma remove_entry_app_l t A B : In t A -> remove_entry t (A ++ B) = remove_entry t A ++ B.
Proof.
  induction A as [|a A IH]; intros H; [destruct H|]. cbn [app remove_entry]. destruct (list_eqb a t) eqn:E; [reflexivity|].
  destruct H as [->|H]; [rewrite list_eqb_refl in E; discriminate|]. rewrite (IH H). reflexivity.
Qed.
Lemma remove_entry_app_r t A B : ~ In t A -> remove_entry t (A ++ B) = A ++ remove_entry t B.
Proof.
  induction A as [|a A IH]; intros H; [reflexivity|]. cbn [app remove_entry]. destruct (list_eqb a t) eqn:E.
  - apply list_eqb_spec in E. subst a. exfalso. apply H. left. reflexivity.
  - rewrite IH; [reflexivity|]. intros Hin. apply H. right. exact Hin.
Qed.
Lemma total_remove_in t : forall S, In t S -> (total (remove_entry t S) + esize t = total S)%nat.
Proof.
  induction S as [|s S IH]; intros H; [destruct H|]. cbn [remove_entry]. destruct (list_eqb s t) eqn:E.
  - apply list_eqb_spec in E. subst s. rewrite total_cons. lia.
  - destruct H as [->|H]; [rewrite list_eqb_refl in E; discriminate|]. rewrite !total_cons. specialize (IH H). lia.
Qed.

(* making room for t looks only at what the earlier evictions left - and that loses nothing: the entries evicted earlier could not
   have stayed anyway *)
Lemma evict_remove_evicted cap t G : NoDup G -> (esize t <= cap)%nat ->
  evict (cap - esize t) (remove_entry t G) = evict (cap - esize t) (remove_entry t (evict cap G)).
Proof.
  intros Hnd Ht. destruct (evict_split cap G) as (Pre & E & Hl). set (S := evict cap G) in *. set (c' := (cap - esize t)%nat).
  assert (Hnd2 : NoDup (Pre ++ S)) by (rewrite <- E; exact Hnd).
  destruct (in_dec (list_eq_dec N.eq_dec) t Pre) as [Hin|Hnin].
  - assert (HnS : ~ In t S). { intros HS. exact (NoDup_app_disjoint _ _ Hnd2 t Hin HS). }
    rewrite E at 1. rewrite (remove_entry_app_l t Pre S Hin), (remove_entry_notin t S HnS).
    apply evict_app_drop.
    destruct Hl as [->|(P0 & p & -> & Hp)]; [destruct Hin|].
    destruct (list_eq_dec N.eq_dec p t) as [->|Hpt].
    + assert (HnP0 : ~ In t P0).
      { intros H0. rewrite <- app_assoc in Hnd2. apply (NoDup_app_disjoint _ _ Hnd2 t H0). left. reflexivity. }
      rewrite (remove_entry_app_r t P0 [t] HnP0). cbn [remove_entry]. rewrite list_eqb_refl, app_nil_r.
      rewrite total_cons in Hp.
      destruct (exists_last_or_nil P0) as [->|(P1 & p' & ->)]; [left; reflexivity|right]. exists P1, p'. split; [reflexivity|]. rewrite total_cons. subst c'. lia.
    + assert (HinP0 : In t P0). { apply in_app_or in Hin. destruct Hin as [H|[H|[]]]; [exact H|congruence]. }
      rewrite (remove_entry_app_l t P0 [p] HinP0). right. exists (remove_entry t P0), p. split; [reflexivity|]. subst c'. lia.
  - rewrite E at 1. rewrite (remove_entry_app_r t Pre S Hnin). apply evict_app_drop.
    destruct Hl as [->|(P0 & p & -> & Hp)]; [left; reflexivity|right]. exists P0, p. split; [reflexivity|].
    rewrite total_cons in *. destruct (in_dec (list_eq_dec N.eq_dec) t S) as [HS|HS].
    + pose proof (total_remove_in t S HS). subst c'. lia.
    + rewrite (remove_entry_notin t S HS). subst c'. lia.
Qed.

Lemma acceptable_size cap t : acceptable cap t = true -> (esize t <= cap)%nat.
Proof. unfold acceptable. intros H. apply andb_prop in H as [H _]. apply andb_prop in H as [_ H]. apply Nat.leb_le in H. exact H. Qed.

(* the closed form *)
Theorem whole_history cap : forall L, ents (fold_left (hs_push cap) L hspec0) = retained cap L /\ pos (fold_left (hs_push cap) L hspec0) = None.
Proof.
  induction L as [|t L IH] using rev_ind; [split; reflexivity|].
  rewrite fold_left_app. cbn [fold_left]. destruct IH as [IHe IHp]. unfold retained in *. rewrite filter_app. cbn [filter].
  set (prev := fold_left (hs_push cap) L hspec0) in *. unfold hs_push. destruct (acceptable cap t) eqn:Ha.
  - cbn [ents pos]. split; [|reflexivity]. rewrite IHe.
    pose proof (acceptable_size cap t Ha) as Ht.
    rewrite <- (evict_remove_evicted cap t _ (dedup_nodup _) Ht). rewrite <- (evict_snoc cap t Ht). rewrite <- dedup_snoc. reflexivity.
  - rewrite app_nil_r. split; [exact IHe|exact IHp].
Qed.

(* ---------- down to the byte-level history, and recalling everything *)
Lemma hs_run_pushes cap : forall L s, fst (hs_run cap s (map HPush L)) = fold_left (hs_push cap) L s.
Proof.
  induction L as [|t L IH]; intros s; [reflexivity|]. cbn [map hs_run hs_step fold_left].
  specialize (IH (hs_push cap s t)). destruct (hs_run cap (hs_push cap s t) (map HPush L)) as [s2 xs]. exact IH.
Qed.

Theorem whole_history_bytes cap L : exists h', option_map fst (hist_run (hist_new cap) (map HPush L)) = Some h' /\
  HRep cap h' {| ents := retained cap L; pos := None |}.
Proof.
  destruct (hist_run_refines cap (map HPush L) (hist_new cap) hspec0 (HRep_init cap)) as (h' & E & R). exists h'. rewrite E. split; [reflexivity|].
  rewrite hs_run_pushes in R. destruct (whole_history cap L) as [He Hp].
  destruct (fold_left (hs_push cap) L hspec0) as [es p]. cbn [ents pos] in *. subst. exact R.
Qed.

Lemma firstn_S_nth {A} : forall (l : list A) k x, nth_error l k = Some x -> firstn (S k) l = firstn k l ++ [x].
Proof.
  induction l as [|a l IH]; intros [|k] x H; try discriminate.
  - injection H as ->. reflexivity.
  - cbn [nth_error] in H. change (firstn (S (S k)) (a :: l)) with (a :: firstn (S k) l). rewrite (IH k x H). reflexivity.
Qed.
Lemma older_from cap es : forall k, (k < length es)%nat ->
  snd (hs_run cap {| ents := es; pos := Some k |} (repeat HOlder k)) = map Some (rev (firstn k es)).
Proof.
  induction k as [|k IH]; intros Hk; [reflexivity|]. cbn [repeat hs_run hs_step]. unfold hs_older at 1. cbn [pos ents].
  specialize (IH ltac:(lia)). destruct (hs_run cap {| ents := es; pos := Some k |} (repeat HOlder k)) as [s2 xs]. cbn [snd] in *.
  destruct (nth_error es k) as [x|] eqn:En; [|apply nth_error_None in En; lia].
  rewrite (firstn_S_nth es k x En), rev_app_distr. cbn [rev app map]. rewrite IH. reflexivity.
Qed.
(* Up pressed as many times as there are entries shows every one of them, newest first *)
Theorem recall_all cap es : snd (hs_run cap {| ents := es; pos := None |} (repeat HOlder (length es))) = map Some (rev es).
Proof.
  destruct (exists_last_or_nil es) as [->|(es0 & x & E)]; [reflexivity|].
  assert (Hl : length es = S (length es0)) by (rewrite E, app_length; cbn; lia).
  rewrite Hl. cbn [repeat hs_run hs_step]. unfold hs_older at 1. cbn [pos ents]. rewrite Hl.
  pose proof (older_from cap es (length es0) ltac:(lia)) as H.
  destruct (hs_run cap {| ents := es; pos := Some (length es0) |} (repeat HOlder (length es0))) as [s2 xs]. cbn [snd] in *.
  rewrite H. rewrite E at 1 2. rewrite nth_error_app2, Nat.sub_diag by lia. cbn [nth_error].
  rewrite firstn_app, firstn_all, Nat.sub_diag. cbn [firstn]. rewrite app_nil_r. rewrite E, rev_app_distr. reflexivity.
Qed.
