(* C12: facts about the doc-comment processing (Model/Doc.v) behind summaries and descriptions. *)
From EC Require Import Base Model.Doc.

Lemma doc_none : doc_help [] = (None, None).
Proof. reflexivity. Qed.

(* the summary loses exactly one trailing period; two or more are an ellipsis and stay *)
Lemma remove_period_spec s :
  (forall r, s = r ++ [46; 46] -> remove_period s = s) /\
  (forall r, s = r ++ [46] -> (forall r', r <> r' ++ [46]) -> remove_period s = r) /\
  ((forall r, s <> r ++ [46]) -> remove_period s = s).
Proof.
  unfold remove_period. repeat split.
  - intros r ->. rewrite rev_app_distr. reflexivity.
  - intros r -> Hr. rewrite rev_app_distr. cbn [rev app]. destruct (rev r) as [|b r2] eqn:E; [rewrite <- (rev_involutive r), E; reflexivity|].
    destruct (N.eq_dec b 46) as [->|Hb].
    + exfalso. apply (Hr (rev r2)). rewrite <- (rev_involutive r), E. reflexivity.
    + replace r with (rev (b :: r2)) by (rewrite <- E; apply rev_involutive).
      destruct b as [|p]; [reflexivity|]. do 6 (destruct p as [p|p|]; try reflexivity). congruence.
  - intros H. destruct (rev s) as [|b r] eqn:E; [reflexivity|]. destruct (N.eq_dec b 46) as [->|Hb].
    + exfalso. apply (H (rev r)). rewrite <- (rev_involutive s), E. reflexivity.
    + destruct b as [|p]; [reflexivity|]. do 6 (destruct p as [p|p|]; try reflexivity). congruence.
Qed.

(* whenever there is a doc comment with text, both summary and description exist *)
Lemma doc_help_some attrs : extract_doc attrs <> [] -> exists sh lg, doc_help attrs = (Some sh, Some lg).
Proof.
  intros H. unfold doc_help. destruct (extract_doc attrs) as [|l ls]; [congruence|]. destruct (existsb is_blank (l :: ls)); eauto.
Qed.
