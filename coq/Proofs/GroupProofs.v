(* Nested command groups behave as their flattening: parsing, completion names, `help` listing and command help of a tree of groups
   are those of the flat group with the same enums in the same order, a member of a hidden group being hidden (C09 / C11 / C12). *)
From EC Require Import Base Generated.Codes Model.Utils Model.Args Model.Writer Model.Cli Model.Derive Model.Group
  Proofs.DeriveProofs Proofs.HelpProofs.

(* ---------- induction over trees *)
Section Ind.
  Variable P : gtree -> Prop.
  Hypothesis Hleaf : forall e, P (GLeaf e).
  Hypothesis Hnode : forall ms, Forall (fun m : bool * gtree => P (snd m)) ms -> P (GNode ms).
  Fixpoint gtree_ind' (t : gtree) : P t :=
    match t with
    | GLeaf e => Hleaf e
    | GNode ms => Hnode ms ((fix go (l : list (bool * gtree)) : Forall (fun m : bool * gtree => P (snd m)) l :=
                               match l with [] => Forall_nil _ | m :: r => Forall_cons m (gtree_ind' (snd m)) (go r) end) ms)
    end.
End Ind.

(* ---------- the member loops as list functions *)
Fixpoint flatten_list (hidden : bool) (l : list (bool * gtree)) : list (bool * enumdecl) :=
  match l with [] => [] | (h, m) :: r => flatten (hidden || h) m ++ flatten_list hidden r end.
Lemma flatten_node hidden ms : flatten hidden (GNode ms) = flatten_list hidden ms.
Proof. cbn [flatten]. induction ms as [|[h m] r IH]; [reflexivity|]. cbn [flatten_list]. rewrite <- IH. reflexivity. Qed.

Section Tree.
  Variables (name : list N) (args : list (list N)).

  Fixpoint parse_list (l : list (bool * gtree)) : presult :=
    match l with [] => PErr EUnknown | (_, m) :: r => match g_parse name args m with PErr EUnknown => parse_list r | p => p end end.
  Lemma parse_node ms : g_parse name args (GNode ms) = parse_list ms.
  Proof. cbn [g_parse]. induction ms as [|[h m] r IH]; [reflexivity|]. cbn [parse_list]. rewrite <- IH. reflexivity. Qed.

  Lemma parse_group_app a b : fst (parse_group (a ++ b) name args) =
    match fst (parse_group a name args) with PErr EUnknown => fst (parse_group b name args) | p => p end.
  Proof.
    induction a as [|[h e] a IH]; [reflexivity|]. cbn [app parse_group].
    destruct (parse_enum PARSE_FUEL (e_cmds e) name args) as [er|tv|] eqn:E; try reflexivity.
    destruct er; try reflexivity.
    destruct (parse_group (a ++ b) name args) as [p i]. destruct (parse_group a name args) as [p' i']. cbn [fst] in *. exact IH.
  Qed.

  (* FromRaw: the first member - at any depth, hidden or not - that does not answer UnknownCommand decides *)
  Theorem parse_flatten : forall t hidden, g_parse name args t = fst (parse_group (flatten hidden t) name args).
  Proof.
    induction t as [e|ms IH] using gtree_ind'; intros hidden.
    - cbn [g_parse flatten parse_group]. destruct (parse_enum PARSE_FUEL (e_cmds e) name args) as [er| |]; try reflexivity. destruct er; reflexivity.
    - rewrite parse_node, flatten_node. induction ms as [|[h m] r IHr]; [reflexivity|].
      inversion IH as [|? ? Hm Hr]; subst. cbn [snd] in Hm. cbn [parse_list flatten_list]. rewrite parse_group_app, <- (Hm (hidden || h)).
      rewrite (IHr Hr). reflexivity.
  Qed.

  Fixpoint help_list (l : list (bool * gtree)) : option (option (list hop)) :=
    match l with
    | [] => Some None
    | (hidden, m) :: r => if hidden then help_list r else
                          match g_help name args m with None => None | Some (Some h) => Some (Some h) | Some None => help_list r end
    end.
  Lemma help_node ms : g_help name args (GNode ms) = help_list ms.
  Proof. cbn [g_help]. induction ms as [|[h m] r IH]; [reflexivity|]. cbn [help_list]. rewrite <- IH. reflexivity. Qed.

  Lemma help_group_app a b : cmd_help_group (a ++ b) name args =
    match cmd_help_group a name args with Some None => cmd_help_group b name args | x => x end.
  Proof.
    induction a as [|[h e] a IH]; [reflexivity|]. cbn [app cmd_help_group]. destruct h; [exact IH|].
    destruct (cmd_help_enum PARSE_FUEL [] (e_cmds e) name args) as [[x|]|]; try reflexivity. exact IH.
  Qed.
  Lemma help_hidden_tree : forall t, cmd_help_group (flatten true t) name args = Some None.
  Proof.
    induction t as [e|ms IH] using gtree_ind'; [reflexivity|]. rewrite flatten_node.
    induction ms as [|[h m] r IHr]; [reflexivity|]. inversion IH as [|? ? Hm Hr]; subst. cbn [snd] in Hm. cbn [flatten_list orb].
    rewrite help_group_app, Hm. exact (IHr Hr).
  Qed.
  (* Help::command_help: the first VISIBLE member (no hidden group above it) that knows the command answers; a hidden sub-tree answers
     nothing *)
  Theorem help_flatten : forall t, g_help name args t = cmd_help_group (flatten false t) name args.
  Proof.
    induction t as [e|ms IH] using gtree_ind'.
    - cbn [g_help flatten cmd_help_group]. destruct (cmd_help_enum PARSE_FUEL [] (e_cmds e) name args) as [[x|]|]; reflexivity.
    - rewrite help_node, flatten_node. induction ms as [|[h m] r IHr]; [reflexivity|].
      inversion IH as [|? ? Hm Hr]; subst. cbn [help_list flatten_list orb snd] in *. rewrite help_group_app. destruct h.
      + rewrite help_hidden_tree. exact (IHr Hr).
      + rewrite <- Hm. destruct (g_help name args m) as [[x|]|]; try reflexivity. exact (IHr Hr).
  Qed.
End Tree.

(* ---------- completion names *)
Fixpoint names_list (l : list (bool * gtree)) : list (list N) :=
  match l with [] => [] | (hidden, m) :: r => (if hidden then [] else g_names m) ++ names_list r end.
Lemma names_node ms : g_names (GNode ms) = names_list ms.
Proof. cbn [g_names]. induction ms as [|[h m] r IH]; [reflexivity|]. cbn [names_list]. rewrite <- IH. reflexivity. Qed.
Definition flat_names (fl : list (bool * enumdecl)) : list (list N) := set_names (SGroup fl).
Lemma flat_names_app a b : flat_names (a ++ b) = flat_names a ++ flat_names b.
Proof. unfold flat_names. cbn [set_names]. apply flat_map_app. Qed.
(* Autocomplete: the names scanned are those of the visible enums, in declaration order *)
Theorem names_flatten : forall t hidden, flat_names (flatten hidden t) = if hidden then [] else g_names t.
Proof.
  induction t as [e|ms IH] using gtree_ind'; intros hidden.
  - unfold flat_names. cbn [flatten set_names flat_map fst snd g_names]. rewrite app_nil_r. reflexivity.
  - rewrite flatten_node, names_node. induction ms as [|[h m] r IHr]; [destruct hidden; reflexivity|].
    inversion IH as [|? ? Hm Hr]; subst. cbn [flatten_list names_list snd] in *. rewrite flat_names_app, (Hm (hidden || h)), (IHr Hr).
    destruct hidden; cbn [orb]; [reflexivity|]. reflexivity.
Qed.

(* ---------- the `help` listing *)
Fixpoint count_list (l : list (bool * gtree)) : nat :=
  match l with [] => O | (hidden, m) :: r => ((if hidden then O else g_count m) + count_list r)%nat end.
Lemma count_node ms : g_count (GNode ms) = count_list ms.
Proof. cbn [g_count]. induction ms as [|[h m] r IH]; [reflexivity|]. cbn [count_list]. rewrite <- IH. reflexivity. Qed.
Fixpoint blocks_list (l : list (bool * gtree)) : list (list hop) :=
  match l with [] => [] | (hidden, m) :: r => (if hidden then [] else match g_count m with O => [] | _ => [g_list m] end) ++ blocks_list r end.
Lemma list_node ms : g_list (GNode ms) = join_blocks (blocks_list ms).
Proof.
  cbn [g_list]. assert (E : forall l, (fix go (l : list (bool * gtree)) : list (list hop) :=
     match l with [] => [] | (hidden, m) :: r => (if hidden then [] else match g_count m with O => [] | _ => [g_list m] end) ++ go r end) l = blocks_list l).
  { induction l as [|[h m] r IH]; [reflexivity|]. cbn [blocks_list]. rewrite <- IH. reflexivity. }
  rewrite E. reflexivity.
Qed.

Definition flat_blocks (fl : list (bool * enumdecl)) : list (list hop) := map (fun m : bool * enumdecl => list_commands_hops (snd m)) (filter listed fl).
Lemma flat_blocks_app a b : flat_blocks (a ++ b) = flat_blocks a ++ flat_blocks b.
Proof. unfold flat_blocks. rewrite filter_app, map_app. reflexivity. Qed.

Lemma join_blocks_app a b : a <> [] -> b <> [] -> join_blocks (a ++ b) = join_blocks a ++ [HWriteln []] ++ join_blocks b.
Proof.
  intros Ha Hb. induction a as [|x a IH]; [congruence|]. destruct a as [|y a].
  - cbn [app]. destruct b as [|z b]; [congruence|]. reflexivity.
  - change ((x :: y :: a) ++ b) with (x :: (y :: a) ++ b).
    change (join_blocks (x :: (y :: a) ++ b)) with (x ++ [HWriteln []] ++ join_blocks ((y :: a) ++ b)).
    rewrite IH by discriminate. change (join_blocks (x :: y :: a)) with (x ++ [HWriteln []] ++ join_blocks (y :: a)). rewrite <- !app_assoc. reflexivity.
Qed.

(* per tree: the count is zero exactly when nothing is listed, and a tree that lists something prints the joined listing of the flat
   members (an enum without commands is never asked to list itself) *)
Definition ListOK (t : gtree) : Prop :=
  flat_blocks (flatten true t) = [] /\
  (g_count t = O <-> flat_blocks (flatten false t) = []) /\
  (g_count t <> O -> g_list t = join_blocks (flat_blocks (flatten false t))).

Lemma list_members ms : Forall (fun m : bool * gtree => ListOK (snd m)) ms ->
  flat_blocks (flatten_list true ms) = [] /\
  (count_list ms = O <-> flat_blocks (flatten_list false ms) = []) /\
  (blocks_list ms = [] <-> count_list ms = O) /\
  join_blocks (blocks_list ms) = join_blocks (flat_blocks (flatten_list false ms)).
Proof.
  induction 1 as [|[h m] r (Hm1 & Hm2 & Hm3) _ (I1 & I2 & I3 & I4)]; [repeat split; reflexivity|]. cbn [snd] in *.
  cbn [flatten_list count_list blocks_list orb]. rewrite !flat_blocks_app. split; [|split; [|split]].
  - rewrite I1. destruct h; rewrite Hm1; reflexivity.
  - destruct h; cbn [orb].
    + rewrite Hm1. cbn [app plus]. exact I2.
    + split.
      * intros H0. assert (g_count m = O) by lia. assert (count_list r = O) by lia. rewrite (proj1 Hm2), (proj1 I2); auto.
      * intros H0. apply app_eq_nil in H0 as [Ha Hb]. rewrite (proj2 Hm2 Ha), (proj2 I2 Hb). reflexivity.
  - destruct h; [cbn [app plus]; exact I3|]. destruct (g_count m) as [|k] eqn:Ec; cbn [app plus]; [exact I3|].
    split; [discriminate|lia].
  - destruct h; cbn [orb app].
    + rewrite Hm1. cbn [app]. exact I4.
    + destruct (g_count m) as [|k] eqn:Ec.
      * rewrite (proj1 Hm2 eq_refl). cbn [app]. exact I4.
      * assert (Hne : flat_blocks (flatten false m) <> []) by (intros E; apply (proj2 Hm2) in E; discriminate).
        rewrite (Hm3 ltac:(discriminate)).
        destruct (blocks_list r) as [|x xs] eqn:Eb.
        -- assert (Hc : count_list r = O) by (apply I3; reflexivity). rewrite (proj1 I2 Hc), !app_nil_r. reflexivity.
        -- assert (Hy : flat_blocks (flatten_list false r) <> []).
           { intros E. apply (proj2 I2) in E. apply (proj2 I3) in E. discriminate. }
           change ([join_blocks (flat_blocks (flatten false m))] ++ x :: xs) with ([join_blocks (flat_blocks (flatten false m))] ++ (x :: xs)).
           rewrite (join_blocks_app [join_blocks (flat_blocks (flatten false m))] (x :: xs)) by discriminate.
           rewrite I4, (join_blocks_app _ _ Hne Hy). reflexivity.
Qed.

Theorem list_flatten : forall t, ListOK t.
Proof.
  induction t as [e|ms IH] using gtree_ind'.
  - unfold ListOK, flat_blocks, listed. cbn [flatten filter fst snd negb andb map g_count g_list]. split; [reflexivity|].
    destruct (e_cmds e) as [|c cs] eqn:E; cbn [negb andb length map filter].
    + split; [split; reflexivity|intros H; congruence].
    + split; [split; discriminate|intros _; reflexivity].
  - destruct (list_members ms IH) as (L1 & L2 & L3 & L4). unfold ListOK. rewrite !flatten_node, count_node, list_node. auto.
Qed.

(* `help` on a group of groups prints exactly what the flat group prints *)
Corollary list_group_flatten ms : g_list (GNode ms) = list_commands_set (SGroup (flatten false (GNode ms))).
Proof.
  destruct (list_members ms (proj2 (Forall_forall _ _) (fun m _ => list_flatten (snd m)))) as (_ & _ & _ & L4).
  rewrite list_node, flatten_node, L4. reflexivity.
Qed.
