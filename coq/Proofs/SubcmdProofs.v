(* C09: commands with a sub-command - the sub-command is parsed from the remaining tokens; a required one that is missing is reported. *)
From EC Require Import Base Generated.Codes Model.Utils Model.Args Model.Writer Model.Cli Model.Derive Spec.ArgSpec
  Proofs.ArgsProofs Proofs.DeriveProofs Proofs.HelpProofs.

Lemma parse_cmd_sub_unfold ps c o t subs args : c_sub c = Some (o, t, subs) ->
  parse_cmd ps c args =
  match arg_loop ps (args_fuel args) c (ai_new args) PNormal 0 [] with
  | None => PPanic
  | Some (inl er) => PErr er
  | Some (inr (e, sub)) =>
    match build_fields (c_args c) e with
    | inl er => PErr er
    | inr fs => match sub with
                | Some tv => POk (TV (c_name c) fs (Some (Some tv)))
                | None => if o then POk (TV (c_name c) fs (Some None)) else PErr (EMissing SUB_NAME_REQ)
                end
    end
  end.
Proof. intros Hs. unfold parse_cmd. rewrite Hs. destruct (c_args c); reflexivity. Qed.

(* the first token after the command is a plain value: it names the sub-command, everything after it belongs to the sub-command *)
Theorem parse_cmd_sub_first ps c o t subs v rest : c_sub c = Some (o, t, subs) -> classify_tok false v = ([Value v], false) ->
  parse_cmd ps c (v :: rest) =
  match ps subs v rest with
  | PErr er => PErr er
  | PPanic => PPanic
  | POk tv => match build_fields (c_args c) [] with inl er => PErr er | inr fs => POk (TV (c_name c) fs (Some (Some tv))) end
  end.
Proof.
  intros Hs Hv. rewrite (parse_cmd_sub_unfold ps c o t subs _ Hs). unfold args_fuel. cbn [arg_loop].
  rewrite (ai_next_value v rest Hv), find_named_value, Hs. cbn [ai_into_args toks].
  destruct (ps subs v rest); reflexivity.
Qed.
(* nothing after the command: an optional sub-command is absent, a required one is reported as <COMMAND> - after the command's own
   required arguments, which come first *)
Theorem parse_cmd_sub_missing ps c o t subs : c_sub c = Some (o, t, subs) ->
  parse_cmd ps c [] =
  match build_fields (c_args c) [] with
  | inl er => PErr er
  | inr fs => if o then POk (TV (c_name c) fs (Some None)) else PErr (EMissing SUB_NAME_REQ)
  end.
Proof. intros Hs. rewrite (parse_cmd_sub_unfold ps c o t subs _ Hs). reflexivity. Qed.
