From Coq Require Import ZArith.
From EC Require Import Base Model.Utf8 Model.Utils Spec.Utf8Spec Spec.ArgSpec Proofs.Utf8Proofs.
Ltac Zify.zify_post_hook ::= Z.div_mod_to_equations.

Definition scalar (c : N) : Prop := c < 0x110000 /\ ~ (0xD800 <= c <= 0xDFFF).
Lemma scalarb_spec c : scalarb c = true <-> scalar c.
Proof. unfold scalarb, scalar. lia. Qed.

(* ---------- encode_utf8 *)
Theorem encode_wf c : scalar c -> wf_char (encode_utf8 c).
Proof.
  unfold scalar, encode_utf8. intros [H1 H2].
  destruct (c <? 0x80) eqn:?; [cbn; lia|].
  destruct (c <? 0x800) eqn:?; [cbn; unfold cont; lia|].
  destruct (c <? 0x10000) eqn:?; cbn; unfold cont; lia.
Qed.

Lemma encode_len c : length (encode_utf8 c) =
  if c <? 0x80 then 1%nat else if c <? 0x800 then 2%nat else if c <? 0x10000 then 3%nat else 4%nat.
Proof. unfold encode_utf8. brk; reflexivity. Qed.

(* ---------- decoding one well-formed char (spec decode_char) *)
Theorem decode_encode c : scalar c -> decode_char (encode_utf8 c) = c.
Proof.
  unfold scalar, encode_utf8. intros [H1 H2].
  destruct (c <? 0x80) eqn:?; [reflexivity|].
  destruct (c <? 0x800) eqn:?; [cbn [decode_char]; lia|].
  destruct (c <? 0x10000) eqn:?; cbn [decode_char]; lia.
Qed.

Theorem decode_scalar c : wf_char c -> scalar (decode_char c).
Proof.
  destruct c as [|x [|y [|z [|w [|v r]]]]]; cbn [wf_char decode_char]; unfold cont, scalar; intros H; try contradiction; lia.
Qed.

Theorem encode_decode c : wf_char c -> encode_utf8 (decode_char c) = c.
Proof.
  destruct c as [|x [|y [|z [|w [|v r]]]]]; cbn [wf_char decode_char]; unfold cont; intros H; try contradiction; unfold encode_utf8.
  - assert (E : (x <? 0x80) = true) by lia. rewrite E. reflexivity.
  - set (v := x mod 32 * 64 + y mod 64).
    assert (E1 : (v <? 0x80) = false) by (subst v; lia). assert (E2 : (v <? 0x800) = true) by (subst v; lia).
    rewrite E1, E2. f_equal; [subst v; lia|f_equal; subst v; lia].
  - set (v := (x mod 16 * 64 + y mod 64) * 64 + z mod 64).
    assert (E1 : (v <? 0x80) = false) by (subst v; lia). assert (E2 : (v <? 0x800) = false) by (subst v; lia).
    assert (E3 : (v <? 0x10000) = true) by (subst v; lia).
    rewrite E1, E2, E3. f_equal; [subst v; lia|f_equal; [subst v; lia|f_equal; subst v; lia]].
  - set (v := ((x mod 8 * 64 + y mod 64) * 64 + z mod 64) * 64 + w mod 64).
    assert (E1 : (v <? 0x80) = false) by (subst v; lia). assert (E2 : (v <? 0x800) = false) by (subst v; lia).
    assert (E3 : (v <? 0x10000) = false) by (subst v; lia).
    rewrite E1, E2, E3. f_equal; [subst v; lia|f_equal; [subst v; lia|f_equal; [subst v; lia|f_equal; subst v; lia]]].
Qed.

(* ---------- char_pop_front *)
Definition starts_cont (r : list N) : Prop := match r with b :: _ => is_cont b = true | [] => False end.

Lemma pop_conts_stop cp r : ~ starts_cont r -> pop_conts cp r = (cp, r).
Proof. destruct r as [|b r]; cbn; [reflexivity|]. intros H. destruct (is_cont b); [exfalso; apply H; reflexivity|reflexivity]. Qed.

Theorem pop_front_wf c r : wf_char c -> ~ starts_cont r ->
  char_pop_front (c ++ r) = Some (Some (decode_char c, r)).
Proof.
  intros Hw Hr. pose proof (decode_scalar c Hw) as Hs. apply scalarb_spec in Hs.
  destruct c as [|x [|y [|z [|w [|v t]]]]]; cbn [wf_char] in Hw; unfold cont in Hw; try contradiction;
  unfold char_pop_front; cbn [app]; cbn [decode_char] in Hs |- *.
  - assert (E : (x <? 0x80) = true) by lia. rewrite E, pop_conts_stop by exact Hr. rewrite Hs. reflexivity.
  - assert (E : (x <? 0x80) = false) by lia. assert (E2 : (0xC0 <=? x) && (x <? 0xE0) = true) by lia. rewrite E, E2.
    cbn [pop_conts]. assert (Ey : is_cont y = true) by (unfold is_cont; lia). rewrite Ey, pop_conts_stop by exact Hr.
    replace ((x mod 32 * 64 + y mod 64) mod 4294967296) with (x mod 32 * 64 + y mod 64) by lia. rewrite Hs. reflexivity.
  - assert (E : (x <? 0x80) = false) by lia. assert (E2 : (0xC0 <=? x) && (x <? 0xE0) = false) by lia. rewrite E, E2.
    cbn [pop_conts]. assert (Ey : is_cont y = true) by (unfold is_cont; lia). assert (Ez : is_cont z = true) by (unfold is_cont; lia).
    rewrite Ey, Ez, pop_conts_stop by exact Hr.
    replace (((x mod 16 * 64 + y mod 64) mod 4294967296 * 64 + z mod 64) mod 4294967296) with ((x mod 16 * 64 + y mod 64) * 64 + z mod 64) by lia.
    rewrite Hs. reflexivity.
  - assert (E : (x <? 0x80) = false) by lia. assert (E2 : (0xC0 <=? x) && (x <? 0xE0) = false) by lia. rewrite E, E2.
    cbn [pop_conts]. assert (Ey : is_cont y = true) by (unfold is_cont; lia). assert (Ez : is_cont z = true) by (unfold is_cont; lia).
    assert (Ew : is_cont w = true) by (unfold is_cont; lia).
    rewrite Ey, Ez, Ew, pop_conts_stop by exact Hr.
    assert (X : x mod 16 = x mod 8) by lia. rewrite X.
    replace ((((x mod 8 * 64 + y mod 64) mod 4294967296 * 64 + z mod 64) mod 4294967296 * 64 + w mod 64) mod 4294967296)
      with (((x mod 8 * 64 + y mod 64) * 64 + z mod 64) * 64 + w mod 64) by lia.
    rewrite Hs. reflexivity.
Qed.

Corollary pop_front_encode v r : scalar v -> ~ starts_cont r ->
  char_pop_front (encode_utf8 v ++ r) = Some (Some (v, r)).
Proof. intros Hv Hr. rewrite pop_front_wf by (auto using encode_wf). rewrite decode_encode by exact Hv. reflexivity. Qed.

Lemma wf_not_starts_cont c r : wf_char c -> ~ starts_cont (c ++ r).
Proof. destruct c as [|x [|y [|z [|w [|v t]]]]]; cbn; unfold cont, is_cont; intros H; try contradiction; lia. Qed.

(* ---------- char_count *)
Theorem char_count_concat cs : Forall wf_char cs -> char_count (concat cs) = length cs.
Proof. intros H. unfold char_count. rewrite run_concat0 by exact H. reflexivity. Qed.

Lemma char_count_app_wf cs t : Forall wf_char cs -> char_count (concat cs ++ t) = (length cs + char_count t)%nat.
Proof.
  intros H. unfold char_count. rewrite run_app, run_concat0 by exact H. destruct (run acc0 t) as [a l]. cbn. apply app_length.
Qed.

(* ---------- char_byte_index *)
Lemma cbi_char a c rest k cur idx : wf_char c -> k <> cur ->
  cbi_loop a (c ++ rest) k cur idx = cbi_loop acc0 rest k (S cur) (idx + length c).
Proof.
  intros Hw Hk. assert (E : Nat.eqb k cur = false) by (apply Nat.eqb_neq; exact Hk).
  destruct c as [|x [|y [|z [|w [|v t]]]]]; cbn [wf_char] in Hw; try contradiction; cbn [app cbi_loop length]; rewrite ?E.
  - rewrite push_ascii by lia. f_equal. lia.
  - destruct Hw as (H1 & H2 & H3). rewrite push_l2 by lia. rewrite E.
    rewrite push_c_last1; [f_equal; lia|exact H3|unfold second_ok; pushc].
  - destruct Hw as (H1 & H3). rewrite push_l3 by (unfold cont in *; lia). rewrite E.
    assert (Hy : cont y) by (unfold cont in *; lia).
    rewrite push_c_mid1; [|exact Hy|unfold second_ok; pushc]. rewrite E.
    rewrite push_c_last by exact H3. f_equal; lia.
  - destruct Hw as (H1 & H3 & H4). rewrite push_l4 by (unfold cont in *; lia). rewrite E.
    assert (Hy : cont y) by (unfold cont in *; lia).
    rewrite push_c_mid1; [|exact Hy|unfold second_ok; pushc]. rewrite E.
    rewrite push_c_mid by exact H3. cbn [app]. rewrite E.
    rewrite push_c_last by exact H4. f_equal; lia.
Qed.

Lemma cbi_concat : forall cs rest k cur idx, Forall wf_char cs -> (cur <= k)%nat -> (k - cur < length cs)%nat ->
  cbi_loop acc0 (concat cs ++ rest) k cur idx = Some (idx + length (concat (firstn (k - cur) cs)))%nat.
Proof.
  induction cs as [|c cs IH]; intros rest k cur idx H Hle Hlt; [cbn in Hlt; lia|].
  inversion H as [|? ? Hc Hcs]; subst.
  destruct (Nat.eq_dec k cur) as [->|Hne].
  - rewrite Nat.sub_diag. cbn [firstn concat length]. rewrite Nat.add_0_r.
    pose proof (wf_char_nonempty c Hc). destruct c as [|x c']; [congruence|]. cbn [concat app cbi_loop]. rewrite Nat.eqb_refl. reflexivity.
  - cbn [concat]. rewrite <- app_assoc. rewrite cbi_char by assumption.
    cbn [length] in Hlt. rewrite IH by (auto; lia).
    replace (k - cur)%nat with (S (k - S cur)) by lia. cbn [firstn concat]. rewrite app_length. f_equal. lia.
Qed.

Lemma cbi_none : forall cs k cur idx, Forall wf_char cs -> (cur <= k)%nat -> (length cs <= k - cur)%nat ->
  cbi_loop acc0 (concat cs) k cur idx = None.
Proof.
  induction cs as [|c cs IH]; intros k cur idx H Hle Hlt; [reflexivity|].
  inversion H as [|? ? Hc Hcs]; subst. cbn [length] in Hlt.
  cbn [concat]. rewrite cbi_char by (auto; lia). apply IH; [exact Hcs|lia|lia].
Qed.

Theorem cbi_spec cs k : Forall wf_char cs ->
  char_byte_index (concat cs) k = if Nat.ltb k (length cs) then Some (length (concat (firstn k cs))) else None.
Proof.
  intros H. unfold char_byte_index. destruct (Nat.ltb_spec k (length cs)).
  - rewrite <- (app_nil_r (concat cs)). rewrite cbi_concat by (auto; lia). rewrite Nat.sub_0_r. reflexivity.
  - apply cbi_none; [exact H|lia|lia].
Qed.

(* ---------- common_prefix_len *)
(* longest common prefix of two byte lists *)
Fixpoint blcp (l r : list N) : list N :=
  match l, r with
  | x :: l', y :: r' => if x =? y then x :: blcp l' r' else []
  | _, _ => []
  end.
(* position just after the last character completed while reading p *)
Fixpoint le_pos (a : accum) (p : list N) (pos cnt : nat) : nat :=
  match p with
  | [] => pos
  | b :: r => let '(a', o) := push a b in le_pos a' r (match o with Some _ => S cnt | None => pos end) (S cnt)
  end.
Lemma cpl_le_pos : forall l r a pos cnt, cpl_loop a l r pos cnt = le_pos a (blcp l r) pos cnt.
Proof.
  induction l as [|x l IH]; intros [|y r] a pos cnt; cbn [cpl_loop blcp le_pos]; try reflexivity.
  destruct (x =? y) eqn:E; [|reflexivity]. cbn [le_pos]. destruct (push a x) as [a' o]. apply IH.
Qed.

Lemma le_pos_char a c rest pos cnt : wf_char c -> le_pos a (c ++ rest) pos cnt = le_pos acc0 rest (cnt + length c) (cnt + length c).
Proof.
  intros Hw.
  destruct c as [|x [|y [|z [|w [|v t]]]]]; cbn [wf_char] in Hw; try contradiction; cbn [app le_pos length].
  - rewrite push_ascii by lia. f_equal; lia.
  - destruct Hw as (H1 & H2 & H3). rewrite push_l2 by lia.
    rewrite push_c_last1; [f_equal; lia|exact H3|unfold second_ok; pushc].
  - destruct Hw as (H1 & H3). rewrite push_l3 by (unfold cont in *; lia).
    assert (Hy : cont y) by (unfold cont in *; lia).
    rewrite push_c_mid1; [|exact Hy|unfold second_ok; pushc].
    rewrite push_c_last by exact H3. f_equal; lia.
  - destruct Hw as (H1 & H3 & H4). rewrite push_l4 by (unfold cont in *; lia).
    assert (Hy : cont y) by (unfold cont in *; lia).
    rewrite push_c_mid1; [|exact Hy|unfold second_ok; pushc].
    rewrite push_c_mid by exact H3. cbn [app].
    rewrite push_c_last by exact H4. f_equal; lia.
Qed.

(* a proper prefix of a well-formed char completes no character *)
Lemma le_pos_noemit : forall p a pos cnt, snd (run a p) = [] -> le_pos a p pos cnt = pos.
Proof.
  induction p as [|b r IH]; intros a pos cnt H; [reflexivity|]. cbn [le_pos]. cbn [run] in H.
  destruct (push a b) as [a' o]. destruct (run a' r) as [a2 l] eqn:E. cbn [snd] in H.
  destruct o; [discriminate|]. apply IH. rewrite E. exact H.
Qed.

Definition proper_prefix (p c : list N) : Prop := exists s, s <> [] /\ c = p ++ s.
Lemma run_proper_prefix p c : wf_char c -> proper_prefix p c -> snd (run acc0 p) = [].
Proof.
  intros Hw (s & Hs & ->).
  destruct p as [|x [|y [|z [|w q]]]]; [reflexivity| | | |].
  - destruct s as [|s1 [|s2 [|s3 [|s4 s']]]]; cbn [app wf_char] in Hw; try congruence; try contradiction; cbn [run]; unfold cont in *.
    + rewrite push_l2 by lia. reflexivity.
    + rewrite push_l3 by lia. reflexivity.
    + rewrite push_l4 by lia. reflexivity.
  - destruct s as [|s1 [|s2 [|s3 s']]]; cbn [app wf_char] in Hw; try congruence; try contradiction; cbn [run]; unfold cont in *.
    + rewrite push_l3 by lia. rewrite push_c_mid1; [reflexivity|unfold cont; lia|unfold second_ok; pushc].
    + rewrite push_l4 by lia. rewrite push_c_mid1; [reflexivity|unfold cont; lia|unfold second_ok; pushc].
  - destruct s as [|s1 [|s2 s']]; cbn [app wf_char] in Hw; try congruence; try contradiction; cbn [run]; unfold cont in *.
    rewrite push_l4 by lia. rewrite push_c_mid1; [|unfold cont; lia|unfold second_ok; pushc].
    rewrite push_c_mid by (unfold cont; lia). reflexivity.
  - destruct s as [|s1 s']; [congruence|]. cbn [app wf_char] in Hw. destruct q; cbn in Hw; contradiction.
Qed.

(* prefix-freeness: the first byte determines the length *)
Lemma wf_len_lead c : wf_char c -> length c = lead_len (hd 0 c).
Proof.
  destruct c as [|x [|y [|z [|w [|v t]]]]]; cbn [wf_char hd length]; unfold cont, lead_len; intros H; try contradiction; brk; lia.
Qed.
Lemma wf_prefix_free c d s t : wf_char c -> wf_char d -> c ++ s = d ++ t -> c = d.
Proof.
  intros Hc Hd E.
  assert (L : length c = length d).
  { rewrite (wf_len_lead c Hc), (wf_len_lead d Hd).
    destruct c as [|x c']; [cbn in Hc; contradiction|]. destruct d as [|y d']; [cbn in Hd; contradiction|].
    cbn in E. injection E as -> _. reflexivity. }
  apply (f_equal (firstn (length c))) in E. rewrite firstn_app, Nat.sub_diag, firstn_all in E. cbn in E. rewrite app_nil_r in E.
  rewrite L, firstn_app, Nat.sub_diag, firstn_all in E. cbn in E. rewrite app_nil_r in E. exact E.
Qed.

Lemma blcp_same p l r : blcp (p ++ l) (p ++ r) = p ++ blcp l r.
Proof. induction p as [|x p IH]; [reflexivity|]. cbn. rewrite N.eqb_refl, IH. reflexivity. Qed.
Lemma blcp_prefix_l : forall l r, exists s, l = blcp l r ++ s.
Proof. induction l as [|x l IH]; intros [|y r]; cbn; try (eexists; reflexivity).
  destruct (x =? y); [|eexists; reflexivity]. destruct (IH r) as [s Hs]. exists s. cbn. f_equal. exact Hs. Qed.
Lemma blcp_prefix_r : forall l r, exists s, r = blcp l r ++ s.
Proof. induction l as [|x l IH]; intros [|y r]; cbn; try (eexists; reflexivity).
  destruct (x =? y) eqn:E; [|eexists; reflexivity]. apply N.eqb_eq in E. subst. destruct (IH r) as [s Hs]. exists s. cbn. f_equal. exact Hs. Qed.
Lemma blcp_len_le_l l r : (length (blcp l r) <= length l)%nat.
Proof. destruct (blcp_prefix_l l r) as [s Hs]. rewrite Hs at 2. rewrite app_length. lia. Qed.

(* two different well-formed chars: their common byte prefix (with anything after them) is a proper prefix of the first *)
Lemma blcp_diff_chars c d l r : wf_char c -> wf_char d -> c <> d -> proper_prefix (blcp (c ++ l) (d ++ r)) c.
Proof.
  intros Hc Hd Hne. set (p := blcp (c ++ l) (d ++ r)).
  destruct (blcp_prefix_l (c ++ l) (d ++ r)) as [s1 H1]. destruct (blcp_prefix_r (c ++ l) (d ++ r)) as [s2 H2]. fold p in H1, H2.
  destruct (Nat.lt_ge_cases (length p) (length c)) as [Hlt|Hge].
  - (* p shorter than c: p is a prefix of c *)
    exists (skipn (length p) c). split.
    + intros E. apply (f_equal (@length N)) in E. rewrite skipn_length in E. cbn in E. lia.
    + apply (f_equal (firstn (length p))) in H1. rewrite firstn_app in H1.
      replace (length p - length c)%nat with O in H1 by lia. cbn in H1. rewrite app_nil_r in H1.
      rewrite firstn_app, Nat.sub_diag, firstn_all in H1. cbn in H1. rewrite app_nil_r in H1.
      rewrite <- H1 at 1. symmetry. apply firstn_skipn.
  - (* p at least as long as c: then c is a prefix of d ++ r, so c = d *)
    exfalso. apply Hne.
    assert (Ec : c = firstn (length c) p).
    { apply (f_equal (firstn (length c))) in H1. rewrite firstn_app, Nat.sub_diag, firstn_all in H1. cbn in H1. rewrite app_nil_r in H1.
      rewrite firstn_app in H1. replace (length c - length p)%nat with O in H1 by lia. cbn in H1. rewrite app_nil_r in H1. exact H1. }
    assert (Ed : d ++ r = c ++ (skipn (length c) p ++ s2)).
    { rewrite H2. rewrite Ec at 1. rewrite app_assoc, firstn_skipn. reflexivity. }
    symmetry. eapply wf_prefix_free; [exact Hd|exact Hc|exact Ed].
Qed.

Lemma le_pos_concat : forall cs q cnt, Forall wf_char cs -> snd (run acc0 q) = [] ->
  le_pos acc0 (concat cs ++ q) cnt cnt = (cnt + length (concat cs))%nat.
Proof.
  induction cs as [|c cs IH]; intros q cnt H Hq.
  - cbn. rewrite le_pos_noemit by exact Hq. lia.
  - inversion H as [|? ? Hc Hcs]; subst. cbn [concat]. rewrite <- app_assoc. rewrite le_pos_char by exact Hc.
    rewrite IH by assumption. rewrite app_length. lia.
Qed.

Lemma blcp_nil_r l : blcp l [] = [].
Proof. destruct l; reflexivity. Qed.

Lemma blcp_concat : forall a b, Forall wf_char a -> Forall wf_char b ->
  exists q, blcp (concat a) (concat b) = concat (lcp2 a b) ++ q /\ snd (run acc0 q) = [].
Proof.
  induction a as [|c a IH]; intros b Ha Hb.
  - exists []. split; reflexivity.
  - destruct b as [|d b].
    + exists []. cbn [concat lcp2]. rewrite blcp_nil_r. split; reflexivity.
    + inversion Ha as [|? ? Hc Ha']; subst. inversion Hb as [|? ? Hd Hb']; subst.
      cbn [lcp2 concat]. destruct (list_eqb c d) eqn:E.
      * apply list_eqb_spec in E. subst d. rewrite blcp_same. destruct (IH b Ha' Hb') as (q & Hq1 & Hq2).
        exists q. split; [|exact Hq2]. rewrite Hq1. cbn [concat]. rewrite app_assoc. reflexivity.
      * assert (Hne : c <> d) by (intros ->; rewrite list_eqb_refl in E; discriminate).
        exists (blcp (c ++ concat a) (d ++ concat b)). split; [reflexivity|].
        eapply run_proper_prefix; [exact Hc|]. apply blcp_diff_chars; assumption.
Qed.

Theorem cpl_spec a b : Forall wf_char a -> Forall wf_char b ->
  common_prefix_len (concat a) (concat b) = length (concat (lcp2 a b)).
Proof.
  intros Ha Hb. unfold common_prefix_len. rewrite cpl_le_pos.
  destruct (blcp_concat a b Ha Hb) as (q & Hq1 & Hq2). rewrite Hq1.
  rewrite le_pos_concat; [reflexivity| |exact Hq2].
  clear -Ha. revert b. induction a as [|c a IH]; intros [|d b]; cbn [lcp2]; try constructor.
  inversion Ha; subst. destruct (list_eqb c d); constructor; auto.
Qed.

(* ---------- trim_start *)
Lemma trim_start_spec t : exists n, t = repeat 32 n ++ trim_start t /\ hd_error (trim_start t) <> Some 32.
Proof.
  induction t as [|b r IH]; [exists O; split; [reflexivity|discriminate]|].
  cbn [trim_start]. destruct (b =? 32) eqn:E.
  - apply N.eqb_eq in E. subst. destruct IH as (n & H1 & H2). exists (S n). split; [cbn; f_equal; exact H1|exact H2].
  - exists O. split; [reflexivity|]. cbn. intros [= ->]. rewrite N.eqb_refl in E. discriminate.
Qed.
