From EC Require Import Base Model.History Spec.HistSpec Proofs.ListFacts.

(* ---------- representation *)
Definition enc (es : list (list N)) : list N := flat_map (fun e => e ++ [0]) es.
Definition nul_free (e : list N) : Prop := Forall (fun b => b <> 0) e.
Definition good (e : list N) : Prop := e <> [] /\ nul_free e.
Definition offset (es : list (list N)) (i : nat) : nat := length (enc (firstn i es)).

Definition HRep (cp : nat) (h : history) (sp : hspec) : Prop :=
  hcap h = cp /\ hbuf h = enc (ents sp) /\ Forall good (ents sp) /\ NoDup (ents sp) /\ (length (enc (ents sp)) <= cp)%nat /\
  match pos sp, hcur h with
  | None, None => True
  | Some i, Some c => (i < length (ents sp))%nat /\ c = offset (ents sp) i
  | _, _ => False
  end.

Lemma enc_app a b : enc (a ++ b) = enc a ++ enc b.
Proof. unfold enc. apply flat_map_app. Qed.
Lemma enc_cons e es : enc (e :: es) = e ++ 0 :: enc es.
Proof. unfold enc. cbn. rewrite <- app_assoc. reflexivity. Qed.
Lemma total_cons e es : total (e :: es) = (esize e + total es)%nat.
Proof. reflexivity. Qed.
Lemma enc_total es : length (enc es) = total es.
Proof. induction es as [|e es IH]; [reflexivity|]. rewrite enc_cons, app_length, total_cons. cbn [length]. unfold esize. lia. Qed.

Lemma position0_nulfree e : nul_free e -> position0 e = None.
Proof. induction 1 as [|b e Hb He IH]; [reflexivity|]. cbn. destruct (b =? 0) eqn:E; [apply N.eqb_eq in E; congruence|]. rewrite IH. reflexivity. Qed.
Lemma position0_at e r : nul_free e -> position0 (e ++ 0 :: r) = Some (length e).
Proof. induction 1 as [|b e Hb He IH]; [reflexivity|]. cbn. destruct (b =? 0) eqn:E; [apply N.eqb_eq in E; congruence|]. rewrite IH. reflexivity. Qed.

Lemma slice_spec (l : list N) a b : (a <= b)%nat -> (b <= length l)%nat -> slice l a b = Some (firstn (b - a) (skipn a l)).
Proof. intros H1 H2. unfold slice. destruct (Nat.leb_spec a b); [|lia]. destruct (Nat.leb_spec b (length l)); [|lia]. reflexivity. Qed.

Lemma slice_mid (pre e post : list N) : slice (pre ++ e ++ post) (length pre) (length pre + length e) = Some e.
Proof.
  rewrite slice_spec by (rewrite ?app_length; lia). rewrite skipn_app, Nat.sub_diag, skipn_all. cbn [app skipn].
  replace (length pre + length e - length pre)%nat with (length e) by lia. rewrite firstn_app, Nat.sub_diag, firstn_all. cbn. rewrite app_nil_r. reflexivity.
Qed.
Lemma slice_prefix (pre post : list N) : slice (pre ++ post) 0 (length pre) = Some pre.
Proof. rewrite slice_spec by (rewrite ?app_length; lia). cbn [skipn]. rewrite Nat.sub_0_r, firstn_app, Nat.sub_diag, firstn_all. cbn. rewrite app_nil_r. reflexivity. Qed.

Lemma enc_ends_nul es : es <> [] -> exists pre, enc es = pre ++ [0].
Proof.
  induction es as [|e es IH]; [congruence|]. intros _. rewrite enc_cons. destruct es as [|e2 es'].
  - exists e. reflexivity.
  - destruct IH as [pre Hp]; [congruence|]. exists (e ++ 0 :: pre). rewrite Hp, <- app_assoc. reflexivity.
Qed.

(* entry i and the text around it *)
Lemma enc_split es i e : nth_error es i = Some e -> enc es = enc (firstn i es) ++ e ++ 0 :: enc (skipn (S i) es).
Proof.
  revert i. induction es as [|x es IH]; intros [|i] H; cbn in H; try discriminate.
  - injection H as ->. cbn [firstn skipn]. rewrite enc_cons. reflexivity.
  - cbn [firstn skipn]. rewrite !enc_cons, (IH i H), <- app_assoc. reflexivity.
Qed.
Lemma offset_S es i e : nth_error es i = Some e -> offset es (S i) = (offset es i + length e + 1)%nat.
Proof.
  intros H. unfold offset.
  rewrite (firstn_S_nth es i e H), enc_app, app_length. change (enc [e]) with ((e ++ [0]) ++ []). rewrite app_nil_r, app_length. cbn [length]. lia.
Qed.
Lemma offset_0 es : offset es 0 = 0%nat. Proof. reflexivity. Qed.
Lemma offset_all es : offset es (length es) = length (enc es).
Proof. unfold offset. rewrite firstn_all. reflexivity. Qed.
Lemma offset_le es i : (offset es i <= length (enc es))%nat.
Proof. unfold offset. rewrite <- (firstn_skipn i es) at 2. rewrite enc_app, app_length. lia. Qed.

Lemma good_nth es i e : Forall good es -> nth_error es i = Some e -> good e.
Proof. intros H Hn. eapply Forall_forall; [exact H|eapply nth_error_In; exact Hn]. Qed.

(* ---------- next_older from byte offset c = offset (S j): lands on entry j *)
Lemma older_from es j e cp c cur0 : Forall good es -> nth_error es j = Some e -> c = offset es (S j) ->
  (cur0 = Some c \/ (cur0 = None /\ S j = length es)) ->
  hist_older {| hcap := cp; hbuf := enc es; hcur := cur0 |}
  = Some ({| hcap := cp; hbuf := enc es; hcur := Some (offset es j) |}, Some e).
Proof.
  intros Hg Hn Hc Hcur. destruct (good_nth _ _ _ Hg Hn) as [Hne Hnf].
  pose proof (offset_S es j e Hn) as HS.
  assert (Hstart : (match cur0 with Some c0 => if Nat.ltb 0 c0 then Some c0 else None
                    | None => if Nat.ltb 0 (length (enc es)) then Some (length (enc es)) else None end) = Some c).
  { destruct Hcur as [->|[-> Hl]].
    - destruct (Nat.ltb_spec 0 c); [reflexivity|lia].
    - rewrite Hc, Hl, offset_all. destruct (Nat.ltb_spec 0 (length (enc es))); [reflexivity|].
      rewrite <- offset_all, <- Hl in H. lia. }
  unfold hist_older. cbn [hbuf hcur hcap]. rewrite Hstart.
  rewrite (enc_split es j e Hn).
  set (pre := enc (firstn j es)). set (post := enc (skipn (S j) es)).
  assert (Hpl : length pre = offset es j) by reflexivity.
  assert (Hc1 : (c - 1 = length pre + length e)%nat) by lia.
  rewrite Hc1.
  replace (pre ++ e ++ 0 :: post) with ((pre ++ e) ++ 0 :: post) by (rewrite <- app_assoc; reflexivity).
  replace (length pre + length e)%nat with (length (pre ++ e)) by (rewrite app_length; reflexivity).
  rewrite slice_prefix. cbn [obind].
  rewrite rev_app_distr.
  assert (Hnc : (match position0 (rev e ++ rev pre) with Some p => (length (pre ++ e) - p)%nat | None => O end) = length pre).
  { destruct j as [|j'].
    - subst pre. cbn [firstn enc flat_map rev]. rewrite app_nil_r, position0_nulfree; [reflexivity|]. unfold nul_free. apply Forall_rev. exact Hnf.
    - destruct (enc_ends_nul (firstn (S j') es)) as [p Hp].
      { intros E. apply (f_equal (@length _)) in E. rewrite firstn_length in E. cbn [length] in E.
        assert (S j' < length es)%nat by (apply nth_error_Some; congruence). lia. }
      fold pre in Hp. rewrite Hp, rev_app_distr. cbn [rev app]. rewrite position0_at by (apply Forall_rev; exact Hnf).
      rewrite rev_length, !app_length. cbn. lia. }
  rewrite Hnc. rewrite <- app_assoc.
  replace (length (pre ++ e)) with (length pre + length e)%nat by (rewrite app_length; reflexivity).
  replace (pre ++ e ++ 0 :: post) with (pre ++ e ++ (0 :: post)) by reflexivity.
  rewrite slice_mid. cbn [obind]. rewrite Hpl. reflexivity.
Qed.

Lemma older_none_start es cp : hist_older {| hcap := cp; hbuf := enc es; hcur := Some 0%nat |} = Some ({| hcap := cp; hbuf := enc es; hcur := Some 0%nat |}, None).
Proof. reflexivity. Qed.
Lemma older_none_empty cp : hist_older {| hcap := cp; hbuf := enc []; hcur := None |} = Some ({| hcap := cp; hbuf := enc []; hcur := None |}, None).
Proof. reflexivity. Qed.

Lemma firstn_removelast_app (a : list N) x : firstn (length a) (a ++ [x]) = a.
Proof. rewrite firstn_app, Nat.sub_diag, firstn_all. cbn. apply app_nil_r. Qed.

Lemma skipn_app_exact (a b : list N) : skipn (length a) (a ++ b) = b.
Proof. rewrite skipn_app, Nat.sub_diag, skipn_all. reflexivity. Qed.
Lemma firstn_app_exact (a b : list N) : firstn (length a) (a ++ b) = a.
Proof. rewrite firstn_app, Nat.sub_diag, firstn_all. cbn. apply app_nil_r. Qed.

(* ---------- next_newer on explicit buffers *)
Lemma newer_raw_next pre e e2 post cp : nul_free e -> nul_free e2 ->
  hist_newer {| hcap := cp; hbuf := pre ++ e ++ 0 :: e2 ++ 0 :: post; hcur := Some (length pre) |}
  = Some ({| hcap := cp; hbuf := pre ++ e ++ 0 :: e2 ++ 0 :: post; hcur := Some (length pre + length e + 1)%nat |}, Some e2).
Proof.
  intros Hnf Hnf2. unfold hist_newer. cbn [hbuf hcur hcap].
  set (buf := pre ++ e ++ 0 :: e2 ++ 0 :: post).
  assert (Hl : length buf = (length pre + length e + 1 + length e2 + 1 + length post)%nat).
  { subst buf. rewrite !app_length. cbn [length]. rewrite !app_length. cbn [length]. lia. }
  destruct (Nat.eqb_spec (length buf) 0%nat) as [E0|_]; [lia|].
  rewrite slice_spec by lia.
  assert (Hsk : skipn (length pre) buf = e ++ 0 :: e2 ++ 0 :: post) by (subst buf; apply skipn_app_exact).
  rewrite Hsk.
  assert (Hfl : exists tail, firstn (length buf - 1 - length pre) (e ++ 0 :: e2 ++ 0 :: post) = e ++ 0 :: tail).
  { rewrite firstn_app. replace (length buf - 1 - length pre - length e)%nat with (S (length e2 + length post)) by lia.
    rewrite firstn_all2 by lia. cbn [firstn]. eexists. reflexivity. }
  destruct Hfl as [tail Hfl]. rewrite Hfl. cbn [obind]. rewrite position0_at by exact Hnf.
  destruct (Nat.ltb_spec (length buf) (length pre + length e + 1)) as [Hbad|_]; [lia|].
  assert (Hsk2 : skipn (length pre + length e + 1) buf = e2 ++ 0 :: post).
  { subst buf. replace (pre ++ e ++ 0 :: e2 ++ 0 :: post) with ((pre ++ e ++ [0]) ++ e2 ++ 0 :: post) by (rewrite <- !app_assoc; reflexivity).
    replace (length pre + length e + 1)%nat with (length (pre ++ e ++ [0])) by (rewrite !app_length; cbn [length]; lia). apply skipn_app_exact. }
  rewrite Hsk2, position0_at by exact Hnf2.
  subst buf. replace (pre ++ e ++ 0 :: e2 ++ 0 :: post) with ((pre ++ e ++ [0]) ++ e2 ++ 0 :: post) by (rewrite <- !app_assoc; reflexivity).
  replace (length pre + length e + 1)%nat with (length (pre ++ e ++ [0])) by (rewrite !app_length; cbn [length]; lia).
  rewrite slice_mid. reflexivity.
Qed.
Lemma newer_raw_last pre e cp : nul_free e ->
  hist_newer {| hcap := cp; hbuf := pre ++ e ++ [0]; hcur := Some (length pre) |}
  = Some ({| hcap := cp; hbuf := pre ++ e ++ [0]; hcur := None |}, None).
Proof.
  intros Hnf. unfold hist_newer. cbn [hbuf hcur hcap].
  assert (Hl : length (pre ++ e ++ [0]) = (length pre + length e + 1)%nat) by (rewrite !app_length; cbn [length]; lia).
  destruct (Nat.eqb_spec (length (pre ++ e ++ [0%N])) 0%nat) as [E0|_]; [lia|].
  rewrite slice_spec by lia. rewrite skipn_app_exact.
  rewrite Hl. replace (length pre + length e + 1 - 1 - length pre)%nat with (length e) by lia. rewrite firstn_app_exact. cbn [obind].
  rewrite position0_nulfree by exact Hnf. reflexivity.
Qed.

Lemma skipn_nth_cons {A} : forall (es : list A) k x, nth_error es k = Some x -> skipn k es = x :: skipn (S k) es.
Proof. induction es as [|a es IH]; intros [|k] x H; cbn in H; try discriminate; [injection H as ->; reflexivity|]. cbn [skipn]. apply IH, H. Qed.

(* ---------- next_newer from entry i *)
Lemma newer_from es i e cp : Forall good es -> nth_error es i = Some e ->
  hist_newer {| hcap := cp; hbuf := enc es; hcur := Some (offset es i) |}
  = match nth_error es (S i) with
    | Some e2 => Some ({| hcap := cp; hbuf := enc es; hcur := Some (offset es (S i)) |}, Some e2)
    | None => Some ({| hcap := cp; hbuf := enc es; hcur := None |}, None)
    end.
Proof.
  intros Hg Hn. destruct (good_nth _ _ _ Hg Hn) as [Hne Hnf].
  pose proof (enc_split es i e Hn) as Hs. pose proof (offset_S es i e Hn) as HS.
  destruct (nth_error es (S i)) as [e2|] eqn:En2.
  - destruct (good_nth _ _ _ Hg En2) as [Hne2 Hnf2].
    rewrite (skipn_nth_cons es (S i) e2 En2), enc_cons in Hs.
    rewrite Hs, HS. unfold offset. apply newer_raw_next; assumption.
  - assert (Hlast : skipn (S i) es = []) by (apply skipn_all2, nth_error_None, En2).
    rewrite Hlast in Hs. cbn [enc flat_map] in Hs. rewrite Hs. unfold offset. apply newer_raw_last; assumption.
Qed.

Lemma HRep_init cp : HRep cp (hist_new cp) hspec0.
Proof. unfold HRep, hist_new, hspec0. cbn. repeat split; try constructor; lia. Qed.

Lemma good_offset_pos es i e : Forall good es -> nth_error es i = Some e -> (0 < offset es (S i))%nat.
Proof. intros Hg Hn. rewrite (offset_S es i e Hn). lia. Qed.

Theorem older_refines cp h sp : HRep cp h sp ->
  exists h', hist_older h = Some (h', snd (hs_older sp)) /\ HRep cp h' (fst (hs_older sp)).
Proof.
  intros (Hc & Hb & Hg & Hnd & Hfit & Hpos). destruct h as [c0 buf cur]. cbn [hcap hbuf hcur] in *. subst c0 buf.
  unfold hs_older. destruct (pos sp) as [i|] eqn:Ep.
  - destruct cur as [c|]; [|contradiction]. destruct Hpos as [Hi ->].
    destruct i as [|i'].
    + rewrite offset_0, older_none_start. eexists. split; [reflexivity|]. cbn [fst]. unfold HRep. cbn [hcap hbuf hcur]. rewrite Ep. auto 10.
    + destruct (nth_error (ents sp) i') as [e|] eqn:En; [|apply nth_error_None in En; lia].
      rewrite (older_from (ents sp) i' e cp (offset (ents sp) (S i')) _ Hg En eq_refl (or_introl eq_refl)).
      eexists. split; [reflexivity|]. cbn [fst]. unfold HRep. cbn [hcap hbuf hcur ents pos]. repeat split; auto. lia.
  - destruct cur as [c|]; [contradiction|].
    destruct (length (ents sp)) as [|k] eqn:El.
    + destruct (ents sp) eqn:Ee; [|discriminate]. rewrite older_none_empty. eexists. split; [reflexivity|].
      cbn [fst]. unfold HRep. cbn [hcap hbuf hcur]. rewrite Ep, Ee. repeat split; auto; constructor.
    + destruct (nth_error (ents sp) k) as [e|] eqn:En; [|apply nth_error_None in En; lia].
      rewrite (older_from (ents sp) k e cp (offset (ents sp) (S k)) None Hg En eq_refl); [|right; split; [reflexivity|lia]].
      eexists. split; [reflexivity|]. cbn [fst]. unfold HRep. cbn [hcap hbuf hcur ents pos]. repeat split; auto. lia.
Qed.

Theorem newer_refines cp h sp : HRep cp h sp ->
  exists h', hist_newer h = Some (h', snd (hs_newer sp)) /\ HRep cp h' (fst (hs_newer sp)).
Proof.
  intros (Hc & Hb & Hg & Hnd & Hfit & Hpos). destruct h as [c0 buf cur]. cbn [hcap hbuf hcur] in *. subst c0 buf.
  unfold hs_newer. destruct (pos sp) as [i|] eqn:Ep.
  - destruct cur as [c|]; [|contradiction]. destruct Hpos as [Hi ->].
    destruct (nth_error (ents sp) i) as [e|] eqn:En; [|apply nth_error_None in En; lia].
    rewrite (newer_from (ents sp) i e cp Hg En).
    destruct (Nat.ltb_spec (S i) (length (ents sp))) as [Hlt|Hge].
    + destruct (nth_error (ents sp) (S i)) as [e2|] eqn:En2; [|apply nth_error_None in En2; lia].
      eexists. split; [reflexivity|]. cbn [fst]. unfold HRep. cbn [hcap hbuf hcur ents pos]. repeat split; auto.
    + destruct (nth_error (ents sp) (S i)) as [e2|] eqn:En2; [assert (S i < length (ents sp))%nat by (apply nth_error_Some; congruence); lia|].
      eexists. split; [reflexivity|]. cbn [fst]. unfold HRep. cbn [hcap hbuf hcur ents pos]. repeat split; auto.
  - destruct cur as [c|]; [contradiction|]. eexists. split; [reflexivity|]. cbn [fst]. unfold HRep. cbn [hcap hbuf hcur]. rewrite Ep. auto 10.
Qed.

(* ---------- push *)
Lemma acceptable_model cp t :
  (existsb (fun b => b =? 0) t || Nat.ltb cp (length t + 1) || (match t with [] => true | _ => false end)) = negb (acceptable cp t).
Proof.
  unfold acceptable, esize. destruct (existsb (fun b => b =? 0) t); [reflexivity|]. cbn [negb orb andb].
  destruct (Nat.ltb_spec cp (length t + 1)), (Nat.leb_spec (S (length t)) cp); try lia; cbn; destruct t; reflexivity.
Qed.
Lemma acceptable_good cp t : acceptable cp t = true -> good t /\ (esize t <= cp)%nat.
Proof.
  unfold acceptable. intros H. apply andb_true_iff in H as [H H3]. apply andb_true_iff in H as [H1 H2].
  split; [split|].
  - destruct t; [discriminate|congruence].
  - apply negb_true_iff in H1. unfold nul_free. apply Forall_forall. intros b Hb Eb. subst b.
    assert (existsb (fun b => b =? 0) t = true) by (apply existsb_exists; exists 0; split; [exact Hb|reflexivity]). congruence.
  - apply Nat.leb_le. exact H2.
Qed.

Lemma evict_fits c es : (total es <= c)%nat -> evict c es = es.
Proof. destruct es as [|e es]; [reflexivity|]. intros H. cbn [evict]. destruct (Nat.leb_spec (total (e :: es)) c); [reflexivity|lia]. Qed.
Lemma evict_total c es : (total (evict c es) <= c)%nat.
Proof. induction es as [|e es IH]; [cbn; lia|]. cbn [evict]. destruct (Nat.leb_spec (total (e :: es)) c); [assumption|exact IH]. Qed.
Lemma evict_suffix c es : exists m, evict c es = skipn m es.
Proof. induction es as [|e es IH]; [exists O; reflexivity|]. cbn [evict]. destruct (Nat.leb (total (e :: es)) c); [exists O; reflexivity|].
  destruct IH as [m Hm]. exists (S m). exact Hm. Qed.

Lemma remove_entry_notin t es : ~ In t es -> remove_entry t es = es.
Proof. induction es as [|e es IH]; intros H; [reflexivity|]. cbn. destruct (list_eqb e t) eqn:E.
  - apply list_eqb_spec in E. subst. exfalso. apply H. left. reflexivity.
  - rewrite IH; [reflexivity|]. intros Hi. apply H. right. exact Hi. Qed.
Lemma remove_entry_at t : forall es m, NoDup es -> nth_error es m = Some t -> remove_entry t es = firstn m es ++ skipn (S m) es.
Proof.
  induction es as [|e es IH]; intros [|m] Hnd Hn; cbn in Hn; try discriminate.
  - injection Hn as ->. cbn. rewrite list_eqb_refl. reflexivity.
  - inversion Hnd as [|? ? Hni Hnd']; subst. cbn [remove_entry]. destruct (list_eqb e t) eqn:E.
    + apply list_eqb_spec in E. subst. exfalso. apply Hni. eapply nth_error_In. exact Hn.
    + cbn [firstn skipn app]. f_equal. apply IH; assumption.
Qed.
Lemma remove_entry_sub t es x : In x (remove_entry t es) -> In x es.
Proof. induction es as [|e es IH]; cbn; [auto|]. destruct (list_eqb e t); cbn; intuition. Qed.
Lemma remove_entry_nodup t es : NoDup es -> NoDup (remove_entry t es) /\ ~ In t (remove_entry t es).
Proof.
  induction 1 as [|e es Hni Hnd IH]; [split; [constructor|auto]|]. cbn. destruct (list_eqb e t) eqn:E.
  - apply list_eqb_spec in E. subst. auto.
  - destruct IH as [I1 I2]. split.
    + constructor; [|exact I1]. intros Hi. apply Hni. eapply remove_entry_sub. exact Hi.
    + intros [->|Hi]; [rewrite list_eqb_refl in E; discriminate|auto].
Qed.
Lemma remove_entry_good t es : Forall good es -> Forall good (remove_entry t es).
Proof. intros H. apply Forall_forall. intros x Hx. eapply Forall_forall; [exact H|]. eapply remove_entry_sub. exact Hx. Qed.
Lemma remove_entry_total t es : (total (remove_entry t es) <= total es)%nat.
Proof. induction es as [|e es IH]; [cbn; lia|]. cbn [remove_entry]. destruct (list_eqb e t); rewrite !total_cons; lia. Qed.

(* removing entry m from the byte buffer *)
Lemma enc_remove es m e : nth_error es m = Some e ->
  firstn (offset es m) (enc es) ++ skipn (offset es m + length e + 1) (enc es) = enc (firstn m es ++ skipn (S m) es).
Proof.
  intros Hn. rewrite (enc_split es m e Hn) at 1 2. unfold offset. rewrite firstn_app_exact.
  replace (enc (firstn m es) ++ e ++ 0 :: enc (skipn (S m) es)) with ((enc (firstn m es) ++ e ++ [0]) ++ enc (skipn (S m) es)) by (rewrite <- !app_assoc; reflexivity).
  replace (length (enc (firstn m es)) + length e + 1)%nat with (length (enc (firstn m es) ++ e ++ [0])) by (rewrite !app_length; cbn [length]; lia).
  rewrite skipn_app_exact, enc_app. reflexivity.
Qed.

(* the loop that looks for an older duplicate, started with the cursor on entry j *)
Lemma dedup_scan es cp t : Forall good es -> NoDup es -> forall j fuel, (j < fuel)%nat -> (j < length es)%nat ->
  (forall i, (j <= i)%nat -> nth_error es i <> Some t) ->
  exists cur', push_dedup fuel {| hcap := cp; hbuf := enc es; hcur := Some (offset es j) |} t
             = Some {| hcap := cp; hbuf := enc (remove_entry t es); hcur := cur' |}.
Proof.
  intros Hg Hnd. induction j as [|j IH]; intros fuel Hf Hj Hno; (destruct fuel as [|f]; [lia|]); cbn [push_dedup].
  - rewrite offset_0, older_none_start. cbn [obind]. rewrite remove_entry_notin; [eexists; reflexivity|].
    intros Hi. apply In_nth_error in Hi as [i Hi]. apply (Hno i); [lia|exact Hi].
  - destruct (nth_error es j) as [e|] eqn:En; [|apply nth_error_None in En; lia].
    rewrite (older_from es j e cp (offset es (S j)) _ Hg En eq_refl (or_introl eq_refl)). cbn [obind].
    destruct (list_eqb e t) eqn:E.
    + apply list_eqb_spec in E. subst e. cbn [hcur hbuf hcap].
      pose proof (offset_S es j t En) as HS. pose proof (offset_le es (S j)) as Hle.
      destruct (Nat.ltb_spec (length (enc es)) (offset es j + length t + 1)); [lia|].
      rewrite (enc_remove es j t En), (remove_entry_at t es j Hnd En). eexists. reflexivity.
    + apply IH; [lia|lia|]. intros i Hi Hc. destruct (Nat.eq_dec i j) as [->|Hne].
      * rewrite En in Hc. injection Hc as ->. rewrite list_eqb_refl in E. discriminate.
      * apply (Hno i); [lia|exact Hc].
Qed.

Lemma total_pos_good es : Forall good es -> es <> [] -> (0 < total es)%nat.
Proof. destruct es as [|e es]; [congruence|]. intros _ _. rewrite total_cons. unfold esize. lia. Qed.
Lemma evict_zero es : Forall good es -> evict 0 es = [].
Proof.
  induction 1 as [|e es He Hes IH]; [reflexivity|]. cbn [evict]. rewrite total_cons. unfold esize.
  destruct (Nat.leb_spec (S (length e) + total es) 0); [lia|exact IH].
Qed.

(* eviction: freeing at least r bytes, whole entries, from the front *)
Lemma evict_scan : forall es r, Forall good es -> (1 <= r)%nat -> (r < total es)%nat ->
  exists p, position0 (firstn (total es - (r - 1)) (skipn (r - 1) (enc es))) = Some p /\
    (r + p <= total es)%nat /\
    (if Nat.ltb (r + p) (total es) then skipn (r + p) (enc es) else []) = enc (evict (total es - r) es).
Proof.
  induction es as [|e es IH]; intros r Hg H1 H2; [cbn in H2; lia|].
  inversion Hg as [|? ? [Hne Hnf] Hg']; subst. rewrite total_cons in *. unfold esize in *.
  assert (Hlen : length (enc (e :: es)) = (S (length e) + total es)%nat) by (rewrite enc_total, total_cons; reflexivity).
  rewrite firstn_all2 by (rewrite skipn_length; lia).
  destruct (Nat.le_gt_cases r (S (length e))) as [Hin|Hout].
  - (* the byte r-1 lies inside the first entry (or is its NUL) *)
    exists (length e - (r - 1))%nat.
    rewrite enc_cons. rewrite skipn_app. replace (r - 1 - length e)%nat with O by lia. cbn [skipn].
    rewrite position0_at by (apply Forall_skipn; exact Hnf). rewrite skipn_length. split; [reflexivity|]. split; [lia|].
    replace (r + (length e - (r - 1)))%nat with (S (length e)) by lia.
    cbn [evict]. rewrite total_cons. unfold esize. destruct (Nat.leb_spec (S (length e) + total es) (S (length e) + total es - r)); [lia|].
    rewrite evict_fits by lia.
    destruct (Nat.ltb_spec (S (length e)) (S (length e) + total es)).
    + replace (e ++ 0 :: enc es) with ((e ++ [0]) ++ enc es) by (rewrite <- app_assoc; reflexivity).
      replace (S (length e)) with (length (e ++ [0])) by (rewrite app_length; cbn; lia). apply skipn_app_exact.
    + destruct es as [|e2 es']; [reflexivity|]. inversion Hg'; subst. rewrite total_cons in *. unfold esize in *. lia.
  - (* beyond the first entry: drop it and continue *)
    destruct (IH (r - S (length e))%nat Hg') as (p & Hp1 & Hp2 & Hp3); [lia|lia|].
    rewrite firstn_all2 in Hp1 by (rewrite skipn_length, enc_total; lia).
    exists p. rewrite enc_cons.
    replace (e ++ 0 :: enc es) with ((e ++ [0]) ++ enc es) by (rewrite <- app_assoc; reflexivity).
    rewrite skipn_app. rewrite (skipn_all2 (e ++ [0])) by (rewrite app_length; cbn [length]; lia). cbn [app].
    replace (r - 1 - length (e ++ [0%N]))%nat with (r - S (length e) - 1)%nat by (rewrite app_length; cbn [length]; lia).
    rewrite Hp1. split; [reflexivity|]. split; [lia|].
    cbn [evict]. rewrite total_cons. unfold esize. destruct (Nat.leb_spec (S (length e) + total es) (S (length e) + total es - r)); [lia|].
    replace (S (length e) + total es - r)%nat with (total es - (r - S (length e)))%nat by lia.
    rewrite <- Hp3.
    destruct (Nat.ltb_spec (r + p) (S (length e) + total es)), (Nat.ltb_spec (r - S (length e) + p) (total es)); try lia; [|reflexivity].
    rewrite skipn_app. rewrite (skipn_all2 (e ++ [0])) by (rewrite app_length; cbn [length]; lia). cbn [app].
    f_equal. rewrite app_length. cbn [length]. lia.
Qed.

Lemma good_sub P (es es' : list (list N)) : (forall x, In x es' -> In x es) -> Forall P es -> Forall P es'.
Proof. intros H Hf. apply Forall_forall. intros x Hx. eapply Forall_forall; eauto. Qed.

Lemma len_le_enc es : (length es <= length (enc es))%nat.
Proof. induction es as [|e es IH]; [cbn; lia|]. rewrite enc_cons, app_length. cbn [length]. lia. Qed.
Lemma total_app a b : total (a ++ b) = (total a + total b)%nat.
Proof. induction a as [|x a IH]; [reflexivity|]. cbn [app]. rewrite !total_cons, IH. lia. Qed.
Lemma HRep_pushed cp es t : Forall good es -> NoDup es -> ~ In t es -> good t -> (total es + esize t <= cp)%nat ->
  HRep cp {| hcap := cp; hbuf := enc es ++ t ++ [0]; hcur := None |} {| ents := es ++ [t]; pos := None |}.
Proof.
  intros Hg Hnd Hni Ht Hfit. unfold HRep. cbn [hcap hbuf hcur ents pos]. repeat split; auto.
  - rewrite enc_app. cbn. rewrite app_nil_r. reflexivity.
  - apply Forall_app_intro; [exact Hg|constructor; [exact Ht|constructor]].
  - apply NoDup_app_intro_one; assumption.
  - rewrite enc_total, total_app, total_cons. change (total []) with O. lia.
Qed.

Theorem push_refines cp h sp t : HRep cp h sp ->
  exists h', hist_push h t = Some h' /\ HRep cp h' (hs_push cp sp t).
Proof.
  intros (Hc & Hb & Hg & Hnd & Hfit & Hpos). destruct h as [c0 buf cur]. cbn [hcap hbuf hcur] in *. subst c0 buf.
  unfold hist_push, hs_push. cbn [hcap hbuf hcur]. rewrite acceptable_model.
  destruct (acceptable cp t) eqn:Eacc; cbn [negb].
  2:{ eexists. split; [reflexivity|]. unfold HRep. cbn [hcap hbuf hcur]. auto 10. }
  destruct (acceptable_good cp t Eacc) as [Hgt Hsz]. unfold esize in Hsz.
  set (es := ents sp) in *.
  destruct (length es) as [|k] eqn:El.
  - (* empty history *)
    destruct es eqn:Ee; [|discriminate]. rewrite older_none_empty. cbn [obind].
    destruct (Nat.ltb_spec cp (length t + 1)); [lia|]. eexists. split; [reflexivity|].
    cbn [remove_entry evict app]. apply (HRep_pushed cp [] t); auto; try constructor; try (change (total []) with O; unfold esize; lia).
  - destruct (nth_error es k) as [e|] eqn:En; [|apply nth_error_None in En; lia].
    rewrite (older_from es k e cp (offset es (S k)) None Hg En eq_refl); [|right; split; [reflexivity|lia]]. cbn [obind fst].
    destruct (list_eqb e t) eqn:Eq.
    + (* already the newest *)
      apply list_eqb_spec in Eq. subst e. eexists. split; [reflexivity|].
      rewrite (remove_entry_at t es k Hnd En). rewrite (skipn_all2 es) by lia. rewrite app_nil_r.
      assert (Hes : es = firstn k es ++ [t]).
      { rewrite <- (firstn_skipn k es) at 1. rewrite (skipn_nth_cons es k t En), (skipn_all2 es (n:=S k)) by lia. reflexivity. }
      assert (Htot : (total (firstn k es) + esize t = total es)%nat).
      { rewrite Hes at 2. rewrite total_app, total_cons. change (total []) with O. lia. }
      rewrite evict_fits by (pose proof (enc_total es); unfold esize in *; lia). rewrite <- Hes.
      unfold HRep. cbn [hcap hbuf hcur ents pos]. auto 10.
    + (* look for an older duplicate, evict, append *)
      assert (Hno : forall i, (k <= i)%nat -> nth_error es i <> Some t).
      { intros i Hi Hc. destruct (Nat.eq_dec i k) as [->|Hne].
        - rewrite En in Hc. injection Hc as ->. rewrite list_eqb_refl in Eq. discriminate.
        - assert (i < length es)%nat by (apply nth_error_Some; congruence). lia. }
      destruct (dedup_scan es cp t Hg Hnd k (S (length (enc es))) ltac:(pose proof (len_le_enc es); lia) ltac:(lia) Hno) as [cur' Hd].
      rewrite Hd. cbn [obind hbuf hcap].
      set (es2 := remove_entry t es) in *.
      destruct (remove_entry_nodup t es Hnd) as [Hnd2 Hni2]. fold es2 in Hnd2, Hni2.
      pose proof (remove_entry_good t es Hg) as Hg2. fold es2 in Hg2.
      pose proof (remove_entry_total t es) as Ht2. fold es2 in Ht2.
      rewrite enc_total.
      assert (Hcap : (cp - esize t = cp - (length t + 1))%nat) by (unfold esize; lia).
      destruct (Nat.ltb_spec cp (total es2 + length t + 1)) as [Hfull|Hroom].
      * destruct (Nat.leb_spec (total es2) (total es2 + length t + 1 - cp)) as [Hall|Hpart].
        -- (* everything must go *)
           cbn [obind length app]. destruct (Nat.ltb_spec cp (0 + length t + 1)); [lia|].
           eexists. split; [reflexivity|].
           assert (E0 : (cp - esize t = 0)%nat) by (unfold esize; lia). rewrite E0, evict_zero by exact Hg2.
           apply (HRep_pushed cp [] t); auto; try constructor; try (change (total []) with O; unfold esize; lia).
        -- set (r := (total es2 + length t + 1 - cp)%nat) in *.
           destruct (Nat.eqb_spec r 0) as [|_]; [lia|].
           rewrite slice_spec by (rewrite ?enc_total; lia).
           destruct (evict_scan es2 r Hg2 ltac:(lia) ltac:(lia)) as (p & Hp1 & Hp2 & Hp3).
           cbn [obind]. rewrite Hp1.
           replace (cp - esize t)%nat with (total es2 - r)%nat by (unfold esize; lia).
           set (buf3 := if Nat.ltb (r + p) (total es2) then skipn (r + p) (enc es2) else []) in *.
           assert (Hb3 : (if Nat.ltb (r + p) (total es2) then Some (skipn (r + p) (enc es2)) else Some []) = Some buf3) by (subst buf3; destruct (Nat.ltb (r + p) (total es2)); reflexivity).
           rewrite Hb3. cbn [obind]. subst buf3. rewrite Hp3.
           destruct (evict_suffix (total es2 - r) es2) as [m Hm].
           pose proof (evict_total (total es2 - r) es2) as Het. rewrite <- enc_total in Het at 1.
           destruct (Nat.ltb_spec cp (length (enc (evict (total es2 - r) es2)) + length t + 1)); [lia|].
           eexists. split; [reflexivity|].
           apply HRep_pushed; auto.
           ++ rewrite Hm. apply (good_sub _ es2); [intros x; apply In_skipn|exact Hg2].
           ++ rewrite Hm. apply NoDup_skipn, Hnd2.
           ++ rewrite Hm. intros Hi. apply Hni2. eapply In_skipn. exact Hi.
           ++ rewrite <- enc_total. unfold esize. lia.
      * (* room enough *)
        cbn [obind]. rewrite enc_total. destruct (Nat.ltb_spec cp (total es2 + length t + 1)); [lia|].
        eexists. split; [reflexivity|]. rewrite evict_fits by (unfold esize; lia).
        apply HRep_pushed; auto. unfold esize. lia.
Qed.

(* ---------- all operation sequences *)
Inductive hop_ := HPush (t : list N) | HOlder | HNewer.
Definition hist_step (h : history) (o : hop_) : option (history * option (list N)) :=
  match o with
  | HPush t => option_map (fun h' => (h', None)) (hist_push h t)
  | HOlder => hist_older h
  | HNewer => hist_newer h
  end.
Definition hs_step (cp : nat) (s : hspec) (o : hop_) : hspec * option (list N) :=
  match o with
  | HPush t => (hs_push cp s t, None)
  | HOlder => hs_older s
  | HNewer => hs_newer s
  end.
Theorem hist_step_refines cp h sp o : HRep cp h sp ->
  exists h', hist_step h o = Some (h', snd (hs_step cp sp o)) /\ HRep cp h' (fst (hs_step cp sp o)).
Proof.
  intros R. destruct o as [t| |]; cbn [hist_step hs_step fst snd].
  - destruct (push_refines cp h sp t R) as (h' & E & R'). exists h'. rewrite E. auto.
  - apply older_refines, R.
  - apply newer_refines, R.
Qed.

Fixpoint hist_run (h : history) (os : list hop_) : option (history * list (option (list N))) :=
  match os with
  | [] => Some (h, [])
  | o :: r => do x <- hist_step h o; do y <- hist_run (fst x) r; Some (fst y, snd x :: snd y)
  end.
Fixpoint hs_run (cp : nat) (s : hspec) (os : list hop_) : hspec * list (option (list N)) :=
  match os with
  | [] => (s, [])
  | o :: r => let '(s1, x) := hs_step cp s o in let '(s2, xs) := hs_run cp s1 r in (s2, x :: xs)
  end.
Theorem hist_run_refines cp : forall os h sp, HRep cp h sp ->
  exists h', hist_run h os = Some (h', snd (hs_run cp sp os)) /\ HRep cp h' (fst (hs_run cp sp os)).
Proof.
  induction os as [|o r IH]; intros h sp R; cbn [hist_run hs_run].
  - exists h. auto.
  - destruct (hist_step_refines cp h sp o R) as (h1 & E1 & R1). rewrite E1. cbn [obind fst snd].
    destruct (hs_step cp sp o) as [s1 x] eqn:Es. cbn [fst snd] in *.
    destruct (IH h1 s1 R1) as (h2 & E2 & R2). rewrite E2. cbn [obind fst snd].
    destruct (hs_run cp s1 r) as [s2 xs]. cbn [fst snd] in *. exists h2. auto.
Qed.

(* ---------- facts about the specification itself *)
Lemma evict_longest c : forall es m, evict c es = skipn m es -> (m <= length es)%nat -> Forall good es ->
  forall m', (m' < m)%nat -> (c < total (skipn m' es))%nat.
Proof.
  induction es as [|e es IH]; intros m H Hm Hg m' Hlt; [cbn in Hm; lia|].
  inversion Hg as [|? ? [Hne _] Hg']; subst.
  cbn [evict] in H. destruct (Nat.leb_spec (total (e :: es)) c) as [Hfit|Hno].
  - (* nothing evicted: m must be 0 *)
    destruct m as [|m]; [lia|]. cbn [skipn] in H. exfalso.
    assert (length (e :: es) = length (skipn m es)) by (rewrite H; reflexivity). rewrite skipn_length in H0. cbn [length] in H0. lia.
  - destruct m' as [|m']; [cbn [skipn]; lia|].
    destruct m as [|m]; [lia|]. cbn [skipn] in *. apply (IH m); auto; cbn [length] in Hm; lia.
Qed.
Lemma evict_m_le c es : exists m, evict c es = skipn m es /\ (m <= length es)%nat.
Proof. induction es as [|e es IH]; [exists O; split; [reflexivity|cbn; lia]|]. cbn [evict]. destruct (Nat.leb (total (e :: es)) c); [exists O; split; [reflexivity|lia]|].
  destruct IH as (m & Hm & Hl). exists (S m). split; [exact Hm|cbn; lia]. Qed.
