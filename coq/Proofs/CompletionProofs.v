(* C11: the fold of merge_autocompletion over the candidates computes the longest common continuation, cut to whole characters that
   fit; Editor::autocompletion with the derived scan + built-in help meets complete_spec. *)
From EC Require Import Base Generated.Codes Model.Utf8 Model.Utils Model.Editor Model.Cli Spec.Utf8Spec Spec.ArgSpec Spec.IdealEditor Spec.CompletionSpec
  Proofs.ListFacts Proofs.Utf8Proofs Proofs.UtilsProofs Proofs.ArgsProofs Proofs.EditorProofs.

(* ---------- A. character boundaries *)
Lemma wf_tail_cont c : wf_char c -> Forall (fun b => is_cont b = true) (tl c).
Proof. destruct c as [|x [|y [|z [|w [|v r]]]]]; cbn; unfold cont, is_cont; intros H; try contradiction; repeat constructor; lia. Qed.
Lemma wf_head_not_cont c : wf_char c -> is_cont (hd 0 c) = false.
Proof. destruct c as [|x [|y [|z [|w [|v r]]]]]; cbn; unfold cont, is_cont; intros H; try contradiction; lia. Qed.

Lemma fit_chars_fits room cs : (length (concat (fit_chars room cs)) <= room)%nat.
Proof. revert room. induction cs as [|c cs IH]; intros room; cbn [fit_chars]; [cbn; lia|]. destruct (Nat.leb_spec (length c) room); [|cbn; lia].
  cbn [concat]. rewrite app_length. specialize (IH (room - length c)%nat). lia. Qed.
Lemma fit_chars_all room cs : (length (concat cs) <= room)%nat -> fit_chars room cs = cs.
Proof. revert room. induction cs as [|c cs IH]; intros room H; [reflexivity|]. cbn [concat] in H. rewrite app_length in H. cbn [fit_chars].
  destruct (Nat.leb_spec (length c) room); [|lia]. f_equal. apply IH. lia. Qed.
Lemma fit_chars_prefix room cs : exists k, fit_chars room cs = firstn k cs.
Proof. revert room. induction cs as [|c cs IH]; intros room; [exists O; reflexivity|]. cbn [fit_chars]. destruct (Nat.leb (length c) room); [|exists O; reflexivity].
  destruct (IH (room - length c)%nat) as [k Hk]. exists (S k). cbn. rewrite Hk. reflexivity. Qed.
Lemma fit_chars_wf room cs : Forall wf_char cs -> Forall wf_char (fit_chars room cs).
Proof. intros H. destruct (fit_chars_prefix room cs) as [k ->]. apply Forall_firstn, H. Qed.
Lemma fit_chars_full_iff room cs : Forall wf_char cs ->
  (Nat.eqb (length (fit_chars room cs)) (length cs) = true <-> fit_chars room cs = cs).
Proof.
  intros _. destruct (fit_chars_prefix room cs) as [k Hk]. rewrite Hk. split.
  - intros H. apply Nat.eqb_eq in H. rewrite firstn_length in H. apply firstn_all2. lia.
  - intros H. rewrite H. apply Nat.eqb_refl.
Qed.
Lemma fit_chars_short room cs : Forall wf_char cs -> fit_chars room cs <> cs -> (length (concat (fit_chars room cs)) < length (concat cs))%nat.
Proof.
  revert room. induction cs as [|c cs IH]; intros room Hw Hne; [cbn in Hne; congruence|]. inversion Hw as [|? ? Hc Hcs]; subst.
  pose proof (wf_char_len c Hc) as Hl. cbn [fit_chars concat] in *. destruct (Nat.leb_spec (length c) room).
  - cbn [concat]. rewrite !app_length. assert (fit_chars (room - length c) cs <> cs) by congruence. specialize (IH _ Hcs H0). lia.
  - cbn. rewrite app_length. lia.
Qed.

Lemma lcp2_comm : forall a b, lcp2 a b = lcp2 b a.
Proof. induction a as [|x a IH]; intros [|y b]; cbn; try reflexivity. destruct (list_eqb x y) eqn:E.
  - apply list_eqb_spec in E. subst. rewrite list_eqb_refl, IH. reflexivity.
  - destruct (list_eqb y x) eqn:E2; [apply list_eqb_spec in E2; subst; rewrite list_eqb_refl in E; discriminate|reflexivity]. Qed.
Lemma lcp2_nil_r a : lcp2 a [] = []. Proof. destruct a; reflexivity. Qed.
Lemma lcp2_fit : forall L x room, lcp2 x (fit_chars room L) = fit_chars room (lcp2 x L).
Proof.
  induction L as [|l L IH]; intros x room; [rewrite !lcp2_nil_r; reflexivity|]. destruct x as [|y x]; [reflexivity|].
  cbn [fit_chars lcp2]. destruct (list_eqb y l) eqn:E.
  - apply list_eqb_spec in E. subst y. cbn [fit_chars]. destruct (Nat.leb (length l) room); [|reflexivity]. cbn [lcp2]. rewrite list_eqb_refl, IH. reflexivity.
  - destruct (Nat.leb (length l) room); [cbn [lcp2]; rewrite E|]; reflexivity.
Qed.
Lemma lcp2_prefix_l : forall a b, exists k, lcp2 a b = firstn k a.
Proof. induction a as [|x a IH]; intros [|y b]; try (exists O; reflexivity). cbn. destruct (list_eqb x y); [|exists O; reflexivity].
  destruct (IH b) as [k Hk]. exists (S k). cbn. rewrite Hk. reflexivity. Qed.
Lemma lcp2_wf a b : Forall wf_char a -> Forall wf_char (lcp2 a b).
Proof. intros H. destruct (lcp2_prefix_l a b) as [k ->]. apply Forall_firstn, H. Qed.

Lemma firstn_prefix_concat (x : list (list N)) k : firstn (length (concat (firstn k x))) (concat x) = concat (firstn k x).
Proof. apply firstn_concat_len. Qed.

(* is_char_boundary / fit_boundary on well-formed text *)
Lemma nth_error_in_char c rest i : wf_char c -> (0 < i)%nat -> (i < length c)%nat -> exists b, nth_error (c ++ rest) i = Some b /\ is_cont b = true.
Proof.
  intros Hc H0 Hi. pose proof (wf_tail_cont c Hc) as Ht. destruct c as [|x c']; [cbn in Hi; lia|]. cbn [tl length app] in *.
  destruct i as [|i]; [lia|]. cbn [nth_error]. rewrite nth_error_app1 by lia.
  destruct (nth_error c' i) as [b|] eqn:E; [|apply nth_error_None in E; lia]. exists b. split; [reflexivity|].
  rewrite Forall_forall in Ht. apply Ht. eapply nth_error_In; exact E.
Qed.
Lemma boundary_at_start (rest : list (list N)) : Forall wf_char rest -> forall pre : list N, is_char_boundary (pre ++ concat rest) (length pre) = true.
Proof.
  intros Hr pre. unfold is_char_boundary. destruct (Nat.eqb_spec (length pre) 0); [reflexivity|].
  rewrite nth_error_app2, Nat.sub_diag by lia. destruct rest as [|c rest'].
  - cbn. rewrite app_nil_r. apply Nat.eqb_refl.
  - inversion Hr; subst. pose proof (wf_head_not_cont c H1). destruct c as [|x c']; [cbn in H1; contradiction|]. cbn in *. rewrite H. reflexivity.
Qed.

Lemma fit_boundary_spec : forall cs i (pre : list N), Forall wf_char cs -> (i <= length (concat cs))%nat ->
  fit_boundary (pre ++ concat cs) (length pre + i) = (length pre + length (concat (fit_chars i cs)))%nat.
Proof.
  induction cs as [|c cs IH]; intros i pre Hw Hi.
  - cbn in Hi. assert (i = O) by lia. subst. cbn [concat fit_chars length]. rewrite !Nat.add_0_r.
    destruct pre as [|p pre']; [reflexivity|]. pose proof (boundary_at_start [] (Forall_nil _) (p :: pre')) as B. cbn [concat] in B.
    cbn [fit_boundary length] in *. rewrite B. reflexivity.
  - inversion Hw as [|? ? Hc Hcs]; subst. cbn [concat] in *. rewrite app_length in Hi.
    destruct (Nat.le_gt_cases (length c) i) as [Hge|Hlt].
    + (* whole first char fits: shift *)
      cbn [fit_chars]. destruct (Nat.leb_spec (length c) i); [|lia]. cbn [concat]. rewrite app_length.
      specialize (IH (i - length c)%nat (pre ++ c) Hcs ltac:(lia)). rewrite <- app_assoc, app_length in IH.
      replace (length pre + length c + (i - length c))%nat with (length pre + i)%nat in IH by lia. rewrite IH. lia.
    + (* inside the first char: walk down to its start *)
      cbn [fit_chars]. destruct (Nat.leb_spec (length c) i); [lia|]. cbn [concat length]. rewrite Nat.add_0_r.
      clear IH H. induction i as [|i IHi].
      * rewrite Nat.add_0_r. pose proof (boundary_at_start (c :: cs) Hw pre) as B. cbn [concat] in B.
        destruct (length pre) eqn:El; cbn [fit_boundary]; [reflexivity|]. rewrite <- El in *. destruct (length pre) eqn:E2; [discriminate|]. cbn [fit_boundary]. rewrite B. reflexivity.
      * replace (length pre + S i)%nat with (S (length pre + i)) by lia. cbn [fit_boundary].
        assert (NB : is_char_boundary (pre ++ c ++ concat cs) (S (length pre + i)) = false).
        { unfold is_char_boundary. cbn [Nat.eqb]. rewrite nth_error_app2 by lia. replace (S (length pre + i) - length pre)%nat with (S i) by lia.
          destruct (nth_error_in_char c (concat cs) (S i) Hc ltac:(lia) Hlt) as (b & E & Hb). rewrite E, Hb. reflexivity. }
        rewrite NB. apply IHi; lia.
Qed.
Lemma fit_boundary_valid cs i : Forall wf_char cs -> (i <= length (concat cs))%nat ->
  fit_boundary (concat cs) i = length (concat (fit_chars i cs)).
Proof. intros H Hi. exact (fit_boundary_spec cs i [] H Hi). Qed.

(* ---------- B. the fold of merge_autocompletion *)
Definition not_full (room : nat) (L : list (list N)) : bool := negb (Nat.eqb (length (fit_chars room L)) (length L)).

(* state after k >= 1 candidates with running common prefix L *)
Definition merged (room : nat) (k : nat) (L : list (list N)) (ac : autocompl) : Prop :=
  ac_cap ac = room /\ ac_done ac = Some (concat (fit_chars room L)) /\ ac_partial ac = (Nat.leb 2 k || not_full room L).

Lemma fit_chars_zero cs : Forall wf_char cs -> fit_chars 0 cs = [].
Proof. intros H. destruct cs as [|c cs]; [reflexivity|]. inversion H; subst. pose proof (wf_char_len c H2). cbn. destruct (Nat.leb_spec (length c) 0); [lia|reflexivity]. Qed.
Lemma concat_nil_wf cs : Forall wf_char cs -> concat cs = [] -> cs = [].
Proof. destruct cs as [|c cs]; [reflexivity|]. intros H E. inversion H; subst. cbn in E. apply app_eq_nil in E as [E _]. subst. cbn in H2. contradiction. Qed.

Lemma ac_merge_nonempty ac s room : s <> [] -> ac_cap ac = S room ->
  ac_merge ac s =
    let len := match ac_done ac with Some cur => common_prefix_len s cur | None => length s end in
    let len := if Nat.ltb (S room) len then fit_boundary s (S room) else len in
    {| ac_cap := S room; ac_done := Some (firstn len s);
       ac_partial := ac_partial ac || Nat.ltb len (length s) || (match ac_done ac with Some _ => true | None => false end) |}.
Proof. intros Hs Hc. unfold ac_merge. rewrite Hc. destruct s; [congruence|reflexivity]. Qed.
Lemma ac_merge_zero ac s : s <> [] -> ac_cap ac = O ->
  ac_merge ac s = {| ac_cap := O; ac_done := Some []; ac_partial := ac_partial ac || (match ac_done ac with Some _ => true | None => false end) || true |}.
Proof. intros Hs Hc. unfold ac_merge. rewrite Hc. destruct s; [congruence|reflexivity]. Qed.
Lemma ac_merge_empty ac : ac_merge ac [] =
  {| ac_cap := ac_cap ac; ac_done := Some []; ac_partial := ac_partial ac || (match ac_done ac with Some _ => true | None => false end) || (Nat.eqb (ac_cap ac) 0 && false) |}.
Proof. reflexivity. Qed.

Lemma merge_first room x : Forall wf_char x -> merged room 1 x (ac_merge (ac_new room) (concat x)).
Proof.
  intros Hx. unfold merged, not_full.
  destruct (list_eq_dec N.eq_dec (concat x) []) as [Es|Hne].
  - rewrite Es, ac_merge_empty. apply concat_nil_wf in Es; [|exact Hx]. subst x. cbn. rewrite andb_false_r. auto.
  - destruct room as [|r].
    + rewrite ac_merge_zero by (auto). cbn [ac_cap ac_done ac_partial ac_new]. rewrite fit_chars_zero by exact Hx. cbn [concat length].
      destruct x as [|c x']; [cbn in Hne; congruence|]. cbn. auto.
    + rewrite (ac_merge_nonempty _ _ r) by auto. cbn [ac_cap ac_done ac_partial ac_new]. cbn zeta.
      destruct (Nat.ltb_spec (S r) (length (concat x))) as [Hbig|Hfit].
      * rewrite fit_boundary_valid by (auto; lia).
        assert (Hnf : fit_chars (S r) x <> x).
        { intros E. pose proof (fit_chars_fits (S r) x). rewrite E in H. lia. }
        pose proof (fit_chars_short (S r) x Hx Hnf) as Hs.
        destruct (fit_chars_prefix (S r) x) as [k Hk]. rewrite Hk at 1. rewrite firstn_prefix_concat, <- Hk.
        repeat split. destruct (Nat.ltb_spec (length (concat (fit_chars (S r) x))) (length (concat x))); [|lia].
        destruct (Nat.eqb_spec (length (fit_chars (S r) x)) (length x)) as [E|]; [|reflexivity].
        exfalso. apply Hnf. apply fit_chars_full_iff; [exact Hx|]. rewrite E. apply Nat.eqb_refl.
      * rewrite fit_chars_all by exact Hfit. rewrite firstn_all. repeat split. rewrite Nat.ltb_irrefl, Nat.eqb_refl. reflexivity.
Qed.

Lemma merge_next room k L x ac : (1 <= k)%nat -> Forall wf_char L -> Forall wf_char x -> merged room k L ac ->
  merged room (S k) (lcp2 L x) (ac_merge ac (concat x)).
Proof.
  intros Hk HL Hx (Hc & Hd & Hp). unfold merged.
  assert (Pk : Nat.leb 2 (S k) = true) by (apply Nat.leb_le; lia).
  destruct (list_eq_dec N.eq_dec (concat x) []) as [Es|Hne].
  - rewrite Es, ac_merge_empty, Hc, Hd. apply concat_nil_wf in Es; [|exact Hx]. subst x. rewrite lcp2_nil_r. cbn [ac_cap ac_done ac_partial fit_chars concat].
    rewrite Pk. repeat split. rewrite orb_true_r. reflexivity.
  - destruct room as [|r].
    + rewrite ac_merge_zero by auto. cbn [ac_cap ac_done ac_partial]. rewrite fit_chars_zero by (apply lcp2_wf; exact HL). rewrite Pk. repeat split.
      rewrite orb_true_r. reflexivity.
    + rewrite (ac_merge_nonempty _ _ r) by auto. rewrite Hd. cbn [ac_cap ac_done ac_partial]. cbn zeta.
      rewrite cpl_spec by (auto using fit_chars_wf). rewrite lcp2_fit. rewrite (lcp2_comm x L).
      pose proof (fit_chars_fits (S r) (lcp2 L x)) as Hf.
      destruct (Nat.ltb_spec (S r) (length (concat (fit_chars (S r) (lcp2 L x))))); [lia|].
      rewrite Pk. split; [reflexivity|]. split; [|rewrite orb_true_r; reflexivity].
      f_equal. destruct (lcp2_prefix_l x L) as [j Hj]. rewrite (lcp2_comm L x), Hj.
      destruct (fit_chars_prefix (S r) (firstn j x)) as [m Hm]. rewrite Hm, firstn_firstn. apply firstn_prefix_concat.
Qed.

Lemma merge_fold room : forall xs k L ac, (1 <= k)%nat -> Forall wf_char L -> Forall (Forall wf_char) xs -> merged room k L ac ->
  merged room (k + length xs) (fold_left lcp2 xs L) (fold_left ac_merge (map (@concat N) xs) ac).
Proof.
  induction xs as [|x xs IH]; intros k L ac Hk HL Hxs Hm; cbn [fold_left map length].
  - rewrite Nat.add_0_r. exact Hm.
  - inversion Hxs as [|? ? Hx Hxs']; subst. replace (k + S (length xs))%nat with (S k + length xs)%nat by lia.
    apply IH; [lia|apply lcp2_wf; exact HL|exact Hxs'|apply merge_next; assumption].
Qed.

(* all candidates at once *)
Theorem merge_all room xs : Forall (Forall wf_char) xs ->
  let ac := fold_left ac_merge (map (@concat N) xs) (ac_new room) in
  match xs with
  | [] => ac_done ac = None
  | _ => ac_done ac = Some (concat (fit_chars room (lcp_all xs))) /\ ac_partial ac = (Nat.leb 2 (length xs) || not_full room (lcp_all xs))
  end.
Proof.
  intros H. destruct xs as [|x xs]; [reflexivity|]. inversion H as [|? ? Hx Hxs]; subst. cbn [map fold_left lcp_all length].
  pose proof (merge_fold room xs 1 x _ (Nat.le_refl 1) Hx Hxs (merge_first room x Hx)) as (_ & Hd & Hp). cbn zeta. split; [exact Hd|exact Hp].
Qed.

(* ---------- C. blanks, prefixes, candidates on well-formed text *)
Definition is_sp (c : list N) : bool := list_eqb c [32].
Fixpoint lead_sp (cs : list (list N)) : nat := match cs with c :: r => if is_sp c then S (lead_sp r) else O | [] => O end.
Definition trail_sp (cs : list (list N)) : nat := lead_sp (rev cs).

Lemma wf_last_not_sp c : wf_char c -> is_sp c = false -> forall r, hd_error (rev c ++ r) <> Some 32.
Proof.
  intros Hc Hs r. destruct c as [|x [|y [|z [|w [|v t]]]]]; cbn [wf_char] in Hc; unfold cont in *; try contradiction; cbn.
  - intros [= ->]. cbn in Hs. discriminate.
  - intros [= ->]. lia.
  - intros [= ->]. lia.
  - intros [= ->]. lia.
Qed.
Lemma wf_first_not_sp c : wf_char c -> is_sp c = false -> forall r, hd_error (c ++ r) <> Some 32.
Proof.
  intros Hc Hs r. destruct c as [|x [|y [|z [|w [|v t]]]]]; cbn [wf_char] in Hc; unfold cont in *; try contradiction; cbn; intros [= ->]; try lia.
  cbn in Hs. discriminate.
Qed.
Lemma is_sp_true c : is_sp c = true -> c = [32]. Proof. apply list_eqb_spec. Qed.

Fixpoint count_lead32 (l : list N) : nat := match l with b :: r => if b =? 32 then S (count_lead32 r) else O | [] => O end.
Lemma trailing_spaces_unfold t : trailing_spaces t = count_lead32 (rev t).
Proof. unfold trailing_spaces. generalize (rev t). induction l as [|b r IH]; [reflexivity|]. cbn. destruct (b =? 32); [rewrite IH|]; reflexivity. Qed.
Lemma count_lead32_stop l : hd_error l <> Some 32 -> count_lead32 l = O.
Proof. destruct l as [|b r]; [reflexivity|]. cbn. intros H. destruct (b =? 32) eqn:E; [apply N.eqb_eq in E; subst; congruence|reflexivity]. Qed.

Lemma count_lead32_chars : forall cs, Forall wf_char cs -> count_lead32 (concat (map (@rev N) cs)) = lead_sp cs.
Proof.
  induction cs as [|c cs IH]; intros H; [reflexivity|]. inversion H as [|? ? Hc Hcs]; subst. cbn [map concat lead_sp].
  destruct (is_sp c) eqn:E.
  - apply is_sp_true in E. subst c. cbn. rewrite IH by exact Hcs. reflexivity.
  - apply count_lead32_stop. apply wf_last_not_sp; assumption.
Qed.
Lemma rev_concat (cs : list (list N)) : rev (concat cs) = concat (map (@rev N) (rev cs)).
Proof. induction cs as [|c cs IH]; [reflexivity|]. cbn. rewrite rev_app_distr, IH, map_app, concat_app. cbn. rewrite app_nil_r. reflexivity. Qed.
Lemma trailing_spaces_chars cs : Forall wf_char cs -> trailing_spaces (concat cs) = trail_sp cs.
Proof. intros H. rewrite trailing_spaces_unfold, rev_concat. unfold trail_sp. apply count_lead32_chars. apply Forall_rev, H. Qed.

Lemma lead_sp_le cs : (lead_sp cs <= length cs)%nat.
Proof. induction cs as [|c cs IH]; cbn; [lia|]. destruct (is_sp c); lia. Qed.
Lemma lead_sp_bytes : forall cs, length (concat (firstn (lead_sp cs) cs)) = lead_sp cs.
Proof. induction cs as [|c cs IH]; [reflexivity|]. cbn [lead_sp]. destruct (is_sp c) eqn:E; [|reflexivity]. apply is_sp_true in E. subst. cbn. rewrite IH. reflexivity. Qed.

(* cutting the trailing blanks (bytes) off = cutting the trailing blank chars off *)
Lemma cut_trailing cs : Forall wf_char cs ->
  firstn (length (concat cs) - trail_sp cs) (concat cs) = concat (firstn (length cs - trail_sp cs) cs).
Proof.
  intros H. unfold trail_sp.
  set (k := lead_sp (rev cs)).
  assert (Hk : (k <= length cs)%nat) by (subst k; rewrite <- rev_length; apply lead_sp_le).
  assert (Tl : skipn (length cs - k) cs = rev (firstn k (rev cs))).
  { rewrite firstn_rev, rev_involutive. reflexivity. }
  assert (L : length (concat (skipn (length cs - k) cs)) = k).
  { rewrite Tl. pose proof (lead_sp_bytes (rev cs)) as LB. fold k in LB. rewrite <- LB at 2. generalize (firstn k (rev cs)). intros l.
    induction l as [|x l IH]; [reflexivity|]. cbn [rev]. rewrite concat_app, app_length, IH. cbn [concat]. rewrite !app_length. cbn. lia. }
  pose proof (concat_firstn_skipn cs (length cs - k)) as Sp. rewrite Sp at 1 2. rewrite app_length, L.
  replace (length (concat (firstn (length cs - k) cs)) + k - k)%nat with (length (concat (firstn (length cs - k) cs))) by lia.
  rewrite firstn_app, Nat.sub_diag, firstn_all. cbn. rewrite app_nil_r. reflexivity.
Qed.

Lemma trim_start_chars : forall cs, Forall wf_char cs -> trim_start (concat cs) = concat (skipn (lead_sp cs) cs).
Proof.
  induction cs as [|c cs IH]; intros H; [reflexivity|]. inversion H as [|? ? Hc Hcs]; subst. cbn [lead_sp concat].
  destruct (is_sp c) eqn:E.
  - apply is_sp_true in E. subst c. cbn. apply IH, Hcs.
  - cbn [skipn concat]. pose proof (wf_first_not_sp c Hc E (concat cs)) as Hh.
    destruct (c ++ concat cs) as [|b r] eqn:Eb; [reflexivity|]. cbn in *. destruct (b =? 32) eqn:E32; [apply N.eqb_eq in E32; subst; congruence|reflexivity].
Qed.

(* a valid byte-prefix of valid text is a char-prefix *)
Lemma starts_with_app : forall p s, starts_with s p = true -> s = p ++ skipn (length p) s.
Proof. induction p as [|x p IH]; intros s H; [reflexivity|]. destruct s as [|y s]; [discriminate|]. cbn in H. apply andb_true_iff in H as [H1 H2].
  apply N.eqb_eq in H1. subst. cbn. f_equal. apply IH, H2. Qed.
Lemma starts_with_refl_app p r : starts_with (p ++ r) p = true.
Proof. induction p as [|x p IH]; [destruct r; reflexivity|]. cbn. rewrite N.eqb_refl, IH. reflexivity. Qed.

Lemma valid_prefix_chars : forall wcs ncs, Forall wf_char wcs -> Forall wf_char ncs -> forall r, concat ncs = concat wcs ++ r ->
  ncs = wcs ++ skipn (length wcs) ncs /\ r = concat (skipn (length wcs) ncs).
Proof.
  induction wcs as [|w wcs IH]; intros ncs Hw Hn r E.
  - cbn in *. auto.
  - inversion Hw as [|? ? Hwc Hws]; subst. destruct ncs as [|c ncs].
    + cbn in E. symmetry in E. apply app_eq_nil in E as [E _]. apply app_eq_nil in E as [E _]. subst. cbn in Hwc. contradiction.
    + inversion Hn as [|? ? Hc Hns]; subst. cbn [concat] in E. rewrite <- app_assoc in E.
      assert (c = w) by (eapply wf_prefix_free; eauto). subst c. apply app_inv_head in E.
      destruct (IH ncs Hws Hns r E) as [I1 I2]. cbn [length skipn app]. split; [f_equal; exact I1|exact I2].
Qed.

Lemma fold_left_filter {A B} (f : A -> B -> A) (p : B -> bool) l a :
  fold_left (fun acc x => if p x then f acc x else acc) l a = fold_left f (filter p l) a.
Proof. revert a. induction l as [|x l IH]; intros a; [reflexivity|]. cbn. destruct (p x); [cbn|]; apply IH. Qed.

Lemma fold_left_map_ {A B C} (f : A -> B -> A) (g : C -> B) l a : fold_left f (map g l) a = fold_left (fun acc x => f acc (g x)) l a.
Proof. revert a. induction l as [|x l IH]; intros a; [reflexivity|]. cbn. apply IH. Qed.

Lemma complete_with_fold cs w ac : complete_with cs w ac =
  fold_left ac_merge (map (fun n => skipn (length w) n) (filter (fun n => starts_with n w) (cs_names cs ++ [HELP_CANDIDATE]))) ac.
Proof.
  unfold complete_with. rewrite filter_app, map_app, fold_left_app.
  rewrite (fold_left_filter (fun a n => ac_merge a (skipn (length w) n)) (fun n => starts_with n w)).
  rewrite <- (fold_left_map_ ac_merge (fun n => skipn (length w) n)).
  cbn [filter]. destruct (starts_with HELP_CANDIDATE w); reflexivity.
Qed.

(* ---------- D. Editor::autocompletion meets the specification *)
Lemma lead_sp_all_sp : forall cs k, (k <= lead_sp cs)%nat -> Forall (fun c => c = [32]) (firstn k cs).
Proof. induction cs as [|c cs IH]; intros k Hk; [rewrite firstn_nil; constructor|]. destruct k as [|k]; [constructor|]. cbn [lead_sp] in Hk.
  destruct (is_sp c) eqn:E; [|lia]. apply is_sp_true in E. cbn [firstn]. constructor; [exact E|apply IH; lia]. Qed.
Lemma concat_sp_len (l : list (list N)) : Forall (fun c => c = [32]) l -> length (concat l) = length l.
Proof. induction 1 as [|c l Hc Hl IH]; [reflexivity|]. subst c. cbn. rewrite IH. reflexivity. Qed.

Lemma cut_k cs k : (k <= trail_sp cs)%nat ->
  firstn (length (concat cs) - k) (concat cs) = concat (firstn (length cs - k) cs) /\ (k <= length cs)%nat /\ (k <= length (concat cs))%nat.
Proof.
  intros Hk. unfold trail_sp in Hk.
  assert (Hkl : (k <= length cs)%nat) by (pose proof (lead_sp_le (rev cs)); rewrite rev_length in *; lia).
  cut (firstn (length (concat cs) - k) (concat cs) = concat (firstn (length cs - k) cs) /\ (k <= length (concat cs))%nat); [tauto|].
  assert (Tl : skipn (length cs - k) cs = rev (firstn k (rev cs))) by (rewrite firstn_rev, rev_involutive; reflexivity).
  assert (L : length (concat (skipn (length cs - k) cs)) = k).
  { rewrite Tl. pose proof (lead_sp_all_sp (rev cs) k Hk) as Hs. apply Forall_rev in Hs. rewrite concat_sp_len by exact Hs.
    rewrite rev_length, firstn_length, rev_length. lia. }
  pose proof (concat_firstn_skipn cs (length cs - k)) as Sp.
  split; [|rewrite Sp, app_length, L; lia].
  rewrite Sp at 1 2. rewrite app_length, L.
  replace (length (concat (firstn (length cs - k) cs)) + k - k)%nat with (length (concat (firstn (length cs - k) cs))) by lia.
  rewrite firstn_app, Nat.sub_diag, firstn_all. cbn. rewrite app_nil_r. reflexivity.
Qed.

Lemma lead_sp_prefix : forall a b, (lead_sp a <= lead_sp (a ++ b))%nat.
Proof. induction a as [|c a IH]; intros b; cbn; [lia|]. destruct (is_sp c); [specialize (IH b); lia|lia]. Qed.
Lemma trail_sp_suffix cs k : (trail_sp (skipn k cs) <= trail_sp cs)%nat.
Proof. unfold trail_sp. rewrite <- (firstn_skipn k cs) at 2. rewrite rev_app_distr. apply lead_sp_prefix. Qed.

Lemma lcp_all_wf xs : Forall (Forall wf_char) xs -> Forall wf_char (lcp_all xs).
Proof.
  destruct xs as [|x xs]; [constructor|]. intros H. inversion H as [|? ? Hx Hxs]; subst. cbn [lcp_all].
  clear H. revert x Hx. induction xs as [|y xs IH]; intros x Hx; cbn [fold_left]; [exact Hx|]. inversion Hxs; subst. apply IH; [assumption|apply lcp2_wf; exact Hx].
Qed.

Lemma help_candidate_valid : valid_tok HELP_CANDIDATE.
Proof. exists (map (fun b => [b]) HELP_CANDIDATE). split; [|vm_compute; reflexivity]. vm_compute. repeat constructor. Qed.

(* the shape of a completion: nothing changes, or trailing blanks after the cursor are dropped, characters taken from a name (and
   possibly one blank) are appended, and the cursor goes to the end *)
Definition TabShape (names : list (list N)) (i i' : ideal) : Prop :=
  i' = i \/ exists tcs R A, chars i = tcs ++ repeat [32] R /\ chars i' = tcs ++ A /\ icur i' = length (chars i') /\ (icur i <= length tcs)%nat
     /\ Forall (fun c => c = [32] \/ exists n, In n names /\ incl c n) A.

Lemma all_eq_repeat {A} (x : A) l : Forall (fun c => c = x) l -> l = repeat x (length l).
Proof. induction 1 as [|c l Hc _ IH]; [reflexivity|]. subst c. cbn. rewrite <- IH. reflexivity. Qed.
Lemma trail_split cs R : (R <= trail_sp cs)%nat -> skipn (length cs - R) cs = repeat [32] R.
Proof.
  intros Hk. unfold trail_sp in Hk.
  assert (Hkl : (R <= length cs)%nat) by (pose proof (lead_sp_le (rev cs)); rewrite rev_length in *; lia).
  assert (Tl : skipn (length cs - R) cs = rev (firstn R (rev cs))) by (rewrite firstn_rev, rev_involutive; reflexivity).
  rewrite Tl. pose proof (lead_sp_all_sp (rev cs) R Hk) as Hs. apply Forall_rev in Hs. rewrite (all_eq_repeat _ _ Hs).
  rewrite rev_length, firstn_length, rev_length. f_equal. lia.
Qed.
Lemma lcp_all_prefix x r : exists k, lcp_all (x :: r) = firstn k x.
Proof.
  cbn [lcp_all]. revert x. induction r as [|y r IH]; intros x; cbn [fold_left]; [exists (length x); rewrite firstn_all; reflexivity|].
  destruct (lcp2_prefix_l x y) as [k ->]. destruct (IH (firstn k x)) as [k2 ->]. exists (Nat.min k2 k). apply firstn_firstn.
Qed.
Lemma incl_concat_in {A} (c : list A) l : In c l -> incl c (concat l).
Proof. intros H b Hb. apply in_concat. eauto. Qed.
Lemma incl_skipn {A} k (l : list A) : incl (skipn k l) l.
Proof. intros b Hb. rewrite <- (firstn_skipn k l). apply in_or_app. right. exact Hb. Qed.
Lemma In_firstn {A} k (l : list A) x : In x (firstn k l) -> In x l.
Proof. intros H. rewrite <- (firstn_skipn k l). apply in_or_app. left. exact H. Qed.

Theorem autocompletion_spec_shape cp e i cs0 : Rep cp e i -> Forall valid_tok (cs_names cs0) ->
  exists e' i', ed_autocompletion e (complete_with cs0) = Some e' /\ Rep cp e' i' /\
    (text e', cursor e') = complete_spec (cs_names cs0 ++ [HELP_CANDIDATE]) cp (text e) (cursor e) /\
    TabShape (cs_names cs0 ++ [HELP_CANDIDATE]) i i'.
Proof.
  intros (Hc & Ht & Hcu & Hw & Hle & Hfit) Hnames.
  set (cs := chars i) in *. set (cu := icur i) in *.
  assert (Hall : Forall valid_tok (cs_names cs0 ++ [HELP_CANDIDATE])).
  { apply Forall_app_intro; [exact Hnames|constructor; [exact help_candidate_valid|constructor]]. }
  set (names := cs_names cs0 ++ [HELP_CANDIDATE]) in *.
  unfold ed_autocompletion, complete_spec. rewrite Ht, Hcu, Hc. rewrite chars_of_concat by exact Hw. rewrite cbi_spec by exact Hw.
  (* the number of blanks removed *)
  set (R := if Nat.ltb cu (length cs) then trailing_spaces (concat (skipn cu cs)) else O).
  assert (HRm : match (if Nat.ltb cu (length cs) then Some (length (concat (firstn cu cs))) else None) with
                | Some pos => trailing_spaces (skipn pos (concat cs)) | None => O end = R).
  { subst R. destruct (Nat.ltb cu (length cs)); [rewrite skipn_concat_len|]; reflexivity. }
  rewrite HRm. clear HRm.
  assert (HRt : (R <= trail_sp cs)%nat).
  { subst R. destruct (Nat.ltb cu (length cs)); [|lia]. rewrite trailing_spaces_chars by (apply Forall_skipn, Hw). apply trail_sp_suffix. }
  assert (Hcub : (cu <= length cs - R)%nat).
  { subst R. destruct (Nat.ltb_spec cu (length cs)); [|lia]. rewrite trailing_spaces_chars by (apply Forall_skipn, Hw).
    pose proof (lead_sp_le (rev (skipn cu cs))) as Hl. unfold trail_sp. rewrite rev_length, skipn_length in Hl. lia. }
  destruct (cut_k cs R HRt) as (Hcut & HRl & HRb).
  destruct (Nat.ltb_spec (length (concat cs)) R); [lia|].
  destruct (Nat.ltb_spec cp (length (concat cs) - R)); [lia|].
  rewrite Hcut. set (tcs := firstn (length cs - R) cs).
  assert (Htw : Forall wf_char tcs) by (apply Forall_firstn, Hw).
  assert (Htl : (length (concat tcs) = length (concat cs) - R)%nat) by (subst tcs; rewrite <- Hcut, firstn_length; lia).
  unfold request_from_input. rewrite trim_start_chars by exact Htw.
  set (wcs := skipn (lead_sp tcs) tcs). assert (Hww : Forall wf_char wcs) by (apply Forall_skipn, Htw).
  (* unchanged outcomes *)
  assert (UNCH : exists e' i', Some e = Some e' /\ Rep cp e' i' /\ (text e', cursor e') = (concat cs, cu) /\ TabShape names i i').
  { exists e, i. split; [reflexivity|]. split; [unfold Rep; fold cs cu; auto 10|]. split; [rewrite Ht, Hcu; reflexivity|left; reflexivity]. }
  destruct (concat wcs) as [|wb wr] eqn:Ew; [exact UNCH|]. rewrite <- Ew. clear wb wr Ew.
  destruct (existsb (fun b => b =? 32) (concat wcs)); [exact UNCH|].
  rewrite complete_with_fold. fold names.
  set (w := concat wcs). set (matching := filter (fun n => starts_with n w) names).
  set (room := (cp - (length (concat cs) - R))%nat). rewrite Htl. fold room.
  set (xs := map (fun n => chars_of (skipn (length w) n)) matching).
  assert (Hm : forall n, In n matching -> Forall wf_char (chars_of (skipn (length w) n)) /\ concat (chars_of (skipn (length w) n)) = skipn (length w) n).
  { intros n Hn. apply filter_In in Hn as [Hin Hs]. assert (Hv : valid_tok n) by (eapply Forall_forall; eauto). destruct Hv as (ncs & Hncs & ->).
    pose proof (starts_with_app _ _ Hs) as Es. destruct (valid_prefix_chars wcs ncs Hww Hncs _ Es) as [_ E2].
    rewrite E2. rewrite chars_of_concat by (apply Forall_skipn, Hncs). split; [apply Forall_skipn, Hncs|reflexivity]. }
  assert (Hxs : Forall (Forall wf_char) xs).
  { subst xs. apply Forall_forall. intros x Hx. apply in_map_iff in Hx as (n & <- & Hn). apply Hm, Hn. }
  assert (Hmap : map (fun n => skipn (length w) n) matching = map (@concat N) xs).
  { subst xs. rewrite map_map. apply map_ext_in. intros n Hn. symmetry. apply Hm, Hn. }
  rewrite Hmap. pose proof (merge_all room xs Hxs) as MA. cbn zeta in MA.
  destruct matching as [|n1 mrest] eqn:Em.
  { subst xs. cbn [map] in *. rewrite MA. exact UNCH. }
  assert (Hxne : xs <> []) by (subst xs; cbn; congruence).
  destruct xs as [|x1 xrest] eqn:Exs; [congruence|]. destruct MA as [Hd Hp]. rewrite Hd, Hp.
  rewrite <- Exs in *. set (L := lcp_all xs) in *. set (ech := fit_chars room L).
  assert (HLw : Forall wf_char L) by (apply lcp_all_wf, Hxs).
  assert (Hew : Forall wf_char ech) by (apply fit_chars_wf, HLw).
  pose proof (fit_chars_fits room L) as Hef. fold ech in Hef.
  rewrite app_length.
  destruct (Nat.ltb_spec cp (length (concat tcs) + length (concat ech))); [subst room; lia|].
  assert (Hlen : length xs = length (n1 :: mrest)) by (subst xs; rewrite map_length; reflexivity).
  assert (Hneg : negb (Nat.leb 2 (length xs) || not_full room L) = (match n1 :: mrest with [_] => true | _ => false end && Nat.eqb (length ech) (length L))).
  { unfold not_full. fold ech. rewrite Hlen. destruct mrest as [|n2 mr]; cbn [length Nat.leb orb andb]; [rewrite negb_involutive; reflexivity|reflexivity]. }
  rewrite Hneg.
  set (addsp := match n1 :: mrest with [_] => true | _ => false end && Nat.eqb (length ech) (length L) && Nat.ltb (length (concat tcs) + length (concat ech)) cp).
  assert (Hech : Forall (fun c => c = [32] \/ exists n, In n names /\ incl c n) ech).
  { assert (Hin1 : In n1 names /\ concat x1 = skipn (length w) n1).
    { split.
      - assert (Hn1m : In n1 matching) by (rewrite Em; left; reflexivity). unfold matching in Hn1m. apply filter_In in Hn1m. tauto.
      - assert (Ex1 : x1 = chars_of (skipn (length w) n1)) by (unfold xs in Exs; cbn [map] in Exs; congruence).
        rewrite Ex1. apply Hm. left. reflexivity. }
    destruct Hin1 as [Hin1 Ecat]. apply Forall_forall. intros c Hc0. right. exists n1. split; [exact Hin1|].
    subst ech. destruct (fit_chars_prefix room L) as [k1 Ek1]. rewrite Ek1 in Hc0. apply In_firstn in Hc0.
    subst L. rewrite Exs in Hc0. destruct (lcp_all_prefix x1 xrest) as [k2 Ek2]. rewrite Ek2 in Hc0. apply In_firstn in Hc0.
    intros b Hb. apply (incl_skipn (length w)). rewrite <- Ecat. eapply incl_concat_in; eauto. }
  assert (Hres : exists newcs, (if addsp then (concat tcs ++ concat ech) ++ [32] else concat tcs ++ concat ech) = concat newcs /\ Forall wf_char newcs /\ (length (concat newcs) <= cp)%nat
                 /\ exists A, newcs = tcs ++ A /\ Forall (fun c => c = [32] \/ exists n, In n names /\ incl c n) A).
  { destruct addsp eqn:Ea.
    - exists (tcs ++ ech ++ [[32]]). rewrite !concat_app. cbn [concat]. rewrite app_nil_r, <- !app_assoc. split; [reflexivity|].
      split; [repeat apply Forall_app_intro; auto; constructor; [cbn; lia|constructor]|].
      split; [subst addsp; apply andb_true_iff in Ea as [_ Ea]; apply Nat.ltb_lt in Ea; rewrite !app_length; cbn [length]; lia|].
      exists (ech ++ [[32]]). split; [reflexivity|]. apply Forall_app_intro; [exact Hech|constructor; [left; reflexivity|constructor]].
    - exists (tcs ++ ech). rewrite concat_app. split; [reflexivity|]. split; [apply Forall_app_intro; auto|]. split; [rewrite app_length; lia|].
      exists ech. auto. }
  destruct Hres as (newcs & Hn1 & Hn2 & Hn3 & AA & HA1 & HA2). fold addsp.
  eexists. exists {| chars := newcs; icur := length newcs |}. split; [reflexivity|].
  cbn [text cursor cap]. fold addsp. rewrite Hn1.
  split; [|split].
  - unfold Rep. cbn [cap text cursor chars IdealEditor.icur]. rewrite char_count_concat by exact Hn2. repeat split; auto.
  - rewrite char_count_concat, chars_of_concat by exact Hn2. reflexivity.
  - right. exists tcs, R, AA. cbn [chars IdealEditor.icur]. fold cs cu. split; [|split; [exact HA1|split; [reflexivity|split; [|exact HA2]]]].
    + rewrite <- (trail_split cs R HRt). subst tcs. symmetry. apply firstn_skipn.
    + subst tcs. rewrite firstn_length. lia.
Qed.

Theorem autocompletion_spec cp e i cs0 : Rep cp e i -> Forall valid_tok (cs_names cs0) ->
  exists e' i', ed_autocompletion e (complete_with cs0) = Some e' /\ Rep cp e' i' /\
    (text e', cursor e') = complete_spec (cs_names cs0 ++ [HELP_CANDIDATE]) cp (text e) (cursor e).
Proof. intros R Hn. destruct (autocompletion_spec_shape cp e i cs0 R Hn) as (e' & i' & H1 & H2 & H3 & _). eauto. Qed.
