(* C02 (4): tokens of well-formed UTF-8 text are well-formed UTF-8 (the tokeniser only removes ASCII bytes and splits at ASCII bytes). *)
From EC Require Import Base Model.Token Spec.Utf8Spec Spec.QuoteSpec Proofs.ListFacts Proofs.Utf8Proofs Proofs.UtilsProofs Proofs.ArgsProofs Proofs.TokenProofs.

Definition high (b : N) : Prop := 0x80 <= b.
Definition after_high (m : qmode) : qmode := match m with QSpace => QNormal | QNormal => QNormal | QQuoted => QQuoted | QUnescape => QQuoted end.

Lemma go_high1 b m cur r : high b -> m <> QSpace -> tokens_go m cur (b :: r) = tokens_go (after_high m) (b :: cur) r.
Proof.
  unfold high. intros Hb Hm.
  assert (E34 : (b =? 34) = false) by lia. assert (E32 : (b =? 32) = false) by lia. assert (E0 : (b =? 0) = false) by lia. assert (E92 : (b =? 92) = false) by lia.
  destruct m; try congruence; cbn [tokens_go after_high]; rewrite ?E34, ?E32, ?E0, ?E92; reflexivity.
Qed.
Lemma go_high1_space b cur r : high b -> tokens_go QSpace cur (b :: r) = tokens_go QNormal [b] r.
Proof.
  unfold high. intros Hb.
  assert (E34 : (b =? 34) = false) by lia. assert (E32 : (b =? 32) = false) by lia. assert (E0 : (b =? 0) = false) by lia.
  cbn [tokens_go]. rewrite E34, E32, E0. reflexivity.
Qed.
Lemma after_high_ns m : after_high m <> QSpace. Proof. destruct m; discriminate. Qed.
Lemma after_high_idem m : after_high (after_high m) = after_high m. Proof. destruct m; reflexivity. Qed.

Lemma go_high : forall bs m cur rest, Forall high bs -> m <> QSpace -> bs <> [] ->
  tokens_go m cur (bs ++ rest) = tokens_go (after_high m) (rev bs ++ cur) rest.
Proof.
  induction bs as [|b bs IH]; intros m cur rest Hh Hm Hne; [congruence|]. inversion Hh as [|? ? Hb Hbs]; subst.
  cbn [app]. rewrite go_high1 by assumption. destruct bs as [|b2 bs'].
  - reflexivity.
  - rewrite IH by (auto using after_high_ns; congruence). rewrite after_high_idem. cbn [rev]. rewrite <- !app_assoc. reflexivity.
Qed.
Lemma go_high_space : forall bs cur rest, bs <> [] -> Forall high bs ->
  tokens_go QSpace cur (bs ++ rest) = tokens_go QNormal (rev bs) rest.
Proof.
  intros [|b bs] cur rest Hne Hh; [congruence|]. inversion Hh as [|? ? Hb Hbs]; subst.
  cbn [app]. rewrite go_high1_space by assumption. destruct bs as [|b2 bs'].
  - reflexivity.
  - rewrite go_high by (auto; congruence || discriminate). cbn [after_high rev]. rewrite <- !app_assoc. reflexivity.
Qed.

Lemma wf_multibyte_high c : wf_char c -> (2 <= length c)%nat -> Forall high c.
Proof. destruct c as [|x [|y [|z [|w [|v r]]]]]; cbn; unfold cont, high; intros H Hl; try contradiction; try lia; repeat constructor; lia. Qed.
Lemma wf_single c : wf_char c -> (length c < 2)%nat -> exists b, c = [b] /\ b < 0x80.
Proof. destruct c as [|x [|y r]]; cbn; intros H Hl; try contradiction; try lia. eauto. Qed.

Lemma valid_snoc_char cs c : Forall wf_char cs -> wf_char c -> valid_tok (rev (rev c ++ rev (concat cs))).
Proof. intros H Hc. rewrite rev_app_distr, !rev_involutive. exists (cs ++ [c]). split; [apply Forall_app_intro; auto|]. rewrite concat_app. cbn. rewrite app_nil_r. reflexivity. Qed.

Lemma qmode_eq_space m : m = QSpace \/ m <> QSpace.
Proof. destruct m; auto; right; discriminate. Qed.

Theorem tokens_go_valid : forall cs m cur, Forall wf_char cs -> Forall wf_char cur ->
  Forall valid_tok (tokens_go m (rev (concat cur)) (concat cs)).
Proof.
  induction cs as [|c cs IH]; intros m cur Hcs Hcur.
  - cbn [concat tokens_go]. destruct m; repeat constructor; rewrite rev_involutive; exists cur; auto.
  - inversion Hcs as [|? ? Hc Hcs']; subst. cbn [concat].
    assert (Vcur : valid_tok (rev (rev (concat cur)))) by (rewrite rev_involutive; exists cur; auto).
    destruct (Nat.lt_ge_cases (length c) 2) as [Hs|Hm].
    + destruct (wf_single c Hc Hs) as (b & -> & Hb). cbn [app].
      assert (Hadd : rev (concat (cur ++ [[b]])) = b :: rev (concat cur)).
      { rewrite concat_app. change (concat [[b]]) with [b]. rewrite rev_app_distr. reflexivity. }
      assert (Wadd : Forall wf_char (cur ++ [[b]])) by (apply Forall_app_intro; [exact Hcur|constructor; [exact Hc|constructor]]).
      assert (Hnil : @nil N = rev (concat (@nil (list N)))) by reflexivity.
      destruct m; cbn [tokens_go].
      * destruct (b =? 34); [rewrite Hnil; apply IH; auto|]. destruct ((b =? 32) || (b =? 0)); [rewrite Hnil; apply IH; auto|].
        change [b] with (rev (concat [[b]])). apply IH; auto.
      * destruct ((b =? 32) || (b =? 0)); [constructor; [exact Vcur|rewrite Hnil; apply IH; auto]|]. rewrite <- Hadd. apply IH; auto.
      * destruct ((b =? 34) || (b =? 0)); [constructor; [exact Vcur|rewrite Hnil; apply IH; auto]|].
        destruct (b =? 92); [apply IH; auto|]. rewrite <- Hadd. apply IH; auto.
      * rewrite <- Hadd. apply IH; auto.
    + pose proof (wf_char_nonempty c Hc) as Hne. pose proof (wf_multibyte_high c Hc Hm) as Hh.
      destruct (qmode_eq_space m) as [->|Hms].
      * rewrite go_high_space by assumption. replace (rev c) with (rev (concat [c])) by (cbn; rewrite app_nil_r; reflexivity).
        apply IH; [exact Hcs'|constructor; [exact Hc|constructor]].
      * rewrite go_high by assumption.
        replace (rev c ++ rev (concat cur)) with (rev (concat (cur ++ [c]))) by (rewrite concat_app; cbn; rewrite app_nil_r, rev_app_distr; reflexivity).
        apply IH; [exact Hcs'|apply Forall_app_intro; auto].
Qed.

Theorem tokens_fun_valid line : valid_tok line -> Forall valid_tok (tokens_fun line).
Proof. intros (cs & Hcs & ->). unfold tokens_fun. change (@nil N) with (rev (concat (@nil (list N)))). apply tokens_go_valid; auto. Qed.
