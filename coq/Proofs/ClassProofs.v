(* C14 (2),(3): after a failed call the edited line is as before, as the key would have left it, or empty; the decoder state is
   what the key leaves; history is a state of the fault-free run. Relative to the run in which every sink call succeeds (okT). *)
From EC Require Import Base Generated.Codes Model.Utf8 Model.Utils Model.Input Model.Editor Model.Token Model.Args Model.History
  Model.Sink Model.Writer Model.Cli Proofs.SinkOk.

(* pointwise monad laws used to step through the definitions *)
Lemma bind_get {A} (f : cli -> M cli A) s : bind get f s = f s s. Proof. reflexivity. Qed.
Lemma bind_ret {A B} (a : A) (f : A -> M cli B) s : bind (ret a) f s = f a s. Proof. reflexivity. Qed.
Lemma bind_modify {A} (g : cli -> cli) (f : unit -> M cli A) s : bind (modify g) f s = f tt (g s). Proof. reflexivity. Qed.
Lemma bind_lift_some {A B} (a : A) (f : A -> M cli B) s : bind (lift_opt (Some a)) f s = f a s. Proof. reflexivity. Qed.
Lemma bind_lift_none {A B} (f : A -> M cli B) s : bind (lift_opt None) f s = (Panic, s). Proof. reflexivity. Qed.

(* a computation that never touches editor, decoder, history *)
Definition Same {A} (f : M cli A) : Prop := forall s r s', f s = (r, s') -> ed s' = ed s /\ ig s' = ig s /\ hist s' = hist s.
Lemma Same_bind {A B} (m : M cli A) (f : A -> M cli B) : Same m -> (forall a, Same (f a)) -> Same (bind m f).
Proof.
  intros Sm Sf s r s' E. unfold bind in E. destruct (m s) as [r1 s1] eqn:Em. destruct (Sm s r1 s1 Em) as (a1&a2&a3).
  destruct r1 as [a| |]; [|injection E as <- <-; auto|injection E as <- <-; auto].
  destruct (Sf a s1 r s' E) as (b1&b2&b3). repeat split; congruence.
Qed.
Lemma Same_ret {A} (a : A) : Same (ret a). Proof. intros s r s' E. injection E as <- <-. auto. Qed.
Lemma Same_get : Same get. Proof. intros s r s' E. injection E as <- <-. auto. Qed.
Lemma Same_lift_opt {A} (o : option A) : Same (lift_opt o). Proof. destruct o; intros s r s' E; injection E as <- <-; auto. Qed.
Lemma Same_reraise {A} (x : res A) : Same (reraise x). Proof. intros s r s' E. injection E as <- <-. auto. Qed.
Lemma Same_modify (g : cli -> cli) : (forall s, ed (g s) = ed s /\ ig (g s) = ig s /\ hist (g s) = hist s) -> Same (modify g).
Proof. intros H s r s' E. injection E as <- <-. apply H. Qed.
Lemma Same_catch {A} (m : M cli A) : Same m -> Same (catch m).
Proof. intros Sm s r s' E. unfold catch in E. destruct (m s) as [r1 s1] eqn:Em. injection E as <- <-. eapply Sm; eauto. Qed.

Section CliClass.
  Variable okf : nat -> bool.
  Variable feats : features.
  Variable cs : cmdset.
  Variable handler : nat -> list N -> list (list N) -> list hop.
  Ltac smod := apply Same_modify; intros; auto.

  Lemma Same_wr bs : Same (wr okf bs).
  Proof. intros s r s' E. unfold wr in E. destruct (sk_write okf (sk s) bs). injection E as <- <-. auto. Qed.
  Lemma Same_fl : Same (fl okf).
  Proof. intros s r s' E. unfold fl in E. destruct (sk_flush okf (sk s)). injection E as <- <-. auto. Qed.
  Lemma Same_flush_bytes bs : Same (flush_bytes okf bs).
  Proof. apply Same_bind; [apply Same_wr|intros; apply Same_fl]. Qed.
  Lemma Same_w_lines ls : Same (w_lines (wr okf) set_wst ls).
  Proof. induction ls; cbn [w_lines]; [apply Same_ret|]. apply Same_bind; [apply Same_wr|intros]. apply Same_bind; [apply Same_wr|intros].
    apply Same_bind; [unfold w_set; smod|intros; assumption]. Qed.
  Lemma Same_w_write_str t : Same (w_write_str (wr okf) wst set_wst t).
  Proof. unfold w_write_str. destruct (split_lf [] t) as [ls rest]. apply Same_bind; [apply Same_w_lines|intros]. destruct rest; [apply Same_ret|].
    apply Same_bind; [apply Same_wr|intros]. apply Same_bind; [apply Same_get|intros]. unfold w_set; smod. Qed.
  Lemma Same_w_writeln_str t : Same (w_writeln_str (wr okf) wst set_wst t).
  Proof. unfold w_writeln_str. apply Same_bind; [apply Same_w_write_str|intros]. apply Same_bind; [apply Same_wr|intros].
    apply Same_bind; [apply Same_get|intros]. unfold w_set; smod. Qed.
  Lemma Same_run_hops hs : Same (run_hops okf hs).
  Proof. induction hs as [|h hs IH]; cbn [run_hops]; [apply Same_ret|]. destruct h.
    - apply Same_bind; [apply Same_w_write_str|intros; exact IH].
    - apply Same_bind; [apply Same_w_writeln_str|intros; exact IH].
    - apply Same_bind; [smod|intros; exact IH]. Qed.
  Lemma Same_mrepeat n (m : M cli unit) : Same m -> Same (mrepeat n m).
  Proof. intros H. induction n; cbn [mrepeat]; [apply Same_ret|]. apply Same_bind; [exact H|intros; assumption]. Qed.
  Lemma Same_clear_line b : Same (clear_line okf b).
  Proof. unfold clear_line. apply Same_bind; [apply Same_wr|intros]. apply Same_bind; [apply Same_wr|intros]. apply Same_bind; [|intros; apply Same_fl].
    destruct b; [apply Same_ret|]. apply Same_bind; [apply Same_get|intros; apply Same_wr]. Qed.
  Lemma Same_redraw_line : Same (redraw_line okf).
  Proof. unfold redraw_line. apply Same_bind; [apply Same_get|intros]. apply Same_bind; [apply Same_wr|intros]. apply Same_bind; [apply Same_mrepeat, Same_wr|intros; apply Same_fl]. Qed.
  Lemma Same_process_error e : Same (process_error okf e).
  Proof. unfold process_error. apply Same_bind; [apply Same_wr|intros]. apply Same_bind; [|intros; apply Same_bind; [apply Same_wr|intros; apply Same_fl]].
    destruct e; repeat (apply Same_bind; [apply Same_wr|intros]); apply Same_wr. Qed.
  Lemma Same_process_command name args : Same (process_command okf cs handler name args).
  Proof. unfold process_command. destruct (cs_parse cs name args).
    - apply Same_bind; [apply Same_fl|intros; apply Same_process_error].
    - apply Same_bind; [apply Same_get|intros]. apply Same_bind; [smod|intros]. apply Same_bind; [unfold new_writer; smod|intros].
      apply Same_bind; [apply Same_catch, Same_run_hops|intros]. apply Same_bind; [apply Same_get|intros s1].
      apply Same_bind; [destruct (newp s1); [smod|apply Same_ret]|intros]. apply Same_bind; [destruct (is_dirty (wst s1)); [apply Same_wr|apply Same_ret]|intros].
      apply Same_bind; [apply Same_fl|intros]. apply Same_bind; [apply Same_reraise|intros].
      destruct (cs_fail cs _ name args); [apply Same_process_error|apply Same_ret]. Qed.
  Lemma Same_process_help req : Same (process_help okf cs req).
  Proof. unfold process_help. apply Same_bind; [unfold new_writer; smod|intros]. apply Same_bind; [apply Same_run_hops|intros].
    apply Same_bind; [apply Same_get|intros s1]. apply Same_bind; [destruct (is_dirty (wst s1)); [apply Same_wr|apply Same_ret]|intros; apply Same_fl]. Qed.
  Lemma Same_process_input raw empty : Same (process_input okf feats cs handler raw empty).
  Proof. unfold process_input. destruct (from_tokens (tokens_iter raw empty)) as [[name args]|]; [|apply Same_ret].
    destruct (f_help feats); [|apply Same_process_command].
    apply Same_bind; [apply Same_lift_opt|intros [req|]]; [apply Same_process_help|apply Same_process_command]. Qed.
  (* the API calls that never touch the line at all *)
  Theorem Same_api_write hs : Same (api_write okf hs).
  Proof. unfold api_write. apply Same_bind; [apply Same_clear_line|intros]. apply Same_bind; [unfold new_writer; smod|intros]. apply Same_bind; [apply Same_run_hops|intros].
    apply Same_bind; [apply Same_get|intros s1]. apply Same_bind; [destruct (is_dirty (wst s1)); [apply Same_wr|apply Same_ret]|intros].
    apply Same_bind; [apply Same_wr|intros; apply Same_redraw_line]. Qed.
  Theorem Same_api_set_prompt p : Same (api_set_prompt okf p).
  Proof. unfold api_set_prompt. apply Same_bind; [smod|intros]. apply Same_bind; [apply Same_clear_line|intros; apply Same_redraw_line]. Qed.
End CliClass.

(* ---------- the keys *)
Definition EdTo (e : editor) {A} (f : M cli A) : Prop :=   (* ends with editor e (unless it panics), decoder untouched *)
  forall s r s', f s = (r, s') -> r <> Panic -> ed s' = e /\ ig s' = ig s.

Section Keys.
  Variable feats : features.
  Variable cs : cmdset.
  Variable handler : nat -> list N -> list (list N) -> list hop.

  Definition class (s s' s0 : cli) : Prop :=
    ig s' = ig s0 /\ (ed s' = ed s \/ ed s' = ed s0 \/ ed s' = ed_clear (ed s)).

  (* helper: a tail that keeps the editor, run after the editor was set *)
  Lemma tail_after_set (okf : nat -> bool) (tail : M cli unit) e s r s' : Same tail -> tail (set_ed e s) = (r, s') -> ed s' = e /\ ig s' = ig s.
  Proof. intros St E. destruct (St _ _ _ E) as (a1&a2&a3). split; [rewrite a1|rewrite a2]; reflexivity. Qed.

  Lemma on_text_class okf t s r s' : on_text okf t s = (r, s') -> r <> Panic ->
    class s s' (snd (on_text okT t s)).
  Proof.
    unfold on_text. rewrite !bind_get. destruct (ed_insert (ed s) t) as [[e' [|]]|].
    - rewrite !bind_lift_some, !bind_modify. intros E _.
      assert (T : forall o, Same ((if Nat.ltb (cursor (ed s)) (ed_len (ed s)) then wr o INSERT_CHAR else ret tt);; wr o t;; fl o)).
      { intros o. apply Same_bind; [destruct (Nat.ltb _ _); [apply Same_wr|apply Same_ret]|intros]. apply Same_bind; [apply Same_wr|intros; apply Same_fl]. }
      destruct (tail_after_set okf _ e' s r s' (T okf) E) as [H1 H2].
      destruct (((if Nat.ltb (cursor (ed s)) (ed_len (ed s)) then wr okT INSERT_CHAR else ret tt);; wr okT t;; fl okT) (set_ed e' s)) as [r0 s0] eqn:E0.
      destruct (tail_after_set okT _ e' s r0 s0 (T okT) E0) as [G1 G2]. cbn [snd]. unfold class. rewrite H1, H2, G1, G2. auto.
    - rewrite !bind_lift_some. intros E _. injection E as <- <-. cbn. unfold class. auto.
    - rewrite bind_lift_none. intros E. injection E as <- <-. congruence.
  Qed.

  Lemma on_backspace_class okf s r s' : on_backspace okf s = (r, s') -> r <> Panic -> class s s' (snd (on_backspace okT s)).
  Proof.
    unfold on_backspace. rewrite !bind_get. destruct (ed_move_left (ed s)) as [e1 [|]].
    - destruct (ed_remove e1) as [e2|].
      + rewrite !bind_lift_some, !bind_modify. intros E _.
        assert (T : forall o, Same (flush_bytes o CURSOR_BACKWARD;; flush_bytes o DELETE_CHAR)).
        { intros o. apply Same_bind; [apply Same_flush_bytes|intros; apply Same_flush_bytes]. }
        destruct (tail_after_set okf _ e2 s r s' (T okf) E) as [H1 H2].
        destruct ((flush_bytes okT CURSOR_BACKWARD;; flush_bytes okT DELETE_CHAR) (set_ed e2 s)) as [r0 s0] eqn:E0.
        destruct (tail_after_set okT _ e2 s r0 s0 (T okT) E0) as [G1 G2]. cbn [snd]. unfold class. rewrite H1, H2, G1, G2. auto.
      + rewrite bind_lift_none. intros E. injection E as <- <-. congruence.
    - intros E _. injection E as <- <-. cbn. unfold class. auto.
  Qed.

  Lemma navigate_input_class okf fwd s r s' : navigate_input okf fwd s = (r, s') -> r <> Panic -> class s s' (snd (navigate_input okT fwd s)).
  Proof.
    unfold navigate_input. rewrite !bind_get. destruct (if fwd then ed_move_right (ed s) else ed_move_left (ed s)) as [e' [|]].
    - rewrite !bind_modify. intros E _.
      destruct (tail_after_set okf _ e' s r s' (Same_flush_bytes okf _) E) as [H1 H2].
      destruct (flush_bytes okT (if fwd then CURSOR_FORWARD else CURSOR_BACKWARD) (set_ed e' s)) as [r0 s0] eqn:E0.
      destruct (tail_after_set okT _ e' s r0 s0 (Same_flush_bytes okT _) E0) as [G1 G2]. cbn [snd]. unfold class. rewrite H1, H2, G1, G2. auto.
    - intros E _. injection E as <- <-. cbn. unfold class. auto.
  Qed.

  Lemma on_tab_class okf s r s' : on_tab okf feats cs s = (r, s') -> r <> Panic -> class s s' (snd (on_tab okT feats cs s)).
  Proof.
    unfold on_tab. destruct (f_ac feats); [|intros E _; injection E as <- <-; cbn; unfold class; auto].
    rewrite !bind_get. destruct (ed_autocompletion (ed s) (complete_with cs)) as [e'|].
    - rewrite !bind_lift_some, !bind_modify. intros E _.
      assert (T : forall o, Same (if Nat.ltb (cursor (ed s)) (cursor e') then wr o (ed_text_from e' (cursor (ed s)));; fl o else ret tt)).
      { intros o. destruct (Nat.ltb _ _); [apply Same_bind; [apply Same_wr|intros; apply Same_fl]|apply Same_ret]. }
      destruct (tail_after_set okf _ e' s r s' (T okf) E) as [H1 H2].
      destruct ((if Nat.ltb (cursor (ed s)) (cursor e') then wr okT (ed_text_from e' (cursor (ed s)));; fl okT else ret tt) (set_ed e' s)) as [r0 s0] eqn:E0.
      destruct (tail_after_set okT _ e' s r0 s0 (T okT) E0) as [G1 G2]. cbn [snd]. unfold class. rewrite H1, H2, G1, G2. auto.
    - rewrite bind_lift_none. intros E. injection E as <- <-. congruence.
  Qed.

  Lemma navigate_history_class okf older s r s' : navigate_history okf feats older s = (r, s') -> r <> Panic ->
    class s s' (snd (navigate_history okT feats older s)).
  Proof.
    unfold navigate_history. destruct (f_hist feats); [|intros E _; injection E as <- <-; cbn; unfold class; auto].
    rewrite !bind_get. destruct (if older then hist_older (hist s) else hist_newer (hist s)) as [[h' el]|].
    2:{ rewrite bind_lift_none. intros E. injection E as <- <-. congruence. }
    rewrite !bind_lift_some, !bind_modify.
    destruct (if older then el else Some match el with Some x => x | None => [] end) as [x|].
    2:{ intros E _. injection E as <- <-. cbn. unfold class. auto. }
    destruct (ed_insert (ed_clear (ed s)) x) as [r2|].
    2:{ rewrite bind_lift_none. intros E. injection E as <- <-. congruence. }
    change (ed (set_hist h' s)) with (ed s). rewrite !bind_lift_some, !bind_modify. intros E _.
    assert (T : forall o, Same (clear_line o false;; (mdo s2 <- get; wr o (text (ed s2));; fl o))).
    { intros o. apply Same_bind; [apply Same_clear_line|intros]. apply Same_bind; [apply Same_get|intros]. apply Same_bind; [apply Same_wr|intros; apply Same_fl]. }
    destruct (T okf _ _ _ E) as (a1&a2&a3).
    destruct ((clear_line okT false;; (mdo s2 <- get; wr okT (text (ed s2));; fl okT)) (set_ed (fst r2) (set_hist h' s))) as [r0 s0] eqn:E0.
    destruct (T okT _ _ _ E0) as (b1&b2&b3). cbn [snd]. unfold class. rewrite a1, a2, b1, b2. cbn. auto.
  Qed.

  Lemma on_enter_class okf s r s' : on_enter okf feats cs handler s = (r, s') -> r <> Panic ->
    ig s' = ig s /\ (ed s' = ed s \/ ed s' = ed_clear (ed s)).
  Proof.
    unfold on_enter. intros E Hr. unfold bind at 1 in E. destruct (wr okf CRLF s) as [r1 s1] eqn:E1.
    destruct (Same_wr okf _ _ _ _ E1) as (a1&a2&a3).
    destruct r1 as [[]| |]; [|injection E as <- <-; rewrite a1, a2; auto|injection E as <- <-; congruence].
    rewrite bind_get in E.
    (* history push: pure *)
    assert (Hp : exists s2, ed s2 = ed s1 /\ ig s2 = ig s1 /\
        ((if f_hist feats then mdo h <- lift_opt (hist_push (hist s1) (text (ed s1))); modify (set_hist h) else ret tt) s1 = (Ok tt, s2) \/
         (if f_hist feats then mdo h <- lift_opt (hist_push (hist s1) (text (ed s1))); modify (set_hist h) else ret tt) s1 = (Panic, s2))).
    { destruct (f_hist feats); [|exists s1; auto]. destruct (hist_push (hist s1) (text (ed s1))) as [h|].
      - exists (set_hist h s1). rewrite bind_lift_some. auto.
      - exists s1. rewrite bind_lift_none. auto. }
    destruct Hp as (s2 & e1 & e2 & [Hp|Hp]); unfold bind at 1 in E; rewrite Hp in E; [|injection E as <- <-; congruence].
    destruct (tokens_new (text (ed s1))) as [[[buf' raw] empty]|].
    2:{ rewrite bind_lift_none in E. injection E as <- <-. congruence. }
    rewrite bind_lift_some, bind_modify in E.
    unfold bind at 1 in E. unfold catch in E.
    destruct (process_input okf feats cs handler raw empty (set_ed {| cap := cap (ed s1); text := buf'; cursor := cursor (ed s1) |} s2)) as [r3 s3] eqn:E3.
    destruct (Same_process_input okf feats cs handler raw empty _ _ _ E3) as (c1&c2&c3).
    rewrite bind_modify in E.
    assert (T : Same (reraise r3;; (mdo s4 <- get; wr okf (prompt s4);; fl okf))).
    { apply Same_bind; [apply Same_reraise|intros]. apply Same_bind; [apply Same_get|intros]. apply Same_bind; [apply Same_wr|intros; apply Same_fl]. }
    destruct (T _ _ _ E) as (d1&d2&d3). cbn [ed ig set_ed] in *. split; [congruence|]. right. rewrite d1, c1. cbn. rewrite a1. reflexivity.
  Qed.

  Lemma on_control_class okf c s r s' : on_control okf feats cs handler c s = (r, s') -> r <> Panic ->
    class s s' (snd (on_control okT feats cs handler c s)).
  Proof.
    destruct c; cbn [on_control]; try (apply on_backspace_class || apply navigate_history_class || apply navigate_input_class || apply on_tab_class).
    intros E Hr. destruct (on_enter_class okf s r s' E Hr) as [H1 H2].
    destruct (on_enter okT feats cs handler s) as [r0 s0] eqn:E0. cbn [snd]. unfold class.
    destruct r0 as [[]| |].
    - destruct (on_enter_class okT s _ s0 E0 ltac:(discriminate)) as [G1 G2]. rewrite H1, G1. split; [reflexivity|]. tauto.
    - destruct (on_enter_class okT s _ s0 E0 ltac:(discriminate)) as [G1 G2]. rewrite H1, G1. split; [reflexivity|]. tauto.
    - (* the fault-free run panics: excluded by C03; the statement still holds for the decoder because Enter never touches it *)
      split; [|tauto]. rewrite H1.
      assert (K : forall o s r s', on_enter o feats cs handler s = (r, s') -> ig s' = ig s).
      { clear. intros o s r s' E. unfold on_enter in E.
        assert (S1 : forall (m : M cli unit), (forall s r s', m s = (r, s') -> ig s' = ig s) -> True) by auto. clear S1.
        unfold bind at 1 in E. destruct (wr o CRLF s) as [r1 s1] eqn:E1. destruct (Same_wr o _ _ _ _ E1) as (_&a2&_).
        destruct r1 as [[]| |]; [|injection E as <- <-; exact a2|injection E as <- <-; exact a2].
        rewrite bind_get in E. unfold bind at 1 in E.
        destruct ((if f_hist feats then mdo h <- lift_opt (hist_push (hist s1) (text (ed s1))); modify (set_hist h) else ret tt) s1) as [r2 s2] eqn:E2.
        assert (I2 : ig s2 = ig s1).
        { destruct (f_hist feats); [|injection E2 as <- <-; reflexivity]. destruct (hist_push (hist s1) (text (ed s1))); [rewrite bind_lift_some in E2|rewrite bind_lift_none in E2]; injection E2 as <- <-; reflexivity. }
        destruct r2 as [[]| |]; [|injection E as <- <-; congruence|injection E as <- <-; congruence].
        destruct (tokens_new (text (ed s1))) as [[[buf' raw] empty]|]; [|rewrite bind_lift_none in E; injection E as <- <-; congruence].
        rewrite bind_lift_some, bind_modify in E. unfold bind at 1 in E. unfold catch in E.
        destruct (process_input o feats cs handler raw empty _) as [r3 s3] eqn:E3.
        destruct (Same_process_input o feats cs handler raw empty _ _ _ E3) as (_&c2&_).
        rewrite bind_modify in E.
        assert (T : Same (reraise r3;; (mdo s4 <- get; wr o (prompt s4);; fl o))).
        { apply Same_bind; [apply Same_reraise|intros]. apply Same_bind; [apply Same_get|intros]. apply Same_bind; [apply Same_wr|intros; apply Same_fl]. }
        destruct (T _ _ _ E) as (_&d2&_). cbn [ig set_ed] in *. congruence. }
      symmetry. eapply K; eauto.
  Qed.

  Theorem process_byte_class okf b s r s' : api_process_byte okf feats cs handler b s = (r, s') -> r <> Panic ->
    class s s' (snd (api_process_byte okT feats cs handler b s)).
  Proof.
    unfold api_process_byte. rewrite !bind_get. destruct (accept (ig s) b) as [g' oi]. rewrite !bind_modify.
    destruct oi as [[c|t]|].
    - intros E Hr. pose proof (on_control_class okf c (set_ig g' s) r s' E Hr) as H. exact H.
    - intros E Hr. pose proof (on_text_class okf t (set_ig g' s) r s' E Hr) as H. exact H.
    - intros E _. injection E as <- <-. cbn. unfold class. auto.
  Qed.
End Keys.
