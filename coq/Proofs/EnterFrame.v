(* C13 (W2), general form: the bytes of an Enter that dispatches a command, ALSO when the command processor writes output and then
   rejects the command with a parse error (cs_fail): the output is closed by a line break iff needed, the `error: ...` line follows
   on its own line, then the prompt. *)
From EC Require Import Base Generated.Codes Model.Utf8 Model.Utils Model.Input Model.Editor Model.Token Model.Args Model.History Model.Sink Model.Writer Model.Cli
  Spec.Utf8Spec Spec.QuoteSpec Spec.Framing Spec.IdealEditor Spec.HistSpec Spec.ArgSpec Spec.Session
  Proofs.ListFacts Proofs.EditorProofs Proofs.TokenProofs Proofs.ArgsProofs Proofs.HistoryProofs
  Proofs.SinkOk Proofs.FlushProofs Proofs.FaultProofs Proofs.ClassProofs Proofs.TokenValid Proofs.SafetyProofs Proofs.SessionProofs Proofs.ViewProofs.

Definition err_line (oe : option perr) : list N :=
  match oe with Some e => (ERR_PREFIX ++ err_text e) ++ [13; 10] | None => [] end.
(* CR LF, the handler's output, a line break iff needed, the error line if the processor rejected the command, the prompt *)
Definition frame_enter_full (hs : list hop) (oe : option perr) (prompt' : list N) : list N :=
  [13; 10] ++ cmd_bytes hs ++ err_line oe ++ prompt'.

Lemma frame_enter_full_none hs p : frame_enter_full hs None p = frame_enter hs p.
Proof. unfold frame_enter_full, frame_enter, cmd_bytes, err_line. cbn [app]. rewrite <- !app_assoc. reflexivity. Qed.

Section EnterFrame.
  Variable feats : features.
  Variable cs : cmdset.
  Variable handler : nat -> list N -> list (list N) -> list hop.
  Hypothesis Hcs : cmdset_ok cs.
  Variables cp hc : nat.
  Notation SRel := (SRel cp hc).

  Lemma process_command_full name args s : cs_parse cs name args = None ->
    exists s', process_command okT cs handler name args s = (Ok tt, s')
      /\ Outs s s' (cmd_bytes (handler (length (hcalls s)) name args) ++ err_line (cs_fail cs (length (hcalls s)) name args)).
  Proof.
    intros Hp. destruct (process_command_prefix cs handler name args s Hp) as (s6 & O & E & Out & B).
    assert (O6 : Outs s s6 (cmd_bytes (handler (length (hcalls s)) name args))) by (unfold Outs, obytes; rewrite Out, ops_bytes_app, B; reflexivity).
    destruct (cs_fail cs (length (hcalls s)) name args) as [e|]; cbn [err_line].
    - destruct (process_error_out e s6) as (s7 & E7 & _ & O7). exists s7. split; [rewrite E; exact E7|]. exact (Outs_trans _ _ _ _ _ O6 O7).
    - exists s6. split; [exact E|]. rewrite app_nil_r. exact O6.
  Qed.

  Theorem on_enter_frame s a n args : SRel s a -> dispatch feats cs a = [(n, args)] ->
    exists s', on_enter okT feats cs handler s = (Ok tt, s') /\
      Outs s s' (frame_enter_full (handler (acalls a) n args) (cs_fail cs (acalls a) n args) (last_prompt (aprompt a) (handler (acalls a) n args))).
  Proof.
    intros HS Hd.
    destruct (on_enter okT feats cs handler s) as [r s'] eqn:E.
    destruct (on_enter_refines feats cs handler cp hc s a r s' HS E) as (-> & HS' & _ & _).
    exists s'. split; [reflexivity|]. unfold on_enter in E. unfold bind at 1 in E.
    destruct (wr_ok CRLF s) as (s1 & E1 & A1). rewrite E1 in E.
    destruct (SRel_tail cp hc _ _ _ _ _ (Tail_wr CRLF) HS E1) as (_ & HS1 & c1 & g1).
    rewrite bind_get in E. pose proof HS1 as (R & H & Hp & Hc & Hnf & Hv & Ha).
    pose proof (Rep_ibytes cp _ _ R) as Hib. pose proof (Rep_valid _ _ _ R) as Hvt.
    assert (Hpsh : exists s2, (if f_hist feats then mdo h <- lift_opt (hist_push (hist s1) (text (ed s1))); modify (set_hist h) else ret tt) s1 = (Ok tt, s2)
                 /\ sk s2 = sk s1 /\ prompt s2 = prompt s1 /\ hcalls s2 = hcalls s1).
    { destruct (f_hist feats); [|exists s1; auto]. destruct (push_refines _ _ _ (text (ed s1)) H) as (h' & Ep & _). rewrite Ep, bind_lift_some. exists (set_hist h' s1). auto. }
    destruct Hpsh as (s2 & Ep & k2 & p2 & c2). unfold bind at 1 in E. rewrite Ep in E.
    destruct (tokens_inplace_fun (text (ed s1)) Hnf) as (buf' & raw & empty & Et & Etok). rewrite Et, bind_lift_some, bind_modify in E.
    set (s3 := set_ed {| cap := cap (ed s1); text := buf'; cursor := cursor (ed s1) |} s2) in *.
    unfold dispatch in Hd. rewrite Hib in Hd.
    assert (Ets : tokens_iter raw empty = n :: args /\ cs_parse cs n args = None /\
                  (f_help feats = false \/ exists hr, help_request n args = Some hr /\ hr = None)).
    { rewrite Etok. destruct (tokens_fun (text (ed s1))) as [|nm rest] eqn:Etf; [discriminate|].
      assert (Hargs : Forall valid_tok rest). { pose proof (tokens_fun_valid _ Hvt) as V. rewrite Etf in V. inversion V; assumption. }
      destruct (help_request_some nm rest Hargs) as [hr Hr]. rewrite Hr in Hd.
      destruct (f_help feats) eqn:Ef; cbn [andb] in Hd.
      - destruct hr as [req|]; [discriminate|]. destruct (cs_parse cs nm rest) eqn:Epp; [discriminate|]. injection Hd as <- <-. eauto 10.
      - destruct (cs_parse cs nm rest) eqn:Epp; [discriminate|]. injection Hd as <- <-. auto. }
    destruct Ets as (Ets & Epar & Ehelp).
    assert (Epi : process_input okT feats cs handler raw empty s3 = process_command okT cs handler n args s3).
    { unfold process_input. rewrite Ets. cbn [from_tokens]. destruct Ehelp as [-> | (hr & Hr & ->)]; [reflexivity|].
      destruct (f_help feats); [rewrite Hr, bind_lift_some|]; reflexivity. }
    destruct (process_command_full n args s3 Epar) as (s4 & E4 & Out4).
    unfold bind at 1 in E. unfold catch in E. rewrite Epi, E4 in E. rewrite bind_modify in E.
    set (s5 := set_ed (ed_clear (ed s4)) s4) in *.
    unfold bind at 1 in E. unfold reraise at 1 in E. rewrite bind_get in E.
    destruct (wr_out (prompt s5) s5) as (s6 & E6 & _ & O6). unfold bind at 1 in E. rewrite E6 in E.
    destruct (fl_out s6) as (s7 & E7 & _ & O7). rewrite E7 in E. injection E as <-.
    destruct (process_command_run cs handler n args s3 Epar) as (s4' & E4' & _ & _ & _ & _ & Hpr). rewrite E4 in E4'. injection E4' as <-.
    assert (Ecall : length (hcalls s3) = acalls a) by (unfold s3; cbn; congruence).
    assert (Eprm : prompt s5 = last_prompt (aprompt a) (handler (acalls a) n args)).
    { unfold s5; cbn [prompt set_ed]. rewrite Hpr. unfold s3; cbn [prompt hcalls set_ed]. rewrite p2, c2, Hp, Hc. reflexivity. }
    assert (O01 : Outs s s1 [13; 10]). { pose proof (Outs_appended _ _ _ A1) as X. rewrite ops_bytes_wop in X. exact X. }
    assert (O13 : Outs s1 s3 []) by (apply Outs_same_sk; unfold s3; cbn [sk set_ed]; exact k2).
    assert (O45 : Outs s4 s5 []) by (apply Outs_same_sk; reflexivity).
    rewrite Ecall in Out4. rewrite Eprm in O6.
    pose proof (Outs_trans _ _ _ _ _ (Outs_trans _ _ _ _ _ (Outs_trans _ _ _ _ _ (Outs_trans _ _ _ _ _ (Outs_trans _ _ _ _ _ O01 O13) Out4) O45) O6) O7) as O.
    unfold frame_enter_full. rewrite !app_nil_r in O. rewrite <- ?app_assoc in O. rewrite <- ?app_assoc. exact O.
  Qed.
End EnterFrame.
