(* Extraction of the executable model and specs to OCaml (ExtrOcamlBasic only: bool, option, unit, list, prod,
   sumbool, sumor map to OCaml natives; N, positive, nat stay the extracted datatypes). *)
From Coq Require Extraction ExtrOcamlBasic.
From EC Require Import Base Model.Utf8 Model.Input Spec.Utf8Spec Spec.KeyUnits Model.Utils Model.Editor Model.Token Model.Args Model.History Model.Sink Model.Writer Model.Cli Model.Handler Model.Derive Model.Doc
  Spec.QuoteSpec Spec.Framing Spec.Terminal Spec.IdealEditor Spec.HistSpec Spec.ArgSpec Spec.CompletionSpec Spec.Session.
Extraction Language OCaml.
Extraction "model.ml" Utf8.run Input.runa Input.ig0 Utf8.acc0 Utf8Spec.validb Utf8Spec.wf_charb
  KeyUnits.bytes_of KeyUnits.events_of KeyUnits.wf_unitb KeyUnits.greedyb
  Utils.char_count Utils.char_byte_index Utils.char_pop_front Utils.common_prefix_len Utils.encode_utf8 Utils.trim_start
  Editor.ed_new Editor.ed_len Editor.ed_clear Editor.ed_insert Editor.ed_move_left Editor.ed_move_right Editor.ed_remove
  Editor.ed_text_from Editor.ed_autocompletion Editor.ac_merge
  Token.tokens_new Token.tokens_iter Token.join0
  Args.args_of Args.ai_next Args.ai_new Args.ai_into_args Args.from_tokens Args.help_request
  History.hist_new History.hist_push History.hist_older History.hist_newer
  Cli.cli_init Cli.raw_cmdset Cli.api_build Cli.api_process_byte Cli.api_write Cli.api_set_prompt
  Handler.handler_raw Handler.prompt_of Handler.PROMPTS Handler.lit_of Handler.raw_cmdset_rejecting Writer.title_hops Writer.list_element_hops Cli.set_sk
  QuoteSpec.tokens_fun QuoteSpec.render_quoted Framing.frame_write Framing.frame_enter Framing.hops_bytes
  Terminal.tinit Terminal.tfeed Terminal.view_ok Terminal.visible
  IdealEditor.ideal_step IdealEditor.ideal0 IdealEditor.ibytes
  HistSpec.hs_push HistSpec.hs_older HistSpec.hs_newer HistSpec.hspec0
  ArgSpec.classify_all ArgSpec.chars_of CompletionSpec.complete_spec
  Derive.cmdset_of Derive.parse_set Derive.conv
  Session.astate0 Session.astep Input.accept Doc.doc_help.
