(* Extraction of the executable model and specs to OCaml (ExtrOcamlBasic only: bool, option, unit, list, prod,
   sumbool, sumor map to OCaml natives; N, positive, nat stay the extracted datatypes). *)
From Coq Require Extraction ExtrOcamlBasic.
From EC Require Import Base Model.Utf8 Model.Input Spec.Utf8Spec Spec.KeyUnits.
Extraction Language OCaml.
Extraction "model.ml" Utf8.run Input.runa Input.ig0 Utf8.acc0 Utf8Spec.validb Utf8Spec.wf_charb
  KeyUnits.bytes_of KeyUnits.events_of KeyUnits.wf_unitb KeyUnits.greedyb.
