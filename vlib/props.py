"""Per-property checks: which theorems, which families of cases, which oracles."""
import os
from . import core, gen
from .core import Family, Check, Broken

TB_COMMON = [
    "Coq 8.16.1 kernel (coqc; coqchk in the thorough tier); vm_compute used for closed examples only; no native_compute",
    "axioms: none (Print Assumptions reports 'Closed under the global context' under every theorem of the property file)",
    "hand-written Gallina model of the Rust functions named in DESIGN.md section 4 (modelled, not verified: all Rust source)",
    "translator gen/translate_codes.py (constants of codes.rs, input.rs, cli.rs, help.rs, builder.rs -> coq/Generated/Codes.v, regenerated every run)",
    "extraction: ExtrOcamlBasic only (Extract Inductive bool, option, unit, list, prod, sumbool, sumor; Extract Inlined Constant andb, orb, negb, fst, snd); no Extract Constant of our own; OCaml 4.13.1; ocaml/driver.ml parsing/printing",
    "correspondence check: harness/ (Rust, path dependency on /repo, feature verif-hooks), sink accepts whole slices; agreement is established on the inputs run only",
]


def c04(ck):
    rng = ck.rng
    thorough = ck.tier == "thorough"
    drv = core.build_driver()
    # 1. decisive family: generated well-formed greedy unit lists; expected events come from the extracted spec
    corpus = [l.strip() for l in open(os.path.join(core.ROOT, "corpus", "C04", "units.txt")) if l.strip() and not l.startswith("#")]
    n = 20000 if thorough else 3000
    unit_lines = corpus + [gen.rand_units(rng, 6 if i % 3 else 60) for i in range(n)]
    spec = core.run_engine(drv, "decu", unit_lines, is_impl=False)
    cases, expect, kinds = [], {}, {}
    rejected = 0
    for ul, so in zip(unit_lines, spec):
        if so == "REJECT":
            rejected += 1
            continue
        b, ev = so.split(" ", 1)
        cases.append(b)
        expect[b] = ev
        for u in ul.split(" "):
            k = u[:3] if u[:3] in ("csi", "ign", "tcr", "tlf", "tab") else (u if u == "bs" else "chr%d" % (len(u) // 2))
            kinds[k] = kinds.get(k, 0) + 1
    ck.cov["unit_kinds"] = kinds
    ck.cov["unit_lists_rejected_by_greedyb"] = rejected

    def oracle(case, io):
        if io != expect[case]:
            return "C04 spec (flat_map events_of units) expects [%s], implementation decoded [%s]" % (expect[case], io)
        return None

    ck.run_family(Family("units-spec", "dec", cases, oracle=oracle, decisive=True, shrink=None,
                         nontrivial=lambda c, o: "EN" in o or "UP" in o or len(c) > 8))
    # 2. exhaustive over 26 byte classes: model vs implementation on arbitrary (also malformed) streams
    depth = 4 if thorough else 3
    ex = list(gen.product_hex(gen.DEC_CLASSES, depth))
    ck.run_family(Family("bytes-exhaustive-depth%d" % depth, "dec", ex, decisive=False, shrink=core.shrink_hex_line, exhaustive=True,
                         nontrivial=lambda c, o: o != "-"))
    # 3. random raw byte streams (malformed weighted)
    m = 20000 if thorough else 3000
    rb = [gen.hx(gen.rand_bytes_malformed(rng, 40)) for _ in range(m)]
    ck.run_family(Family("bytes-random", "dec", rb, decisive=False, shrink=core.shrink_hex_line, nontrivial=lambda c, o: o != "-"))
    return ck.finish(
        trusted=TB_COMMON,
        rule="units-spec: random lists of key units accepted by the extracted wf_unitb/greedyb, bytes = flat_map bytes_of, implementation "
             "events compared with flat_map events_of (direct oracle); bytes-exhaustive: every stream of <= depth bytes over 26 boundary byte "
             "classes, implementation vs extracted model; bytes-random: malformed-weighted raw streams. non-trivial = produces at least one event",
        extra_assumptions=["decoder driven through the verif_hooks re-export of InputGenerator"])


def py_valid(hexs):
    if hexs == ".":
        return True
    try:
        bytes.fromhex(hexs).decode("utf-8", "strict")
        return True
    except UnicodeDecodeError:
        return False


U8_CLASSES = [0x00, 0x41, 0x7F, 0x80, 0x8F, 0x90, 0x9F, 0xA0, 0xBF, 0xC0, 0xC1, 0xC2, 0xDF, 0xE0, 0xE1, 0xEC, 0xED, 0xEE, 0xEF,
              0xF0, 0xF1, 0xF3, 0xF4, 0xF5, 0xF7, 0xF8, 0xFB, 0xFC, 0xFE, 0xFF]


def c02(ck):
    import time
    rng = ck.rng
    thorough = ck.tier == "thorough"

    def oracle_u8(case, io):
        if io == "-":
            return None
        for t in io.split(" "):
            if not py_valid(t) or len(bytes.fromhex(t).decode("utf-8", "replace")) != 1:
                return "accumulator handed out %s, which is not one well-formed UTF-8 scalar (input bytes %s)" % (t, case)
        return None

    # 1. accumulator: exhaustive over 30 boundary bytes, model vs implementation + validity oracle
    depth = 4 if thorough else 3
    ex = list(gen.product_hex(U8_CLASSES, depth))
    ck.run_family(Family("u8-exhaustive-depth%d" % depth, "u8", ex, oracle=oracle_u8, decisive=False, shrink=core.shrink_hex_line,
                         exhaustive=True, nontrivial=lambda c, o: o != "-"))
    # 2. resynchronisation: garbage ++ well-formed char must give output(garbage) ++ [char]
    n = 20000 if thorough else 4000
    garb = [gen.rand_bytes_malformed(rng, 6) for _ in range(n)]
    chars = [gen.rand_char(rng, 2) for _ in range(n)]
    try:
        hb = ck.binaries("hac", "debug")
        t = time.time()
        o1 = core.run_engine(hb, "u8", [gen.hx(g) for g in garb])
        o2 = core.run_engine(hb, "u8", [gen.hx(g + c) for g, c in zip(garb, chars)])
        bad = 0
        for g, c, a, b in zip(garb, chars, o1, o2):
            exp = (a + " " + gen.hx(c)) if a != "-" else gen.hx(c)
            if b != exp and bad < 3:
                bad += 1
                ck.report("u8-resync", "oracle", "after garbage %s the well-formed character %s must come out: expected [%s], got [%s]" % (
                    gen.hx(g), gen.hx(c), exp, b), {"case": gen.hx(g + c), "engine": "u8", "implementation_output": b})
        ck.count("u8-resync", n, len(set(zip(garb, chars))), seconds=time.time() - t, sample=gen.hx(garb[0] + chars[0]))
        # 3. implementation alone against core::str::from_utf8: all sequences of <= d bytes >= 0x80
        d = 4 if thorough else 3
        t = time.time()
        outs = core.run_engine(hb if not thorough else ck.binaries("hac", "release"), "u8x", ["%d %d 16" % (d, i) for i in range(16)])
        tot = 0
        for o in outs:
            m = dict(kv.split("=") for kv in o.split(" ")) if o.startswith("checked") else None
            if m is None:
                ck.report("u8x-all-high-bytes", "crash", "enumeration crashed: " + o, {"case": "u8x %d" % d})
                continue
            tot += int(m["checked"])
            if m["bad"] != "-":
                first = m["bad"].split(",")[0]
                ck.report("u8x-all-high-bytes", "oracle", "bytes %s (then c3 a9): accumulator output rejected by core::str::from_utf8 or the following "
                          "well-formed character was lost" % first, {"case": first + "c3a9", "engine": "u8"})
        ck.count("u8x-all-high-bytes", tot, tot, exhaustive=True, seconds=time.time() - t, sample="all byte strings of length 1..%d over 0x80..0xFF, each followed by c3 a9" % d)
    except Broken as b:
        ck.broken(b)
    # 4. decoder level: character events of arbitrary streams
    def oracle_dec(case, io):
        for t in io.split(" "):
            if t.startswith("c:") and not py_valid(t[2:]):
                return "decoder produced the character event %s which is not well-formed UTF-8 (input %s)" % (t, case)
        return None
    m = 20000 if thorough else 4000
    rb = [gen.hx(gen.rand_bytes_malformed(rng, 30)) for _ in range(m)]
    ck.run_family(Family("dec-random-malformed", "dec", rb, oracle=oracle_dec, decisive=False, shrink=core.shrink_hex_line,
                         nontrivial=lambda c, o: "c:" in o))
    return ck.finish(
        trusted=TB_COMMON + ["Python's strict UTF-8 decoder and Rust's core::str::from_utf8 as independent validity oracles"],
        rule="u8-exhaustive: every byte string of length <= depth over 30 boundary bytes through Utf8Accum (implementation vs model, every emitted string "
             "validated); u8-resync: random garbage followed by a random well-formed char; u8x: ALL strings over 0x80..0xFF up to the stated length, inside the "
             "harness, against core::str::from_utf8; dec-random: malformed-weighted streams through InputGenerator. non-trivial = emits at least one string")


PROPS = {"C04": c04, "C02": c02}
